(** C01 / C05, chunk layer: a column chunk is the finished pages in sequence.

      [read_page_spec]     a finalized page, wherever it lies in the file, is read back as the rows it was built from
      [CInv], [cw_write_batch_inv], [cw_finalize_inv]
                           the column writer's buffer is the concatenation of finalized non-empty pages whose rows,
                           followed by the rows still in the page writer, are all rows written; the chunk totals are
                           the sums over those pages (both with headers) - for every partition into calls and every
                           target page size
      [chunk_roundtrip]    reading page after page until num_values is used up returns all rows of the chunk

    Assumed (section hypotheses, named in the trusted base): the codec round trip, and that the page-header
    parser reads back what the header encoder wrote without looking past it (C13 for carquet's Thrift code). *)
From Coq Require Import NArith ZArith Arith List Bool Lia.
From Carquet Require Import Base.Res Base.Bits Gen.Enums_gen Enc.DeltaBits Util.Crc32Model Util.Crc32Proofs
  Stats.StatsBuilderModel Writer.TableSpec Writer.PageWriterModel Writer.ColumnWriterModel Writer.FileWriterModel
  Reader.PageDecodeModel Reader.ReadAllModel Writer.WriterProofs.
Import ListNotations.
Local Open Scope N_scope.

(** what the reader keeps of a page header the writer emitted *)
Definition core_of (h : page_hdr) : hdr_core :=
  mkhc E_CARQUET_PAGE_DATA (h_uncompressed h) (h_compressed h) (Some (h_crc h)) (h_num_values h)
       E_CARQUET_ENCODING_PLAIN E_CARQUET_ENCODING_RLE.

(** the page headers the writer emits within the int32 fields of the format: what the header encoder and parser
    have to agree on *)
Definition stats_rec_ok (o : option pstats) : Prop :=
  match o with
  | None => True
  | Some s => (0 <= ps_null_count s < 2 ^ 31)%Z /\
              exists mn mx, ps_min_value s = Some mn /\ ps_max_value s = Some mx /\ small_val mn /\ small_val mx
  end.

Definition hdr_ok (h : page_hdr) : Prop :=
  h_uncompressed h < 2 ^ 31 /\ h_compressed h < 2 ^ 31 /\ h_crc h < 2 ^ 32 /\ h_num_values h < 2 ^ 31 /\
  stats_rec_ok (h_stats h).

Lemma crc32_lt bs : is_bytes bs -> crc32 bs < 2 ^ 32.
Proof.
  intros Hb. unfold crc32, crc32_update.
  destruct (slice8_spec bs (not32 0) ltac:(rewrite not32_ones; exact ones32_lt) Hb) as [_ L].
  unfold not32 at 1. apply lxor_lt_pow2; [exact L|reflexivity].
Qed.

Section Chunk.
  Variable codec : Z.
  Variable compress : list N -> list N.
  Variable decompress : list N -> N -> res (list N).
  Variable header : page_hdr -> list N.
  Variable parse_header : list N -> res (hdr_core * N).
  Variable verify : bool.

  Hypothesis codec_uncompressed : Z.eqb codec E_CARQUET_COMPRESSION_UNCOMPRESSED = true -> forall b, compress b = b.
  Hypothesis codec_roundtrip : Z.eqb codec E_CARQUET_COMPRESSION_UNCOMPRESSED = false ->
    forall b, is_bytes b -> len b < 2 ^ 31 -> decompress (compress b) (len b) = Ok b.
  Hypothesis compress_bytes : forall b, is_bytes b -> len b < 2 ^ 31 -> is_bytes (compress b).
  Hypothesis header_roundtrip : forall h rest, hdr_ok h ->
    parse_header (header h ++ rest) = Ok (core_of h, len (header h)).
  Hypothesis header_small : forall h, hdr_ok h -> len (header h) <= 256.
  Hypothesis header_nonempty : forall h, hdr_ok h -> 0 < len (header h).

  Notation finalize := (finalize compress header).
  Notation read_page := (read_page codec decompress parse_header verify).
  Notation read_chunk := (read_chunk codec decompress parse_header verify).

  Definition page_bytes (p : pw) : list N := fst (fst (finalize p)).

  Lemma page_bytes_eq p : page_bytes p = header (page_header_of compress p) ++ compress (page_body p).
  Proof. reflexivity. Qed.

  (** a page the column writer may flush: built from non-empty rows, sizes within the int32 fields *)
  Definition good_page (c : column) (p : pw) (rows : list row) : Prop :=
    PInv c p rows /\ rows <> [] /\ len rows < 2 ^ 31 /\ len (page_body p) < 2 ^ 31 /\
    len (compress (page_body p)) < 2 ^ 31.

  Lemma good_page_hdr c p rows : good_page c p rows -> hdr_ok (page_header_of compress p).
  Proof.
    intros (I & Hne & Hn & Hsz & Hcz). unfold hdr_ok, page_header_of.
    cbn [h_uncompressed h_compressed h_crc h_num_values h_stats].
    split; [exact Hsz|]. split; [exact Hcz|].
    split; [apply crc32_lt, compress_bytes; [apply (page_body_bytes c p rows I Hn)|exact Hsz]|].
    split; [rewrite (pi_num c p rows I); exact Hn|].
    destruct (pi_stats c p rows I) as [_ _ _ Nl Smin Smax]. unfold pw_statistics.
    destruct (pw_has_min_max (p_stats p)); [|exact Logic.I]. cbn [stats_rec_ok ps_null_count ps_min_value ps_max_value].
    split; [|eauto 6]. unfold len in Hn, Nl. unfold row in Hn, Nl. change (2 ^ 31)%Z with 2147483648%Z. change (2 ^ 31) with 2147483648 in Hn. lia.
  Qed.

  Lemma skipn_len_app {A} (a b : list A) : skipn (N.to_nat (len a)) (a ++ b) = b.
  Proof. unfold len. rewrite Nat2N.id, skipn_app, Nat.sub_diag, skipn_O, skipn_all. reflexivity. Qed.

  Lemma firstn_len_app {A} (a b : list A) : firstn (N.to_nat (len a)) (a ++ b) = a.
  Proof. unfold len. rewrite Nat2N.id, firstn_app, Nat.sub_diag, firstn_O, app_nil_r, firstn_all. reflexivity. Qed.

  (** one page, anywhere in the file *)
  Lemma read_page_spec c p rows pre post : column_ok c = true -> good_page c p rows ->
    read_page c (pre ++ page_bytes p ++ post) (len pre) = Ok (rows, len rows, len (page_bytes p)).
  Proof.
    intros Hc G. pose proof (good_page_hdr c p rows G) as Hok. destruct G as (I & Hne & Hn & Hsz & Hcz).
    unfold ReadAllModel.read_page.
    set (h := page_header_of compress p) in *. set (comp := compress (page_body p)).
    rewrite page_bytes_eq. fold h comp.
    assert (Hpos : 0 < len (header h)) by (apply header_nonempty, Hok).
    assert (E0 : (len (pre ++ (header h ++ comp) ++ post) <=? len pre) = false).
    { apply N.leb_gt. rewrite !len_app'. lia. }
    rewrite E0, skipn_len_app, <- app_assoc.
    assert (W : firstn 256 (header h ++ comp ++ post)
                = header h ++ firstn (256 - length (header h)) (comp ++ post)).
    { rewrite firstn_app. f_equal. apply firstn_all2. pose proof (header_small h Hok) as S. unfold len in S. lia. }
    rewrite W, header_roundtrip by exact Hok. cbn [core_of hc_type hc_compressed hc_crc hc_uncompressed hc_num_values
                                      hc_encoding hc_def_encoding].
    rewrite Z.eqb_refl. cbn [negb].
    assert (Hc2 : h_compressed h = len comp) by reflexivity.
    assert (Hu : h_uncompressed h = len (page_body p)) by reflexivity.
    assert (Hcrc : h_crc h = crc32 comp) by reflexivity.
    assert (Hnv : h_num_values h = p_num_values p) by reflexivity.
    rewrite Hc2, Hu, Hcrc, Hnv.
    assert (E1 : (len (header h ++ comp ++ post) - len (header h) <? len comp) = false).
    { apply N.ltb_ge. rewrite !len_app'. lia. }
    rewrite E1, skipn_len_app, firstn_len_app, N.eqb_refl. cbn [negb]. rewrite andb_false_r.
    assert (D : (if Z.eqb codec E_CARQUET_COMPRESSION_UNCOMPRESSED then Ok comp
                 else decompress comp (len (page_body p))) = Ok (page_body p)).
    { destruct (Z.eqb codec E_CARQUET_COMPRESSION_UNCOMPRESSED) eqn:U.
      - unfold comp. rewrite (codec_uncompressed eq_refl). reflexivity.
      - unfold comp. apply (codec_roundtrip eq_refl); [apply (page_body_bytes c p rows I Hn)|exact Hsz]. }
    rewrite D. rewrite Z.eqb_refl. cbn [negb]. rewrite andb_false_r.
    destruct (page_body_roundtrip c p rows Hc I Hne Hn Hsz) as (defs & vals & E & R).
    rewrite E, R. rewrite (pi_num c p rows I). rewrite len_app'. reflexivity.
  Qed.

  (** pages in sequence *)
  Definition chunk_bytes (ps : list pw) : list N := flat_map page_bytes ps.

  Lemma page_bytes_nonempty c p rows : good_page c p rows -> 0 < len (page_bytes p).
  Proof.
    intros G. rewrite page_bytes_eq, len_app'.
    pose proof (header_nonempty (page_header_of compress p) (good_page_hdr c p rows G)). lia.
  Qed.

  Lemma read_chunk_pages c : column_ok c = true -> forall ps rss pre post fuel,
    Forall2 (good_page c) ps rss -> (length ps <= fuel)%nat ->
    read_chunk fuel c (pre ++ chunk_bytes ps ++ post) (len pre) (len (concat rss)) = Ok (concat rss).
  Proof.
    intros Hc. induction ps as [|p ps IH]; intros rss pre post fuel HF Hf.
    - inversion HF; subst. destruct fuel; reflexivity.
    - inversion HF as [|p' rows ps' rss' Hg HF']; subst.
      destruct fuel as [|f]; [cbn [length] in Hf; lia|].
      cbn [ReadAllModel.read_chunk concat].
      assert (Hrows : len rows <> 0).
      { destruct Hg as (_ & Hne & _). unfold len. destruct rows; [contradiction|cbn [length]; lia]. }
      assert (E0 : (len (rows ++ concat rss') =? 0) = false) by (apply N.eqb_neq; rewrite len_app'; lia).
      rewrite E0. change (chunk_bytes (p :: ps)) with (page_bytes p ++ chunk_bytes ps). rewrite <- app_assoc.
      rewrite (read_page_spec c p rows pre (chunk_bytes ps ++ post) Hc Hg).
      replace (len (rows ++ concat rss') - len rows) with (len (concat rss')) by (rewrite len_app'; lia).
      replace (len pre + len (page_bytes p)) with (len (pre ++ page_bytes p)) by apply len_app'.
      rewrite (app_assoc pre (page_bytes p)).
      rewrite (IH rss' (pre ++ page_bytes p) post f HF') by (cbn [length] in Hf; lia).
      reflexivity.
  Qed.

  (* ---------------------------------------------------------------- the column writer *)

  Definition sumN (l : list N) : N := fold_right N.add 0 l.

  (** the column writer after some calls: finished pages [ps] (with their rows [rss]) and the rows [pend] still
      in the page writer *)
  Record CInv (c : column) (w : cw) (ps : list pw) (rss : list (list row)) (pend : list row) : Prop := mkCInv {
    ci_pages : Forall2 (fun p rows => PInv c p rows /\ rows <> []) ps rss;
    ci_page : PInv c (w_page w) pend;
    ci_buf : w_buf w = chunk_bytes ps;
    ci_values : w_total_values w = len (concat rss) + len pend;
    ci_comp : w_total_compressed w = sumN (map (fun p => len (page_bytes p)) ps);
    ci_uncomp : w_total_uncompressed w
                = sumN (map (fun p => len (header (page_header_of compress p)) + len (page_body p)) ps);
    ci_npages : w_num_pages w = len ps
  }.

  Lemma cinv_init c page_size : CInv c (cw_init c page_size) [] [] [].
  Proof. constructor; try reflexivity; [constructor|apply pinv_init]. Qed.

  Lemma sumN_app a b : sumN (a ++ b) = sumN a + sumN b.
  Proof. induction a as [|x a IH]; [reflexivity|]. cbn [app sumN fold_right] in *. fold (sumN (a ++ b)) (sumN a). lia. Qed.

  Lemma chunk_bytes_app a b : chunk_bytes (a ++ b) = chunk_bytes a ++ chunk_bytes b.
  Proof. apply flat_map_app. Qed.

  Lemma concat_snoc {A} (l : list (list A)) x : concat (l ++ [x]) = concat l ++ x.
  Proof. rewrite concat_app. cbn [concat]. rewrite app_nil_r. reflexivity. Qed.

  (** flush_current_page *)
  Lemma flush_page_inv c w ps rss pend : CInv c w ps rss pend ->
    (pend = [] /\ flush_page compress header w = w) \/
    (pend <> [] /\ CInv c (flush_page compress header w) (ps ++ [w_page w]) (rss ++ [pend]) []).
  Proof.
    intros [Hp Hpg Hb Hv Hc Hu Hn]. unfold flush_page. rewrite (pi_num c _ _ Hpg).
    destruct pend as [|r pend'].
    - left. split; reflexivity.
    - right. split; [discriminate|].
      assert (E : (len (r :: pend') =? 0) = false) by (apply N.eqb_neq; unfold len; cbn [length]; lia).
      rewrite E. unfold PageWriterModel.finalize. cbn iota.
      constructor; cbn [w_page w_buf w_total_values w_total_compressed w_total_uncompressed w_num_pages].
      + apply Forall2_app; [exact Hp|]. constructor; [|constructor]. split; [exact Hpg|discriminate].
      + rewrite (pi_col c _ _ Hpg). apply pinv_init.
      + rewrite Hb, chunk_bytes_app. cbn [chunk_bytes flat_map]. rewrite app_nil_r. reflexivity.
      + rewrite Hv, concat_snoc, len_app'. cbn [len length N.of_nat]. lia.
      + rewrite Hc, map_app, sumN_app. cbn [map sumN fold_right]. rewrite page_bytes_eq. lia.
      + rewrite Hu, map_app, sumN_app. cbn [map sumN fold_right]. rewrite !len_app'. lia.
      + rewrite Hn, len_app'. reflexivity.
  Qed.

  (** carquet_column_writer_write_batch: any consistent call, any target page size *)
  Theorem cw_write_batch_inv c w ps rss pend b : CInv c w ps rss pend -> batch_ok c b = true ->
    exists w' ps' rss' pend', cw_write_batch compress header w b = Ok w' /\ CInv c w' ps' rss' pend'
      /\ concat rss' ++ pend' = concat rss ++ pend ++ rows_of_batch c b.
  Proof.
    intros I Hb. destruct I as [Hp Hpg Hbuf Hv Hc Hu Hn].
    destruct (add_values_inv c (w_page w) pend b Hpg Hb) as (p' & E & I').
    unfold cw_write_batch. rewrite E.
    set (w1 := mkcw p' (w_buf w) (w_target w) (w_total_values w + N.of_nat (b_nrows b))
                    (w_total_uncompressed w) (w_total_compressed w) (w_num_pages w)).
    assert (I1 : CInv c w1 ps rss (pend ++ rows_of_batch c b)).
    { constructor; cbn [w1 w_page w_buf w_total_values w_total_compressed w_total_uncompressed w_num_pages];
        try assumption.
      rewrite Hv, len_app'. pose proof (pi_num c _ _ I') as N1. pose proof (pi_num c _ _ Hpg) as N0.
      assert (L : len (rows_of_batch c b) = N.of_nat (b_nrows b)) by (unfold len; rewrite rows_of_batch_length by exact Hb; reflexivity).
      rewrite L. lia. }
    destruct (w_target w <=? estimated_size p').
    - destruct (flush_page_inv c w1 ps rss _ I1) as [[Hnil Hsame]|[Hne I2]].
      + exists w1, ps, rss, (pend ++ rows_of_batch c b). rewrite Hsame. split; [reflexivity|]. split; [exact I1|].
        reflexivity.
      + eexists _, _, _, []. split; [reflexivity|]. split; [exact I2|].
        rewrite concat_snoc, app_nil_r. reflexivity.
    - exists w1, ps, rss, (pend ++ rows_of_batch c b). split; [reflexivity|]. split; [exact I1|]. reflexivity.
  Qed.

  (** a whole sequence of calls on one column writer *)
  Fixpoint cw_write_all (w : cw) (bs : list batch) : res cw :=
    match bs with
    | [] => Ok w
    | b :: t => match cw_write_batch compress header w b with
                | Ok w' => cw_write_all w' t
                | Err e => Err e
                | Fault f => Fault f
                end
    end.

  Theorem cw_write_all_inv c : forall bs w ps rss pend, CInv c w ps rss pend -> forallb (batch_ok c) bs = true ->
    exists w' ps' rss' pend', cw_write_all w bs = Ok w' /\ CInv c w' ps' rss' pend'
      /\ concat rss' ++ pend' = concat rss ++ pend ++ rows_of c bs.
  Proof.
    induction bs as [|b bs IH]; intros w ps rss pend I H.
    - exists w, ps, rss, pend. cbn [cw_write_all rows_of flat_map]. rewrite app_nil_r. auto.
    - cbn [forallb] in H. apply andb_prop in H. destruct H as [Hb Hbs].
      destruct (cw_write_batch_inv c w ps rss pend b I Hb) as (w1 & ps1 & rss1 & pend1 & E1 & I1 & R1).
      destruct (IH w1 ps1 rss1 pend1 I1 Hbs) as (w2 & ps2 & rss2 & pend2 & E2 & I2 & R2).
      exists w2, ps2, rss2, pend2. cbn [cw_write_all]. rewrite E1. split; [exact E2|]. split; [exact I2|].
      rewrite R2, app_assoc, R1. cbn [rows_of flat_map]. rewrite <- !app_assoc. reflexivity.
  Qed.

  (** carquet_column_writer_finalize flushes what is left *)
  Lemma cw_finalize_inv c w ps rss pend : CInv c w ps rss pend ->
    exists ps' rss', CInv c (cw_finalize compress header w) ps' rss' [] /\ concat rss' = concat rss ++ pend.
  Proof.
    intros I. unfold cw_finalize. destruct (flush_page_inv c w ps rss pend I) as [[Hnil Hsame]|[Hne I2]].
    - exists ps, rss. rewrite Hsame. subst pend. rewrite app_nil_r. auto.
    - eexists _, _. split; [exact I2|]. apply concat_snoc.
  Qed.

  Lemma sumN_bound l B : sumN l < B -> Forall (fun x => x < B) l.
  Proof.
    induction l as [|x l IH]; intros H; [constructor|]. cbn [sumN fold_right] in H. fold (sumN l) in H.
    constructor; [lia|apply IH; lia].
  Qed.

  Lemma len_concat_ge {A} (rss : list (list A)) rows : In rows rss -> len rows <= len (concat rss).
  Proof.
    induction rss as [|r rss IH]; intros H; [contradiction|]. cbn [concat]. rewrite len_app'.
    destruct H as [->|H]; [lia|]. specialize (IH H). lia.
  Qed.

  Lemma chunk_bytes_sum ps : len (chunk_bytes ps) = sumN (map (fun p => len (page_bytes p)) ps).
  Proof.
    induction ps as [|p ps IH]; [reflexivity|]. cbn [chunk_bytes flat_map map sumN fold_right].
    fold (chunk_bytes ps) (sumN (map (fun p => len (page_bytes p)) ps)). rewrite len_app', IH. reflexivity.
  Qed.

  (** the pages of a finished chunk are readable pages as soon as the chunk's own totals fit the int32 fields *)
  Lemma good_pages c w ps rss pend : CInv c w ps rss pend ->
    w_total_values w < 2 ^ 31 -> w_total_uncompressed w < 2 ^ 31 -> w_total_compressed w < 2 ^ 31 ->
    Forall2 (good_page c) ps rss.
  Proof.
    intros [Hp _ _ Hv Hcm Hu _] Bv Bu Bc. rewrite Hu in Bu. apply sumN_bound in Bu. rewrite Forall_map in Bu.
    rewrite Hcm in Bc. apply sumN_bound in Bc. rewrite Forall_map in Bc.
    assert (Hr : forall rows, In rows rss -> len rows < 2 ^ 31).
    { intros rows Hin. pose proof (len_concat_ge rss rows Hin). lia. }
    clear Hv Hu Hcm. induction Hp as [|p rows ps' rss' [Hi Hne] Hp IH]; [constructor|].
    inversion Bu as [|? ? Bp Bps]; subst. inversion Bc as [|? ? Cp Cps]; subst. constructor.
    - split; [exact Hi|]. split; [exact Hne|]. split; [apply Hr; left; reflexivity|]. split; [lia|].
      rewrite page_bytes_eq, len_app' in Cp. lia.
    - apply IH; [exact Bps|exact Cps|]. intros r Hin. apply Hr. right. exact Hin.
  Qed.

  Lemma chunk_bytes_len c ps rss : Forall2 (good_page c) ps rss -> (length ps <= length (chunk_bytes ps))%nat.
  Proof.
    intros G. induction G as [|p rows ps rss Gp G IH]; [cbn; lia|]. cbn [chunk_bytes flat_map length]. rewrite app_length.
    pose proof (page_bytes_nonempty c p rows Gp) as P. unfold len in P. fold (chunk_bytes ps). lia.
  Qed.

  (** from the invariant: the finished chunk reads back as all rows the column writer has seen *)
  Theorem chunk_roundtrip_inv c w ps0 rss0 pend0 : column_ok c = true -> CInv c w ps0 rss0 pend0 ->
    let f := cw_finalize compress header w in
    w_total_values f < 2 ^ 31 -> w_total_uncompressed f < 2 ^ 31 -> len (w_buf f) < 2 ^ 31 ->
    p_col (w_page f) = c /\
    w_total_values f = len (concat rss0 ++ pend0) /\
    forall pre post fuel, (length (w_buf f) <= fuel)%nat ->
      read_chunk fuel c (pre ++ w_buf f ++ post) (len pre) (w_total_values f) = Ok (concat rss0 ++ pend0).
  Proof.
    intros Hc I0 f Bv Bu Bc.
    destruct (cw_finalize_inv c w ps0 rss0 pend0 I0) as (ps & rss & I & R). fold f in I.
    assert (Bc' : w_total_compressed f < 2 ^ 31).
    { rewrite (ci_comp _ _ _ _ _ I), <- chunk_bytes_sum, <- (ci_buf _ _ _ _ _ I). exact Bc. }
    pose proof (good_pages c f ps rss [] I Bv Bu Bc') as G.
    assert (Ev : w_total_values f = len (concat rss0 ++ pend0)).
    { rewrite (ci_values _ _ _ _ _ I), R. cbn [len length N.of_nat]. lia. }
    split; [exact (pi_col _ _ _ (ci_page _ _ _ _ _ I))|].
    split; [exact Ev|]. intros pre post fuel Hf.
    rewrite Ev, <- R, (ci_buf _ _ _ _ _ I).
    apply read_chunk_pages; [exact Hc|exact G|].
    rewrite (ci_buf _ _ _ _ _ I) in Hf. pose proof (chunk_bytes_len c ps rss G). lia.
  Qed.

  (** C01, chunk layer: whatever the partition of the column's rows into write_batch calls and whatever the
      target page size, reading the finished chunk page after page returns exactly the rows written *)
  Theorem chunk_roundtrip c page_size bs w : column_ok c = true -> forallb (batch_ok c) bs = true ->
    cw_write_all (cw_init c page_size) bs = Ok w ->
    let f := cw_finalize compress header w in
    w_total_values f < 2 ^ 31 -> w_total_uncompressed f < 2 ^ 31 -> len (w_buf f) < 2 ^ 31 ->
    w_total_values f = len (rows_of c bs) /\
    forall pre post fuel, (length (w_buf f) <= fuel)%nat ->
      read_chunk fuel c (pre ++ w_buf f ++ post) (len pre) (w_total_values f) = Ok (rows_of c bs).
  Proof.
    intros Hc Hb E f Bv Bu Bc.
    destruct (cw_write_all_inv c bs _ [] [] [] (cinv_init c page_size) Hb) as (w1 & ps1 & rss1 & pend1 & E1 & I1 & R1).
    rewrite E in E1. inversion E1; subst w1. cbn [concat app] in R1.
    destruct (chunk_roundtrip_inv c w ps1 rss1 pend1 Hc I1 Bv Bu Bc) as (_ & Ev & Rd).
    rewrite R1 in Ev, Rd. split; [exact Ev|exact Rd].
  Qed.
End Chunk.

(** The section hypotheses are satisfiable (the theorems are not vacuous): the identity codec and a toy page
    header of four cells read back by a toy parser. *)
Example chunk_hypotheses_satisfiable :
  let compress := fun b : list N => b in
  let decompress := fun (s : list N) (_ : N) => Ok s in
  let header := fun h : page_hdr => [h_uncompressed h; h_compressed h; h_crc h; h_num_values h] in
  let parse_header := fun bs : list N =>
    match bs with
    | a :: b :: c :: d :: _ => Ok (mkhc E_CARQUET_PAGE_DATA a b (Some c) d E_CARQUET_ENCODING_PLAIN E_CARQUET_ENCODING_RLE, 4)
    | _ => Err E_CARQUET_ERROR_INVALID_PAGE
    end in
  (forall b, compress b = b) /\
  (forall b, is_bytes b -> len b < 2 ^ 31 -> decompress (compress b) (len b) = Ok b) /\
  (forall b, is_bytes b -> len b < 2 ^ 31 -> is_bytes (compress b)) /\
  (forall h rest, hdr_ok h -> parse_header (header h ++ rest) = Ok (core_of h, len (header h))) /\
  (forall h, hdr_ok h -> len (header h) <= 256) /\ (forall h, hdr_ok h -> 0 < len (header h)).
Proof. cbv zeta. repeat split; intros; try reflexivity; try assumption; cbn; lia. Qed.
