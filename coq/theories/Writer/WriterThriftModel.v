(** The concrete Thrift encoders the writer model is instantiated with for the byte-exact tie:

      [thrift_page_header]   the PageHeader that carquet_page_writer_finalize emits field by field with the
                             thrift_write_* primitives (page_writer.c, "Build page header using Thrift")
      [footer_record]        the parquet_file_metadata_t that build_file_metadata / flush_row_group fill, as the
                             positional record of Thrift/ParquetMetaDesc.v
      [thrift_footer]        parquet_write_file_metadata on it (Thrift/ParquetMetaModel.write_file_metadata)
      [codec_compress]       compress_data: UNCOMPRESSED = copy, SNAPPY / LZ4 / LZ4_RAW = carquet's own compressors
                             (Comp/SnappyModel.compress, Comp/Lz4Model.compress with the concrete hash tables)

    Kept apart from the models the proofs are about so that the proofs do not depend on these files. *)
From Coq Require Import NArith ZArith List Bool.
From Carquet Require Import Base.Res Gen.Enums_gen Gen.Writer_gen Thrift.ThriftModel Thrift.ParquetMetaDesc Thrift.ParquetMetaModel
     Stats.Order Stats.StatsBuilderModel Comp.SnappyModel Comp.Lz4Model
     Writer.TableSpec Writer.PageWriterModel Writer.FileWriterModel.
Import ListNotations.

Definition T_I32 : N := 5%N.
Definition T_I64 : N := 6%N.
Definition T_BINARY : N := 8%N.
Definition T_STRUCT : N := 12%N.

Definition seq_w (steps : list (encoder -> res encoder)) (e : encoder) : res encoder :=
  fold_left (fun r f => match r with Ok e' => f e' | Err c => Err c | Fault x => Fault x end) steps (Ok e).

Definition blen (o : option (list N)) : Z := match o with Some b => Z.of_nat (length b) | None => 0%Z end.

Definition thrift_page_header (h : page_hdr) : list N :=
  let stats :=
    match h_stats h with
    | Some s =>
      [ write_field_header T_STRUCT 5; write_struct_begin;
        write_field_header T_I64 3; write_i64 (ps_null_count s);
        write_field_header T_BINARY 5; write_binary (ps_max_value s) (blen (ps_max_value s));
        write_field_header T_BINARY 6; write_binary (ps_min_value s) (blen (ps_min_value s));
        write_struct_end ]
    | None => []
    end in
  match seq_w
    ([ write_struct_begin;
       write_field_header T_I32 1; write_i32 E_CARQUET_PAGE_DATA;
       write_field_header T_I32 2; write_i32 (Z.of_N (h_uncompressed h));
       write_field_header T_I32 3; write_i32 (Z.of_N (h_compressed h));
       write_field_header T_I32 4; write_i32 (Z.of_N (h_crc h));
       write_field_header T_STRUCT 5; write_struct_begin;
       write_field_header T_I32 1; write_i32 (Z.of_N (h_num_values h));
       write_field_header T_I32 2; write_i32 E_CARQUET_ENCODING_PLAIN;
       write_field_header T_I32 3; write_i32 E_CARQUET_ENCODING_RLE;
       write_field_header T_I32 4; write_i32 E_CARQUET_ENCODING_RLE ]
     ++ stats ++ [ write_struct_end; write_struct_end ]) encoder_init with
  | Ok e => e_out e
  | _ => []
  end.

Definition type_code (t : TableSpec.ptype) : Z :=
  match t with
  | TableSpec.TBool => E_CARQUET_PHYSICAL_BOOLEAN | TableSpec.TInt32 => E_CARQUET_PHYSICAL_INT32
  | TableSpec.TInt64 => E_CARQUET_PHYSICAL_INT64 | TableSpec.TFloat => E_CARQUET_PHYSICAL_FLOAT
  | TableSpec.TDouble => E_CARQUET_PHYSICAL_DOUBLE | TableSpec.TByteArray => E_CARQUET_PHYSICAL_BYTE_ARRAY
  | TableSpec.TFlba => E_CARQUET_PHYSICAL_FIXED_LEN_BYTE_ARRAY
  end.
Definition rep_code (r : repetition) : Z :=
  match r with Required => E_CARQUET_REPETITION_REQUIRED | Optional => E_CARQUET_REPETITION_OPTIONAL end.

Definition I (n : N) : mval := MInt (Z.of_N n).

(** parquet_schema_element_t *)
Definition root_elem (ncols : nat) : mval :=
  MRec [ MInt 0; MInt 0; MInt 0; MInt 0; MInt 0; MBytes (Some Writer_ROOT_NAME) (* "schema" *);
         MInt (Z.of_nat ncols); MInt 0; MInt 0; MInt 0; MInt 0; MInt 0; MInt 0; MInt 0; MRec (zeros 7) ].
Definition leaf_elem (c : column) : mval :=
  MRec [ MInt 1; MInt (type_code (c_type c)); I (c_tlen c); MInt 1; MInt (rep_code (c_rep c));
         MBytes (Some (c_name c)); MInt 0; MInt 0; MInt 0; MInt 0; MInt 0; MInt 0; MInt 0; MInt 0; MRec (zeros 7) ].

(** parquet_column_chunk_t with its parquet_column_metadata_t *)
Definition chunk_rec (cm : chunk_meta) : mval :=
  let md := MRec [ MInt (type_code (c_type (cm_col cm)));
                   MArr [MInt E_CARQUET_ENCODING_PLAIN; MInt E_CARQUET_ENCODING_RLE];
                   MArr [MBytes (Some (c_name (cm_col cm)))];
                   MInt (cm_codec cm); I (cm_num_values cm); I (cm_total_uncompressed cm); I (cm_total_compressed cm);
                   MArr []; I (cm_file_offset cm); MInt 0; MInt 0; MInt 0; MInt 0; MInt 0;
                   MRec (s_init d_stats); MArr []; MInt 0; MInt 0; MInt 0; MInt 0 ] in
  MRec [ MBytes None; I (cm_file_offset cm); MInt 1; md; MInt 0; MInt 0; MInt 0; MInt 0; MInt 0; MInt 0; MInt 0; MInt 0 ].

Definition rg_rec (g : rg_meta) : mval :=
  MRec [ MArr (map chunk_rec (rg_chunks g)); I (rg_total_byte_size g); I (rg_num_rows g);
         MInt 1; I (rg_file_offset g); MInt 1; I (rg_total_compressed g); MInt 1; I (rg_ordinal g) ].

Definition footer_record (m : file_meta) : list mval :=
  [ I (fm_version m);
    MArr (root_elem (length (fm_schema m)) :: map leaf_elem (fm_schema m));
    I (fm_num_rows m);
    MArr (map rg_rec (fm_groups m));
    MArr [];
    MBytes (Some (fm_created_by m)) ].

Definition thrift_footer (m : file_meta) : list N :=
  match write_file_metadata (footer_record m) with Ok bs => bs | _ => [] end.

(** compress_data(codec, ...) for the codecs carquet implements itself; the others are outside the byte-exact tie *)
Definition codec_compress (codec : Z) (body : list N) : list N :=
  if Z.eqb codec E_CARQUET_COMPRESSION_SNAPPY then
    match SnappyModel.compress body with Ok o => o | _ => [] end
  else if Z.eqb codec E_CARQUET_COMPRESSION_LZ4 || Z.eqb codec E_CARQUET_COMPRESSION_LZ4_RAW then
    match Lz4Model.compress body (Lz4Model.compress_bound (N.of_nat (length body))) with Ok o => o | _ => [] end
  else body.

(** the whole writer on a history: statuses and the bytes of the file *)
Definition run_concrete (sch : list column) (o : options) (ops : list wop) : res (list Z * list N * bool) :=
  match run_writer (codec_compress (o_codec o)) thrift_page_header thrift_footer sch o ops with
  | Ok (sts, w, closed) => Ok (sts, f_out w, closed)
  | Err e => Err e
  | Fault f => Fault f
  end.
