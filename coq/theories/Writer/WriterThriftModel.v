(** The concrete Thrift encoders the writer model is instantiated with for the byte-exact tie:

      [thrift_page_header]   the PageHeader that carquet_page_writer_finalize emits field by field with the
                             thrift_write_* primitives (page_writer.c, "Build page header using Thrift")
      [footer_record]        the parquet_file_metadata_t that build_file_metadata / flush_row_group fill, as the
                             positional record of Thrift/ParquetMetaDesc.v
      [thrift_footer]        parquet_write_file_metadata on it (Thrift/ParquetMetaModel.write_file_metadata)
      [codec_compress]       compress_data: UNCOMPRESSED = copy, SNAPPY / LZ4 / LZ4_RAW = carquet's own compressors
                             (Comp/SnappyModel.compress, Comp/Lz4Model.compress with the concrete hash tables)

    Kept apart from the models the proofs are about so that the proofs do not depend on these files. *)
From Coq Require Import NArith ZArith List Bool.
From Carquet Require Import Base.Res Gen.Enums_gen Gen.Writer_gen Thrift.ThriftModel Thrift.ParquetMetaDesc Thrift.ParquetMetaModel
     Stats.Order Stats.StatsBuilderModel Comp.SnappyModel Comp.Lz4Model
     Writer.TableSpec Writer.PageWriterModel Writer.FileWriterModel Reader.ReadAllModel.
Import ListNotations.

Definition T_I32 : N := 5%N.
Definition T_I64 : N := 6%N.
Definition T_BINARY : N := 8%N.
Definition T_STRUCT : N := 12%N.

Definition seq_w (steps : list (encoder -> res encoder)) (e : encoder) : res encoder :=
  fold_left (fun r f => match r with Ok e' => f e' | Err c => Err c | Fault x => Fault x end) steps (Ok e).

Definition blen (o : option (list N)) : Z := match o with Some b => Z.of_nat (length b) | None => 0%Z end.

Definition thrift_page_header (h : page_hdr) : list N :=
  let stats :=
    match h_stats h with
    | Some s =>
      [ write_field_header T_STRUCT 5; write_struct_begin;
        write_field_header T_I64 3; write_i64 (ps_null_count s);
        write_field_header T_BINARY 5; write_binary (ps_max_value s) (blen (ps_max_value s));
        write_field_header T_BINARY 6; write_binary (ps_min_value s) (blen (ps_min_value s));
        write_struct_end ]
    | None => []
    end in
  match seq_w
    ([ write_struct_begin;
       write_field_header T_I32 1; write_i32 E_CARQUET_PAGE_DATA;
       write_field_header T_I32 2; write_i32 (Z.of_N (h_uncompressed h));
       write_field_header T_I32 3; write_i32 (Z.of_N (h_compressed h));
       write_field_header T_I32 4; write_i32 (Z.of_N (h_crc h));
       write_field_header T_STRUCT 5; write_struct_begin;
       write_field_header T_I32 1; write_i32 (Z.of_N (h_num_values h));
       write_field_header T_I32 2; write_i32 E_CARQUET_ENCODING_PLAIN;
       write_field_header T_I32 3; write_i32 E_CARQUET_ENCODING_RLE;
       write_field_header T_I32 4; write_i32 E_CARQUET_ENCODING_RLE ]
     ++ stats ++ [ write_struct_end; write_struct_end ]) encoder_init with
  | Ok e => e_out e
  | _ => []
  end.

Definition type_code (t : TableSpec.ptype) : Z :=
  match t with
  | TableSpec.TBool => E_CARQUET_PHYSICAL_BOOLEAN | TableSpec.TInt32 => E_CARQUET_PHYSICAL_INT32
  | TableSpec.TInt64 => E_CARQUET_PHYSICAL_INT64 | TableSpec.TFloat => E_CARQUET_PHYSICAL_FLOAT
  | TableSpec.TDouble => E_CARQUET_PHYSICAL_DOUBLE | TableSpec.TByteArray => E_CARQUET_PHYSICAL_BYTE_ARRAY
  | TableSpec.TFlba => E_CARQUET_PHYSICAL_FIXED_LEN_BYTE_ARRAY
  end.
Definition rep_code (r : repetition) : Z :=
  match r with Required => E_CARQUET_REPETITION_REQUIRED | Optional => E_CARQUET_REPETITION_OPTIONAL end.

Definition I (n : N) : mval := MInt (Z.of_N n).

(** parquet_schema_element_t *)
Definition root_elem (ncols : nat) : mval :=
  MRec [ MInt 0; MInt 0; MInt 0; MInt 0; MInt 0; MBytes (Some Writer_ROOT_NAME) (* "schema" *);
         MInt (Z.of_nat ncols); MInt 0; MInt 0; MInt 0; MInt 0; MInt 0; MInt 0; MInt 0; MRec (zeros 7) ].
Definition leaf_elem (c : column) : mval :=
  MRec [ MInt 1; MInt (type_code (c_type c)); I (c_tlen c); MInt 1; MInt (rep_code (c_rep c));
         MBytes (Some (c_name c)); MInt 0; MInt 0; MInt 0; MInt 0; MInt 0; MInt 0; MInt 0; MInt 0; MRec (zeros 7) ].

(** parquet_column_chunk_t with its parquet_column_metadata_t *)
Definition chunk_rec (cm : chunk_meta) : mval :=
  let md := MRec [ MInt (type_code (c_type (cm_col cm)));
                   MArr [MInt E_CARQUET_ENCODING_PLAIN; MInt E_CARQUET_ENCODING_RLE];
                   MArr [MBytes (Some (c_name (cm_col cm)))];
                   MInt (cm_codec cm); I (cm_num_values cm); I (cm_total_uncompressed cm); I (cm_total_compressed cm);
                   MArr []; I (cm_file_offset cm); MInt 0; MInt 0; MInt 0; MInt 0; MInt 0;
                   MRec (s_init d_stats); MArr []; MInt 0; MInt 0; MInt 0; MInt 0 ] in
  MRec [ MBytes None; I (cm_file_offset cm); MInt 1; md; MInt 0; MInt 0; MInt 0; MInt 0; MInt 0; MInt 0; MInt 0; MInt 0 ].

Definition rg_rec (g : rg_meta) : mval :=
  MRec [ MArr (map chunk_rec (rg_chunks g)); I (rg_total_byte_size g); I (rg_num_rows g);
         MInt 1; I (rg_file_offset g); MInt 1; I (rg_total_compressed g);
         MInt (match rg_ordinal g with Some _ => 1 | None => 0 end)%Z; I (match rg_ordinal g with Some n => n | None => 0%N end) ].

Definition footer_record (m : file_meta) : list mval :=
  [ I (fm_version m);
    MArr (root_elem (length (fm_schema m)) :: map leaf_elem (fm_schema m));
    I (fm_num_rows m);
    MArr (map rg_rec (fm_groups m));
    MArr [];
    MBytes (Some (fm_created_by m)) ].

Definition thrift_footer (m : file_meta) : list N :=
  match write_file_metadata (footer_record m) with Ok bs => bs | _ => [] end.

(** compress_data(codec, ...) for the codecs carquet implements itself; the others are outside the byte-exact tie *)
Definition codec_compress (codec : Z) (body : list N) : list N :=
  if Z.eqb codec E_CARQUET_COMPRESSION_SNAPPY then
    match SnappyModel.compress body with Ok o => o | _ => [] end
  else if Z.eqb codec E_CARQUET_COMPRESSION_LZ4 || Z.eqb codec E_CARQUET_COMPRESSION_LZ4_RAW then
    match Lz4Model.compress body (Lz4Model.compress_bound (N.of_nat (length body))) with Ok o => o | _ => [] end
  else body.

(** the whole writer on a history: statuses and the bytes of the file *)
Definition run_concrete (sch : list column) (o : options) (ops : list wop) : res (list Z * list N * bool) :=
  match run_writer (codec_compress (o_codec o)) thrift_page_header thrift_footer sch o ops with
  | Ok (sts, w, closed) => Ok (sts, f_out w, closed)
  | Err e => Err e
  | Fault f => Fault f
  end.

(* ------------------------------------------------------------------------------------------ *)
(** * The concrete parsers the reader model is instantiated with (tie of the reader half) *)

Definition slot_int (r : list mval) (i : nat) : Z := match nth_error r i with Some (MInt z) => z | _ => 0%Z end.
Definition slot_bytes (r : list mval) (i : nat) : list N := match nth_error r i with Some (MBytes (Some b)) => b | _ => [] end.
Definition slot_arr (r : list mval) (i : nat) : list mval := match nth_error r i with Some (MArr l) => l | _ => [] end.
Definition slot_rec (r : list mval) (i : nat) : list mval := match nth_error r i with Some (MRec l) => l | _ => [] end.
Definition as_rec (v : mval) : list mval := match v with MRec l => l | _ => [] end.

Definition u32_of (z : Z) : N := Z.to_N (z mod 4294967296).      (* (uint32_t)page_header.crc *)
Definition nat_N (z : Z) : N := Z.to_N z.

(** parquet_parse_page_header, reduced to what load_next_page uses *)
Definition concrete_parse_header (bs : list N) : res (hdr_core * N) :=
  match parse_page_header bs with
  | Ok (r, used) =>
      Ok (mkhc (slot_int r 0) (nat_N (slot_int r 1)) (nat_N (slot_int r 2))
               (if Z.eqb (slot_int r 3) 0 then None else Some (u32_of (slot_int r 4)))
               (nat_N (slot_int r 5)) (slot_int r 6) (slot_int r 7), used)
  | Err e => Err e
  | Fault f => Fault f
  end.

Definition ptype_of_code (z : Z) : TableSpec.ptype :=
  if Z.eqb z E_CARQUET_PHYSICAL_BOOLEAN then TableSpec.TBool
  else if Z.eqb z E_CARQUET_PHYSICAL_INT32 then TableSpec.TInt32
  else if Z.eqb z E_CARQUET_PHYSICAL_INT64 then TableSpec.TInt64
  else if Z.eqb z E_CARQUET_PHYSICAL_FLOAT then TableSpec.TFloat
  else if Z.eqb z E_CARQUET_PHYSICAL_DOUBLE then TableSpec.TDouble
  else if Z.eqb z E_CARQUET_PHYSICAL_BYTE_ARRAY then TableSpec.TByteArray
  else TableSpec.TFlba.

Definition column_of_elem (e : list mval) : column :=
  mkcol (slot_bytes e 5) (ptype_of_code (slot_int e 1))
        (if Z.eqb (slot_int e 4) E_CARQUET_REPETITION_OPTIONAL then Optional else Required) (nat_N (slot_int e 2)).

(** parquet_parse_file_metadata + build_schema for flat files, reduced to [file_meta] *)
Definition concrete_parse_footer (bs : list N) : res file_meta :=
  match parse_file_metadata bs with
  | Ok (r, _) =>
      let sch := map (fun e => column_of_elem (as_rec e)) (tl (slot_arr r 1)) in
      let chunk := fun (cc : mval * column) =>
        let md := slot_rec (as_rec (fst cc)) 3 in
        mkcm (mkcol (match slot_arr md 2 with MBytes (Some n) :: _ => n | _ => [] end)
                    (ptype_of_code (slot_int md 0)) (c_rep (snd cc)) (c_tlen (snd cc)))
             (slot_int md 3) (nat_N (slot_int md 8)) (nat_N (slot_int md 4)) (nat_N (slot_int md 6)) (nat_N (slot_int md 5)) in
      let group := fun (g : mval) =>
        let gr := as_rec g in
        mkrg (map chunk (combine (slot_arr gr 0) sch)) (nat_N (slot_int gr 2)) (nat_N (slot_int gr 1))
             (nat_N (slot_int gr 4)) (nat_N (slot_int gr 6))
             (if Z.eqb (slot_int gr 7) 0 then None else Some (nat_N (slot_int gr 8))) in
      Ok (mkfm (nat_N (slot_int r 0)) sch (nat_N (slot_int r 2)) (map group (slot_arr r 3)) (slot_bytes r 5))
  | Err e => Err e
  | Fault f => Fault f
  end.

Definition codec_decompress (codec : Z) (s : list N) (cap : N) : res (list N) :=
  if Z.eqb codec E_CARQUET_COMPRESSION_SNAPPY then SnappyModel.decompress s cap
  else if Z.eqb codec E_CARQUET_COMPRESSION_LZ4 || Z.eqb codec E_CARQUET_COMPRESSION_LZ4_RAW
       then Lz4Model.decompress s cap
       else Ok s.

(** the reader model on the bytes of a file: codec from the first chunk (the writer uses one codec per file) *)
Definition read_concrete (verify : bool) (file : list N) : res read_result :=
  let codec_of := fun (m : file_meta) =>
    match fm_groups m with g :: _ => match rg_chunks g with cm :: _ => cm_codec cm | [] => 0%Z end | [] => 0%Z end in
  match FooterModel.open file_meta concrete_parse_footer FooterModel.Buffer file with
  | Ok m => read_all (codec_of m) (codec_decompress (codec_of m)) concrete_parse_header concrete_parse_footer verify file
  | Err e => Err e
  | Fault f => Fault f
  end.
