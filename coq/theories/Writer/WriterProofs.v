(** Proofs about the writer model against the reader model (C01, page layer):
      - the boolean bit accumulator of the repaired page writer equals the PLAIN boolean encoding of the
        concatenated batches ([append_booleans_spec]);
      - [add_values_inv]: every consistent write_batch call keeps the page writer's buffers equal to the
        encodings of the rows written so far, whatever the partition into calls;
      - [page_body_roundtrip]: decoding the finalized page body gives back exactly those rows.
    The level decoder round trip comes from Writer/LevelProofs.v. *)
From Coq Require Import NArith ZArith Arith List Bool Lia.
From Carquet Require Import Base.Res Base.Bits Enc.DeltaBits Enc.PlainModel Enc.PlainProofs
  Stats.StatsBuilderModel Writer.TableSpec Writer.PageWriterModel Reader.PageDecodeModel.
From Carquet Require Writer.LevelProofs Enc.RleModel.
Import ListNotations.
Local Open Scope N_scope.

(* ------------------------------------------------------------------ booleans across batches *)

Notation E := plain_encode_boolean.

Lemma enc_bools_fuel : forall f1 f2 (l : list N), (length l <= 8 * f1)%nat -> (length l <= 8 * f2)%nat ->
  enc_bools f1 l = enc_bools f2 l.
Proof.
  induction f1 as [|f1 IH]; intros f2 l H1 H2.
  - destruct l; [|cbn in H1; lia]. destruct f2; reflexivity.
  - destruct f2 as [|f2]; [destruct l; [reflexivity|cbn in H2; lia]|].
    cbn [enc_bools]. destruct l as [|x l]; [reflexivity|]. f_equal.
    apply IH; rewrite skipn_length; cbn [length] in *; lia.
Qed.

Lemma bools_byte_app : forall k (g x : list N), length g = k -> bools_byte k (g ++ x) = bools_byte k g.
Proof.
  induction k as [|k IH]; intros g x H.
  - destruct g; [|discriminate]. destruct x; reflexivity.
  - destruct g as [|v g]; [discriminate|]. cbn [app bools_byte]. rewrite IH by (cbn in H; lia). reflexivity.
Qed.

Lemma E_cons8 (g rest : list N) : length g = 8%nat -> E (g ++ rest) = bools_byte 8 g :: E rest.
Proof.
  intros Hg. unfold plain_encode_boolean.
  rewrite (enc_bools_fuel _ (S (length rest))) by (rewrite ?app_length; lia).
  destruct g as [|v g]; [discriminate|]. cbn [enc_bools app].
  change (v :: g ++ rest) with ((v :: g) ++ rest).
  rewrite bools_byte_app by exact Hg. f_equal.
  rewrite skipn_app, Hg, Nat.sub_diag, skipn_O, skipn_all2 by lia. reflexivity.
Qed.

(** a prefix that fills whole bytes is encoded on its own *)
Lemma E_app_aligned : forall k (a b : list N), length a = (8 * k)%nat -> E (a ++ b) = E a ++ E b.
Proof.
  induction k as [|k IH]; intros a b H.
  - destruct a; [reflexivity|discriminate].
  - assert (H8 : (8 <= length a)%nat) by lia.
    assert (Hg : length (firstn 8 a) = 8%nat) by (apply firstn_length_le; exact H8).
    assert (Hr : length (skipn 8 a) = (8 * k)%nat) by (rewrite skipn_length; lia).
    rewrite <- (firstn_skipn 8 a). generalize dependent (skipn 8 a). generalize dependent (firstn 8 a).
    intros g Hg r Hr. rewrite <- app_assoc.
    rewrite (E_cons8 g (r ++ b)), (E_cons8 g r) by exact Hg. rewrite IH by exact Hr. reflexivity.
Qed.

Lemma E_short (a : list N) : (1 <= length a <= 8)%nat -> E a = [bools_byte 8 a].
Proof.
  intros H. unfold plain_encode_boolean. destruct a as [|v a]; [cbn in H; lia|].
  cbn [length] in H. cbn [length enc_bools]. f_equal. rewrite skipn_all2 by (cbn [length]; lia).
  destruct (length a); reflexivity.
Qed.

Lemma bools_byte_snoc : forall k (l : list N) b, (length l < k)%nat ->
  bools_byte k (l ++ [b]) = bools_byte k l + truth b * 2 ^ len l.
Proof.
  induction k as [|k IH]; intros l b H; [lia|].
  destruct l as [|v l].
  - cbn [app bools_byte len length N.of_nat]. destruct k; cbn [bools_byte]; lia.
  - cbn [app bools_byte]. rewrite IH by (cbn in H; lia).
    unfold len. cbn [length]. rewrite Nat2N.inj_succ, N.pow_succ_r'. lia.
Qed.

Lemma bools_byte_lt : forall k (l : list N), bools_byte k l < 2 ^ len l.
Proof.
  induction k as [|k IH]; intros l.
  - destruct l; cbn [bools_byte]; apply N.neq_0_lt_0, N.pow_nonzero; discriminate.
  - destruct l as [|v l]; [cbn; lia|]. cbn [bools_byte]. unfold len. cbn [length].
    rewrite Nat2N.inj_succ, N.pow_succ_r'. pose proof (IH l) as B. unfold len in B.
    pose proof (truth_bit v). lia.
Qed.

Lemma or_last_snoc (x : list N) y m : or_last (x ++ [y]) m = x ++ [N.lor y m].
Proof.
  induction x as [|a x IH]; [reflexivity|]. cbn [app or_last]. rewrite IH.
  destruct (x ++ [y]) eqn:Ex; [destruct x; discriminate|reflexivity].
Qed.

Lemma land7_mod8 n : N.land n 7 = n mod 8.
Proof. change 7 with (N.ones 3). rewrite N.land_ones. reflexivity. Qed.

(** one more boolean when the last byte is partly filled: a bit is OR-ed into it *)
Lemma E_snoc_partial (all : list N) b : len all mod 8 <> 0 ->
  E (all ++ [b]) = if b =? 0 then E all else or_last (E all) (2 ^ (len all mod 8)).
Proof.
  intros Hm.
  set (k := Nat.div (length all) 8).
  set (a1 := firstn (8 * k) all). set (a2 := skipn (8 * k) all).
  pose proof (Nat.div_mod (length all) 8 ltac:(lia)) as DM. fold k in DM.
  assert (Hj : (length all mod 8 <> 0)%nat).
  { intros Z. apply Hm. unfold len. change 8 with (N.of_nat 8). rewrite <- Nat2N.inj_mod, Z. reflexivity. }
  pose proof (Nat.mod_upper_bound (length all) 8 ltac:(lia)) as UB.
  assert (L1 : length a1 = (8 * k)%nat) by (unfold a1; apply firstn_length_le; lia).
  assert (L2 : length a2 = (length all mod 8)%nat) by (unfold a2; rewrite skipn_length; lia).
  assert (Eall : all = a1 ++ a2) by (unfold a1, a2; symmetry; apply firstn_skipn).
  assert (Elen : len all mod 8 = len a2).
  { unfold len. rewrite L2. change 8 with (N.of_nat 8). rewrite <- Nat2N.inj_mod. reflexivity. }
  rewrite Elen. clearbody a1 a2. clear DM Hm Elen. subst all. rewrite <- app_assoc.
  rewrite (E_app_aligned k a1 (a2 ++ [b])), (E_app_aligned k a1 a2) by exact L1.
  rewrite (E_short a2) by lia. rewrite (E_short (a2 ++ [b])) by (rewrite app_length; cbn [length]; lia).
  rewrite bools_byte_snoc by lia.
  destruct (N.eqb_spec b 0) as [->|Hb].
  - cbn [truth N.eqb]. rewrite N.mul_0_l, N.add_0_r. reflexivity.
  - rewrite or_last_snoc. f_equal. f_equal.
    unfold truth. destruct (N.eqb_spec b 0); [contradiction|].
    rewrite <- (N.mul_1_l (2 ^ len a2)) at 2. rewrite lor_shift_add by apply bools_byte_lt. lia.
Qed.

Lemma fill_partial_spec : forall bs all,
  exists taken rest, bs = taken ++ rest
    /\ fill_partial (E all) (len all) bs = (E (all ++ taken), len (all ++ taken), rest)
    /\ (rest = [] \/ len (all ++ taken) mod 8 = 0).
Proof.
  induction bs as [|b tl IH]; intros all.
  - exists [], []. cbn [fill_partial app]. rewrite app_nil_r. auto.
  - cbn [fill_partial]. rewrite land7_mod8.
    destruct (N.eqb_spec (len all mod 8) 0) as [Z|NZ].
    + exists [], (b :: tl). rewrite app_nil_r. cbn [app]. auto.
    + rewrite <- (E_snoc_partial all b NZ).
      replace (len all + 1) with (len (all ++ [b])) by (unfold len; rewrite app_length; cbn [length]; lia).
      destruct (IH (all ++ [b])) as (taken & rest & Ebs & Ef & Hr).
      exists (b :: taken), rest. rewrite <- app_assoc in Ef, Hr. cbn [app] in *.
      split; [rewrite Ebs; reflexivity|]. split; [exact Ef|exact Hr].
Qed.

(** the bit accumulator: whatever the batches, the values buffer is the PLAIN encoding of all booleans *)
Theorem append_booleans_spec all bs :
  append_booleans (E all) (len all) bs = (E (all ++ bs), len (all ++ bs)).
Proof.
  unfold append_booleans.
  destruct (fill_partial_spec bs all) as (taken & rest & Ebs & Ef & Hr). rewrite Ef, Ebs.
  destruct rest as [|r rest]; [rewrite app_nil_r; reflexivity|].
  destruct Hr as [Hr|Hr]; [discriminate|].
  assert (exists k, length (all ++ taken) = (8 * k)%nat) as [k Hk].
  { exists (Nat.div (length (all ++ taken)) 8).
    pose proof (Nat.div_mod (length (all ++ taken)) 8 ltac:(lia)) as DM.
    unfold len in Hr. change 8 with (N.of_nat 8) in Hr. rewrite <- Nat2N.inj_mod in Hr.
    change 0 with (N.of_nat 0) in Hr. apply Nat2N.inj in Hr. lia. }
  rewrite (app_assoc all taken), (E_app_aligned k (all ++ taken)) by exact Hk.
  f_equal. unfold len. rewrite !app_length. cbn [length]. lia.
Qed.

Example append_booleans_ex :
  append_booleans (E [1;0;1]) 3 [1;1;0;0;0;1;1] = (E [1;0;1;1;1;0;0;0;1;1], 10).
Proof. vm_compute. reflexivity. Qed.

(* ------------------------------------------------------------------ rows, dense values, levels *)

Definition dense (rs : list row) : list value :=
  flat_map (fun r => match r with Some v => [v] | None => [] end) rs.
Definition levels_of (rs : list row) : list N :=
  map (fun r => match r with Some _ => 1 | None => 0 end) rs.

(** the PLAIN encoding of the dense values of a page *)
Definition plain_all (t : ptype) (vals : list value) : list N :=
  match t with TBool => plain_encode_boolean (map num vals) | _ => plain_append t vals end.

Lemma dense_app a b : dense (a ++ b) = dense a ++ dense b.
Proof. apply flat_map_app. Qed.
Lemma levels_of_app a b : levels_of (a ++ b) = levels_of a ++ levels_of b.
Proof. apply map_app. Qed.
Lemma dense_some vals : dense (map Some vals) = vals.
Proof. induction vals as [|v t IH]; [reflexivity|]. cbn. f_equal. exact IH. Qed.
Lemma levels_of_some vals : levels_of (map Some vals) = repeat 1 (length vals).
Proof. induction vals as [|v t IH]; [reflexivity|]. cbn. f_equal. exact IH. Qed.

Lemma count_eq_cons x d ds : count_eq x (d :: ds) = ((if (x =? d)%N then 1 else 0) + count_eq x ds)%nat.
Proof. unfold count_eq. cbn [filter]. destruct (x =? d); reflexivity. Qed.

Lemma assemble_dense : forall ds vals, count_eq 1 ds = length vals -> dense (assemble 1 ds vals) = vals.
Proof.
  induction ds as [|d ds IH]; intros vals H.
  - destruct vals; [reflexivity|discriminate].
  - rewrite count_eq_cons in H. cbn [assemble]. rewrite (N.eqb_sym d 1).
    destruct (1 =? d).
    + destruct vals as [|v vs]; [discriminate|]. cbn [dense flat_map app]. f_equal.
      apply IH. cbn [length] in H. lia.
    + cbn [dense flat_map app]. apply IH. exact H.
Qed.

Lemma assemble_levels : forall ds vals, forallb (fun d => d <? 2) ds = true -> count_eq 1 ds = length vals ->
  levels_of (assemble 1 ds vals) = ds.
Proof.
  induction ds as [|d ds IH]; intros vals Hb H; [reflexivity|].
  cbn [forallb] in Hb. apply andb_prop in Hb. destruct Hb as [Hd Hb]. apply N.ltb_lt in Hd.
  rewrite count_eq_cons in H. cbn [assemble]. rewrite (N.eqb_sym d 1).
  destruct (N.eqb_spec 1 d) as [<-|Hne].
  - destruct vals as [|v vs]; [discriminate|]. cbn [levels_of map]. f_equal. apply IH; [exact Hb|cbn [length] in H; lia].
  - cbn [levels_of map]. f_equal; [lia|]. apply IH; assumption.
Qed.

Lemma count_eq_levels rows : count_eq 1 (levels_of rows) = length (dense rows).
Proof.
  induction rows as [|r rows IH]; [reflexivity|]. cbn [levels_of map]. rewrite count_eq_cons.
  destruct r; cbn [dense flat_map app length N.eqb Pos.eqb]; fold (dense rows); fold (levels_of rows); lia.
Qed.

Lemma assemble_of_rows rows : Forall (fun r => r = r) rows -> assemble 1 (levels_of rows) (dense rows) = rows.
Proof.
  intros _. induction rows as [|r rows IH]; [reflexivity|].
  destruct r as [v|]; cbn [levels_of map dense flat_map app assemble N.eqb Pos.eqb];
    fold (levels_of rows); fold (dense rows); rewrite IH; reflexivity.
Qed.

Lemma plain_append_app t a b : plain_append t (a ++ b) = plain_append t a ++ plain_append t b.
Proof.
  destruct t; cbn [plain_append]; try reflexivity;
    unfold plain_encode_int32, plain_encode_int64, plain_encode_float, plain_encode_double, enc_fixed,
           plain_encode_byte_array, plain_encode_flba;
    rewrite ?map_app, ?flat_map_app, ?concat_app; reflexivity.
Qed.

(* ------------------------------------------------------------------ the page statistics stay small *)

Definition small_val (v : list N) : Prop := LevelProofs.is_bytes v /\ (length v <= 8)%nat.

(** the statistics component of the page writer after [n] rows: counters in step with the page, null count
    within the row count, min / max (when present) byte images of at most 8 bytes *)
Record StatsOK (c : column) (s : pwriter) (n : N) : Prop := mkStatsOK {
  so_type : pw_type s = stats_type (c_type c);
  so_md : pw_max_def s = Z.of_N (max_def c);
  so_nv : pw_num_values s = Z.of_N n;
  so_nulls : (0 <= pw_num_nulls s <= Z.of_N n)%Z;
  so_min : small_val (pw_min s);
  so_max : small_val (pw_max s)
}.

Lemma small_nil : small_val [].
Proof. split; [constructor|cbn; lia]. Qed.

Lemma stats_init c : StatsOK c (pw_create (stats_type (c_type c)) (Z.of_N (max_def c))) 0.
Proof. constructor; cbn; try reflexivity; try lia; apply small_nil. Qed.

Lemma pw_step_ok s v : small_val v -> small_val (pw_min s) -> small_val (pw_max s) ->
  small_val (pw_min (pw_step s v)) /\ small_val (pw_max (pw_step s v)) /\
  pw_type (pw_step s v) = pw_type s /\ pw_max_def (pw_step s v) = pw_max_def s /\
  pw_num_values (pw_step s v) = pw_num_values s /\ pw_num_nulls (pw_step s v) = pw_num_nulls s.
Proof.
  intros Hv Hmin Hmax. unfold pw_step. destruct (Order.val_nan (pw_type s) v); [auto 10|].
  destruct (negb (pw_has_min_max s)); cbn; [auto 10|].
  destruct (w_lt (pw_type s) v (pw_min s)), (w_lt (pw_type s) (pw_max s) v); auto 10.
Qed.

Lemma fold_pw_step_ok : forall vals s, Forall small_val vals -> small_val (pw_min s) -> small_val (pw_max s) ->
  let s' := fold_left pw_step vals s in
  small_val (pw_min s') /\ small_val (pw_max s') /\ pw_type s' = pw_type s /\ pw_max_def s' = pw_max_def s /\
  pw_num_values s' = pw_num_values s /\ pw_num_nulls s' = pw_num_nulls s.
Proof.
  induction vals as [|v vals IH]; intros s Hv Hmin Hmax; [cbn; auto 10|].
  inversion Hv as [|? ? Hv1 Hv2]; subst. cbn [fold_left].
  destruct (pw_step_ok s v Hv1 Hmin Hmax) as (A & B & C & D & E & F).
  destruct (IH (pw_step s v) Hv2 A B) as (A' & B' & C' & D' & E' & F'). cbv zeta in *.
  rewrite C', D', E', F'. auto 10.
Qed.

Lemma filter_length_le {A} (f : A -> bool) l : (length (filter f l) <= length l)%nat.
Proof. induction l as [|x l IH]; cbn; [lia|]. destruct (f x); cbn; lia. Qed.

Lemma pw_add_values_ok c s n vals k dsZ :
  StatsOK c s n -> (pw_tracks (pw_type s) = true -> Forall small_val vals) ->
  match dsZ with Some l => (length l <= k)%nat | None => True end ->
  StatsOK c (pw_add_values s vals (Z.of_nat k) dsZ) (n + N.of_nat k).
Proof.
  intros [T M V Nl Smin Smax] Hvals Hds. unfold pw_add_values.
  set (nulls := match dsZ with Some ds => _ | None => 0%Z end).
  assert (Hn : (0 <= nulls <= Z.of_nat k)%Z).
  { unfold nulls. destruct dsZ as [l|]; [|lia]. destruct (0 <? pw_max_def s)%Z; [|lia].
    pose proof (filter_length_le (fun d => (d =? pw_max_def s)%Z) l). lia. }
  set (s1 := mkPW _ _ _ _ _ _ _).
  assert (S1 : StatsOK c s1 (n + N.of_nat k)).
  { constructor; cbn; try assumption; lia. }
  destruct (pw_tracks (pw_type s)) eqn:Tr; [|exact S1].
  destruct S1 as [T1 M1 V1 N1 Smin1 Smax1].
  destruct (fold_pw_step_ok vals s1 (Hvals eq_refl) Smin1 Smax1) as (A & B & C & D & E & F). cbv zeta in *.
  constructor; [rewrite C; exact T1|rewrite D; exact M1|rewrite E; exact V1|rewrite F; exact N1|exact A|exact B].
Qed.

Lemma tracked_vals_small c vals : pw_tracks (stats_type (c_type c)) = true ->
  forallb (value_ok c) vals = true -> Forall small_val vals.
Proof.
  intros Tr H. apply Forall_forall. intros v Hv. rewrite forallb_forall in H. specialize (H v Hv).
  unfold value_ok in H. apply andb_prop in H. destruct H as [Hb Ht]. split.
  - apply Forall_forall. intros x Hx. rewrite forallb_forall in Hb. apply N.ltb_lt. apply (Hb x Hx).
  - revert Tr Ht. destruct (c_type c); cbn [stats_type pw_tracks width]; intros Tr Ht; try discriminate;
      apply Nat.eqb_eq in Ht; lia.
Qed.

(* ------------------------------------------------------------------ the page invariant *)

Record PInv (c : column) (w : pw) (rows : list row) : Prop := mkPInv {
  pi_col : p_col w = c;
  pi_defs : p_defs w = match c_rep c with Optional => levels_of rows | Required => [] end;
  pi_values : p_values w = plain_all (c_type c) (dense rows);
  pi_num : p_num_values w = len rows;
  pi_nb : c_type c = TBool -> p_num_booleans w = len (dense rows);
  pi_ok : forallb (row_ok c) rows = true;
  pi_stats : StatsOK c (p_stats w) (len rows)
}.

Lemma pinv_init c : PInv c (pw_init c) [].
Proof.
  constructor; try reflexivity; [destruct (c_rep c); reflexivity|destruct (c_type c); reflexivity|apply stats_init].
Qed.

Lemma rows_of_batch_ok c b : batch_ok c b = true -> forallb (row_ok c) (rows_of_batch c b) = true.
Proof.
  unfold batch_ok, rows_of_batch. intros H. apply andb_prop in H. destruct H as [Hv H].
  assert (Hs : forallb (row_ok c) (map Some (b_vals b)) = true).
  { rewrite forallb_forall in *. intros r Hr. apply in_map_iff in Hr. destruct Hr as (v & <- & Hin).
    cbn [row_ok]. apply Hv, Hin. }
  destruct (c_rep c) eqn:R; [exact Hs|]. destruct (b_defs b) as [ds|]; [|exact Hs].
  clear Hs H. revert Hv. generalize (b_vals b). induction ds as [|d ds IH]; intros vals Hv; [reflexivity|].
  cbn [assemble]. destruct (d =? 1).
  - destruct vals as [|v vs].
    + cbn [forallb row_ok]. rewrite R. apply (IH [] Hv).
    + cbn [forallb] in *. apply andb_prop in Hv. destruct Hv as [H1 H2]. cbn [row_ok]. rewrite H1. apply IH, H2.
  - cbn [forallb row_ok]. rewrite R. apply IH, Hv.
Qed.

Lemma assemble_length m : forall ds vals, length (assemble m ds vals) = length ds.
Proof.
  induction ds as [|d ds IH]; intros vals; [reflexivity|]. cbn [assemble].
  destruct (d =? m); [destruct vals|]; cbn [length]; rewrite IH; reflexivity.
Qed.

Lemma rows_of_batch_length c b : batch_ok c b = true -> length (rows_of_batch c b) = b_nrows b.
Proof.
  unfold batch_ok, rows_of_batch. intros H. apply andb_prop in H. destruct H as [_ H].
  destruct (c_rep c).
  - rewrite map_length. apply Nat.eqb_eq, H.
  - destruct (b_defs b) as [ds|].
    + apply andb_prop in H. destruct H as [H _]. apply andb_prop in H. destruct H as [H _].
      rewrite assemble_length. apply Nat.eqb_eq, H.
    + rewrite map_length. apply Nat.eqb_eq, H.
Qed.

Lemma len_app' {A} (a b : list A) : len (a ++ b) = len a + len b.
Proof. unfold len. rewrite app_length. lia. Qed.

Lemma values_step c w rows vals : p_values w = plain_all (c_type c) (dense rows) ->
  (c_type c = TBool -> p_num_booleans w = len (dense rows)) ->
  match c_type c with
  | TBool => append_booleans (p_values w) (p_num_booleans w) (map num vals)
  | t => (p_values w ++ plain_append t vals, p_num_booleans w)
  end = (plain_all (c_type c) (dense rows ++ vals),
         match c_type c with TBool => len (dense rows ++ vals) | _ => p_num_booleans w end).
Proof.
  intros Iv Inb. rewrite Iv. destruct (c_type c) eqn:T; cbn [plain_all]; rewrite ?plain_append_app; try reflexivity.
  rewrite (Inb eq_refl). unfold len at 1. rewrite <- (map_length num (dense rows)). fold (len (map num (dense rows))).
  rewrite append_booleans_spec, map_app. f_equal. unfold len. rewrite <- map_app, map_length. reflexivity.
Qed.

(** every consistent write_batch call: the buffers stay the encodings of all rows of the page so far *)
Theorem add_values_inv c w rows b : PInv c w rows -> batch_ok c b = true ->
  exists w', add_values w b = Ok w' /\ PInv c w' (rows ++ rows_of_batch c b).
Proof.
  intros I Hb. pose proof (rows_of_batch_ok c b Hb) as Hrows.
  destruct I as [Ic Id Iv In Inb Iok Ist].
  unfold batch_ok in Hb. apply andb_prop in Hb. destruct Hb as [Hvals Hb].
  unfold add_values. rewrite Ic. unfold max_def.
  (* the three shapes of a call *)
  assert (Shape :
    exists (ds : option (list N)) (lv : list N),
      (if 0 <? match c_rep c with Optional => 1 | Required => 0 end
       then match b_defs b with Some d => Some (firstn (b_nrows b) d) | None => None end else None) = ds
      /\ ((0 <? match c_rep c with Optional => 1 | Required => 0 end)
          && match b_defs b with Some d => Nat.ltb (length d) (b_nrows b) | None => false end) = false
      /\ match ds with Some d => count_eq match c_rep c with Optional => 1 | Required => 0 end d
                     | None => b_nrows b end = length (b_vals b)
      /\ dense (rows_of_batch c b) = b_vals b
      /\ length (rows_of_batch c b) = b_nrows b
      /\ match c_rep c with
         | Optional => match ds with Some d => d | None => repeat 1 (b_nrows b) end = lv
                       /\ levels_of (rows_of_batch c b) = lv
         | Required => True
         end).
  { unfold rows_of_batch. destruct (c_rep c) eqn:R.
    - apply Nat.eqb_eq in Hb. exists None, []. cbn [N.ltb N.compare andb].
      rewrite dense_some, map_length. repeat split; try reflexivity; try (symmetry; exact Hb). exact Hb.
    - destruct (b_defs b) as [d|] eqn:D.
      + apply andb_prop in Hb. destruct Hb as [Hb Hc]. apply andb_prop in Hb. destruct Hb as [Hl Hd].
        apply Nat.eqb_eq in Hl, Hc. exists (Some d), d.
        change (0 <? 1) with true. cbn [andb]. rewrite <- Hl, firstn_all, Nat.ltb_irrefl.
        rewrite assemble_dense by exact Hc. rewrite assemble_levels by assumption.
        repeat split; try reflexivity; try exact Hc.
        rewrite <- (assemble_levels d (b_vals b) Hd Hc) at 2. unfold levels_of. rewrite map_length. reflexivity.
      + apply Nat.eqb_eq in Hb. exists None, (repeat 1 (b_nrows b)). change (0 <? 1) with true. cbn [andb].
        rewrite dense_some, map_length, levels_of_some, Hb. repeat split; reflexivity. }
  destruct Shape as (ds & lv & Hds & -> & Hnn & Hdense & Hlen & Hlv). rewrite Hds.
  rewrite Hnn, Nat.ltb_irrefl, firstn_all.
  rewrite (values_step c w rows (b_vals b) Iv Inb).
  eexists. split; [reflexivity|].
  constructor; cbn [p_col p_defs p_values p_num_values p_num_booleans p_stats].
  - reflexivity.
  - rewrite Id. destruct (c_rep c); [reflexivity|]. destruct Hlv as [L1 L2].
    change (0 <? 1) with true. cbn iota. rewrite levels_of_app, L2, <- L1. destruct ds; reflexivity.
  - rewrite dense_app, Hdense. reflexivity.
  - rewrite In, len_app'. unfold len. rewrite Hlen. reflexivity.
  - intros T. rewrite T, dense_app, Hdense. reflexivity.
  - rewrite forallb_app, Iok, Hrows. reflexivity.
  - rewrite len_app'. replace (len (rows_of_batch c b)) with (N.of_nat (b_nrows b)) by (unfold len; rewrite Hlen; reflexivity).
    apply pw_add_values_ok; [exact Ist| |].
    + intros Tr. rewrite (so_type _ _ _ Ist) in Tr. apply (tracked_vals_small c (b_vals b) Tr Hvals).
    + destruct ds as [d|]; [|exact Logic.I]. rewrite map_length.
      destruct (c_rep c); [discriminate Hds|]. destruct (b_defs b); [|discriminate Hds].
      inversion Hds; subst d. rewrite firstn_length. lia.
Qed.

(** any number of calls: the page state after [batches] holds exactly their rows *)
Fixpoint add_all (w : pw) (bs : list batch) : res pw :=
  match bs with
  | [] => Ok w
  | b :: t => match add_values w b with Ok w' => add_all w' t | Err e => Err e | Fault f => Fault f end
  end.

Definition rows_of (c : column) (bs : list batch) : list row := flat_map (rows_of_batch c) bs.

Theorem add_all_inv c : forall bs w rows, PInv c w rows -> forallb (batch_ok c) bs = true ->
  exists w', add_all w bs = Ok w' /\ PInv c w' (rows ++ rows_of c bs).
Proof.
  induction bs as [|b bs IH]; intros w rows I H.
  - exists w. cbn [add_all rows_of flat_map]. rewrite app_nil_r. auto.
  - cbn [forallb] in H. apply andb_prop in H. destruct H as [Hb Hbs].
    destruct (add_values_inv c w rows b I Hb) as (w1 & E1 & I1).
    destruct (IH w1 _ I1 Hbs) as (w2 & E2 & I2).
    exists w2. cbn [add_all]. rewrite E1. split; [exact E2|].
    cbn [rows_of flat_map]. rewrite app_assoc. exact I2.
Qed.

(* ------------------------------------------------------------------ decoding the values of a page *)

Definition value_okP (c : column) (v : value) : Prop := value_ok c v = true.

Lemma forallb_byte_ok v : forallb byte_ok v = true -> bytes v.
Proof.
  intros H. unfold bytes. apply Forall_forall. intros x Hx. rewrite forallb_forall in H.
  unfold byte, byte_ok in *. apply N.ltb_lt, H, Hx.
Qed.

Lemma fixed_back k vals : Forall (fun v => bytes v /\ length v = k) vals ->
  map (le_bytes_f k) (map num vals) = vals /\ Forall (fun x => x < 256 ^ N.of_nat k) (map num vals).
Proof.
  intros H. induction H as [|v t [Hb Hl] Ht [IH1 IH2]]; [split; [reflexivity|constructor]|].
  cbn [map]. split.
  - rewrite IH1. f_equal. unfold num. rewrite le_bytes_f_eq, le_num_f_eq, <- Hl. apply le_bytes_num, Hb.
  - constructor; [|exact IH2]. unfold num. rewrite le_num_f_eq, <- Hl. apply le_num_lt, Hb.
Qed.

Lemma chunk_concat k vals : Forall (fun v : list N => length v = k) vals ->
  chunk k (length vals) (concat vals) = vals.
Proof.
  intros H. induction H as [|v t Hv Ht IH]; [reflexivity|].
  cbn [length chunk concat]. rewrite firstn_app, <- Hv, Nat.sub_diag, firstn_O, app_nil_r, firstn_all.
  rewrite skipn_app, Nat.sub_diag, skipn_O, skipn_all. cbn [app]. rewrite Hv, IH. reflexivity.
Qed.

Lemma concat_len k (vals : list (list N)) : Forall (fun v => length v = k) vals ->
  len (concat vals) = len vals * N.of_nat k.
Proof.
  intros H. induction H as [|v t Hv Ht IH]; [reflexivity|].
  cbn [concat]. rewrite len_app', IH. unfold len. cbn [length]. rewrite Hv. lia.
Qed.

Lemma value_ok_fixed c k : width (c_type c) (c_tlen c) = Some k -> c_type c <> TBool ->
  forall vals, forallb (value_ok c) vals = true -> Forall (fun v => bytes v /\ length v = k) vals.
Proof.
  intros Hw Hnb vals H. apply Forall_forall. intros v Hv. rewrite forallb_forall in H. specialize (H v Hv).
  unfold value_ok in H. apply andb_prop in H. destruct H as [Hb Ht]. split; [apply forallb_byte_ok, Hb|].
  revert Hw Hnb Ht. destruct (c_type c); intros Hw Hnb Ht; try (exfalso; apply Hnb; reflexivity); try discriminate;
    cbn [width] in *; inversion Hw; subst; apply Nat.eqb_eq in Ht; exact Ht.
Qed.

(** carquet_decode_plain on the values region of a page returns the dense values written *)
Lemma decode_plain_all c vals : column_ok c = true -> forallb (value_ok c) vals = true ->
  len (plain_all (c_type c) vals) < 2 ^ 63 -> len vals < 2 ^ 63 ->
  decode_plain (c_type c) (c_tlen c) (plain_all (c_type c) vals) (len vals) = Ok vals.
Proof.
  intros Hc Hv Hsz Hn. unfold decode_plain.
  assert (L : len (map num vals) = len vals) by (unfold len; rewrite map_length; reflexivity).
  destruct (c_type c) eqn:T; cbn [plain_all plain_append] in *.
  - (* BOOLEAN *)
    assert (F : Forall (fun v => bytes v /\ length v = 1%nat) vals /\ Forall (fun x => x < 2) (map num vals)).
    { split; apply Forall_forall; intros v Hin.
      - rewrite forallb_forall in Hv. specialize (Hv v Hin). unfold value_ok in Hv. rewrite T in Hv.
        apply andb_prop in Hv. destruct Hv as [Hb Ht]. split; [apply forallb_byte_ok, Hb|].
        destruct v as [|x [|y l]]; try discriminate. reflexivity.
      - apply in_map_iff in Hin. destruct Hin as (v0 & <- & Hin).
        rewrite forallb_forall in Hv. specialize (Hv v0 Hin). unfold value_ok in Hv. rewrite T in Hv.
        apply andb_prop in Hv. destruct Hv as [_ Ht]. destruct v0 as [|x [|y l]]; try discriminate.
        apply N.ltb_lt in Ht. unfold num. cbn. lia. }
    destruct F as [F1 F2]. rewrite <- L. rewrite plain_roundtrip_boolean_bits by (rewrite ?L; assumption).
    f_equal. apply (fixed_back 1 vals F1).
  - pose proof (value_ok_fixed c 4 ltac:(rewrite T; reflexivity) ltac:(rewrite T; discriminate) vals Hv) as F.
    destruct (fixed_back 4 vals F) as [B1 B2]. rewrite <- L.
    unfold plain_decode_int32, plain_encode_int32. rewrite fixed_roundtrip by (try exact B2; lia).
    f_equal. exact B1.
  - pose proof (value_ok_fixed c 8 ltac:(rewrite T; reflexivity) ltac:(rewrite T; discriminate) vals Hv) as F.
    destruct (fixed_back 8 vals F) as [B1 B2]. rewrite <- L.
    unfold plain_decode_int64, plain_encode_int64. rewrite fixed_roundtrip by (try exact B2; lia).
    f_equal. exact B1.
  - pose proof (value_ok_fixed c 4 ltac:(rewrite T; reflexivity) ltac:(rewrite T; discriminate) vals Hv) as F.
    destruct (fixed_back 4 vals F) as [B1 B2]. rewrite <- L.
    unfold plain_decode_float, plain_encode_float. rewrite fixed_roundtrip by (try exact B2; lia).
    f_equal. exact B1.
  - pose proof (value_ok_fixed c 8 ltac:(rewrite T; reflexivity) ltac:(rewrite T; discriminate) vals Hv) as F.
    destruct (fixed_back 8 vals F) as [B1 B2]. rewrite <- L.
    unfold plain_decode_double, plain_encode_double. rewrite fixed_roundtrip by (try exact B2; lia).
    f_equal. exact B1.
  - (* BYTE_ARRAY *)
    assert (F : Forall ba_ok vals).
    { apply Forall_forall. intros v Hin. rewrite forallb_forall in Hv. specialize (Hv v Hin).
      unfold value_ok in Hv. rewrite T in Hv. apply andb_prop in Hv. destruct Hv as [_ Ht].
      apply N.ltb_lt in Ht. exact Ht. }
    rewrite plain_roundtrip_byte_array by exact F. reflexivity.
  - (* FIXED_LEN_BYTE_ARRAY *)
    pose proof (value_ok_fixed c (N.to_nat (c_tlen c)) ltac:(rewrite T; reflexivity) ltac:(rewrite T; discriminate) vals Hv) as F.
    assert (F2 : Forall (fun v : list N => length v = N.to_nat (c_tlen c)) vals)
      by (eapply Forall_impl; [|exact F]; intros a [_ Ha]; exact Ha).
    unfold column_ok in Hc. rewrite T in Hc. apply N.ltb_lt in Hc.
    pose proof (concat_len _ vals F2) as CL. rewrite N2Nat.id in CL.
    rewrite plain_roundtrip_flba; [|lia|exact CL].
    unfold len at 1. rewrite Nat2N.id, chunk_concat by exact F2. reflexivity.
Qed.

(* ------------------------------------------------------------------ the page body round trip *)

Lemma le32_length x : length (le32 x) = 4%nat.
Proof. unfold le32. rewrite le_bytes_f_eq. apply le_bytes_length. Qed.

Lemma le32_val_app x rest : x < 2 ^ 32 -> le32_val (le32 x ++ rest) = x.
Proof.
  intros H. unfold le32_val. rewrite firstn_app, le32_length, Nat.sub_diag, firstn_O, app_nil_r.
  rewrite firstn_all2 by (rewrite le32_length; lia).
  unfold le32. rewrite N.mod_small by exact H. rewrite le_num_f_eq, le_bytes_f_eq. apply le_num_bytes.
  change (256 ^ N.of_nat 4) with (2 ^ 32). exact H.
Qed.

Lemma required_rows c rows : c_rep c = Required -> forallb (row_ok c) rows = true -> rows = map Some (dense rows).
Proof.
  intros R. induction rows as [|r rows IH]; intros H; [reflexivity|].
  cbn [forallb] in H. apply andb_prop in H. destruct H as [Hr H].
  destruct r as [v|]; [|unfold row_ok in Hr; rewrite R in Hr; discriminate].
  cbn [dense flat_map app map]. f_equal. apply IH, H.
Qed.

Lemma dense_ok c rows : forallb (row_ok c) rows = true -> forallb (value_ok c) (dense rows) = true.
Proof.
  induction rows as [|r rows IH]; intros H; [reflexivity|].
  cbn [forallb] in H. apply andb_prop in H. destruct H as [Hr H].
  destruct r as [v|]; cbn [dense flat_map app forallb]; [cbn [row_ok] in Hr; rewrite Hr|]; apply IH, H.
Qed.

Lemma levels_small rows : Forall (fun v => v < 2 ^ N.of_nat 1) (levels_of rows).
Proof. apply Forall_forall. intros x H. apply in_map_iff in H. destruct H as (r & <- & _). destruct r; cbn; lia. Qed.

Lemma dense_le rows : (length (dense rows) <= length rows)%nat.
Proof.
  induction rows as [|r rows' IH]; [cbn; lia|].
  destruct r; cbn [dense flat_map app length]; fold (dense rows'); lia.
Qed.

Lemma read_level_block_spec w rle vals n : len rle < 2 ^ 32 ->
  read_level_block w (le32 (len rle) ++ rle ++ vals) n
  = match decode_levels_rle w rle n with Ok lv => Ok (lv, vals) | Err e => Err e | Fault f => Fault f end.
Proof.
  intros Hr. unfold read_level_block.
  assert (L4 : len (le32 (len rle)) = 4) by (unfold len; rewrite le32_length; reflexivity).
  assert (E4 : (len (le32 (len rle) ++ rle ++ vals) <? 4) = false).
  { apply N.ltb_ge. rewrite len_app', L4. lia. }
  rewrite E4, le32_val_app by exact Hr.
  rewrite skipn_app, le32_length, Nat.sub_diag, skipn_O, skipn_all2 by (rewrite le32_length; lia). cbn [app].
  assert (E5 : (len (rle ++ vals) <? len rle) = false) by (apply N.ltb_ge; rewrite len_app'; lia).
  rewrite E5.
  assert (Nr : N.to_nat (len rle) = length rle) by (unfold len; apply Nat2N.id).
  rewrite Nr, firstn_app, Nat.sub_diag, firstn_O, app_nil_r, firstn_all.
  rewrite skipn_app, Nat.sub_diag, skipn_O, skipn_all. reflexivity.
Qed.

Lemma decode_levels_rle_roundtrip rows : len rows < 2 ^ 31 ->
  decode_levels_rle 1 (RleModel.encode_all 1 (levels_of rows)) (length rows) = Ok (levels_of rows).
Proof.
  intros Hn. unfold decode_levels_rle. cbn [Nat.eqb].
  assert (Ll : length (levels_of rows) = length rows) by (unfold levels_of; apply map_length).
  rewrite <- Ll.
  rewrite LevelProofs.levels_roundtrip; [|lia|apply levels_small|rewrite Ll; unfold len in Hn; lia].
  rewrite Nat.ltb_irrefl. reflexivity.
Qed.

(** REQUIRED column: the page body is the PLAIN encoding of the values *)
Lemma body_required c rows : column_ok c = true -> c_rep c = Required -> forallb (row_ok c) rows = true ->
  len rows < 2 ^ 31 -> len (plain_all (c_type c) (dense rows)) < 2 ^ 31 ->
  read_data_page_v1 c (plain_all (c_type c) (dense rows)) (len rows)
  = Ok (repeat 0 (length rows), dense rows).
Proof.
  intros Hc R Iok Hn Hsz. unfold read_data_page_v1, max_def. rewrite R. change (0 <? 0) with false. cbn iota.
  assert (Nn : N.to_nat (len rows) = length rows) by (unfold len; apply Nat2N.id).
  pose proof (required_rows c rows R Iok) as Er.
  assert (El : length rows = length (dense rows)) by (rewrite Er at 1; apply map_length).
  rewrite Nn, El. fold (len (dense rows)).
  rewrite decode_plain_all; [|exact Hc|apply (dense_ok c rows Iok)|lia|unfold len in *; lia].
  rewrite firstn_all2 by (rewrite repeat_length; lia). reflexivity.
Qed.

Lemma encode_levels_1 l : encode_levels 1 l = le32 (len (RleModel.encode_all 1 l)) ++ RleModel.encode_all 1 l.
Proof. reflexivity. Qed.

Lemma rd_width_1 : bit_width_for_max 1 = 1%nat.
Proof. reflexivity. Qed.

(** OPTIONAL column: length-prefixed level block, then the PLAIN encoding of the non-null values *)
Lemma body_optional c rows : column_ok c = true -> c_rep c = Optional -> forallb (row_ok c) rows = true ->
  len rows < 2 ^ 31 ->
  len (encode_levels 1 (levels_of rows) ++ plain_all (c_type c) (dense rows)) < 2 ^ 31 ->
  read_data_page_v1 c (encode_levels 1 (levels_of rows) ++ plain_all (c_type c) (dense rows)) (len rows)
  = Ok (levels_of rows, dense rows).
Proof.
  intros Hc R Iok Hn Hsz. unfold read_data_page_v1, max_def. rewrite R.
  replace (0 <? 1) with true by reflexivity. cbv iota.
  rewrite rd_width_1. rewrite encode_levels_1 in Hsz |- *.
  rewrite <- app_assoc in Hsz |- *. rewrite !len_app' in Hsz.
  assert (Nn : N.to_nat (len rows) = length rows) by (unfold len; apply Nat2N.id).
  rewrite read_level_block_spec by lia. rewrite Nn, decode_levels_rle_roundtrip by exact Hn.
  assert (Ll : length (levels_of rows) = length rows) by (unfold levels_of; apply map_length).
  rewrite <- Ll, firstn_all, count_eq_levels. fold (len (dense rows)).
  rewrite decode_plain_all; [reflexivity|exact Hc|apply (dense_ok c rows Iok)|lia|].
  pose proof (dense_le rows) as DL. unfold len. unfold len in Hn. lia.
Qed.

(** decoding the finalized page body returns exactly the rows written, for every partition into calls *)
Theorem page_body_roundtrip c w rows : column_ok c = true -> PInv c w rows -> rows <> [] ->
  len rows < 2 ^ 31 -> len (page_body w) < 2 ^ 31 ->
  exists defs vals, read_data_page_v1 c (page_body w) (p_num_values w) = Ok (defs, vals)
                    /\ rows_of_page c defs vals = rows.
Proof.
  intros Hc [Ic Id Iv In Inb Iok _] Hne Hn Hsz.
  unfold page_body in *. rewrite Ic, In, Id, Iv in *. unfold rows_of_page.
  destruct (c_rep c) eqn:R.
  - cbn [len length N.of_nat N.eqb app] in *.
    rewrite body_required by assumption. eexists _, _. split; [reflexivity|].
    symmetry. apply (required_rows c rows R Iok).
  - assert (Hl0 : (len (levels_of rows) =? 0) = false).
    { apply N.eqb_neq. unfold len, levels_of. rewrite map_length. destruct rows; [contradiction|cbn [length]; lia]. }
    rewrite Hl0 in *. unfold max_def in *. rewrite R in *.
    rewrite body_optional by assumption. eexists _, _. split; [reflexivity|].
    apply assemble_of_rows. apply Forall_forall. reflexivity.
Qed.

(* ------------------------------------------------------------------ the page body is a byte string *)

Notation is_bytes := LevelProofs.is_bytes.

Lemma le_bytes_f_bytes k x : is_bytes (le_bytes_f k x).
Proof. rewrite le_bytes_f_eq. exact (le_bytes_ok k x). Qed.

Lemma flat_map_bytes {A} (f : A -> list N) l : (forall x, In x l -> is_bytes (f x)) -> is_bytes (flat_map f l).
Proof.
  induction l as [|x l IH]; intros H; [constructor|]. cbn [flat_map]. apply LevelProofs.is_bytes_app.
  - apply H. left. reflexivity.
  - apply IH. intros y Hy. apply H. right. exact Hy.
Qed.

Lemma bools_byte_bound : forall k l, bools_byte k l < 2 ^ N.of_nat k.
Proof.
  induction k as [|k IH]; intros l; [destruct l; cbn; lia|].
  destruct l as [|v l]; [cbn [bools_byte]; apply N.neq_0_lt_0, N.pow_nonzero; discriminate|].
  cbn [bools_byte]. rewrite Nat2N.inj_succ, N.pow_succ_r'. pose proof (IH l). pose proof (truth_bit v). lia.
Qed.

Lemma enc_bools_bytes : forall f l, is_bytes (enc_bools f l).
Proof.
  induction f as [|f IH]; intros l; [constructor|]. cbn [enc_bools]. destruct l as [|v l]; [constructor|].
  constructor; [|apply IH]. pose proof (bools_byte_bound 8 (v :: l)) as B. exact B.
Qed.

Lemma plain_all_bytes c vals : forallb (value_ok c) vals = true -> is_bytes (plain_all (c_type c) vals).
Proof.
  intros Hv.
  assert (Hb : forall v, In v vals -> is_bytes v).
  { intros v Hin. rewrite forallb_forall in Hv. specialize (Hv v Hin). unfold value_ok in Hv.
    apply andb_prop in Hv. destruct Hv as [Hb _]. exact (forallb_byte_ok v Hb). }
  destruct (c_type c); cbn [plain_all plain_append];
    unfold plain_encode_boolean, plain_encode_int32, plain_encode_int64, plain_encode_float, plain_encode_double,
           enc_fixed, plain_encode_byte_array, plain_encode_flba.
  - apply enc_bools_bytes.
  - apply flat_map_bytes. intros. apply le_bytes_f_bytes.
  - apply flat_map_bytes. intros. apply le_bytes_f_bytes.
  - apply flat_map_bytes. intros. apply le_bytes_f_bytes.
  - apply flat_map_bytes. intros. apply le_bytes_f_bytes.
  - apply flat_map_bytes. intros v Hin. apply LevelProofs.is_bytes_app; [apply le_bytes_f_bytes|apply Hb, Hin].
  - apply LevelProofs.is_bytes_concat. apply Forall_forall. exact Hb.
Qed.

(** what goes to the compressor is a byte string *)
Lemma page_body_bytes c w rows : PInv c w rows -> len rows < 2 ^ 31 -> is_bytes (page_body w).
Proof.
  intros [Ic Id Iv In Inb Iok _] Hn. unfold page_body. rewrite Iv. apply LevelProofs.is_bytes_app.
  - destruct (len (p_defs w) =? 0); [constructor|]. rewrite Ic, Id. unfold max_def.
    destruct (c_rep c); [constructor|]. rewrite encode_levels_1. apply LevelProofs.is_bytes_app.
    + unfold le32. apply le_bytes_f_bytes.
    + apply LevelProofs.encode_all_bytes; [apply levels_small|].
      unfold levels_of. rewrite map_length. unfold len in Hn.
      change (2 ^ 32) with 4294967296. change (2 ^ 31) with 2147483648 in Hn. unfold row in Hn. lia.
  - apply plain_all_bytes, (dense_ok c rows Iok).
Qed.

Example page_body_roundtrip_ex :
  let c := mkcol [111] TInt32 Optional 0 in
  match add_all (pw_init c) [mkbatch [[1;0;0;0]] 2 (Some [1;0]); mkbatch [[2;0;0;0]] 2 (Some [0;1]); mkbatch [[3;0;0;0]] 1 None] with
  | Ok w => read_data_page_v1 c (page_body w) (p_num_values w)
            = Ok ([1;0;0;1;1], [[1;0;0;0];[2;0;0;0];[3;0;0;0]])
  | _ => False
  end.
Proof. vm_compute. reflexivity. Qed.
