(** Proofs about the writer model against the reader model (C01, page layer):
      - the boolean bit accumulator of the repaired page writer equals the PLAIN boolean encoding of the
        concatenated batches ([append_booleans_spec]);
      - [add_values_inv]: every consistent write_batch call keeps the page writer's buffers equal to the
        encodings of the rows written so far, whatever the partition into calls;
      - [page_body_roundtrip]: decoding the finalized page body gives back exactly those rows.
    The level decoder round trip comes from Writer/LevelProofs.v. *)
From Coq Require Import NArith ZArith Arith List Bool Lia.
From Carquet Require Import Base.Res Base.Bits Enc.DeltaBits Enc.PlainModel Enc.PlainProofs
  Writer.TableSpec Writer.PageWriterModel Reader.PageDecodeModel.
From Carquet Require Writer.LevelProofs Enc.RleModel.
Import ListNotations.
Local Open Scope N_scope.

(* ------------------------------------------------------------------ booleans across batches *)

Notation E := plain_encode_boolean.

Lemma enc_bools_fuel : forall f1 f2 (l : list N), (length l <= 8 * f1)%nat -> (length l <= 8 * f2)%nat ->
  enc_bools f1 l = enc_bools f2 l.
Proof.
  induction f1 as [|f1 IH]; intros f2 l H1 H2.
  - destruct l; [|cbn in H1; lia]. destruct f2; reflexivity.
  - destruct f2 as [|f2]; [destruct l; [reflexivity|cbn in H2; lia]|].
    cbn [enc_bools]. destruct l as [|x l]; [reflexivity|]. f_equal.
    apply IH; rewrite skipn_length; cbn [length] in *; lia.
Qed.

Lemma bools_byte_app : forall k (g x : list N), length g = k -> bools_byte k (g ++ x) = bools_byte k g.
Proof.
  induction k as [|k IH]; intros g x H.
  - destruct g; [|discriminate]. destruct x; reflexivity.
  - destruct g as [|v g]; [discriminate|]. cbn [app bools_byte]. rewrite IH by (cbn in H; lia). reflexivity.
Qed.

Lemma E_cons8 (g rest : list N) : length g = 8%nat -> E (g ++ rest) = bools_byte 8 g :: E rest.
Proof.
  intros Hg. unfold plain_encode_boolean.
  rewrite (enc_bools_fuel _ (S (length rest))) by (rewrite ?app_length; lia).
  destruct g as [|v g]; [discriminate|]. cbn [enc_bools app].
  change (v :: g ++ rest) with ((v :: g) ++ rest).
  rewrite bools_byte_app by exact Hg. f_equal.
  rewrite skipn_app, Hg, Nat.sub_diag, skipn_O, skipn_all2 by lia. reflexivity.
Qed.

(** a prefix that fills whole bytes is encoded on its own *)
Lemma E_app_aligned : forall k (a b : list N), length a = (8 * k)%nat -> E (a ++ b) = E a ++ E b.
Proof.
  induction k as [|k IH]; intros a b H.
  - destruct a; [reflexivity|discriminate].
  - assert (H8 : (8 <= length a)%nat) by lia.
    assert (Hg : length (firstn 8 a) = 8%nat) by (apply firstn_length_le; exact H8).
    assert (Hr : length (skipn 8 a) = (8 * k)%nat) by (rewrite skipn_length; lia).
    rewrite <- (firstn_skipn 8 a). generalize dependent (skipn 8 a). generalize dependent (firstn 8 a).
    intros g Hg r Hr. rewrite <- app_assoc.
    rewrite (E_cons8 g (r ++ b)), (E_cons8 g r) by exact Hg. rewrite IH by exact Hr. reflexivity.
Qed.

Lemma E_short (a : list N) : (1 <= length a <= 8)%nat -> E a = [bools_byte 8 a].
Proof.
  intros H. unfold plain_encode_boolean. destruct a as [|v a]; [cbn in H; lia|].
  cbn [length] in H. cbn [length enc_bools]. f_equal. rewrite skipn_all2 by (cbn [length]; lia).
  destruct (length a); reflexivity.
Qed.

Lemma bools_byte_snoc : forall k (l : list N) b, (length l < k)%nat ->
  bools_byte k (l ++ [b]) = bools_byte k l + truth b * 2 ^ len l.
Proof.
  induction k as [|k IH]; intros l b H; [lia|].
  destruct l as [|v l].
  - cbn [app bools_byte len length N.of_nat]. destruct k; cbn [bools_byte]; lia.
  - cbn [app bools_byte]. rewrite IH by (cbn in H; lia).
    unfold len. cbn [length]. rewrite Nat2N.inj_succ, N.pow_succ_r'. lia.
Qed.

Lemma bools_byte_lt : forall k (l : list N), bools_byte k l < 2 ^ len l.
Proof.
  induction k as [|k IH]; intros l.
  - destruct l; cbn [bools_byte]; apply N.neq_0_lt_0, N.pow_nonzero; discriminate.
  - destruct l as [|v l]; [cbn; lia|]. cbn [bools_byte]. unfold len. cbn [length].
    rewrite Nat2N.inj_succ, N.pow_succ_r'. pose proof (IH l) as B. unfold len in B.
    pose proof (truth_bit v). lia.
Qed.

Lemma or_last_snoc (x : list N) y m : or_last (x ++ [y]) m = x ++ [N.lor y m].
Proof.
  induction x as [|a x IH]; [reflexivity|]. cbn [app or_last]. rewrite IH.
  destruct (x ++ [y]) eqn:Ex; [destruct x; discriminate|reflexivity].
Qed.

Lemma land7_mod8 n : N.land n 7 = n mod 8.
Proof. change 7 with (N.ones 3). rewrite N.land_ones. reflexivity. Qed.

(** one more boolean when the last byte is partly filled: a bit is OR-ed into it *)
Lemma E_snoc_partial (all : list N) b : len all mod 8 <> 0 ->
  E (all ++ [b]) = if b =? 0 then E all else or_last (E all) (2 ^ (len all mod 8)).
Proof.
  intros Hm.
  set (k := Nat.div (length all) 8).
  set (a1 := firstn (8 * k) all). set (a2 := skipn (8 * k) all).
  pose proof (Nat.div_mod (length all) 8 ltac:(lia)) as DM. fold k in DM.
  assert (Hj : (length all mod 8 <> 0)%nat).
  { intros Z. apply Hm. unfold len. change 8 with (N.of_nat 8). rewrite <- Nat2N.inj_mod, Z. reflexivity. }
  pose proof (Nat.mod_upper_bound (length all) 8 ltac:(lia)) as UB.
  assert (L1 : length a1 = (8 * k)%nat) by (unfold a1; apply firstn_length_le; lia).
  assert (L2 : length a2 = (length all mod 8)%nat) by (unfold a2; rewrite skipn_length; lia).
  assert (Eall : all = a1 ++ a2) by (unfold a1, a2; symmetry; apply firstn_skipn).
  assert (Elen : len all mod 8 = len a2).
  { unfold len. rewrite L2. change 8 with (N.of_nat 8). rewrite <- Nat2N.inj_mod. reflexivity. }
  rewrite Elen. clearbody a1 a2. clear DM Hm Elen. subst all. rewrite <- app_assoc.
  rewrite (E_app_aligned k a1 (a2 ++ [b])), (E_app_aligned k a1 a2) by exact L1.
  rewrite (E_short a2) by lia. rewrite (E_short (a2 ++ [b])) by (rewrite app_length; cbn [length]; lia).
  rewrite bools_byte_snoc by lia.
  destruct (N.eqb_spec b 0) as [->|Hb].
  - cbn [truth N.eqb]. rewrite N.mul_0_l, N.add_0_r. reflexivity.
  - rewrite or_last_snoc. f_equal. f_equal.
    unfold truth. destruct (N.eqb_spec b 0); [contradiction|].
    rewrite <- (N.mul_1_l (2 ^ len a2)) at 2. rewrite lor_shift_add by apply bools_byte_lt. lia.
Qed.

Lemma fill_partial_spec : forall bs all,
  exists taken rest, bs = taken ++ rest
    /\ fill_partial (E all) (len all) bs = (E (all ++ taken), len (all ++ taken), rest)
    /\ (rest = [] \/ len (all ++ taken) mod 8 = 0).
Proof.
  induction bs as [|b tl IH]; intros all.
  - exists [], []. cbn [fill_partial app]. rewrite app_nil_r. auto.
  - cbn [fill_partial]. rewrite land7_mod8.
    destruct (N.eqb_spec (len all mod 8) 0) as [Z|NZ].
    + exists [], (b :: tl). rewrite app_nil_r. cbn [app]. auto.
    + rewrite <- (E_snoc_partial all b NZ).
      replace (len all + 1) with (len (all ++ [b])) by (unfold len; rewrite app_length; cbn [length]; lia).
      destruct (IH (all ++ [b])) as (taken & rest & Ebs & Ef & Hr).
      exists (b :: taken), rest. rewrite <- app_assoc in Ef, Hr. cbn [app] in *.
      split; [rewrite Ebs; reflexivity|]. split; [exact Ef|exact Hr].
Qed.

(** the bit accumulator: whatever the batches, the values buffer is the PLAIN encoding of all booleans *)
Theorem append_booleans_spec all bs :
  append_booleans (E all) (len all) bs = (E (all ++ bs), len (all ++ bs)).
Proof.
  unfold append_booleans.
  destruct (fill_partial_spec bs all) as (taken & rest & Ebs & Ef & Hr). rewrite Ef, Ebs.
  destruct rest as [|r rest]; [rewrite app_nil_r; reflexivity|].
  destruct Hr as [Hr|Hr]; [discriminate|].
  assert (exists k, length (all ++ taken) = (8 * k)%nat) as [k Hk].
  { exists (Nat.div (length (all ++ taken)) 8).
    pose proof (Nat.div_mod (length (all ++ taken)) 8 ltac:(lia)) as DM.
    unfold len in Hr. change 8 with (N.of_nat 8) in Hr. rewrite <- Nat2N.inj_mod in Hr.
    change 0 with (N.of_nat 0) in Hr. apply Nat2N.inj in Hr. lia. }
  rewrite (app_assoc all taken), (E_app_aligned k (all ++ taken)) by exact Hk.
  f_equal. unfold len. rewrite !app_length. cbn [length]. lia.
Qed.

Example append_booleans_ex :
  append_booleans (E [1;0;1]) 3 [1;1;0;0;0;1;1] = (E [1;0;1;1;1;0;0;0;1;1], 10).
Proof. vm_compute. reflexivity. Qed.
