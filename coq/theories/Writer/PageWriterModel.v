(** Model of src/writer/page_writer.c (after the repairs 68c3324, d4e153e, ce91fbc):

      carquet_page_writer_create / reset      [pw_init]
      carquet_page_writer_add_values          [add_values]     null counting, level collection, PLAIN append,
                                                               page statistics, num_values
      append_booleans                         [append_booleans]
      encode_levels                           [encode_levels]  4-byte length prefix + RLE/bit-packed hybrid
      carquet_page_writer_finalize            [finalize]       body = rep levels ++ def levels ++ values,
                                                               compression, CRC, page header
      carquet_page_writer_estimated_size      [estimated_size]

    A value is the byte image of the C object ([TableSpec.value]); the typed arrays of the C API are lists of
    such images.  The compressor and the Thrift page-header encoder are section variables: the proofs
    (WriterProofs.v) assume their round trips, the extraction (Extract_writer.v) instantiates them with the
    concrete encoders.  Allocation failures (C19) and the 2^31 truncations of the size fields are not modelled:
    the theorems carry the corresponding size hypotheses. *)
From Coq Require Import NArith ZArith List Bool.
From Carquet Require Import Base.Res Gen.Enums_gen Gen.Writer_gen Enc.DeltaBits Enc.PlainModel Enc.RleModel Util.Crc32Model
     Stats.Order Stats.StatsBuilderModel Writer.TableSpec.
Import ListNotations.
Local Open Scope N_scope.

(** bit_width_for_max *)
Fixpoint bit_width_fuel (fuel : nat) (v : N) : nat :=
  match fuel with
  | O => O
  | S f => if v =? 0 then O else S (bit_width_fuel f (N.shiftr v 1))
  end.
Definition bit_width_for_max (max_level : N) : nat := bit_width_fuel 16 max_level.

Definition le32 (x : N) : list N := le_bytes_f 4 (x mod 2 ^ 32).

(** encode_levels(levels, count, max_level, output): what is appended to [output] *)
Definition encode_levels (max_level : N) (levels : list N) : list N :=
  if max_level =? 0 then []
  else let rle := encode_all (bit_width_for_max max_level) levels in
       le32 (len rle) ++ rle.

(** what the header encoder is given (the fields carquet_page_writer_finalize writes) *)
Record page_hdr : Type := mkhdr {
  h_uncompressed : N;
  h_compressed : N;
  h_crc : N;
  h_num_values : N;
  h_stats : option pstats
}.

(** the physical type as the statistics model names it *)
Definition stats_type (t : TableSpec.ptype) : Order.ptype :=
  match t with
  | TableSpec.TBool => Order.TBoolean | TableSpec.TInt32 => Order.TInt32 | TableSpec.TInt64 => Order.TInt64
  | TableSpec.TFloat => Order.TFloat | TableSpec.TDouble => Order.TDouble
  | TableSpec.TByteArray => Order.TByteArray | TableSpec.TFlba => Order.TFlba
  end.

Record pw : Type := mkpw {
  p_col : column;                 (* type, type_length; max_def_level = max_def p_col, max_rep_level = 0 *)
  p_values : list N;              (* values_buffer *)
  p_defs : list N;                (* def_levels_buffer: the raw levels of the page *)
  p_num_values : N;
  p_num_booleans : N;
  p_stats : pwriter               (* num_nulls, has_min_max, min_value, max_value *)
}.

Definition pw_init (c : column) : pw :=
  mkpw c [] [] 0 0 (pw_create (stats_type (c_type c)) (Z.of_N (max_def c))).

(** values_buffer.data[size - 1] |= mask *)
Fixpoint or_last (l : list N) (m : N) : list N :=
  match l with
  | [] => []
  | [x] => [N.lor x m]
  | x :: t => x :: or_last t m
  end.

(** the while loop of append_booleans: continue in the partly filled last byte *)
Fixpoint fill_partial (vals : list N) (nb : N) (bs : list N) : list N * N * list N :=
  match bs with
  | [] => (vals, nb, [])
  | b :: tl =>
      if N.land nb 7 =? 0 then (vals, nb, bs)
      else fill_partial (if b =? 0 then vals else or_last vals (2 ^ N.land nb 7)) (nb + 1) tl
  end.

Definition append_booleans (vals : list N) (nb : N) (bs : list N) : list N * N :=
  let '(v1, nb1, rest) := fill_partial vals nb bs in
  match rest with
  | [] => (v1, nb1)
  | _ => (v1 ++ plain_encode_boolean rest, nb1 + len rest)
  end.

Definition num (v : value) : N := le_num_f v.

(** the PLAIN bytes appended for [vals] (all types but BOOLEAN) *)
Definition plain_append (t : TableSpec.ptype) (vals : list value) : list N :=
  match t with
  | TableSpec.TBool => []
  | TableSpec.TInt32 => plain_encode_int32 (map num vals)
  | TableSpec.TInt64 => plain_encode_int64 (map num vals)
  | TableSpec.TFloat => plain_encode_float (map num vals)
  | TableSpec.TDouble => plain_encode_double (map num vals)
  | TableSpec.TByteArray => plain_encode_byte_array vals
  | TableSpec.TFlba => plain_encode_flba (concat vals)
  end.

(** carquet_page_writer_add_values(writer, values, num_values, def_levels, NULL).
    [b_vals] is the values array: the C code reads its first num_non_null elements. *)
Definition add_values (w : pw) (b : batch) : res pw :=
  let md := max_def (p_col w) in
  let n := b_nrows b in
  (* the levels the C code reads: def_levels[0 .. num_values) when the pointer is given and max_def_level > 0 *)
  let ds := if 0 <? md then match b_defs b with Some d => Some (firstn n d) | None => None end else None in
  if (0 <? md) && match b_defs b with Some d => Nat.ltb (length d) n | None => false end then Fault OobRead else
  let non_null := match ds with Some d => count_eq md d | None => n end in
  if Nat.ltb (length (b_vals b)) non_null then Fault OobRead else
  let vals := firstn non_null (b_vals b) in
  let defs' :=
    if 0 <? md then match ds with Some d => p_defs w ++ d | None => p_defs w ++ repeat md n end
    else p_defs w in
  let '(values', nb') :=
    match c_type (p_col w) with
    | TableSpec.TBool => append_booleans (p_values w) (p_num_booleans w) (map num vals)
    | t => (p_values w ++ plain_append t vals, p_num_booleans w)
    end in
  let st' := pw_add_values (p_stats w) vals (Z.of_nat n)
               (match ds with Some d => Some (map Z.of_N d) | None => None end) in
  Ok (mkpw (p_col w) values' defs' (p_num_values w + N.of_nat n) nb' st').

(** carquet_page_writer_estimated_size *)
Definition estimated_levels_size (count : N) (max_level : N) : N :=
  if count =? 0 then 0
  else Writer_LEVEL_PREFIX + (count * N.of_nat (bit_width_for_max max_level) + Writer_LEVEL_ROUND) / Writer_LEVEL_DIV.

Definition estimated_size (w : pw) : N :=
  len (p_values w) + estimated_levels_size (len (p_defs w)) (max_def (p_col w)) + Writer_PAGE_OVERHEAD.

Section Finalize.
  (** compress_data for the writer's codec: bytes in, bytes out *)
  Variable compress : list N -> list N.
  (** the Thrift encoding of the PageHeader that carquet_page_writer_finalize emits *)
  Variable header : page_hdr -> list N.

  (** the uncompressed page: rep levels (none for flat columns) ++ def levels ++ values *)
  Definition page_body (w : pw) : list N :=
    (if len (p_defs w) =? 0 then [] else encode_levels (max_def (p_col w)) (p_defs w)) ++ p_values w.

  Definition page_header_of (w : pw) : page_hdr :=
    let body := page_body w in
    let comp := compress body in
    mkhdr (len body) (len comp) (crc32 comp) (p_num_values w) (pw_statistics (p_stats w)).

  (** carquet_page_writer_finalize: the page (header ++ compressed body), uncompressed size, compressed size *)
  Definition finalize (w : pw) : list N * N * N :=
    let body := page_body w in
    let comp := compress body in
    (header (page_header_of w) ++ comp, len body, len comp).
End Finalize.
