(** C01: the codec premise of the round-trip theorems discharged for the codecs carquet implements itself.

    [codec_compress] (Writer/WriterThriftModel.v) is compress_data: UNCOMPRESSED copies, SNAPPY and LZ4 / LZ4_RAW
    run carquet's own compressors with their concrete hash tables.  [codec_decompress] is decompress_page.
    With the C09 theorems of the compression owner (snappy_roundtrip_thm, lz4_roundtrip_thm) the two codec
    hypotheses of ChunkProofs / FileProofs hold for these four codec values; GZIP and ZSTD (zlib, libzstd) stay
    assumptions. *)
From Coq Require Import NArith ZArith List Bool Lia FMapPositive.
From Carquet Require Import Base.Res Gen.Enums_gen Enc.DeltaBits
  Comp.CompBase Comp.CompMem Comp.SnappyModel Comp.SnappyProofs Comp.Lz4Model Comp.Lz4Proofs
  Writer.TableSpec Writer.PageWriterModel Writer.FileWriterModel Writer.WriterThriftModel
  Reader.ReadAllModel Writer.LevelProofs Writer.ChunkProofs Writer.FileProofs.
Import ListNotations.
Local Open Scope N_scope.

Definition own_codec (codec : Z) : Prop :=
  codec = E_CARQUET_COMPRESSION_UNCOMPRESSED \/ codec = E_CARQUET_COMPRESSION_SNAPPY \/
  codec = E_CARQUET_COMPRESSION_LZ4 \/ codec = E_CARQUET_COMPRESSION_LZ4_RAW.

Lemma own_uncompressed codec : Z.eqb codec E_CARQUET_COMPRESSION_UNCOMPRESSED = true ->
  forall b, codec_compress codec b = b.
Proof. intros H b. apply Z.eqb_eq in H. subst codec. reflexivity. Qed.

Lemma own_roundtrip codec : own_codec codec -> Z.eqb codec E_CARQUET_COMPRESSION_UNCOMPRESSED = false ->
  forall b, is_bytes b -> len b < 2 ^ 31 -> codec_decompress codec (codec_compress codec b) (len b) = Ok b.
Proof.
  intros Ho Hu b Hb Hl. destruct Ho as [-> | [-> | [-> | ->]]]; [discriminate| | |].
  - (* SNAPPY *)
    unfold codec_compress, codec_decompress. cbn [Z.eqb E_CARQUET_COMPRESSION_SNAPPY Pos.eqb].
    destruct (snappy_roundtrip_thm _ (hash_look snappy_hash b) (hash_ins snappy_hash b) (PositiveMap.empty N) b Hb)
      as (out & Ec & Ed); [unfold nlen; unfold len in Hl; lia|].
    unfold SnappyModel.compress. rewrite Ec. exact Ed.
  - (* LZ4 *)
    unfold codec_compress, codec_decompress.
    change (Z.eqb E_CARQUET_COMPRESSION_LZ4 E_CARQUET_COMPRESSION_SNAPPY) with false.
    change (Z.eqb E_CARQUET_COMPRESSION_LZ4 E_CARQUET_COMPRESSION_LZ4) with true. cbn [orb].
    destruct (lz4_roundtrip_thm _ (hash_look lz4_hash b) (hash_ins lz4_hash b) (PositiveMap.empty N) b
                (Lz4Model.compress_bound (N.of_nat (length b))) Hb) as (out & Ec & _ & Ed); [unfold nlen; lia|].
    unfold Lz4Model.compress. rewrite Ec. exact Ed.
  - (* LZ4_RAW *)
    unfold codec_compress, codec_decompress.
    change (Z.eqb E_CARQUET_COMPRESSION_LZ4_RAW E_CARQUET_COMPRESSION_SNAPPY) with false.
    change (Z.eqb E_CARQUET_COMPRESSION_LZ4_RAW E_CARQUET_COMPRESSION_LZ4) with false.
    change (Z.eqb E_CARQUET_COMPRESSION_LZ4_RAW E_CARQUET_COMPRESSION_LZ4_RAW) with true. cbn [orb].
    destruct (lz4_roundtrip_thm _ (hash_look lz4_hash b) (hash_ins lz4_hash b) (PositiveMap.empty N) b
                (Lz4Model.compress_bound (N.of_nat (length b))) Hb) as (out & Ec & _ & Ed); [unfold nlen; lia|].
    unfold Lz4Model.compress. rewrite Ec. exact Ed.
Qed.

Lemma own_bytes codec : own_codec codec -> forall b, is_bytes b -> len b < 2 ^ 31 -> is_bytes (codec_compress codec b).
Proof.
  intros Ho b Hb Hl. destruct Ho as [-> | [-> | [-> | ->]]].
  - exact Hb.
  - unfold codec_compress. cbn [Z.eqb E_CARQUET_COMPRESSION_SNAPPY Pos.eqb].
    destruct (snappy_compress_valid_thm _ (hash_look snappy_hash b) (hash_ins snappy_hash b) (PositiveMap.empty N) b Hb)
      as (out & Ec & _ & Bo & _); [unfold nlen; unfold len in Hl; lia|].
    unfold SnappyModel.compress. rewrite Ec. exact Bo.
  - unfold codec_compress.
    change (Z.eqb E_CARQUET_COMPRESSION_LZ4 E_CARQUET_COMPRESSION_SNAPPY) with false.
    change (Z.eqb E_CARQUET_COMPRESSION_LZ4 E_CARQUET_COMPRESSION_LZ4) with true. cbn [orb].
    destruct (lz4_compress_valid_thm _ (hash_look lz4_hash b) (hash_ins lz4_hash b) (PositiveMap.empty N) b
                (Lz4Model.compress_bound (N.of_nat (length b))) Hb) as (out & Ec & _ & Bo & _); [unfold nlen; lia|].
    unfold Lz4Model.compress. rewrite Ec. exact Bo.
  - unfold codec_compress.
    change (Z.eqb E_CARQUET_COMPRESSION_LZ4_RAW E_CARQUET_COMPRESSION_SNAPPY) with false.
    change (Z.eqb E_CARQUET_COMPRESSION_LZ4_RAW E_CARQUET_COMPRESSION_LZ4) with false.
    change (Z.eqb E_CARQUET_COMPRESSION_LZ4_RAW E_CARQUET_COMPRESSION_LZ4_RAW) with true. cbn [orb].
    destruct (lz4_compress_valid_thm _ (hash_look lz4_hash b) (hash_ins lz4_hash b) (PositiveMap.empty N) b
                (Lz4Model.compress_bound (N.of_nat (length b))) Hb) as (out & Ec & _ & Bo & _); [unfold nlen; lia|].
    unfold Lz4Model.compress. rewrite Ec. exact Bo.
Qed.

(** C01 for UNCOMPRESSED, SNAPPY, LZ4 and LZ4_RAW files: only the Thrift round trips remain as premises *)
Theorem write_read_roundtrip_own_codecs :
  forall (header : page_hdr -> list N) (parse_header : list N -> res (hdr_core * N))
         (footer : file_meta -> list N) (parse_footer : list N -> res file_meta) (verify : bool)
         (sch : list column) (opts : options),
  own_codec (o_codec opts) ->
  (forall h rest, hdr_ok h -> parse_header (header h ++ rest) = Ok (core_of h, len (header h))) ->
  (forall h, hdr_ok h -> len (header h) <= 256) -> (forall h, hdr_ok h -> 0 < len (header h)) ->
  (forall m, footer_dom m -> parse_footer (footer m) = Ok m) ->
  forallb column_ok sch = true ->
  forall ops t, table_of sch ops = Some t ->
  schema_fits sch = true -> N.of_nat (S (newrgs ops)) <= MAX_ROW_GROUPS ->
  exists sts w, run_writer (codec_compress (o_codec opts)) header footer sch opts ops = Ok (sts, w, true)
    /\ all_ok sts = true /\
    (Forall (fun g => Forall small_chunk (rg_chunks g)) (f_groups w) ->
     meta_small (metadata_of w) -> len (footer (metadata_of w)) < 2 ^ 32 ->
     exists r, read_all (o_codec opts) (codec_decompress (o_codec opts)) parse_header parse_footer verify (f_out w) = Ok r
               /\ drop_empty r = result_of_table t).
Proof.
  intros header parse_header footer parse_footer verify sch opts Ho H1 H2 H3 H4 Hs ops t Ht Hf Hl.
  apply (write_read_roundtrip (codec_compress (o_codec opts)) (codec_decompress (o_codec opts))
           header parse_header footer parse_footer verify sch opts
           (own_uncompressed (o_codec opts)) (own_roundtrip (o_codec opts) Ho) (own_bytes (o_codec opts) Ho)
           H1 H2 H3 H4 Hs ops t Ht Hf Hl).
Qed.

(** The conclusion of the round-trip theorem evaluated with the CONCRETE encoders and parsers (carquet's Thrift
    page header and footer, Snappy pages): two columns (OPTIONAL INT32, REQUIRED BOOLEAN), two row groups, values
    split over several calls, one call without definition levels, page size 1 (every call its own page). *)
Example write_read_concrete_ex :
  let c0 := mkcol [97] TInt32 Optional 0 in
  let c1 := mkcol [98; 99] TBool Required 0 in
  let ops := [WBatch 0 (mkbatch [[1;0;0;0]] 2 (Some [1;0])); WBatch 1 (mkbatch [[1];[0]] 2 None);
              WBatch 0 (mkbatch [[255;255;255;127]] 1 None); WBatch 1 (mkbatch [[1]] 1 None); WNewRowGroup;
              WBatch 1 (mkbatch [[0]] 1 None); WBatch 0 (mkbatch [] 1 (Some [0])); WClose] in
  match run_concrete [c0; c1] (mkopt E_CARQUET_COMPRESSION_SNAPPY 1 None) ops, table_of [c0; c1] ops with
  | Ok (sts, file, true), Some t =>
      all_ok sts = true /\
      match read_concrete true file with
      | Ok r => drop_empty r = result_of_table t
      | _ => False
      end
  | _, _ => False
  end.
Proof. vm_compute. split; reflexivity. Qed.
