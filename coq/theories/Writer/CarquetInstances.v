(** C01: the layered round-trip theorems for carquet's own Thrift code - no Thrift premise left.

    ChunkProofs / FileProofs are parametric in the page-header and footer encoders and parsers.  Here they are
    instantiated with carquet's: [thrift_page_header] / [concrete_parse_header] (premises discharged in
    ThriftHeader.v) and [thrift_footer] / [concrete_parse_footer] (ThriftFooter.v).
      - [chunk_roundtrip_carquet], [write_read_roundtrip_carquet]: any codec; the three codec facts stay premises
        (this is the form for GZIP and ZSTD, whose compressors are zlib and libzstd);
      - [chunk_roundtrip_carquet_own], [write_read_roundtrip_carquet_own]: UNCOMPRESSED, SNAPPY, LZ4, LZ4_RAW with
        carquet's own compressors - no premise about any encoder or codec, only the size bounds. *)
From Coq Require Import NArith ZArith List Bool Lia.
From Carquet Require Import Base.Res Gen.Enums_gen Enc.DeltaBits
  Writer.TableSpec Writer.PageWriterModel Writer.ColumnWriterModel Writer.FileWriterModel Writer.WriterThriftModel
  Reader.ReadAllModel Writer.LevelProofs Writer.WriterProofs Writer.ChunkProofs Writer.FileProofs Writer.CodecInstances
  Writer.ThriftHeader Writer.ThriftFooter.
Import ListNotations.
Local Open Scope N_scope.

Theorem chunk_roundtrip_carquet :
  forall (codec : Z) (compress : list N -> list N) (decompress : list N -> N -> res (list N)) (verify : bool),
  (Z.eqb codec E_CARQUET_COMPRESSION_UNCOMPRESSED = true -> forall b, compress b = b) ->
  (Z.eqb codec E_CARQUET_COMPRESSION_UNCOMPRESSED = false ->
   forall b, is_bytes b -> len b < 2 ^ 31 -> decompress (compress b) (len b) = Ok b) ->
  (forall b, is_bytes b -> len b < 2 ^ 31 -> is_bytes (compress b)) ->
  forall (c : column) (page_size : N) (bs : list batch) (w : cw),
  column_ok c = true -> forallb (batch_ok c) bs = true ->
  cw_write_all compress thrift_page_header (cw_init c page_size) bs = Ok w ->
  let f := cw_finalize compress thrift_page_header w in
  w_total_values f < 2 ^ 31 -> w_total_uncompressed f < 2 ^ 31 -> len (w_buf f) < 2 ^ 31 ->
  w_total_values f = len (rows_of c bs) /\
  (forall pre post fuel, (length (w_buf f) <= fuel)%nat ->
     read_chunk codec decompress concrete_parse_header verify fuel c (pre ++ w_buf f ++ post) (len pre) (w_total_values f)
     = Ok (rows_of c bs)).
Proof.
  intros codec compress decompress verify H1 H2 H3.
  exact (chunk_roundtrip codec compress decompress thrift_page_header concrete_parse_header verify H1 H2 H3
           thrift_header_roundtrip thrift_header_small thrift_header_nonempty).
Qed.

Theorem chunk_roundtrip_carquet_own :
  forall (codec : Z) (verify : bool), own_codec codec ->
  forall (c : column) (page_size : N) (bs : list batch) (w : cw),
  column_ok c = true -> forallb (batch_ok c) bs = true ->
  cw_write_all (codec_compress codec) thrift_page_header (cw_init c page_size) bs = Ok w ->
  let f := cw_finalize (codec_compress codec) thrift_page_header w in
  w_total_values f < 2 ^ 31 -> w_total_uncompressed f < 2 ^ 31 -> len (w_buf f) < 2 ^ 31 ->
  w_total_values f = len (rows_of c bs) /\
  (forall pre post fuel, (length (w_buf f) <= fuel)%nat ->
     read_chunk codec (codec_decompress codec) concrete_parse_header verify fuel c (pre ++ w_buf f ++ post) (len pre) (w_total_values f)
     = Ok (rows_of c bs)).
Proof.
  intros codec verify Ho.
  exact (chunk_roundtrip_carquet codec (codec_compress codec) (codec_decompress codec) verify
           (own_uncompressed codec) (own_roundtrip codec Ho) (own_bytes codec Ho)).
Qed.

Theorem write_read_roundtrip_carquet :
  forall (compress : list N -> list N) (decompress : list N -> N -> res (list N)) (verify : bool)
         (sch : list column) (opts : options),
  (Z.eqb (o_codec opts) E_CARQUET_COMPRESSION_UNCOMPRESSED = true -> forall b, compress b = b) ->
  (Z.eqb (o_codec opts) E_CARQUET_COMPRESSION_UNCOMPRESSED = false ->
   forall b, is_bytes b -> len b < 2 ^ 31 -> decompress (compress b) (len b) = Ok b) ->
  (forall b, is_bytes b -> len b < 2 ^ 31 -> is_bytes (compress b)) ->
  forallb column_ok sch = true ->
  forall ops t, table_of sch ops = Some t ->
  schema_fits sch = true -> N.of_nat (S (newrgs ops)) <= MAX_ROW_GROUPS ->
  exists sts w, run_writer compress thrift_page_header thrift_footer sch opts ops = Ok (sts, w, true)
    /\ all_ok sts = true /\
    (Forall (fun g => Forall small_chunk (rg_chunks g)) (f_groups w) ->
     meta_small (metadata_of w) -> len (thrift_footer (metadata_of w)) < 2 ^ 32 ->
     exists r, read_all (o_codec opts) decompress concrete_parse_header concrete_parse_footer verify (f_out w) = Ok r
               /\ drop_empty r = result_of_table t).
Proof.
  intros compress decompress verify sch opts H1 H2 H3.
  exact (write_read_roundtrip compress decompress thrift_page_header concrete_parse_header thrift_footer concrete_parse_footer
           verify sch opts H1 H2 H3 thrift_header_roundtrip thrift_header_small thrift_header_nonempty thrift_footer_roundtrip).
Qed.

(** UNCOMPRESSED, SNAPPY, LZ4, LZ4_RAW: the statement is about [run_concrete]'s writer - every piece is carquet's *)
Theorem write_read_roundtrip_carquet_own :
  forall (verify : bool) (sch : list column) (opts : options), own_codec (o_codec opts) ->
  forallb column_ok sch = true ->
  forall ops t, table_of sch ops = Some t ->
  schema_fits sch = true -> N.of_nat (S (newrgs ops)) <= MAX_ROW_GROUPS ->
  exists sts w, run_writer (codec_compress (o_codec opts)) thrift_page_header thrift_footer sch opts ops = Ok (sts, w, true)
    /\ all_ok sts = true /\
    (Forall (fun g => Forall small_chunk (rg_chunks g)) (f_groups w) ->
     meta_small (metadata_of w) -> len (thrift_footer (metadata_of w)) < 2 ^ 32 ->
     exists r, read_all (o_codec opts) (codec_decompress (o_codec opts)) concrete_parse_header concrete_parse_footer verify (f_out w) = Ok r
               /\ drop_empty r = result_of_table t).
Proof.
  intros verify sch opts Ho.
  exact (write_read_roundtrip_carquet (codec_compress (o_codec opts)) (codec_decompress (o_codec opts)) verify sch opts
           (own_uncompressed (o_codec opts)) (own_roundtrip (o_codec opts) Ho) (own_bytes (o_codec opts) Ho)).
Qed.

(** the three page-header facts in one statement *)
Lemma page_header_carquet : forall h rest, hdr_ok h ->
  concrete_parse_header (thrift_page_header h ++ rest) = Ok (core_of h, len (thrift_page_header h)) /\
  0 < len (thrift_page_header h) <= 256.
Proof.
  intros h rest H. split; [exact (thrift_header_roundtrip h rest H)|].
  split; [exact (thrift_header_nonempty h H) | exact (thrift_header_small h H)].
Qed.
