(** Model of src/writer/row_group_writer.c and src/writer/file_writer.c (after the repairs e43f617, 476bbfd):

      carquet_writer_create                   [fw_init]           schema copied, options kept
      ensure_header_written                   [ensure_header]     "PAR1", file_offset = 4
      ensure_row_group                        [ensure_row_group]  one column writer per schema column
      carquet_writer_write_batch              [fw_write_batch]    column index check, header, row group, column
                                                                  writer call, rows counted on column 0
      carquet_row_group_writer_finalize       [finalize_columns]  chunks in column order, offsets, totals
      flush_row_group                         [flush_row_group]   chunk bytes to the file, row group metadata
      carquet_writer_new_row_group            [fw_new_row_group]
      build_file_metadata + carquet_writer_close  [fw_close]      footer, footer length, "PAR1"
      a whole history                         [run_writer]

    The stream is the list of bytes handed to fwrite, in order ([f_out]); stream failures (C18) and allocation
    failures (C19) are not modelled here.  The footer encoder is a section variable (the proofs assume its
    round trip, the extraction instantiates Thrift/ParquetMetaModel.write_file_metadata). *)
From Coq Require Import NArith ZArith List Bool.
From Carquet Require Import Base.Res Gen.Enums_gen Gen.Consts_gen Gen.Writer_gen Enc.DeltaBits
     Writer.TableSpec Writer.PageWriterModel Writer.ColumnWriterModel.
Import ListNotations.
Local Open Scope N_scope.

Definition magic : list N := [80; 65; 82; 49].       (* "PAR1" *)

(** parquet_column_chunk_t / parquet_column_metadata_t as flush_row_group fills them *)
Record chunk_meta : Type := mkcm {
  cm_col : column;                 (* type, path_in_schema = [name] *)
  cm_codec : Z;
  cm_file_offset : N;              (* = data_page_offset *)
  cm_num_values : N;
  cm_total_compressed : N;
  cm_total_uncompressed : N
}.

Record rg_meta : Type := mkrg {
  rg_chunks : list chunk_meta;
  rg_num_rows : N;
  rg_total_byte_size : N;
  rg_file_offset : N;
  rg_total_compressed : N;
  rg_ordinal : option N            (* has_ordinal / ordinal: present while it fits the format's i16 *)
}.

Record file_meta : Type := mkfm {
  fm_version : N;
  fm_schema : list column;
  fm_num_rows : N;
  fm_groups : list rg_meta;
  fm_created_by : list N
}.

Record options : Type := mkopt {
  o_codec : Z;                     (* carquet_compression_t *)
  o_page_size : N;
  o_created_by : option (list N)   (* NULL -> "Carquet" *)
}.

Record fw : Type := mkfw {
  f_schema : list column;
  f_opts : options;
  f_cur : option (list cw);        (* current_row_group: its column writers *)
  f_cur_rows : N;                  (* current_row_group_rows *)
  f_groups : list rg_meta;         (* finished row groups, file order *)
  f_offset : N;                    (* file_offset *)
  f_total_rows : N;
  f_header_written : bool;
  f_out : list N                   (* everything written to the stream so far *)
}.

Definition fw_init (sch : list column) (o : options) : fw := mkfw sch o None 0 [] 0 0 false [].

Definition OK : Z := E_CARQUET_OK.

(** the limits of carquet's own metadata parser (parquet_types.c), which the writer stays within *)
Definition MAX_ROW_GROUPS : N := Pq_CARQUET_MAX_ROW_GROUPS.
Definition MAX_SCHEMA_ELEMENTS : N := Pq_CARQUET_MAX_SCHEMA_ELEMENTS.
Definition MAX_COLUMNS_PER_RG : N := Pq_CARQUET_MAX_COLUMNS_PER_RG.

(** add_column_internal refuses the column that would exceed them *)
Definition schema_fits (sch : list column) : bool :=
  (len sch + 1 <=? MAX_SCHEMA_ELEMENTS) && (len sch <=? MAX_COLUMNS_PER_RG).

(** RowGroup.ordinal is an i16 *)
Definition ordinal_of (n : N) : option N := if n <=? 32767 then Some n else None.

(** the codec tag recorded in the footer: carquet's LZ4 pages are bare blocks = LZ4_RAW *)
Definition codec_tag (codec : Z) : Z :=
  if Z.eqb codec E_CARQUET_COMPRESSION_LZ4 then E_CARQUET_COMPRESSION_LZ4_RAW else codec.

Definition carquet_name : list N := Writer_DEFAULT_CREATED_BY.            (* "Carquet" *)
Definition footer_version : N := Writer_FOOTER_VERSION.                   (* metadata->version = 2 *)

Fixpoint set_nth {A} (n : nat) (x : A) (l : list A) : list A :=
  match l with
  | [] => []
  | y :: t => match n with O => x :: t | S n' => y :: set_nth n' x t end
  end.

Section FileWriter.
  Variable compress : list N -> list N.
  Variable header : page_hdr -> list N.
  Variable footer : file_meta -> list N.

  Definition ensure_header (w : fw) : fw :=
    if f_header_written w then w
    else mkfw (f_schema w) (f_opts w) (f_cur w) (f_cur_rows w) (f_groups w) 4 (f_total_rows w) true (f_out w ++ magic).

  Definition ensure_row_group (w : fw) : fw :=
    match f_cur w with
    | Some _ => w
    | None => mkfw (f_schema w) (f_opts w)
                   (Some (map (fun c => cw_init c (o_page_size (f_opts w))) (f_schema w))) 0
                   (f_groups w) (f_offset w) (f_total_rows w) (f_header_written w) (f_out w)
    end.

  (** carquet_writer_write_batch -> (state, status) *)
  Definition fw_write_batch (w : fw) (col : nat) (b : batch) : res (fw * Z) :=
    if Nat.leb (length (f_schema w)) col then Ok (w, E_CARQUET_ERROR_INVALID_ARGUMENT) else
    (* ensure_row_group: a row group beyond the parser's limit is not started *)
    if match f_cur w with None => MAX_ROW_GROUPS <=? len (f_groups w) | Some _ => false end
    then Ok (ensure_header w, E_CARQUET_ERROR_INVALID_METADATA) else
    let w1 := ensure_row_group (ensure_header w) in
    match f_cur w1 with
    | None => Fault NullDeref                                   (* cannot happen: ensure_row_group *)
    | Some cws =>
      match nth_error cws col with
      | None => Fault OobRead
      | Some cwr =>
        match cw_write_batch compress header cwr b with
        | Ok cwr' =>
          Ok (mkfw (f_schema w1) (f_opts w1) (Some (set_nth col cwr' cws))
                   (if Nat.eqb col 0 then f_cur_rows w1 + N.of_nat (b_nrows b) else f_cur_rows w1)
                   (f_groups w1) (f_offset w1) (f_total_rows w1) (f_header_written w1) (f_out w1), OK)
        | Err e => Ok (w1, e)
        | Fault f => Fault f
        end
      end
    end.

  (** carquet_row_group_writer_finalize: chunk bytes and metadata, in column order, from [offset] *)
  Fixpoint finalize_columns (codec : Z) (cws : list cw) (offset : N) : list N * list chunk_meta * N :=
    match cws with
    | [] => ([], [], 0)
    | cwr :: rest =>
      let f := cw_finalize compress header cwr in
      let size := len (w_buf f) in
      let '(data, metas, tot_u) := finalize_columns codec rest (offset + size) in
      (w_buf f ++ data,
       mkcm (p_col (w_page f)) (codec_tag codec) offset (w_total_values f) size (w_total_uncompressed f) :: metas,
       w_total_uncompressed f + tot_u)
    end.

  Definition flush_row_group (w : fw) : fw :=
    match f_cur w with
    | None => w
    | Some cws =>
      let '(data, metas, tot_u) := finalize_columns (o_codec (f_opts w)) cws (f_offset w) in
      let size := len data in
      let rg := mkrg metas (f_cur_rows w) tot_u (f_offset w) size (ordinal_of (len (f_groups w))) in
      mkfw (f_schema w) (f_opts w) None 0 (f_groups w ++ [rg]) (f_offset w + size)
           (f_total_rows w + f_cur_rows w) (f_header_written w) (f_out w ++ data)
    end.

  Definition fw_new_row_group (w : fw) : fw := flush_row_group (ensure_header w).

  Definition metadata_of (w : fw) : file_meta :=
    mkfm footer_version (f_schema w) (f_total_rows w) (f_groups w)
         (match o_created_by (f_opts w) with Some s => s | None => carquet_name end).

  (** carquet_writer_close: the complete file *)
  Definition fw_close (w : fw) : fw :=
    let w1 := flush_row_group (ensure_header w) in
    let ft := footer (metadata_of w1) in
    mkfw (f_schema w1) (f_opts w1) None 0 (f_groups w1) (f_offset w1) (f_total_rows w1) true
         (f_out w1 ++ ft ++ le32 (len ft) ++ magic).

  (** a history of calls; stops at the first close (the writer is freed by it).
      Result: the statuses of the calls made, the final state, whether close was reached. *)
  Fixpoint run_ops (w : fw) (ops : list wop) (acc : list Z) : res (list Z * fw * bool) :=
    match ops with
    | [] => Ok (rev acc, w, false)
    | WBatch col b :: rest =>
        match fw_write_batch w col b with
        | Ok (w', st) => run_ops w' rest (st :: acc)
        | Err e => Err e
        | Fault f => Fault f
        end
    | WNewRowGroup :: rest => run_ops (fw_new_row_group w) rest (OK :: acc)
    | WClose :: _ => Ok (rev (OK :: acc), fw_close w, true)
    end.

  (** carquet_writer_create (a schema beyond the parser's limits is refused), then the history *)
  Definition run_writer (sch : list column) (o : options) (ops : list wop) : res (list Z * fw * bool) :=
    if schema_fits sch then run_ops (fw_init sch o) ops [] else Err E_CARQUET_ERROR_INVALID_SCHEMA.

  Definition all_ok (sts : list Z) : bool := forallb (Z.eqb OK) sts.
End FileWriter.
