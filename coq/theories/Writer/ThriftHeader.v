(** C01: the page-header premises of the round-trip theorems discharged for carquet's own Thrift code.

    [thrift_page_header] (Writer/WriterThriftModel.v) mirrors the thrift_write_* calls of
    carquet_page_writer_finalize.  For every header in the writer's domain ([hdr_ok]):
      - its bytes are exactly the canonical pieces  field header ++ zig-zag varint ... ([header_bytes_spec]),
        at most 142 bytes ([thrift_header_small]), at least one ([thrift_header_nonempty]);
      - they are a legal compact-protocol encoding of the header value ([header_encodes]), so the thrift owner's
        parse_accepts_framed applies whatever bytes follow;
      - the record the parser builds is read by [concrete_parse_header] as [core_of h]
        ([thrift_header_roundtrip]). *)
From Coq Require Import ZArith NArith List Bool Lia.
From Carquet Require Import Base.Res Gen.Consts_gen Gen.Enums_gen.
From Carquet Require Import Thrift.ThriftSpec Thrift.ThriftSpecProofs Thrift.ThriftModel Thrift.ThriftConform
  Thrift.ParquetMetaDesc Thrift.ParquetMetaModel Thrift.ParquetMetaSem Thrift.ParquetMetaRoundtrip.
From Carquet Require Import Stats.StatsBuilderModel Writer.PageWriterModel Reader.ReadAllModel
  Writer.WriterThriftModel.
From Carquet Require Writer.ChunkProofs Writer.WriterProofs Writer.LevelProofs.
Import ListNotations.
Local Open Scope N_scope.

Notation hdr_ok := ChunkProofs.hdr_ok.
Notation core_of := ChunkProofs.core_of.

(* ------------------------------------------------------------------ sequences of writer steps *)

Lemma seq_w_nil e : seq_w [] e = Ok e.
Proof. reflexivity. Qed.

Lemma seq_w_cons s rest e e1 : s e = Ok e1 -> seq_w (s :: rest) e = seq_w rest e1.
Proof. intros H. unfold seq_w. cbn [fold_left]. rewrite H. reflexivity. Qed.

(** [Steps e steps bs lf e']: running [steps] from [e] succeeds in [e'], having appended [bs], with stack [lf] *)
Definition Steps (e : encoder) (steps : list (encoder -> res encoder)) (bs : list N) (lf : list Z) (e' : encoder) : Prop :=
  seq_w steps e = Ok e' /\ wrote e e' bs lf.

Lemma steps_nil e : Steps e [] [] (e_lfid e) e.
Proof. split; [reflexivity|]. split; [rewrite app_nil_r; reflexivity|reflexivity]. Qed.

Lemma steps_cons e s rest e1 b1 lf1 b2 lf2 e2 :
  s e = Ok e1 -> wrote e e1 b1 lf1 -> Steps e1 rest b2 lf2 e2 -> Steps e (s :: rest) (b1 ++ b2) lf2 e2.
Proof.
  intros H W [R W2]. split; [rewrite (seq_w_cons s rest e e1 H); exact R|]. eapply wrote_trans; eassumption.
Qed.

Lemma steps_app e a b e1 b1 lf1 b2 lf2 e2 :
  Steps e a b1 lf1 e1 -> Steps e1 b b2 lf2 e2 -> Steps e (a ++ b) (b1 ++ b2) lf2 e2.
Proof.
  intros [R1 W1] [R2 W2]. split; [|eapply wrote_trans; eassumption].
  unfold seq_w in *. rewrite fold_left_app, R1. exact R2.
Qed.

(** field header + i32 *)
Lemma step_i32 e last st id z : e_lfid e = last :: st -> in_range 16 id -> in_range 16 last -> (-65521 < id - last)%Z ->
  in_range 32 z ->
  exists e2, Steps e [write_field_header T_I32 id; write_i32 z] (enc_fhdr last id 5 ++ uleb (zz z)) (id :: st) e2.
Proof.
  intros Hl Rid Rl Hd Rz.
  destruct (write_field_header_spec T_I32 id last st e ltac:(unfold T_I32; lia) Rid Rl Hd Hl) as (e1 & W1 & Wr1).
  destruct (write_int_spec 32 z e1 ltac:(lia) Rz) as (e2 & W2 & Wr2).
  exists e2. eapply steps_cons; [exact W1|exact Wr1|].
  replace (uleb (zz z)) with (uleb (zz z) ++ []) by apply app_nil_r.
  eapply steps_cons; [unfold write_i32, i32; exact W2| |].
  - destruct Wr1 as [_ L1]. rewrite L1 in Wr2. exact Wr2.
  - destruct Wr2 as [_ L2]. destruct Wr1 as [_ L1]. rewrite <- L1, <- L2. apply steps_nil.
Qed.

Lemma steps_lfid e a bs lf e' : Steps e a bs lf e' -> e_lfid e' = lf.
Proof. intros [_ [_ L]]. exact L. Qed.

Lemma step1 e s e1 b lf : s e = Ok e1 -> wrote e e1 b lf -> Steps e [s] b lf e1.
Proof.
  intros H W. replace b with (b ++ []) by apply app_nil_r.
  eapply steps_cons; [exact H|exact W|]. destruct W as [_ L]. rewrite <- L. apply steps_nil.
Qed.

(* ------------------------------------------------------------------ the bytes of a page header *)

Definition crc_field (h : page_hdr) : Z := i32 (Z.of_N (h_crc h)).

Definition stats_bytes (o : option pstats) : list N :=
  match o with
  | Some s =>
      enc_fhdr 4 5 12 ++
      (enc_fhdr 0 3 6 ++ uleb (zz (ps_null_count s))) ++
      (enc_fhdr 3 5 8 ++ uleb (N.of_nat (length (match ps_max_value s with Some b => b | None => [] end)))
                      ++ match ps_max_value s with Some b => b | None => [] end) ++
      (enc_fhdr 5 6 8 ++ uleb (N.of_nat (length (match ps_min_value s with Some b => b | None => [] end)))
                      ++ match ps_min_value s with Some b => b | None => [] end) ++
      [0]
  | None => []
  end.

Definition hdr_bytes (h : page_hdr) : list N :=
  (enc_fhdr 0 1 5 ++ uleb (zz 0)) ++
  (enc_fhdr 1 2 5 ++ uleb (zz (Z.of_N (h_uncompressed h)))) ++
  (enc_fhdr 2 3 5 ++ uleb (zz (Z.of_N (h_compressed h)))) ++
  (enc_fhdr 3 4 5 ++ uleb (zz (crc_field h))) ++
  enc_fhdr 4 5 12 ++
  (enc_fhdr 0 1 5 ++ uleb (zz (Z.of_N (h_num_values h)))) ++
  (enc_fhdr 1 2 5 ++ uleb (zz 0)) ++
  (enc_fhdr 2 3 5 ++ uleb (zz 3)) ++
  (enc_fhdr 3 4 5 ++ uleb (zz 3)) ++
  stats_bytes (h_stats h) ++ [0] ++ [0].

Lemma i32_in_range z : in_range 32 (i32 z).
Proof.
  unfold in_range, i32, scast. change (2 ^ (32 - 1))%Z with 2147483648%Z. change (2 ^ 32)%Z with 4294967296%Z.
  pose proof (Z.mod_pos_bound (z + 2147483648) 4294967296 ltac:(lia)). lia.
Qed.

Lemma nat_range31 (n : N) : n < 2 ^ 31 -> in_range 32 (Z.of_N n).
Proof. intros H. unfold in_range. change (2 ^ (32 - 1))%Z with 2147483648%Z. change (2 ^ 31) with 2147483648 in H. lia. Qed.

Ltac r16 := unfold in_range; change (2 ^ (16 - 1))%Z with 32768%Z; lia.

(** carquet_page_writer_finalize's header emission writes exactly [hdr_bytes h] *)
Lemma header_bytes_spec h : hdr_ok h -> thrift_page_header h = hdr_bytes h.
Proof.
  intros (Hu & Hc & Hcrc & Hnv & Hst).
  unfold thrift_page_header.
  (* the statistics struct *)
  assert (ST : forall e, e_lfid e = [4%Z; 5%Z] ->
             exists e', Steps e (match h_stats h with
                                 | Some s => [ write_field_header T_STRUCT 5; write_struct_begin;
                                               write_field_header T_I64 3; write_i64 (ps_null_count s);
                                               write_field_header T_BINARY 5; write_binary (ps_max_value s) (blen (ps_max_value s));
                                               write_field_header T_BINARY 6; write_binary (ps_min_value s) (blen (ps_min_value s));
                                               write_struct_end ]
                                 | None => [] end)
                              (stats_bytes (h_stats h)) (match h_stats h with Some _ => [5%Z; 5%Z] | None => [4%Z; 5%Z] end) e').
  { intros e Hl. destruct (h_stats h) as [s|]; [|exists e; rewrite <- Hl; apply steps_nil].
    cbn [ChunkProofs.stats_rec_ok] in Hst. destruct Hst as (Hnc & mn & mx & Emn & Emx & [Bmn Lmn] & [Bmx Lmx]).
    rewrite Emn, Emx. cbn [stats_bytes blen]. rewrite Emn, Emx.
    destruct (write_field_header_spec T_STRUCT 5 4 [5%Z] e ltac:(unfold T_STRUCT; lia) ltac:(r16) ltac:(r16) ltac:(lia) Hl) as (e1 & W1 & Wr1).
    destruct (write_struct_begin_spec e1) as (e2 & W2 & Wr2).
    { destruct Wr1 as [_ L]. rewrite L. vm_compute. reflexivity. }
    assert (L2 : e_lfid e2 = [0%Z; 5%Z; 5%Z]) by (destruct Wr2 as [_ L]; destruct Wr1 as [_ L1]; rewrite L, L1; reflexivity).
    destruct (write_field_header_spec T_I64 3 0 [5%Z; 5%Z] e2 ltac:(unfold T_I64; lia) ltac:(r16) ltac:(r16) ltac:(lia) L2) as (e3 & W3 & Wr3).
    destruct (write_int_spec 64 (ps_null_count s) e3 ltac:(lia)) as (e4 & W4 & Wr4).
    { unfold in_range. change (2 ^ (64 - 1))%Z with 9223372036854775808%Z. change (2 ^ 31)%Z with 2147483648%Z in Hnc. lia. }
    assert (L4 : e_lfid e4 = [3%Z; 5%Z; 5%Z]) by (destruct Wr4 as [_ L]; destruct Wr3 as [_ L3]; rewrite L, L3; reflexivity).
    destruct (write_field_header_spec T_BINARY 5 3 [5%Z; 5%Z] e4 ltac:(unfold T_BINARY; lia) ltac:(r16) ltac:(r16) ltac:(lia) L4) as (e5 & W5 & Wr5).
    destruct (write_binary_spec mx e5) as (e6 & W6 & Wr6); [change (2 ^ 31) with 2147483648; lia|].
    assert (L6 : e_lfid e6 = [5%Z; 5%Z; 5%Z]) by (destruct Wr6 as [_ L]; destruct Wr5 as [_ L5]; rewrite L, L5; reflexivity).
    destruct (write_field_header_spec T_BINARY 6 5 [5%Z; 5%Z] e6 ltac:(unfold T_BINARY; lia) ltac:(r16) ltac:(r16) ltac:(lia) L6) as (e7 & W7 & Wr7).
    destruct (write_binary_spec mn e7) as (e8 & W8 & Wr8); [change (2 ^ 31) with 2147483648; lia|].
    destruct (write_struct_end_spec e8) as (e9 & W9 & Wr9).
    assert (L9 : tl (e_lfid e8) = [5%Z; 5%Z]) by (destruct Wr8 as [_ L]; destruct Wr7 as [_ L7]; rewrite L, L7; reflexivity).
    rewrite L9 in Wr9.
    exists e9.
    eapply steps_cons; [exact W1|exact Wr1|].
    replace (enc_fhdr 0 3 6 ++ uleb (zz (ps_null_count s))) with ([] ++ enc_fhdr 0 3 6 ++ uleb (zz (ps_null_count s))) by reflexivity.
    rewrite <- !app_assoc.
    eapply steps_cons; [exact W2|exact Wr2|].
    eapply steps_cons; [exact W3|exact Wr3|].
    eapply steps_cons; [unfold write_i64, i64; exact W4|exact Wr4|].
    eapply steps_cons; [exact W5|exact Wr5|].
    rewrite (app_assoc (uleb (N.of_nat (length mx))) mx).
    eapply steps_cons; [exact W6|exact Wr6|].
    eapply steps_cons; [exact W7|exact Wr7|].
    rewrite (app_assoc (uleb (N.of_nat (length mn))) mn).
    eapply steps_cons; [exact W8|exact Wr8|].
    apply step1; [exact W9|exact Wr9]. }
  (* the whole header *)
  destruct (write_struct_begin_spec encoder_init ltac:(vm_compute; reflexivity)) as (e0 & W0 & Wr0).
  assert (L0 : e_lfid e0 = [0%Z]) by (destruct Wr0 as [_ L]; exact L).
  destruct (step_i32 e0 0 [] 1 0 L0 ltac:(r16) ltac:(r16) ltac:(lia) ltac:(apply (nat_range31 0); reflexivity)) as (e1 & S1).
  destruct (step_i32 e1 1 [] 2 (Z.of_N (h_uncompressed h)) (steps_lfid _ _ _ _ _ S1) ltac:(r16) ltac:(r16) ltac:(lia) (nat_range31 _ Hu)) as (e2 & S2).
  destruct (step_i32 e2 2 [] 3 (Z.of_N (h_compressed h)) (steps_lfid _ _ _ _ _ S2) ltac:(r16) ltac:(r16) ltac:(lia) (nat_range31 _ Hc)) as (e3 & S3).
  destruct (write_field_header_spec T_I32 4 3 [] e3 ltac:(unfold T_I32; lia) ltac:(r16) ltac:(r16) ltac:(lia) (steps_lfid _ _ _ _ _ S3)) as (e4a & W4a & Wr4a).
  destruct (write_zigzag_spec (crc_field h) e4a) as (e4 & W4 & Wr4).
  { eapply in_range_mono; [|apply i32_in_range]. lia. }
  assert (L4 : e_lfid e4 = [4%Z]) by (destruct Wr4 as [_ L]; destruct Wr4a as [_ La]; rewrite L, La; reflexivity).
  destruct (write_field_header_spec T_STRUCT 5 4 [] e4 ltac:(unfold T_STRUCT; lia) ltac:(r16) ltac:(r16) ltac:(lia) L4) as (e5 & W5 & Wr5).
  destruct (write_struct_begin_spec e5) as (e6 & W6 & Wr6).
  { destruct Wr5 as [_ L]. rewrite L. vm_compute. reflexivity. }
  assert (L6 : e_lfid e6 = [0%Z; 5%Z]) by (destruct Wr6 as [_ L]; destruct Wr5 as [_ L5]; rewrite L, L5; reflexivity).
  destruct (step_i32 e6 0 [5%Z] 1 (Z.of_N (h_num_values h)) L6 ltac:(r16) ltac:(r16) ltac:(lia) (nat_range31 _ Hnv)) as (e7 & S7).
  destruct (step_i32 e7 1 [5%Z] 2 0 (steps_lfid _ _ _ _ _ S7) ltac:(r16) ltac:(r16) ltac:(lia) ltac:(apply (nat_range31 0); reflexivity)) as (e8 & S8).
  destruct (step_i32 e8 2 [5%Z] 3 3 (steps_lfid _ _ _ _ _ S8) ltac:(r16) ltac:(r16) ltac:(lia) ltac:(apply (nat_range31 3); reflexivity)) as (e9 & S9).
  destruct (step_i32 e9 3 [5%Z] 4 3 (steps_lfid _ _ _ _ _ S9) ltac:(r16) ltac:(r16) ltac:(lia) ltac:(apply (nat_range31 3); reflexivity)) as (e10 & S10).
  destruct (ST e10 (steps_lfid _ _ _ _ _ S10)) as (e11 & S11).
  destruct (write_struct_end_spec e11) as (e12 & W12 & Wr12).
  destruct (write_struct_end_spec e12) as (e13 & W13 & Wr13).
  assert (Final : Steps encoder_init
            ([write_struct_begin] ++ [write_field_header T_I32 1; write_i32 0] ++
             [write_field_header T_I32 2; write_i32 (Z.of_N (h_uncompressed h))] ++
             [write_field_header T_I32 3; write_i32 (Z.of_N (h_compressed h))] ++
             [write_field_header T_I32 4; write_i32 (Z.of_N (h_crc h))] ++
             [write_field_header T_STRUCT 5; write_struct_begin] ++
             [write_field_header T_I32 1; write_i32 (Z.of_N (h_num_values h))] ++
             [write_field_header T_I32 2; write_i32 0] ++ [write_field_header T_I32 3; write_i32 3] ++
             [write_field_header T_I32 4; write_i32 3] ++
             match h_stats h with
             | Some s => [ write_field_header T_STRUCT 5; write_struct_begin;
                           write_field_header T_I64 3; write_i64 (ps_null_count s);
                           write_field_header T_BINARY 5; write_binary (ps_max_value s) (blen (ps_max_value s));
                           write_field_header T_BINARY 6; write_binary (ps_min_value s) (blen (ps_min_value s));
                           write_struct_end ]
             | None => [] end ++ [write_struct_end] ++ [write_struct_end])
            ([] ++ hdr_bytes h) (tl (tl (e_lfid e11))) e13).
  { unfold hdr_bytes.
    eapply steps_app; [apply step1; [exact W0|exact Wr0]|].
    eapply steps_app; [exact S1|]. eapply steps_app; [exact S2|]. eapply steps_app; [exact S3|].
    eapply steps_app.
    { eapply steps_cons; [exact W4a|exact Wr4a|]. apply step1; [unfold write_i32; fold (crc_field h); exact W4|].
      destruct Wr4a as [_ La]. rewrite La in Wr4. exact Wr4. }
    eapply steps_app.
    { replace (enc_fhdr 4 5 12) with (enc_fhdr 4 5 12 ++ []) by apply app_nil_r.
      eapply steps_cons; [exact W5|exact Wr5|]. apply step1; [exact W6|exact Wr6]. }
    eapply steps_app; [exact S7|]. eapply steps_app; [exact S8|]. eapply steps_app; [exact S9|].
    eapply steps_app; [exact S10|]. eapply steps_app; [exact S11|].
    eapply steps_app; [apply step1; [exact W12|exact Wr12]|].
    apply step1; [exact W13|]. destruct Wr12 as [_ L12]. rewrite L12 in Wr13. exact Wr13. }
  destruct Final as [R [O _]].
  cbn [app] in R. unfold seq_w in R |- *.
  match goal with |- match ?X with _ => _ end = _ => replace X with (Ok e13) end.
  rewrite O. reflexivity.
Qed.

(* ------------------------------------------------------------------ the bytes are a legal encoding *)

Definition stats_fields (o : option pstats) : list (Z * tval) :=
  match o with
  | Some s => [(5%Z, VStruct [(3%Z, VI64 (ps_null_count s));
                              (5%Z, VBinary (match ps_max_value s with Some b => b | None => [] end));
                              (6%Z, VBinary (match ps_min_value s with Some b => b | None => [] end))])]
  | None => []
  end.

(** the Thrift value of the page header the writer emits *)
Definition hdr_fields (h : page_hdr) : list (Z * tval) :=
  [(1%Z, VI32 0); (2%Z, VI32 (Z.of_N (h_uncompressed h))); (3%Z, VI32 (Z.of_N (h_compressed h)));
   (4%Z, VI32 (crc_field h));
   (5%Z, VStruct ([(1%Z, VI32 (Z.of_N (h_num_values h))); (2%Z, VI32 0); (3%Z, VI32 3); (4%Z, VI32 3)]
                  ++ stats_fields (h_stats h)))].

Lemma enc_i32_uleb z : in_range 32 z -> enc TI32 (VI32 z) (uleb (zz z)).
Proof. intros R. apply E_i32; [exact R|]. apply (uleb_zz_varint 32); [lia|exact R]. Qed.

Lemma ef_i32 last id z fs rest : in_range 16 id -> in_range 32 z -> enc_fields id fs rest ->
  enc_fields last ((id, VI32 z) :: fs) (enc_fhdr last id 5 ++ uleb (zz z) ++ rest).
Proof.
  intros Rid Rz H. apply (EF_val last id (VI32 z)); [exact Rid|discriminate|apply enc_fhdr_ok, Rid|apply enc_i32_uleb, Rz|exact H].
Qed.

Lemma ef_struct last id sub fs body rest : in_range 16 id -> enc_fields 0 sub body -> enc_fields id fs rest ->
  enc_fields last ((id, VStruct sub) :: fs) (enc_fhdr last id 12 ++ body ++ rest).
Proof.
  intros Rid Hb H. apply (EF_val last id (VStruct sub)); [exact Rid|discriminate|apply enc_fhdr_ok, Rid|apply E_struct, Hb|exact H].
Qed.

Lemma ef_binary last id bs fs rest : in_range 16 id -> Forall ThriftSpec.byte bs -> N.of_nat (length bs) < 2 ^ 31 ->
  enc_fields id fs rest ->
  enc_fields last ((id, VBinary bs) :: fs) (enc_fhdr last id 8 ++ (uleb (N.of_nat (length bs)) ++ bs) ++ rest).
Proof.
  intros Rid Hb Hl H. apply (EF_val last id (VBinary bs)); [exact Rid|discriminate|apply enc_fhdr_ok, Rid| |exact H].
  apply E_binary; [exact Hb|exact Hl|]. apply uleb_varint. apply lt31_64. exact Hl.
Qed.

Theorem header_encodes h : hdr_ok h -> Encodes (hdr_bytes h) (VStruct (hdr_fields h)).
Proof.
  intros (Hu & Hc & Hcrc & Hnv & Hst). unfold Encodes. apply E_struct. unfold hdr_bytes, hdr_fields.
  rewrite <- !app_assoc.
  apply ef_i32; [r16|apply (nat_range31 0); reflexivity|].
  apply ef_i32; [r16|apply nat_range31, Hu|].
  apply ef_i32; [r16|apply nat_range31, Hc|].
  apply ef_i32; [r16|apply i32_in_range|].
  (* the DataPageHeader: regroup its bytes *)
  match goal with |- enc_fields _ _ (enc_fhdr 4 5 12 ++ ?rest) =>
    replace rest with ((enc_fhdr 0 1 5 ++ uleb (zz (Z.of_N (h_num_values h))) ++ enc_fhdr 1 2 5 ++ uleb (zz 0) ++
                        enc_fhdr 2 3 5 ++ uleb (zz 3) ++ enc_fhdr 3 4 5 ++ uleb (zz 3) ++ stats_bytes (h_stats h) ++ [0]) ++ [0])
      by (rewrite <- !app_assoc; reflexivity)
  end.
  apply ef_struct; [r16| |apply EF_stop].
  cbn [app].
  apply ef_i32; [r16|apply nat_range31, Hnv|].
  apply ef_i32; [r16|apply (nat_range31 0); reflexivity|].
  apply ef_i32; [r16|apply (nat_range31 3); reflexivity|].
  apply ef_i32; [r16|apply (nat_range31 3); reflexivity|].
  destruct (h_stats h) as [s|]; cbn [stats_fields stats_bytes app]; [|apply EF_stop].
  cbn [ChunkProofs.stats_rec_ok] in Hst. destruct Hst as (Hnc & mn & mx & Emn & Emx & [Bmn Lmn] & [Bmx Lmx]).
  rewrite Emn, Emx. rewrite <- !app_assoc.
  match goal with |- enc_fields _ _ (enc_fhdr 4 5 12 ++ ?rest) =>
    replace rest with ((enc_fhdr 0 3 6 ++ uleb (zz (ps_null_count s)) ++ enc_fhdr 3 5 8 ++ (uleb (N.of_nat (length mx)) ++ mx) ++
                        enc_fhdr 5 6 8 ++ (uleb (N.of_nat (length mn)) ++ mn) ++ [0]) ++ [0])
      by (rewrite <- !app_assoc; reflexivity)
  end.
  apply ef_struct; [r16| |apply EF_stop].
  apply (EF_val 0 3 (VI64 (ps_null_count s))); [r16|discriminate|apply enc_fhdr_ok; r16| |].
  - apply E_i64; [|apply (uleb_zz_varint 64); [lia|]];
      unfold in_range; change (2 ^ (64 - 1))%Z with 9223372036854775808%Z; change (2 ^ 31)%Z with 2147483648%Z in Hnc; lia.
  - apply ef_binary; [r16|exact Bmx|change (2 ^ 31) with 2147483648; lia|].
    apply ef_binary; [r16|exact Bmn|change (2 ^ 31) with 2147483648; lia|]. apply EF_stop.
Qed.

(* ------------------------------------------------------------------ the parser reads it back *)

Lemma header_typed h : typed carquet_tbl FUEL S_PAGE_HEADER 0 (hdr_fields h).
Proof.
  unfold hdr_fields. destruct (h_stats h) as [s|]; cbn [stats_fields app];
    (split; [vm_compute; reflexivity|]); repeat constructor; try (vm_compute; reflexivity).
Qed.

Definition stats_rec (o : option pstats) : mval :=
  match o with
  | Some s => MRec [MBytes None; MBytes None; MInt 1; MInt (ps_null_count s); MInt 0; MInt 0;
                    MBytes (match ps_max_value s with Some (x :: l) => Some (x :: l) | _ => None end);
                    MBytes (match ps_min_value s with Some (x :: l) => Some (x :: l) | _ => None end);
                    MInt 0; MInt 0; MInt 0; MInt 0]
  | None => MRec (s_init d_stats)
  end.

Lemma header_interp h :
  interp carquet_tbl FUEL S_PAGE_HEADER (hdr_fields h) (s_init d_page_header)
  = [MInt 0; MInt (Z.of_N (h_uncompressed h)); MInt (Z.of_N (h_compressed h)); MInt 1; MInt (crc_field h);
     MInt (Z.of_N (h_num_values h)); MInt 0; MInt 3; MInt 3;
     MInt (match h_stats h with Some _ => 1 | None => 0 end); stats_rec (h_stats h)] ++ zeros 11.
Proof.
  unfold hdr_fields. destruct (h_stats h) as [s|]; cbn [stats_fields stats_rec app].
  - destruct (ps_max_value s) as [[|x l]|]; destruct (ps_min_value s) as [[|y l']|]; reflexivity.
  - reflexivity.
Qed.

Lemma u32_of_i32 c : c < 2 ^ 32 -> u32_of (i32 (Z.of_N c)) = c.
Proof.
  intros H. unfold u32_of, i32, scast. change (2 ^ (32 - 1))%Z with 2147483648%Z. change (2 ^ 32)%Z with 4294967296%Z.
  change (2 ^ 32) with 4294967296 in H.
  rewrite Zminus_mod_idemp_l. replace (Z.of_N c + 2147483648 - 2147483648)%Z with (Z.of_N c) by lia.
  rewrite Z.mod_small by lia. apply N2Z.id.
Qed.

(** page header premise 1: whatever follows the header, the parser returns what the writer put in *)
Theorem thrift_header_roundtrip h rest : hdr_ok h ->
  concrete_parse_header (thrift_page_header h ++ rest) = Ok (core_of h, DeltaBits.len (thrift_page_header h)).
Proof.
  intros Hok. rewrite (header_bytes_spec h Hok). unfold concrete_parse_header, parse_page_header.
  rewrite (parse_accepts_framed carquet_tbl FUEL S_PAGE_HEADER (hdr_fields h) (hdr_bytes h) rest
             (header_encodes h Hok) (header_typed h)).
  rewrite header_interp. destruct Hok as (_ & _ & Hcrc & _ & _).
  cbn [app slot_int nth_error]. unfold nat_N. rewrite !N2Z.id. unfold crc_field. rewrite (u32_of_i32 _ Hcrc).
  reflexivity.
Qed.

(* ------------------------------------------------------------------ the header fits the reader's window *)

Lemma uleb_len n : n < 2 ^ 64 -> (1 <= length (uleb n) <= 10)%nat.
Proof.
  intros H. destruct (uleb_varint n H) as (U & L & _). split; [|exact L]. apply (uvarint_length_pos n _ U).
Qed.

Lemma uleb_zz_len z : in_range 64 z -> (1 <= length (uleb (zz z)) <= 10)%nat.
Proof. intros R. apply uleb_len. apply (zz_range 64 z ltac:(lia) R). Qed.

Lemma r32_64 z : in_range 32 z -> in_range 64 z.
Proof. apply in_range_mono. lia. Qed.

Lemma hdr_bytes_length h : hdr_ok h -> (1 <= length (hdr_bytes h) <= 142)%nat.
Proof.
  intros (Hu & Hc & Hcrc & Hnv & Hst). unfold hdr_bytes. rewrite !app_length.
  change (length (enc_fhdr 0 1 5)) with 1%nat. change (length (enc_fhdr 1 2 5)) with 1%nat.
  change (length (enc_fhdr 2 3 5)) with 1%nat. change (length (enc_fhdr 3 4 5)) with 1%nat.
  change (length (enc_fhdr 4 5 12)) with 1%nat. cbn [length].
  pose proof (uleb_zz_len 0 ltac:(apply r32_64, (nat_range31 0); reflexivity)).
  pose proof (uleb_zz_len 3 ltac:(apply r32_64, (nat_range31 3); reflexivity)).
  pose proof (uleb_zz_len _ (r32_64 _ (nat_range31 _ Hu))).
  pose proof (uleb_zz_len _ (r32_64 _ (nat_range31 _ Hc))).
  pose proof (uleb_zz_len _ (r32_64 _ (nat_range31 _ Hnv))).
  pose proof (uleb_zz_len _ (r32_64 _ (i32_in_range (Z.of_N (h_crc h))))). fold (crc_field h) in *.
  assert (S : (length (stats_bytes (h_stats h)) <= 51)%nat).
  { destruct (h_stats h) as [s|]; cbn [stats_bytes length]; [|lia].
    cbn [ChunkProofs.stats_rec_ok] in Hst. destruct Hst as (Hnc & mn & mx & Emn & Emx & [Bmn Lmn] & [Bmx Lmx]).
    rewrite Emn, Emx. rewrite !app_length.
    change (length (enc_fhdr 4 5 12)) with 1%nat. change (length (enc_fhdr 0 3 6)) with 1%nat.
    change (length (enc_fhdr 3 5 8)) with 1%nat. change (length (enc_fhdr 5 6 8)) with 1%nat. cbn [length].
    pose proof (uleb_zz_len (ps_null_count s)) as N1.
    pose proof (uleb_len (N.of_nat (length mx))) as N2. pose proof (uleb_len (N.of_nat (length mn))) as N3.
    assert (in_range 64 (ps_null_count s)).
    { unfold in_range. change (2 ^ (64 - 1))%Z with 9223372036854775808%Z. change (2 ^ 31)%Z with 2147483648%Z in Hnc. lia. }
    assert (N.of_nat (length mx) < 2 ^ 64) by (change (2 ^ 64) with 18446744073709551616; lia).
    assert (N.of_nat (length mn) < 2 ^ 64) by (change (2 ^ 64) with 18446744073709551616; lia).
    specialize (N1 ltac:(assumption)). specialize (N2 ltac:(assumption)). specialize (N3 ltac:(assumption)). lia. }
  lia.
Qed.

(** page header premises 2 and 3: at most 142 bytes (the reader parses a 256-byte window), at least one *)
Theorem thrift_header_small h : hdr_ok h -> DeltaBits.len (thrift_page_header h) <= 256.
Proof. intros H. rewrite (header_bytes_spec h H). pose proof (hdr_bytes_length h H). unfold DeltaBits.len. lia. Qed.

Theorem thrift_header_nonempty h : hdr_ok h -> 0 < DeltaBits.len (thrift_page_header h).
Proof. intros H. rewrite (header_bytes_spec h H). pose proof (hdr_bytes_length h H). unfold DeltaBits.len. lia. Qed.
