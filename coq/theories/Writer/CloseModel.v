(** The stream calls the file writer makes, in the order the code makes them, with the return values it
    looks at or ignores.  Mirrors src/writer/file_writer.c:

      write_magic            fwrite(PAR1)                      result compared with 4
      ensure_header_written  write_magic once
      flush_row_group        fwrite(row group bytes) if size>0 result compared with size
      carquet_writer_write_batch   ensure_header_written; (row group data stays in memory)
      carquet_writer_new_row_group ensure_header_written; flush_row_group
      carquet_writer_close   ensure_header_written; flush_row_group; fwrite(footer); fwrite(len32);
                             write_magic; fflush; cleanup: fclose when the writer owns the stream

    Which results are looked at is *regenerated from the source* ([current_checks], from
    Gen/Robust_gen.v): in the pinned tree the results of the final fflush and fclose are discarded.

    What the encoders put into a row group or a footer is outside this model: a call carries the bytes
    it is going to emit. *)
From Coq Require Import NArith ZArith List Bool Arith.
From Carquet Require Import Gen.Enums_gen Gen.Robust_gen Reader.FooterModel Writer.Stdio.
Import ListNotations.

Record checks : Set := mkChecks {
  chk_fwrite : bool;   (* every fwrite result is compared with the requested count *)
  chk_fflush : bool;   (* close looks at the result of fflush *)
  chk_ferror : bool;   (* close looks at ferror() after the flush *)
  chk_fclose : bool    (* close looks at the result of fclose *)
}.

Definition current_checks : checks :=
  mkChecks Writer_fwrite_all_checked Writer_close_checks_fflush Writer_close_checks_ferror Writer_close_checks_fclose.

(** the pinned tree (commit 06cdad3): fwrite results checked, fflush/fclose results discarded *)
Definition pinned_checks : checks := mkChecks true false false false.

Inductive wcall : Type :=
| CBatch                                   (* carquet_writer_write_batch *)
| CNewRowGroup (rg : list N)               (* carquet_writer_new_row_group; rg = bytes of the open row group ([] = none) *)
| CClose (rg : list N) (footer : list N).  (* carquet_writer_close *)

Definition le32_bytes (n : N) : list N :=
  [n mod 256; (n / 256) mod 256; (n / 65536) mod 256; (n / 16777216) mod 256]%N.

Definition OK : Z := E_CARQUET_OK.
Definition FILE_WRITE : Z := E_CARQUET_ERROR_FILE_WRITE.

Record wstate : Type := mkW { st : stream; header_written : bool }.
Definition w_init : wstate := mkW stream_init false.

Section Writer.
  Variable cap : nat.
  Variable accept : nat -> nat -> nat.
  Variable close_ok : nat -> bool.
  Variable push_amt : nat -> nat -> nat -> nat.
  Variable ret_on_fail : nat -> nat -> nat.
  Variable chk : checks.
  Variable owns : bool.      (* carquet_writer_create (path) owns the FILE; carquet_writer_create_file does not *)

  Notation fwrite := (fwrite cap accept push_amt ret_on_fail).
  Notation fflush := (fflush accept).
  Notation fclose := (fclose accept close_ok).

  (** fwrite followed by the code's `!= size` test: true = the code goes on *)
  Definition put (s : stream) (data : list N) : bool * stream :=
    let '(r, s') := fwrite s data in
    (negb (chk_fwrite chk) || (r =? length data), s').

  Definition ensure_header (w : wstate) : Z * wstate :=
    if header_written w then (OK, w)
    else let '(ok, s') := put (st w) magic in
         if ok then (OK, mkW s' true) else (FILE_WRITE, mkW s' false).

  Definition flush_row_group (w : wstate) (rg : list N) : Z * wstate :=
    match rg with
    | [] => (OK, w)
    | _ => let '(ok, s') := put (st w) rg in
           (if ok then OK else FILE_WRITE, mkW s' (header_written w))
    end.

  (** the part of close after `cleanup:` *)
  Definition close_cleanup (status : Z) (w : wstate) : Z * wstate :=
    if owns then
      let '(ok, s') := fclose (st w) in
      (if chk_fclose chk && negb ok && (status =? OK)%Z then FILE_WRITE else status,
       mkW s' (header_written w))
    else (status, w).

  Definition writer_close (w : wstate) (rg footer : list N) : Z * wstate :=
    let '(s0, w0) := ensure_header w in
    if negb (s0 =? OK)%Z then close_cleanup s0 w0 else
    let '(s1, w1) := flush_row_group w0 rg in
    if negb (s1 =? OK)%Z then close_cleanup s1 w1 else
    let '(ok2, t2) := put (st w1) footer in
    let w2 := mkW t2 (header_written w1) in
    if negb ok2 then close_cleanup FILE_WRITE w2 else
    let '(ok3, t3) := put t2 (le32_bytes (N.of_nat (length footer))) in
    let w3 := mkW t3 (header_written w1) in
    if negb ok3 then close_cleanup FILE_WRITE w3 else
    let '(ok4, t4) := put t3 magic in
    let w4 := mkW t4 (header_written w1) in
    if negb ok4 then close_cleanup FILE_WRITE w4 else
    let '(okf, t5) := fflush t4 in
    let w5 := mkW t5 (header_written w1) in
    let status := if (chk_fflush chk && negb okf) || (chk_ferror chk && ferror t5) then FILE_WRITE else OK in
    close_cleanup status w5.

  Definition step (w : wstate) (c : wcall) : Z * wstate :=
    match c with
    | CBatch => ensure_header w
    | CNewRowGroup rg =>
        let '(s0, w0) := ensure_header w in
        if negb (s0 =? OK)%Z then (s0, w0) else flush_row_group w0 rg
    | CClose rg footer => writer_close w rg footer
    end.

  (** Run a history; the writer handle is gone after close, later calls are not made. *)
  Fixpoint run (w : wstate) (h : list wcall) : list Z * wstate :=
    match h with
    | [] => ([], w)
    | c :: h' =>
        let '(s, w') := step w c in
        match c with
        | CClose _ _ => ([s], w')
        | _ => let '(ss, w'') := run w' h' in (s :: ss, w'')
        end
    end.
End Writer.

(** The bytes a fault-free run of the history sends to the sink. *)
Definition payload (c : wcall) : list N :=
  match c with
  | CBatch => []
  | CNewRowGroup rg => rg
  | CClose rg footer => rg ++ footer ++ le32_bytes (N.of_nat (length footer)) ++ magic
  end.

Fixpoint payloads (h : list wcall) : list N :=
  match h with
  | [] => []
  | c :: h' => payload c ++ match c with CClose _ _ => [] | _ => payloads h' end
  end.

Definition bytes_of (h : list wcall) : list N :=
  match h with [] => [] | _ => magic ++ payloads h end.

Fixpoint ends_with_close (h : list wcall) : bool :=
  match h with
  | [] => false
  | CClose _ _ :: _ => true
  | _ :: h' => ends_with_close h'
  end.

(** Some request to the sink was refused or cut short during the run. *)
Definition sink_failed (w : wstate) : bool := failed (st w) || cfailed (st w).
