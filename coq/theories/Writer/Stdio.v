(** A buffered output stream (C stdio FILE opened for writing) over a byte sink that can fail.

    The environment is an oracle (DESIGN.md section 4): the sink decides, for the k-th request it
    receives, how many of the offered bytes it accepts (fewer than offered = a write error / disk
    full / short write that the C library could not complete) and whether the k-th request, when it
    is the final close of the descriptor, succeeds.  The stream's own freedom (how much it keeps in
    its buffer, what fwrite reports when the sink refused bytes in the middle of the call) is a
    second oracle, so that every theorem holds for every conforming C library, not just for one
    buffering policy.

    What is fixed is what ISO C fixes:
      - fwrite returns the full count when no error occurred during the call;
      - a write error sets the stream's error indicator, which stays set (carquet never calls
        clearerr/rewind);
      - fflush returns EOF iff a write error occurred while it pushed the pending bytes;
      - fclose flushes, closes the descriptor, and returns EOF if either failed.
    fwrite may buffer and report success although the bytes never reach the sink: the error surfaces
    only in a later fflush/fclose - the case C18 is about. *)
From Coq Require Import NArith List Bool Arith Lia.
Import ListNotations.

Record stream : Type := mkStream {
  pend   : list N;     (* accepted by fwrite, not yet offered to the sink *)
  deliv  : list N;     (* bytes the sink has accepted, in order *)
  errf   : bool;       (* the error indicator, ferror() *)
  nops   : nat;        (* number of requests made to the sink so far (index into the oracle) *)
  failed : bool;       (* ghost: some write request to the sink was refused or cut short *)
  cfailed : bool       (* ghost: the close of the descriptor failed *)
}.

Definition stream_init : stream := mkStream [] [] false 0 false false.

Section Stdio.
  (** buffer capacity (0 = unbuffered) *)
  Variable cap : nat.
  (** sink oracle: request number -> bytes offered -> bytes accepted (clamped to the offer) *)
  Variable accept : nat -> nat -> nat.
  (** sink oracle: does the close of the descriptor, as request number k, succeed *)
  Variable close_ok : nat -> bool.
  (** stream policy: request number, pending bytes, new bytes -> how many of pending++new to offer now
      (clamped so that what stays fits the buffer) *)
  Variable push_amt : nat -> nat -> nat -> nat.
  (** what fwrite reports when the sink cut its request short: anything up to the full count *)
  Variable ret_on_fail : nat -> nat -> nat.

  (** One request to the sink. Returns (all accepted?, stream'). *)
  Definition sink_write (s : stream) (chunk : list N) : bool * stream :=
    let a := Nat.min (accept (nops s) (length chunk)) (length chunk) in
    let ok := a =? length chunk in
    (ok, mkStream (pend s) (deliv s ++ firstn a chunk) (errf s || negb ok) (S (nops s)) (failed s || negb ok) (cfailed s)).

  (** fwrite(data, 1, n, f): returns the count reported. *)
  Definition fwrite (s : stream) (data : list N) : nat * stream :=
    let all := pend s ++ data in
    if length all <=? cap then
      (length data, mkStream all (deliv s) (errf s) (nops s) (failed s) (cfailed s))
    else
      (* must push at least |all| - cap so that the rest fits; may push more *)
      let t := Nat.min (length all) (Nat.max (length all - cap) (push_amt (nops s) (length (pend s)) (length data))) in
      let '(ok, s1) := sink_write s (firstn t all) in
      if ok then (length data, mkStream (skipn t all) (deliv s1) (errf s1) (nops s1) (failed s1) (cfailed s1))
      else (Nat.min (ret_on_fail (nops s) (length data)) (length data),
            mkStream (skipn t all) (deliv s1) (errf s1) (nops s1) (failed s1) (cfailed s1)).

  (** fflush(f): true = returned 0, false = returned EOF. *)
  Definition fflush (s : stream) : bool * stream :=
    match pend s with
    | [] => (true, s)
    | _ =>
      let '(ok, s1) := sink_write s (pend s) in
      (ok, mkStream [] (deliv s1) (errf s1) (nops s1) (failed s1) (cfailed s1))
    end.

  (** fclose(f): flush, then close the descriptor (one more request to the sink). *)
  Definition fclose (s : stream) : bool * stream :=
    let '(okf, s1) := fflush s in
    let okc := close_ok (nops s1) in
    (okf && okc, mkStream (pend s1) (deliv s1) (errf s1) (S (nops s1)) (failed s1) (cfailed s1 || negb okc)).

  Definition ferror (s : stream) : bool := errf s.
End Stdio.
