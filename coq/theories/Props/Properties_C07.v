(** C07 - parallel reading is independent of thread count and scheduling.
    This file only restates lemmas proved in Conc/Interleave.v and Conc/ConcProofs.v (models:
    Conc/BatchConc.v mirroring the parallel region of carquet_batch_reader_next and the fread / mmap
    page loads of src/reader/page_reader.c; Conc/LazyInit.v mirroring the lazily initialised globals
    of crc32.c, dispatch.c, detect.c).

    PARTIAL (DESIGN.md section 10): the theorems are about a sequentially consistent interleaving
    model whose atomic actions are fseek, fread, the critical section of file_read_at, one load or
    store of a global.  Real OpenMP scheduling, the hardware memory model (crc32.c and dispatch.c
    publish their tables with a plain store and no barrier) and data races in the C11 sense are
    runtime facts, observed by checks/C07.py (forced schedules through the CARQUET_VERIF yield
    hook, thread-count sweeps, ThreadSanitizer), not proved. *)
From Coq Require Import List NArith.
From Carquet Require Import Conc.Interleave Conc.BatchConc Conc.LazyInit Conc.ConcProofs Util.Crc32Model.
Import ListNotations.

(** General: if actions of different threads commute pairwise (up to an equivalence [eqS] of shared
    states that every action respects), every complete schedule - any number of threads and
    actions, stutters allowed - ends in the configuration of the sequential schedule. *)
Theorem commuting_schedule_irrelevant :
  forall (Sh Pr : Type) (eqS : Sh -> Sh -> Prop),
    (forall s, eqS s s) -> (forall s t, eqS s t -> eqS t s) ->
    (forall s t u, eqS s t -> eqS t u -> eqS s u) ->
    forall sched (c : config Sh Pr), good eqS (snd c) -> complete sched c ->
      cfg_eq eqS (run sched c) (run (seq_sched c) c).
Proof. exact Interleave.commuting_schedule_irrelevant. Qed.
Print Assumptions commuting_schedule_irrelevant.

(** One call of the batch reader, fread mode as it is since /repo 438c541 (seek+read atomic): for
    every file size, every decode-validity function, every list of columns and every complete
    interleaving of the column threads, the caller gets what num_threads = 1 gives. *)
Theorem batch_fread_schedule_irrelevant :
  forall fsz valid cols sched,
    complete sched (tasks fsz valid Fread cols) ->
    obs (run sched (tasks fsz valid Fread cols)) =
    obs (run (seq_sched (tasks fsz valid Fread cols)) (tasks fsz valid Fread cols)).
Proof. exact ConcProofs.batch_fread_schedule_irrelevant. Qed.
Print Assumptions batch_fread_schedule_irrelevant.

Theorem batch_mmap_schedule_irrelevant :
  forall fsz valid cols sched,
    complete sched (tasks fsz valid Mmap cols) ->
    obs (run sched (tasks fsz valid Mmap cols)) =
    obs (run (seq_sched (tasks fsz valid Mmap cols)) (tasks fsz valid Mmap cols)).
Proof. exact ConcProofs.batch_mmap_schedule_irrelevant. Qed.
Print Assumptions batch_mmap_schedule_irrelevant.

Theorem batch_buffer_schedule_irrelevant :
  forall fsz valid cols sched,
    complete sched (tasks fsz valid Buffer cols) ->
    obs (run sched (tasks fsz valid Buffer cols)) =
    obs (run (seq_sched (tasks fsz valid Buffer cols)) (tasks fsz valid Buffer cols)).
Proof. exact ConcProofs.batch_buffer_schedule_irrelevant. Qed.
Print Assumptions batch_buffer_schedule_irrelevant.

(** ... and the three modes agree with each other under any two schedules. *)
Theorem batch_modes_agree :
  forall fsz valid cols m m' sched sched',
    m <> FreadUnlocked -> m' <> FreadUnlocked ->
    complete sched (tasks fsz valid m cols) -> complete sched' (tasks fsz valid m' cols) ->
    obs (run sched (tasks fsz valid m cols)) = obs (run sched' (tasks fsz valid m' cols)).
Proof. exact ConcProofs.batch_modes_agree. Qed.
Print Assumptions batch_modes_agree.

(** Valid files (decoding cannot fail): by the general theorem the whole final configurations
    coincide - the error flag and every column's private state - up to the dead stream position. *)
Theorem batch_valid_file_configurations_agree :
  forall fsz m cols sched,
    m <> FreadUnlocked ->
    complete sched (tasks fsz (fun _ _ => true) m cols) ->
    cfg_eq eq_err (run sched (tasks fsz (fun _ _ => true) m cols))
      (run (seq_sched (tasks fsz (fun _ _ => true) m cols)) (tasks fsz (fun _ _ => true) m cols)).
Proof. exact ConcProofs.batch_valid_file_configurations_agree. Qed.
Print Assumptions batch_valid_file_configurations_agree.

(** Finding F27 (repaired by /repo 438c541): with fseek and fread as separate steps on the shared
    FILE* the statement is false; witness seek_A; seek_B; read_A. *)
Theorem batch_fread_unlocked_schedule_irrelevant_refuted :
  exists fsz valid cols sched,
    complete sched (tasks fsz valid FreadUnlocked cols) /\
    obs (run sched (tasks fsz valid FreadUnlocked cols)) <>
    obs (run (seq_sched (tasks fsz valid FreadUnlocked cols)) (tasks fsz valid FreadUnlocked cols)).
Proof. exact ConcProofs.batch_fread_unlocked_schedule_irrelevant_refuted. Qed.
Print Assumptions batch_fread_unlocked_schedule_irrelevant_refuted.

(** N independent readers of one file, used from N threads: every complete interleaving leaves
    every reader in the state it reaches when the readers run one after the other. *)
Theorem independent_readers_irrelevant :
  forall fsz rs sched,
    complete sched (readers fsz rs) ->
    run sched (readers fsz rs) = run (seq_sched (readers fsz rs)) (readers fsz rs).
Proof. exact ConcProofs.independent_readers_irrelevant. Qed.
Print Assumptions independent_readers_irrelevant.

(** Concurrent first use, write-once tables (crc32.c): any number of threads, any complete
    interleaving; the table equals the sequentially initialised one, the flag is set, every thread
    has read the final values. *)
Theorem lazy_init_idempotent :
  forall init ws,
    NoDup (map fst ws) ->
    (forall w, In w ws -> (fst w < length init)%nat) ->
    (forall k, (k < length init)%nat -> exists v, In (k, v) ws) ->
    forall kss sched,
    (forall ks, In ks kss -> forall k, In k ks -> (k < length init)%nat) ->
    kss <> [] -> complete sched (users init ws kss) ->
    let c := run sched (users init ws kss) in
    table (fst c) = apply_writes ws init /\ flag (fst c) = true /\
    map (fun t => reads (fst t)) (snd c) = map (map (fun k => nth k (apply_writes ws init) 0%N)) kss.
Proof. exact ConcProofs.lazy_init_idempotent. Qed.
Print Assumptions lazy_init_idempotent.

(** ... and at every moment of every (also incomplete) interleaving: what a thread has read so far
    are final values - a thread that sees the flag set never sees a partly filled table. *)
Theorem lazy_init_reads_final :
  forall init ws,
    NoDup (map fst ws) ->
    (forall w, In w ws -> (fst w < length init)%nat) ->
    (forall k, (k < length init)%nat -> exists v, In (k, v) ws) ->
    forall kss sched i t ks,
    (forall ks, In ks kss -> forall k, In k ks -> (k < length init)%nat) ->
    nth_error (snd (run sched (users init ws kss))) i = Some t -> nth_error kss i = Some ks ->
    reads (fst t) = map (fun k => nth k (apply_writes ws init) 0%N) (firstn (length (reads (fst t))) ks).
Proof. exact ConcProofs.lazy_init_reads_final. Qed.
Print Assumptions lazy_init_reads_final.

(** Staged tables (dispatch.c: scalar kernel, then SIMD kernel; detect.c: memset 0, then the
    detected bits): the same statement is false even under sequential consistency - a thread that
    saw the flag can read an earlier stage re-stored by a second initialiser. *)
Theorem lazy_init_staged_refuted :
  exists init ws kss sched,
    complete sched (users init ws kss) /\
    table (fst (run sched (users init ws kss))) = apply_writes ws init /\
    map (fun t => reads (fst t)) (snd (run sched (users init ws kss))) <>
    map (fun t => reads (fst t)) (snd (run (seq_sched (users init ws kss)) (users init ws kss))).
Proof. exact ConcProofs.lazy_init_staged_refuted. Qed.
Print Assumptions lazy_init_staged_refuted.

(** What holds for staged tables: only values that some stage stores into the cell are ever read
    (all stages of a dispatch slot compute the same function - property C15 - so the content
    returned to the caller is unaffected). *)
Theorem lazy_init_staged_values :
  forall init ws kss sched i t ks,
    (forall w, In w ws -> (fst w < length init)%nat) ->
    (forall k, (k < length init)%nat -> exists v, In (k, v) ws) ->
    (forall ks, In ks kss -> forall k, In k ks -> (k < length init)%nat) ->
    nth_error (snd (run sched (users init ws kss))) i = Some t -> nth_error kss i = Some ks ->
    Forall2 (fun k x => In (k, x) ws) (firstn (length (reads (fst t))) ks) (reads (fst t)).
Proof. exact ConcProofs.lazy_init_staged_values. Qed.
Print Assumptions lazy_init_staged_values.

(** The instance for the 8 x 256 slicing tables of src/util/crc32.c (the table proved equal to the
    IEEE CRC-32 tables in C14, Util/Crc32Model.tables, flattened): however many threads race through
    crc32_init_tables on first use, and whatever cells each of them then reads, the table ends equal
    to the sequentially built one and every read returned the final entry. *)
Theorem crc32_tables_lazy_init :
  forall kss sched,
    let tgt := List.concat Crc32Model.tables in
    (forall ks, In ks kss -> forall k, In k ks -> (k < length tgt)%nat) ->
    kss <> [] -> complete sched (users (tbl_init tgt) (tbl_ws tgt) kss) ->
    let c := run sched (users (tbl_init tgt) (tbl_ws tgt) kss) in
    table (fst c) = tgt /\ flag (fst c) = true /\
    map (fun t => reads (fst t)) (snd c) = map (map (fun k => nth k tgt 0%N)) kss.
Proof. exact (ConcProofs.lazy_init_any_table (List.concat Crc32Model.tables)). Qed.
Print Assumptions crc32_tables_lazy_init.
