(** C05 - every file the writer reports complete is structurally valid Parquet; writing twice gives the same bytes.
    This file only restates lemmas proved in Writer/StructProofs.v (model: Writer/{PageWriter,ColumnWriter,FileWriter}Model.v). *)
From Coq Require Import NArith ZArith List.
From Carquet Require Import Base.Res Writer.TableSpec Writer.PageWriterModel Writer.FileWriterModel Writer.StructProofs.
Import ListNotations.
Local Open Scope N_scope.

(** Whatever the history of calls, when close is reached the bytes handed to the stream are structurally valid:
    "PAR1" at both ends, the footer followed by its 4-byte length, column chunks tiling the data region from
    offset 4 to the footer without gap or overlap in row-group and column order, each chunk exactly the
    concatenation of its pages (header ++ stored body) with the header's compressed size, uncompressed size,
    CRC-32 and value count those of the body, chunk value counts and both chunk size totals the sums over the
    pages including the page headers, row-group totals the sums over the chunks, the file row count the sum
    over the row groups.  The Thrift encoders are uninterpreted here (their bytes are C13). *)
Theorem c05_writer_output_valid :
  forall (compress : list N -> list N) (header : page_hdr -> list N) (footer : file_meta -> list N)
         sch opts ops sts w,
  run_writer compress header footer sch opts ops = Ok (sts, w, true) ->
  structurally_valid compress header footer (f_out w) (metadata_of w).
Proof. exact writer_output_valid. Qed.
Print Assumptions c05_writer_output_valid.

(** The writer model is a function of (schema, options, history): two runs on the same inputs produce the same
    statuses and the same bytes.  (That the C code behaves like the model - in particular that no uninitialised or
    address-dependent byte reaches the file - is what the byte-exact tie and the write-twice comparison observe.) *)
Theorem c05_writer_deterministic :
  forall (compress : list N -> list N) (header : page_hdr -> list N) (footer : file_meta -> list N)
         sch opts ops r1 r2,
  run_writer compress header footer sch opts ops = r1 ->
  run_writer compress header footer sch opts ops = r2 -> r1 = r2.
Proof. exact writer_deterministic. Qed.
Print Assumptions c05_writer_deterministic.
