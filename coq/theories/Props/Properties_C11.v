(** C11 - every encoding decodes its own output back to the original sequence.
    Only restatements; proofs live in Enc/*Proofs.v. *)
From Coq Require Import NArith List.
From Carquet Require Import Base.Res Enc.BitpackSpec Enc.BitpackModel Enc.BitpackProofs.
Import ListNotations.
Local Open Scope N_scope.

(** Raw bit packing, one group of 8 values at any width (not only 0..32): unpacking the packed group
    (followed by anything) gives back the values, masked to the width. *)
Theorem bitpack8_roundtrip : forall w vs rest, length vs = 8%nat ->
  unpack8 w (pack8 w vs ++ rest) = Ok (map (fun v => v mod 2 ^ N.of_nat w) vs).
Proof. exact unpack8_pack8. Qed.
Print Assumptions bitpack8_roundtrip.

(** ... hence exactly the values when they fit the width; the group occupies exactly w bytes. *)
Theorem bitpack8_roundtrip_exact : forall w vs rest, length vs = 8%nat ->
  Forall (fun v => v < 2 ^ N.of_nat w) vs -> unpack8 w (pack8 w vs ++ rest) = Ok vs.
Proof. exact unpack8_pack8_small. Qed.
Print Assumptions bitpack8_roundtrip_exact.

Theorem bitpack8_size : forall w vs, length (pack8 w vs) = w.
Proof. exact pack8_length. Qed.
Print Assumptions bitpack8_size.
