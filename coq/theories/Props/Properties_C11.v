(** C11 - every encoding decodes its own output back to the original sequence.
    Only restatements; proofs live in Enc/*Proofs.v.  Models: Enc/BitpackModel.v (src/core/bitpack.c),
    Enc/RleModel.v (src/encoding/rle.c).  The other encodings are restated from the enc2 engine below. *)
From Coq Require Import NArith List.
From Carquet Require Import Base.Res Enc.BitpackSpec Enc.BitpackModel Enc.BitpackProofs Enc.BitpackNProofs
  Enc.BitpackLoopModel Enc.BitpackLoopProofs
  Enc.RleSpec Enc.RleModel Enc.RleDecProofs Enc.RleProofs File.ForeignModel Enc.RleLevelsRoundtrip
  Enc.BitRwSpec Enc.BitRwModel Enc.BitRwProofs.
Import ListNotations.
Local Open Scope N_scope.

(** Raw bit packing, one group of 8 values at any width (not only 0..32): unpacking the packed group
    (followed by anything) gives back the values, masked to the width. *)
Theorem bitpack8_roundtrip : forall w vs rest, length vs = 8%nat ->
  unpack8 w (pack8 w vs ++ rest) = Ok (map (fun v => v mod 2 ^ N.of_nat w) vs).
Proof. exact unpack8_pack8. Qed.
Print Assumptions bitpack8_roundtrip.

(** ... hence exactly the values when they fit the width; the group occupies exactly w bytes. *)
Theorem bitpack8_roundtrip_exact : forall w vs rest, length vs = 8%nat ->
  Forall (fun v => v < 2 ^ N.of_nat w) vs -> unpack8 w (pack8 w vs ++ rest) = Ok vs.
Proof. exact unpack8_pack8_small. Qed.
Print Assumptions bitpack8_roundtrip_exact.

Theorem bitpack8_size : forall w vs, length (pack8 w vs) = w.
Proof. exact pack8_length. Qed.
Print Assumptions bitpack8_size.

(** Raw bit packing through the bit writer / bit reader pair of core/bitpack.c (fields of ANY widths, mixed):
    for every sequence of write_bit / write_bits / write_bits64 calls (any values; widths above the type's are
    clamped as the code clamps them, zero widths write nothing) into a buffer that holds the bits, the bytes written
    are the LSB-first layout of BitRwSpec - exactly ceil(bits/8) of them - and reading the same sequence back returns
    every value masked to its width, consuming exactly the bits written. *)
Theorem bit_rw_roundtrip : forall cap gs, stream_bits (all_fields gs) <= 8 * cap ->
  let out := w_out (write_all cap gs) in
  out = stream_bytes (all_fields gs) /\
  exists s', read_all (br_init out) gs = Some (map seg_value gs, s') /\
             remaining_bits s' = 8 * N.of_nat (length out) - stream_bits (all_fields gs).
Proof. exact bit_rw_roundtrip_lemma. Qed.
Print Assumptions bit_rw_roundtrip.

(** The two loops of that code (drain / refill the 64-bit accumulator) never exhaust the fuel of the model. *)
Theorem bit_rw_loops_terminate : forall s r, WInv s -> w_bits s <= 79 -> RInv r ->
  flush_step (flush_buffer s) = flush_buffer s /\ refill_step (refill_buffer r) = refill_buffer r.
Proof. intros s r H1 H2 H3. split; [exact (flush_done s H1 H2)|exact (refill_done r H3)]. Qed.
Print Assumptions bit_rw_loops_terminate.

(** The writer before /repo 22baf41 (no drain in front of the OR into the accumulator) does NOT have the property:
    eight 11-bit values are enough (found by the coverage audit, no case had reached the bit writer). *)
Theorem bit_writer_before_22baf41_refuted :
  exists vs, let fs := map (fun v => (v, 11)) vs in
    w_out (bw_flush (fold_left (fun s v => write_bits_old s v 11) vs (bw_init 11))) <> stream_bytes fs.
Proof. exact bit_writer_old_refuted. Qed.
Print Assumptions bit_writer_before_22baf41_refuted.

(** The C loops themselves (src/core/bitpack.c mirrored statement by statement in Enc/BitpackLoopModel.v: the
    eight specialised unpackers, the dispatch switch, the general 9..32-bit gather loop, the memset + scatter
    loop of the packer, with checked reads/writes/shifts and explicit 8/16/32/64-bit wraps) compute exactly the
    closed forms [unpack8] / [pack8] used above, faults included, at every width 0..32 and for every input:
    so the theorems of this file are theorems about the loops. *)
Theorem bitunpack8_loops_refine : forall w input, (w <= 32)%nat -> Forall (fun b => b < 256) input ->
  unpack8_c w input = unpack8 w input.
Proof. exact unpack8_c_eq_total. Qed.
Print Assumptions bitunpack8_loops_refine.

Theorem bitpack8_loops_refine : forall w vs, (w <= 32)%nat -> length vs = 8%nat ->
  pack8_c w vs = Ok (pack8 w vs).
Proof. exact pack8_c_eq_total. Qed.
Print Assumptions bitpack8_loops_refine.

(** Raw bit packing of any number of values (carquet_bitpack_32 / carquet_bitunpack_32, widths 1..32;
    at width 0 nothing is written and zeros come back): the unpacker returns the values and reports
    exactly the number of bytes the packer wrote. *)
Theorem bitpack32_any_count_roundtrip : forall w vs, (1 <= w <= 32)%nat ->
  bitunpack_32 w (bitpack_32 w vs) (length vs)
  = Ok (map (fun v => v mod 2 ^ N.of_nat w) vs, length (bitpack_32 w vs)).
Proof. exact bitpack32_roundtrip. Qed.
Print Assumptions bitpack32_any_count_roundtrip.

(** RLE / bit-packed hybrid at every bit width 0..32: for every value sequence (any length, any run
    structure) whose values fit the width, decode_all (encode_all vs) asked for |vs| values returns vs.
    (2 * |vs| < 2^32 is the domain of the C encoder's 32-bit run header.) *)
Theorem rle_roundtrip : forall w vs, (w <= 32)%nat -> fits w vs -> 2 * N.of_nat (length vs) < 2 ^ 32 ->
  decode_all w (encode_all w vs) (length vs) = vs.
Proof. exact rle_roundtrip_lemma. Qed.
Print Assumptions rle_roundtrip.

(** ... and the int16 level decoder (carquet_rle_decode_levels, a separate implementation in rle.c) reads
    back what the level encoder wrote, at every level bit width 1..32. *)
Theorem rle_levels_roundtrip : forall w vs, (1 <= w <= 32)%nat -> fits w vs -> 2 * N.of_nat (length vs) < 2 ^ 32 ->
  rle_decode_levels w (encode_all w vs) (length vs) = vs.
Proof. exact rle_levels_roundtrip_lemma. Qed.
Print Assumptions rle_levels_roundtrip.

(** The streaming decoder agrees with the one-shot content under any chunking and skipping: every
    history of get / get_batch k / skip k on any legal stream observes exactly what a cursor over the
    denoted value list observes (values delivered, counts skipped). *)
Theorem rle_stream_refines : forall w bytes vals ops, (w <= 32)%nat -> Denotes w bytes vals ->
  run_ops w (dec_init bytes) ops = cursor_ops vals ops.
Proof. exact rle_stream_refines_lemma. Qed.
Print Assumptions rle_stream_refines.

(** ... in particular on the encoder's own output (the stream carries the input then < 8 zeros). *)
Theorem rle_stream_refines_own_output : forall w vs ops, (w <= 32)%nat -> fits w vs ->
  2 * N.of_nat (length vs) < 2 ^ 32 ->
  exists k, (k < 8)%nat /\ run_ops w (dec_init (encode_all w vs)) ops = cursor_ops (vs ++ repeat 0 k) ops.
Proof.
  intros w vs ops Hw Hf Hb. destruct (rle_encode_denotes w vs Hf Hb) as (k & Hk & HD).
  exists k. split; [exact Hk|]. exact (rle_stream_refines_lemma w _ _ ops Hw HD).
Qed.
Print Assumptions rle_stream_refines_own_output.

(* ====================================================================================
   C11, other encodings: restated from the enc2 engine (models Enc/Plain*, Delta*, DeltaLen*, DeltaStr*,
   Bss*, Dict*; values are bit patterns, [len] is the length as N).
   ==================================================================================== *)
From Coq Require Import ZArith.
From Carquet Require Import Base.Res Enc.DeltaBits
  Enc.PlainSpec Enc.PlainModel Enc.PlainProofs Enc.BssSpec Enc.BssModel Enc.BssProofs
  Enc.DeltaSpec Enc.DeltaModel Enc.DeltaArith Enc.DeltaProofs Enc.DeltaLenModel Enc.DeltaStrModel Enc.DeltaStrProofs
  Enc.DictModel Enc.DictProofs Enc.RleModel Enc.DictRleInst.

(* ---------------------------------------------------------------- PLAIN *)
Theorem plain_roundtrip_boolean : forall vs, len vs < 2 ^ 63 ->
  plain_decode_boolean (plain_encode_boolean vs) (len vs) = Ok (map truth vs, len (plain_encode_boolean vs)).
Proof. exact PlainProofs.plain_roundtrip_boolean. Qed.
Print Assumptions plain_roundtrip_boolean.

Theorem plain_roundtrip_int32 : forall vs, Forall PlainProofs.u32v vs ->
  plain_decode_int32 (plain_encode_int32 vs) (len vs) = Ok (vs, len (plain_encode_int32 vs)).
Proof. exact PlainProofs.plain_roundtrip_int32. Qed.
Print Assumptions plain_roundtrip_int32.

Theorem plain_roundtrip_int64 : forall vs, Forall PlainProofs.u64v vs ->
  plain_decode_int64 (plain_encode_int64 vs) (len vs) = Ok (vs, len (plain_encode_int64 vs)).
Proof. exact PlainProofs.plain_roundtrip_int64. Qed.
Print Assumptions plain_roundtrip_int64.

Theorem plain_roundtrip_int96 : forall vs, Forall u96v vs ->
  plain_decode_int96 (plain_encode_int96 vs) (len vs) = Ok (vs, len (plain_encode_int96 vs)).
Proof. exact PlainProofs.plain_roundtrip_int96. Qed.
Print Assumptions plain_roundtrip_int96.

Theorem plain_roundtrip_float : forall vs, Forall PlainProofs.u32v vs ->
  plain_decode_float (plain_encode_float vs) (len vs) = Ok (vs, len (plain_encode_float vs)).
Proof. exact PlainProofs.plain_roundtrip_float. Qed.
Print Assumptions plain_roundtrip_float.

Theorem plain_roundtrip_double : forall vs, Forall PlainProofs.u64v vs ->
  plain_decode_double (plain_encode_double vs) (len vs) = Ok (vs, len (plain_encode_double vs)).
Proof. exact PlainProofs.plain_roundtrip_double. Qed.
Print Assumptions plain_roundtrip_double.

Theorem plain_roundtrip_byte_array : forall vs, Forall ba_ok vs ->
  plain_decode_byte_array (plain_encode_byte_array vs) (len vs) = Ok (vs, len (plain_encode_byte_array vs)).
Proof. exact PlainProofs.plain_roundtrip_byte_array. Qed.
Print Assumptions plain_roundtrip_byte_array.

Theorem plain_roundtrip_flba : forall raw count flen, flen <> 0 -> len raw = count * flen ->
  plain_decode_flba (plain_encode_flba raw) count flen = Ok (raw, len (plain_encode_flba raw)).
Proof. exact PlainProofs.plain_roundtrip_flba. Qed.
Print Assumptions plain_roundtrip_flba.

(* ---------------------------------------------------------------- DELTA_BINARY_PACKED *)
Theorem delta64_roundtrip : forall vs, vs <> [] -> Forall DeltaProofs.u64v vs -> len vs < 2 ^ 31 ->
  delta_decode_int64 (delta_bytes_int64 vs) (len vs) = Ok (vs, len (delta_bytes_int64 vs)).
Proof. exact DeltaProofs.delta64_roundtrip. Qed.
Print Assumptions delta64_roundtrip.

Theorem delta32_roundtrip : forall vs, vs <> [] -> Forall DeltaProofs.u32v vs -> len vs < 2 ^ 31 ->
  delta_decode_int32 (delta_bytes_int32 vs) (len vs) = Ok (vs, len (delta_bytes_int32 vs)).
Proof. exact DeltaProofs.delta32_roundtrip. Qed.
Print Assumptions delta32_roundtrip.

(* the C entry points with their capacity checks write exactly [delta_bytes_*] whenever they report success *)
Theorem delta_encode_int64_ok : forall vs cap bs, delta_encode_int64 vs cap = Ok bs -> bs = delta_bytes_int64 vs.
Proof. exact DeltaProofs.delta_encode_int64_ok. Qed.
Print Assumptions delta_encode_int64_ok.

Theorem delta_encode_int32_ok : forall vs cap bs, delta_encode_int32 vs cap = Ok bs -> bs = delta_bytes_int32 vs.
Proof. exact DeltaProofs.delta_encode_int32_ok. Qed.
Print Assumptions delta_encode_int32_ok.

(* zero values: as the C code behaves *)
Theorem delta_empty_encode : forall cap, delta_encode_int64 [] cap = Ok [] /\ delta_encode_int32 [] cap = Ok [].
Proof. exact DeltaProofs.delta_empty_encode. Qed.
Print Assumptions delta_empty_encode.

Theorem delta_empty_decode : delta_decode_int64 [] 0 = Err DeltaModel.ERR_DECODE /\ delta_decode_int32 [] 0 = Err DeltaModel.ERR_DECODE.
Proof. exact DeltaProofs.delta_empty_decode. Qed.
Print Assumptions delta_empty_decode.

(* ---------------------------------------------------------------- DELTA_LENGTH / DELTA_BYTE_ARRAY *)
Theorem delta_length_roundtrip : forall vs bs, vs <> [] -> Forall str_ok vs -> len vs < 2 ^ 31 ->
  delta_length_encode vs = Ok bs -> delta_length_decode bs (len vs) = Ok (vs, len bs).
Proof. exact DeltaStrProofs.delta_length_roundtrip. Qed.
Print Assumptions delta_length_roundtrip.

Theorem delta_strings_roundtrip : forall vs bs work_cap, vs <> [] -> Forall str_ok vs -> len vs < 2 ^ 31 ->
  len (concat vs) <= work_cap -> delta_strings_encode vs = Ok bs ->
  delta_strings_decode bs (len vs) work_cap = Ok (vs, len bs).
Proof. exact DeltaStrProofs.delta_strings_roundtrip. Qed.
Print Assumptions delta_strings_roundtrip.

Theorem delta_length_empty : forall data, delta_length_encode [] = Err DeltaLenModel.ERR_INVALID_ARGUMENT /\
  delta_length_decode data 0 = Err DeltaLenModel.ERR_INVALID_ARGUMENT.
Proof. exact DeltaStrProofs.delta_length_empty. Qed.
Print Assumptions delta_length_empty.

Theorem delta_strings_empty : forall data cap, delta_strings_encode [] = Err DeltaLenModel.ERR_INVALID_ARGUMENT /\
  delta_strings_decode data 0 cap = Err DeltaLenModel.ERR_INVALID_ARGUMENT.
Proof. exact DeltaStrProofs.delta_strings_empty. Qed.
Print Assumptions delta_strings_empty.

(* ---------------------------------------------------------------- BYTE_STREAM_SPLIT *)
Theorem bss_roundtrip_flba : forall k values count cap,
  k <> 0 -> len values = count * k -> count * k < 2 ^ 64 -> count * k <= cap ->
  exists enc, bss_encode k values count cap = Ok enc /\ len enc = count * k /\ bss_decode k enc count = Ok values.
Proof. exact BssProofs.bss_roundtrip_flba. Qed.
Print Assumptions bss_roundtrip_flba.

Theorem bss_roundtrip_float : forall values count cap, len values = count * 4 -> count * 4 < 2 ^ 64 -> count * 4 <= cap ->
  exists enc, bss_encode_float values count cap = Ok enc /\ len enc = count * 4 /\ bss_decode_float enc count = Ok values.
Proof. exact BssProofs.bss_roundtrip_float. Qed.
Print Assumptions bss_roundtrip_float.

Theorem bss_roundtrip_double : forall values count cap, len values = count * 8 -> count * 8 < 2 ^ 64 -> count * 8 <= cap ->
  exists enc, bss_encode_double values count cap = Ok enc /\ len enc = count * 8 /\ bss_decode_double enc count = Ok values.
Proof. exact BssProofs.bss_roundtrip_double. Qed.
Print Assumptions bss_roundtrip_double.

(* ---------------------------------------------------------------- dictionary *)
(* with carquet's own index codec (Enc/RleModel.v through the adapter DictRleInst.rle_enc / rle_dec; hypothesis closed
   with RleProofs.rle_roundtrip_lemma) *)
Theorem dict_roundtrip_int32_rle : forall vs, Forall (fun v => v < 2 ^ 32) vs -> len vs < 2 ^ 31 ->
  let '(d, ixs) := dict_encode_fixed rle_enc 4 vs in
  dict_decode_fixed rle_dec 4 d (Z.of_N (len d / 4)) ixs (len vs) = Ok vs.
Proof. exact DictRleInst.dict_roundtrip_int32_rle. Qed.
Print Assumptions dict_roundtrip_int32_rle.

Theorem dict_roundtrip_int64_rle : forall vs, Forall (fun v => v < 2 ^ 64) vs -> len vs < 2 ^ 31 ->
  let '(d, ixs) := dict_encode_fixed rle_enc 8 vs in
  dict_decode_fixed rle_dec 8 d (Z.of_N (len d / 8)) ixs (len vs) = Ok vs.
Proof. exact DictRleInst.dict_roundtrip_int64_rle. Qed.
Print Assumptions dict_roundtrip_int64_rle.

Theorem dict_roundtrip_float_rle : forall vs, Forall (fun v => v < 2 ^ 32) vs -> len vs < 2 ^ 31 ->
  let '(d, ixs) := dict_encode_fixed rle_enc 4 vs in
  dict_decode_fixed rle_dec 4 d (Z.of_N (len d / 4)) ixs (len vs) = Ok vs.
Proof. exact DictRleInst.dict_roundtrip_float_rle. Qed.
Print Assumptions dict_roundtrip_float_rle.

Theorem dict_roundtrip_double_rle : forall vs, Forall (fun v => v < 2 ^ 64) vs -> len vs < 2 ^ 31 ->
  let '(d, ixs) := dict_encode_fixed rle_enc 8 vs in
  dict_decode_fixed rle_dec 8 d (Z.of_N (len d / 8)) ixs (len vs) = Ok vs.
Proof. exact DictRleInst.dict_roundtrip_double_rle. Qed.
Print Assumptions dict_roundtrip_double_rle.

Theorem dict_roundtrip_fixed_rle : forall k vs, (0 < k)%nat -> Forall (fun v => v < 256 ^ N.of_nat k) vs -> len vs < 2 ^ 31 ->
  let '(d, ixs) := dict_encode_fixed rle_enc k vs in
  dict_decode_fixed rle_dec k d (Z.of_N (len d / N.of_nat k)) ixs (len vs) = Ok vs.
Proof. exact DictRleInst.dict_roundtrip_fixed_rle. Qed.
Print Assumptions dict_roundtrip_fixed_rle.

(* the same relative to ANY index-stream codec with the round-trip property *)
Theorem dict_roundtrip_fixed : forall (rle_encode : N -> list N -> list N) (rle_decode : N -> list N -> N -> res (list N)),
  (forall w ix, w <= 32 -> Forall (fun i => i < 2 ^ w) ix -> len ix < 2 ^ 31 -> rle_decode w (rle_encode w ix) (len ix) = Ok ix) ->
  forall k vs, (0 < k)%nat -> Forall (fun v => v < 256 ^ N.of_nat k) vs -> len vs < 2 ^ 31 ->
  let '(d, ixs) := dict_encode_fixed rle_encode k vs in
  dict_decode_fixed rle_decode k d (Z.of_N (len d / N.of_nat k)) ixs (len vs) = Ok vs.
Proof. exact DictProofs.dict_roundtrip_fixed. Qed.
Print Assumptions dict_roundtrip_fixed.

Theorem dict_roundtrip_int32 : forall (rle_encode : N -> list N -> list N) (rle_decode : N -> list N -> N -> res (list N)),
  (forall w ix, w <= 32 -> Forall (fun i => i < 2 ^ w) ix -> len ix < 2 ^ 31 -> rle_decode w (rle_encode w ix) (len ix) = Ok ix) ->
  forall vs, Forall (fun v => v < 2 ^ 32) vs -> len vs < 2 ^ 31 ->
  let '(d, ixs) := dict_encode_fixed rle_encode 4 vs in
  dict_decode_fixed rle_decode 4 d (Z.of_N (len d / 4)) ixs (len vs) = Ok vs.
Proof. exact DictProofs.dict_roundtrip_int32. Qed.
Print Assumptions dict_roundtrip_int32.

Theorem dict_roundtrip_int64 : forall (rle_encode : N -> list N -> list N) (rle_decode : N -> list N -> N -> res (list N)),
  (forall w ix, w <= 32 -> Forall (fun i => i < 2 ^ w) ix -> len ix < 2 ^ 31 -> rle_decode w (rle_encode w ix) (len ix) = Ok ix) ->
  forall vs, Forall (fun v => v < 2 ^ 64) vs -> len vs < 2 ^ 31 ->
  let '(d, ixs) := dict_encode_fixed rle_encode 8 vs in
  dict_decode_fixed rle_decode 8 d (Z.of_N (len d / 8)) ixs (len vs) = Ok vs.
Proof. exact DictProofs.dict_roundtrip_int64. Qed.
Print Assumptions dict_roundtrip_int64.

Theorem dict_roundtrip_float : forall (rle_encode : N -> list N -> list N) (rle_decode : N -> list N -> N -> res (list N)),
  (forall w ix, w <= 32 -> Forall (fun i => i < 2 ^ w) ix -> len ix < 2 ^ 31 -> rle_decode w (rle_encode w ix) (len ix) = Ok ix) ->
  forall vs, Forall (fun v => v < 2 ^ 32) vs -> len vs < 2 ^ 31 ->
  let '(d, ixs) := dict_encode_fixed rle_encode 4 vs in
  dict_decode_fixed rle_decode 4 d (Z.of_N (len d / 4)) ixs (len vs) = Ok vs.
Proof. exact DictProofs.dict_roundtrip_float. Qed.
Print Assumptions dict_roundtrip_float.

Theorem dict_roundtrip_double : forall (rle_encode : N -> list N -> list N) (rle_decode : N -> list N -> N -> res (list N)),
  (forall w ix, w <= 32 -> Forall (fun i => i < 2 ^ w) ix -> len ix < 2 ^ 31 -> rle_decode w (rle_encode w ix) (len ix) = Ok ix) ->
  forall vs, Forall (fun v => v < 2 ^ 64) vs -> len vs < 2 ^ 31 ->
  let '(d, ixs) := dict_encode_fixed rle_encode 8 vs in
  dict_decode_fixed rle_decode 8 d (Z.of_N (len d / 8)) ixs (len vs) = Ok vs.
Proof. exact DictProofs.dict_roundtrip_double. Qed.
Print Assumptions dict_roundtrip_double.

(* BYTE_ARRAY has no dictionary decoder in dictionary.c: the dictionary page is the PLAIN encoding of the distinct
   values in first-occurrence order and every index selects its value *)
Theorem dict_byte_array_sound : forall (rle_encode : N -> list N -> list N) vs,
  let '(d, ix) := build vs [] in
  fst (dict_encode_byte_array rle_encode vs) = plain_encode_byte_array d /\
  Forall2 (fun v i => nth_error d (N.to_nat i) = Some v) vs ix /\ NoDup d.
Proof. exact DictProofs.dict_byte_array_sound. Qed.
Print Assumptions dict_byte_array_sound.
