(** C01 - write-then-read round trip returns exactly the table that was written.
    This file only restates lemmas proved in Writer/LevelProofs.v and Writer/WriterProofs.v
    (models: Writer/PageWriterModel.v, Reader/PageDecodeModel.v; table semantics: Writer/TableSpec.v).

    Full statement (kept visible; proved layer by layer, see design.d/C01.md):
      forall schema options ops,  table_of schema ops = Some t ->  run_writer schema options ops = Ok (sts, w, true) ->
      all_ok sts = true ->  drop_empty (read_all (f_out w)) = Ok (result_of_table t)
    i.e. same schema, row count, partition into non-empty row groups, null positions and bit-identical values for
    every partition of every column's rows into write_batch calls; OPTIONAL without definition levels reads back
    all-present.  Proved so far: the page layer below.  Missing: chunk layer (pages in sequence, flush rule),
    file layer (offsets, footer round trip as hypothesis). *)
From Coq Require Import NArith List.
From Carquet Require Import Base.Res Enc.RleModel Enc.DeltaBits Enc.PlainModel Writer.TableSpec Writer.PageWriterModel
     Reader.PageDecodeModel Writer.LevelProofs Writer.WriterProofs.
Import ListNotations.
Local Open Scope N_scope.

(** The reader's level decoder (carquet_rle_decode_levels) inverts the writer's level encoder on every level
    sequence: any mix of runs, any length below 2^31. *)
Theorem c01_levels_roundtrip : forall w vs, (w <= 32)%nat -> Forall (fun v => v < 2 ^ N.of_nat w) vs ->
  2 * N.of_nat (length vs) < 2 ^ 32 -> decode_levels w (encode_all w vs) (length vs) = Ok vs.
Proof. exact levels_roundtrip. Qed.
Print Assumptions c01_levels_roundtrip.

(** PLAIN booleans: whatever the split of the values over write_batch calls, the page's value bytes are the
    bit-packing of the concatenation (the repaired append_booleans). *)
Theorem c01_booleans_across_batches : forall all bs,
  append_booleans (plain_encode_boolean all) (len all) bs = (plain_encode_boolean (all ++ bs), len (all ++ bs)).
Proof. exact append_booleans_spec. Qed.
Print Assumptions c01_booleans_across_batches.

(** Every sequence of consistent write_batch calls (any partition of the rows, with or without definition
    levels, zero-row calls included) leaves the page writer holding exactly the encodings of the rows written. *)
Theorem c01_any_partition_same_page : forall c bs w rows, PInv c w rows -> forallb (batch_ok c) bs = true ->
  exists w', add_all w bs = Ok w' /\ PInv c w' (rows ++ rows_of c bs).
Proof. exact add_all_inv. Qed.
Print Assumptions c01_any_partition_same_page.

(** Page layer of the round trip: decoding the finalized page body with the reader's page decoder gives back the
    rows written - null positions and bit-identical values. *)
Theorem c01_page_body_roundtrip_partial : forall c w rows, column_ok c = true -> PInv c w rows -> rows <> [] ->
  len rows < 2 ^ 31 -> len (page_body w) < 2 ^ 31 ->
  exists defs vals, read_data_page_v1 c (page_body w) (p_num_values w) = Ok (defs, vals)
                    /\ rows_of_page c defs vals = rows.
Proof. exact page_body_roundtrip. Qed.
Print Assumptions c01_page_body_roundtrip_partial.
