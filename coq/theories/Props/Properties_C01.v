(** C01 - write-then-read round trip returns exactly the table that was written.
    This file only restates lemmas proved in Writer/{LevelProofs,WriterProofs,ChunkProofs,FileProofs}.v.
    Models: Writer/{PageWriter,ColumnWriter,FileWriter}Model.v (the repaired writer), Reader/{PageDecode,ReadAll}Model.v,
    Reader/FooterModel.v (reader owner).  Table semantics: Writer/TableSpec.v (independent of every model).

    The layers are stated separately (page, chunk) and composed (file).  The composed theorem carries, as explicit
    premises, what other properties establish or what is external:
      - codec round trip  decompress (compress b) |b| = b     C09/C10 for carquet's Snappy and LZ4; zlib, zstd external
      - the page-header and footer parsers read back what the encoders wrote                         C13 (Thrift)
        (premises of the parametric theorems; DISCHARGED for carquet's own Thrift code in the *_carquet theorems at
        the end of this file: Writer/ThriftHeader.v, Writer/ThriftFooter.v, Writer/CarquetInstances.v)
      - sizes that fit the int32/uint32 fields of the format (chunk totals < 2^31, footer < 2^32).
    Not covered by the proof (observed by the check): pointer lifetime of byte-array results; consumption
    histories other than one large read_batch per chunk are C02 (cursor_refines), the three I/O paths C03. *)
From Coq Require Import NArith ZArith List.
From Carquet Require Import Base.Res Gen.Enums_gen Enc.RleModel Enc.DeltaBits Enc.PlainModel
     Writer.TableSpec Writer.PageWriterModel Writer.ColumnWriterModel Writer.FileWriterModel
     Reader.PageDecodeModel Reader.ReadAllModel
     Writer.LevelProofs Writer.WriterProofs Writer.ChunkProofs Writer.FileProofs
     Writer.WriterThriftModel Writer.CodecInstances Writer.ThriftHeader Writer.ThriftFooter Writer.CarquetInstances.
Import ListNotations.
Local Open Scope N_scope.

(** The reader's level decoder (carquet_rle_decode_levels) inverts the writer's level encoder on every level
    sequence: any mix of runs, any length below 2^31. *)
Theorem c01_levels_roundtrip : forall w vs, (w <= 32)%nat -> Forall (fun v => v < 2 ^ N.of_nat w) vs ->
  2 * N.of_nat (length vs) < 2 ^ 32 -> decode_levels w (encode_all w vs) (length vs) = Ok vs.
Proof. exact levels_roundtrip. Qed.
Print Assumptions c01_levels_roundtrip.

(** PLAIN booleans: whatever the split of the values over write_batch calls, the page's value bytes are the
    bit-packing of the concatenation (the repaired append_booleans). *)
Theorem c01_booleans_across_batches : forall all bs,
  append_booleans (plain_encode_boolean all) (len all) bs = (plain_encode_boolean (all ++ bs), len (all ++ bs)).
Proof. exact append_booleans_spec. Qed.
Print Assumptions c01_booleans_across_batches.

(** Every sequence of consistent write_batch calls (any partition of the rows, with or without definition
    levels, zero-row calls included) leaves the page writer holding exactly the encodings of the rows written. *)
Theorem c01_any_partition_same_page : forall c bs w rows, PInv c w rows -> forallb (batch_ok c) bs = true ->
  exists w', add_all w bs = Ok w' /\ PInv c w' (rows ++ rows_of c bs).
Proof. exact add_all_inv. Qed.
Print Assumptions c01_any_partition_same_page.

(** Page layer: decoding the finalized page body with the reader's page decoder gives back the rows written -
    null positions and bit-identical values (an OPTIONAL column written without levels: all present). *)
Theorem c01_page_body_roundtrip : forall c w rows, column_ok c = true -> PInv c w rows -> rows <> [] ->
  len rows < 2 ^ 31 -> len (page_body w) < 2 ^ 31 ->
  exists defs vals, read_data_page_v1 c (page_body w) (p_num_values w) = Ok (defs, vals)
                    /\ rows_of_page c defs vals = rows.
Proof. exact page_body_roundtrip. Qed.
Print Assumptions c01_page_body_roundtrip.

(** Chunk layer: for every partition of a column's rows into write_batch calls and every target page size (any
    number of pages, cut wherever the size estimate says), reading the chunk page after page - header, CRC,
    decompression, page decode - wherever it lies in the file returns exactly the rows written.  [hdr_ok]: the
    headers the writer emits (sizes and counts below 2^31, CRC below 2^32, statistics of at most 8 bytes). *)
Theorem c01_chunk_roundtrip :
  forall (codec : Z) (compress : list N -> list N) (decompress : list N -> N -> res (list N))
         (header : page_hdr -> list N) (parse_header : list N -> res (hdr_core * N)) (verify : bool),
  (Z.eqb codec E_CARQUET_COMPRESSION_UNCOMPRESSED = true -> forall b, compress b = b) ->
  (Z.eqb codec E_CARQUET_COMPRESSION_UNCOMPRESSED = false ->
   forall b, Forall (fun x => x < 256) b -> len b < 2 ^ 31 -> decompress (compress b) (len b) = Ok b) ->
  (forall b, Forall (fun x => x < 256) b -> len b < 2 ^ 31 -> Forall (fun x => x < 256) (compress b)) ->
  (forall h rest, hdr_ok h -> parse_header (header h ++ rest) = Ok (core_of h, len (header h))) ->
  (forall h, hdr_ok h -> len (header h) <= 256) -> (forall h, hdr_ok h -> 0 < len (header h)) ->
  forall c page_size bs w, column_ok c = true -> forallb (batch_ok c) bs = true ->
  cw_write_all compress header (cw_init c page_size) bs = Ok w ->
  let f := cw_finalize compress header w in
  w_total_values f < 2 ^ 31 -> w_total_uncompressed f < 2 ^ 31 -> len (w_buf f) < 2 ^ 31 ->
  w_total_values f = len (rows_of c bs) /\
  forall pre post fuel, (length (w_buf f) <= fuel)%nat ->
    read_chunk codec decompress parse_header verify fuel c (pre ++ w_buf f ++ post) (len pre) (w_total_values f)
    = Ok (rows_of c bs).
Proof. exact chunk_roundtrip. Qed.
Print Assumptions c01_chunk_roundtrip.

(** The property, parametric in the codec and the Thrift encoders: for every flat schema within the parser's
    limits, every options record (codec, page size), every write history [ops] that denotes a table [t]
    (TableSpec.table_of: any partition of every column's rows into write_batch calls, row groups cut anywhere - fewer
    than MAX_ROW_GROUPS new_row_group calls -, zero-row calls, redundant new_row_group calls, OPTIONAL columns written
    without definition levels) - every writer call returns OK, the file re-opens, and reading it back yields the
    same schema, the same row count, the same partition into non-empty row groups and, per column, the same null
    positions and bit-identical values.  [meta_small]: every number of the footer fits its Thrift field, names are C
    strings; [small_chunk]: chunk totals below 2^31. *)
Theorem c01_write_read_roundtrip :
  forall (compress : list N -> list N) (decompress : list N -> N -> res (list N))
         (header : page_hdr -> list N) (parse_header : list N -> res (hdr_core * N))
         (footer : file_meta -> list N) (parse_footer : list N -> res file_meta) (verify : bool)
         (sch : list column) (opts : options),
  (Z.eqb (o_codec opts) E_CARQUET_COMPRESSION_UNCOMPRESSED = true -> forall b, compress b = b) ->
  (Z.eqb (o_codec opts) E_CARQUET_COMPRESSION_UNCOMPRESSED = false ->
   forall b, Forall (fun x => x < 256) b -> len b < 2 ^ 31 -> decompress (compress b) (len b) = Ok b) ->
  (forall b, Forall (fun x => x < 256) b -> len b < 2 ^ 31 -> Forall (fun x => x < 256) (compress b)) ->
  (forall h rest, hdr_ok h -> parse_header (header h ++ rest) = Ok (core_of h, len (header h))) ->
  (forall h, hdr_ok h -> len (header h) <= 256) -> (forall h, hdr_ok h -> 0 < len (header h)) ->
  (forall m, footer_dom m -> parse_footer (footer m) = Ok m) ->
  forallb column_ok sch = true ->
  forall ops t, table_of sch ops = Some t ->
  schema_fits sch = true -> N.of_nat (S (newrgs ops)) <= MAX_ROW_GROUPS ->
  exists sts w, run_writer compress header footer sch opts ops = Ok (sts, w, true) /\ all_ok sts = true /\
    (Forall (fun g => Forall small_chunk (rg_chunks g)) (f_groups w) ->
     meta_small (metadata_of w) -> len (footer (metadata_of w)) < 2 ^ 32 ->
     exists r, read_all (o_codec opts) decompress parse_header parse_footer verify (f_out w) = Ok r
               /\ drop_empty r = result_of_table t).
Proof. exact write_read_roundtrip. Qed.
Print Assumptions c01_write_read_roundtrip.

(** The same for files written with UNCOMPRESSED, SNAPPY, LZ4 or LZ4_RAW, where the compressor and decompressor are
    carquet's own code (compress_data / decompress_page on the concrete models of C09/C10): the codec premises are
    discharged by snappy_roundtrip_thm / lz4_roundtrip_thm and the *_compress_valid theorems. *)
Theorem c01_write_read_roundtrip_own_codecs :
  forall (header : page_hdr -> list N) (parse_header : list N -> res (hdr_core * N))
         (footer : file_meta -> list N) (parse_footer : list N -> res file_meta) (verify : bool)
         (sch : list column) (opts : options),
  own_codec (o_codec opts) ->
  (forall h rest, hdr_ok h -> parse_header (header h ++ rest) = Ok (core_of h, len (header h))) ->
  (forall h, hdr_ok h -> len (header h) <= 256) -> (forall h, hdr_ok h -> 0 < len (header h)) ->
  (forall m, footer_dom m -> parse_footer (footer m) = Ok m) ->
  forallb column_ok sch = true ->
  forall ops t, table_of sch ops = Some t ->
  schema_fits sch = true -> N.of_nat (S (newrgs ops)) <= MAX_ROW_GROUPS ->
  exists sts w, run_writer (codec_compress (o_codec opts)) header footer sch opts ops = Ok (sts, w, true)
    /\ all_ok sts = true /\
    (Forall (fun g => Forall small_chunk (rg_chunks g)) (f_groups w) ->
     meta_small (metadata_of w) -> len (footer (metadata_of w)) < 2 ^ 32 ->
     exists r, read_all (o_codec opts) (codec_decompress (o_codec opts)) parse_header parse_footer verify (f_out w) = Ok r
               /\ drop_empty r = result_of_table t).
Proof. exact write_read_roundtrip_own_codecs. Qed.
Print Assumptions c01_write_read_roundtrip_own_codecs.

(** ---- carquet's own Thrift code: no Thrift premise ----

    [thrift_page_header] is parquet_write_page_header on the header finalize builds, [thrift_footer] is
    parquet_write_file_metadata on the structure carquet_writer_close builds, [concrete_parse_header] /
    [concrete_parse_footer] are parquet_parse_page_header / parquet_parse_file_metadata reduced to what the reader
    uses (all tied byte-for-byte to the C code by checks C01, C05 and C13). *)

(** Every page header the writer can produce ([hdr_ok]: sizes and counts fit int32, statistics at most 64 bytes)
    is read back exactly, from any position in the file, and occupies between 1 and 256 bytes (the reader's window). *)
Theorem c01_page_header_carquet : forall h rest, hdr_ok h ->
  concrete_parse_header (thrift_page_header h ++ rest) = Ok (core_of h, len (thrift_page_header h)) /\
  0 < len (thrift_page_header h) <= 256.
Proof. exact page_header_carquet. Qed.
Print Assumptions c01_page_header_carquet.

(** Every footer the writer can produce ([footer_dom]: one chunk per schema column, numbers within their Thrift
    fields, names that are C strings, list sizes within the parser's limits) parses back to the same metadata. *)
Theorem c01_footer_roundtrip_carquet : forall m, footer_dom m -> concrete_parse_footer (thrift_footer m) = Ok m.
Proof. exact thrift_footer_roundtrip. Qed.
Print Assumptions c01_footer_roundtrip_carquet.

(** Hence different metadata never share a footer. *)
Theorem c01_footer_injective_carquet : forall m1 m2, footer_dom m1 -> footer_dom m2 ->
  thrift_footer m1 = thrift_footer m2 -> m1 = m2.
Proof. exact thrift_footer_injective. Qed.
Print Assumptions c01_footer_injective_carquet.

(** The chunk layer with carquet's page headers; any codec satisfying the three codec facts (the form for GZIP and
    ZSTD, whose compressors are zlib and libzstd). *)
Theorem c01_chunk_roundtrip_carquet :
  forall (codec : Z) (compress : list N -> list N) (decompress : list N -> N -> res (list N)) (verify : bool),
  (Z.eqb codec E_CARQUET_COMPRESSION_UNCOMPRESSED = true -> forall b, compress b = b) ->
  (Z.eqb codec E_CARQUET_COMPRESSION_UNCOMPRESSED = false ->
   forall b, Forall (fun x => x < 256) b -> len b < 2 ^ 31 -> decompress (compress b) (len b) = Ok b) ->
  (forall b, Forall (fun x => x < 256) b -> len b < 2 ^ 31 -> Forall (fun x => x < 256) (compress b)) ->
  forall (c : column) (page_size : N) (bs : list batch) (w : cw),
  column_ok c = true -> forallb (batch_ok c) bs = true ->
  cw_write_all compress thrift_page_header (cw_init c page_size) bs = Ok w ->
  let f := cw_finalize compress thrift_page_header w in
  w_total_values f < 2 ^ 31 -> w_total_uncompressed f < 2 ^ 31 -> len (w_buf f) < 2 ^ 31 ->
  w_total_values f = len (rows_of c bs) /\
  (forall pre post fuel, (length (w_buf f) <= fuel)%nat ->
     read_chunk codec decompress concrete_parse_header verify fuel c (pre ++ w_buf f ++ post) (len pre) (w_total_values f)
     = Ok (rows_of c bs)).
Proof. exact chunk_roundtrip_carquet. Qed.
Print Assumptions c01_chunk_roundtrip_carquet.

(** The chunk layer for UNCOMPRESSED, SNAPPY, LZ4, LZ4_RAW: every piece is carquet's code, only size bounds remain. *)
Theorem c01_chunk_roundtrip_carquet_own :
  forall (codec : Z) (verify : bool), own_codec codec ->
  forall (c : column) (page_size : N) (bs : list batch) (w : cw),
  column_ok c = true -> forallb (batch_ok c) bs = true ->
  cw_write_all (codec_compress codec) thrift_page_header (cw_init c page_size) bs = Ok w ->
  let f := cw_finalize (codec_compress codec) thrift_page_header w in
  w_total_values f < 2 ^ 31 -> w_total_uncompressed f < 2 ^ 31 -> len (w_buf f) < 2 ^ 31 ->
  w_total_values f = len (rows_of c bs) /\
  (forall pre post fuel, (length (w_buf f) <= fuel)%nat ->
     read_chunk codec (codec_decompress codec) concrete_parse_header verify fuel c (pre ++ w_buf f ++ post) (len pre) (w_total_values f)
     = Ok (rows_of c bs)).
Proof. exact chunk_roundtrip_carquet_own. Qed.
Print Assumptions c01_chunk_roundtrip_carquet_own.

(** The whole file with carquet's page headers and footer; any codec satisfying the three codec facts. *)
Theorem c01_write_read_roundtrip_carquet :
  forall (compress : list N -> list N) (decompress : list N -> N -> res (list N)) (verify : bool)
         (sch : list column) (opts : options),
  (Z.eqb (o_codec opts) E_CARQUET_COMPRESSION_UNCOMPRESSED = true -> forall b, compress b = b) ->
  (Z.eqb (o_codec opts) E_CARQUET_COMPRESSION_UNCOMPRESSED = false ->
   forall b, Forall (fun x => x < 256) b -> len b < 2 ^ 31 -> decompress (compress b) (len b) = Ok b) ->
  (forall b, Forall (fun x => x < 256) b -> len b < 2 ^ 31 -> Forall (fun x => x < 256) (compress b)) ->
  forallb column_ok sch = true ->
  forall ops t, table_of sch ops = Some t ->
  schema_fits sch = true -> N.of_nat (S (newrgs ops)) <= MAX_ROW_GROUPS ->
  exists sts w, run_writer compress thrift_page_header thrift_footer sch opts ops = Ok (sts, w, true)
    /\ all_ok sts = true /\
    (Forall (fun g => Forall small_chunk (rg_chunks g)) (f_groups w) ->
     meta_small (metadata_of w) -> len (thrift_footer (metadata_of w)) < 2 ^ 32 ->
     exists r, read_all (o_codec opts) decompress concrete_parse_header concrete_parse_footer verify (f_out w) = Ok r
               /\ drop_empty r = result_of_table t).
Proof. exact write_read_roundtrip_carquet. Qed.
Print Assumptions c01_write_read_roundtrip_carquet.

(** The whole file for UNCOMPRESSED, SNAPPY, LZ4, LZ4_RAW: writer, compressors, Thrift encoders, parsers,
    decompressors and reader are all carquet's; the only premises are the history being a table, the parser limits,
    and the size bounds on what was produced. *)
Theorem c01_write_read_roundtrip_carquet_own :
  forall (verify : bool) (sch : list column) (opts : options), own_codec (o_codec opts) ->
  forallb column_ok sch = true ->
  forall ops t, table_of sch ops = Some t ->
  schema_fits sch = true -> N.of_nat (S (newrgs ops)) <= MAX_ROW_GROUPS ->
  exists sts w, run_writer (codec_compress (o_codec opts)) thrift_page_header thrift_footer sch opts ops = Ok (sts, w, true)
    /\ all_ok sts = true /\
    (Forall (fun g => Forall small_chunk (rg_chunks g)) (f_groups w) ->
     meta_small (metadata_of w) -> len (thrift_footer (metadata_of w)) < 2 ^ 32 ->
     exists r, read_all (o_codec opts) (codec_decompress (o_codec opts)) concrete_parse_header concrete_parse_footer verify (f_out w) = Ok r
               /\ drop_empty r = result_of_table t).
Proof. exact write_read_roundtrip_carquet_own. Qed.
Print Assumptions c01_write_read_roundtrip_carquet_own.
