(** C18 - truncated files are rejected and failed writes are never reported OK.
    This file only restates lemmas proved in Reader/FooterProofs.v (model Reader/FooterModel.v: the open
    decision of the three open paths) and Writer/SinkProofs.v (models Writer/Stdio.v: a buffered stream
    over a failing sink, Writer/CloseModel.v: the stream calls of file_writer.c).  Which checks the C code
    makes is regenerated from the sources into Gen/Robust_gen.v on every run. *)
From Coq Require Import NArith ZArith List.
From Carquet Require Import Base.Res Gen.Enums_gen Reader.FooterModel Reader.FooterProofs
  Writer.Stdio Writer.CloseModel Writer.SinkProofs Reader.PageBoundsModel Reader.RobustInst.
Import ListNotations.

(** The open decision never reads outside the file: for every byte string and every open path. *)
Theorem open_decision_in_bounds : forall m f, open_stage m f <> StFault.
Proof. exact open_stage_no_fault. Qed.
Print Assumptions open_decision_in_bounds.

(** A file shorter than magic + footer length + magic is rejected by every open path. *)
Theorem short_rejected : forall (meta : Type) (parse : list N -> res meta) m f,
  length f < 12 -> exists c, open meta parse m f = Err c /\ c <> 0%Z.
Proof. exact FooterProofs.short_rejected. Qed.
Print Assumptions short_rejected.

(** A file that does not end with PAR1 is rejected with INVALID_MAGIC by every open path. *)
Theorem bad_magic_rejected : forall (meta : Type) (parse : list N -> res meta) m f,
  12 <= length f -> ~ ends_with_magic f -> open meta parse m f = Err E_CARQUET_ERROR_INVALID_MAGIC.
Proof. exact FooterProofs.bad_magic_rejected. Qed.
Print Assumptions bad_magic_rejected.

(** A footer length that does not fit between the magics is rejected with INVALID_FOOTER. *)
Theorem footer_len_rejected : forall (meta : Type) (parse : list N -> res meta) m f,
  12 <= length f -> (m <> Fread -> starts_with_magic f) -> ends_with_magic f ->
  (N.of_nat (length f - 8) < footer_len f)%N ->
  open meta parse m f = Err E_CARQUET_ERROR_INVALID_FOOTER.
Proof. exact FooterProofs.footer_len_rejected. Qed.
Print Assumptions footer_len_rejected.

(** Full statement of the first clause of C18 (not provable as such, see below):

      forall history f p, f = bytes_of history -> proper_prefix p f ->
        forall m, (exists c, open m p = Err c) \/ p is itself a complete Parquet file.

    Proved part: for EVERY file f (written by carquet or not), every proper prefix p and every open
    path, p is rejected with an error status, or the Thrift parser faults on the footer region (to be
    excluded by the parser's own safety theorem, C13/C04; [parse] is arbitrary here), or p has the
    complete outer structure of a Parquet file: it ends with PAR1, the preceding four bytes are a length
    that fits in front of them, and the bytes so designated parse as file metadata - and then (only
    then) it is opened.  This is the "unless the prefix is itself a complete Parquet file" clause made
    precise.  Excluding the last disjunct for all written files is not possible (the example
    [prefix_accept_possible] in FooterProofs.v: a file whose data embeds a complete small file); excluding
    it for a particular file additionally needs: no position i of the file such that bytes [i-4,i) are
    PAR1, bytes [i-8,i-4) decode to a length l <= i-8 and bytes [i-8-l, i-8) are a complete Thrift
    FileMetaData struct - a property of the page contents, checked at run time on every cut by the
    correspondence run against an independent structural validator. *)
Theorem prefix_rejected_partial : forall (meta : Type) (parse : list N -> res meta) m (f p : list N),
  proper_prefix p f ->
  (exists c, open meta parse m p = Err c) \/
  (exists ft, parse (footer_region p) = Fault ft /\ open meta parse m p = Fault ft) \/
  (12 <= length p /\ ends_with_magic p /\ (m <> Fread -> starts_with_magic p) /\
   (footer_len p <= N.of_nat (length p - 8))%N /\
   exists x, parse (footer_region p) = Ok x /\ open meta parse m p = Ok x).
Proof. exact FooterProofs.prefix_rejected_partial. Qed.
Print Assumptions prefix_rejected_partial.

(** The same with the footer parser INSTANTIATED by the Thrift engine's model of parquet_parse_file_metadata
    followed by the schema engine's build_schema ([footer_parse_carquet], Reader/RobustInst.v): the "parser
    faults" case is gone and an error always carries a non-OK status - a proper prefix is rejected, or it ends
    with PAR1, has a fitting length and a footer region that carquet's own parser and build_schema accept
    (with counts inside the CARQUET_MAX_* limits); only then it is opened. *)
Theorem prefix_rejected_carquet : forall m (f p : list N),
  proper_prefix p f ->
  (exists c, open file_meta footer_parse_carquet m p = Err c /\ c <> 0%Z) \/
  (12 <= length p /\ ends_with_magic p /\ (m <> Fread -> starts_with_magic p) /\
   (footer_len p <= N.of_nat (length p - 8))%N /\
   exists x, footer_parse_carquet (footer_region p) = Ok x /\ open file_meta footer_parse_carquet m p = Ok x /\ within_limits x).
Proof. exact RobustInst.prefix_rejected_carquet. Qed.
Print Assumptions prefix_rejected_carquet.

(** A cut inside the trailing magic (the last 1..3 bytes missing) is rejected whatever the parser does. *)
Theorem cut_in_trailing_magic_rejected : forall (meta : Type) (parse : list N -> res meta) m (body : list N) k,
  1 <= k <= 3 -> 12 <= length (body ++ firstn k magic) ->
  (m <> Fread -> starts_with_magic (body ++ firstn k magic)) ->
  open meta parse m (body ++ firstn k magic) = Err E_CARQUET_ERROR_INVALID_MAGIC.
Proof. exact FooterProofs.cut_in_trailing_magic_rejected. Qed.
Print Assumptions cut_in_trailing_magic_rejected.

(** Second clause.  For every buffer capacity, every sink oracle (which request is refused or cut
    short, whether the final close fails), every buffering policy, every count a failed fwrite may
    report, owned or borrowed stream, and every history of writer calls that ends with close:
    if the sink refused anything, some call returns a status other than CARQUET_OK ... *)
Theorem sink_failure_reported :
  forall cap accept close_ok push_amt ret_on_fail owns h ss w',
    ends_with_close h = true ->
    run cap accept close_ok push_amt ret_on_fail current_checks owns w_init h = (ss, w') ->
    sink_failed w' = true -> exists s, In s ss /\ s <> OK.
Proof. exact SinkProofs.sink_failure_reported. Qed.
Print Assumptions sink_failure_reported.

(** ... and OK from close means the sink holds exactly the bytes of the fault-free run. *)
Theorem close_ok_means_delivered :
  forall cap accept close_ok push_amt ret_on_fail owns h ss w',
    ends_with_close h = true ->
    run cap accept close_ok push_amt ret_on_fail current_checks owns w_init h = (ss, w') ->
    last ss FILE_WRITE = OK -> deliv (st w') = bytes_of h.
Proof. exact SinkProofs.close_ok_means_delivered. Qed.
Print Assumptions close_ok_means_delivered.

(** The pinned tree (results of the final fflush/fclose discarded) violated both: witness F25. *)
Theorem sink_failure_reported_refuted_on_pinned_tree :
  exists cap accept close_ok push_amt ret_on_fail owns h ss w',
    ends_with_close h = true /\
    run cap accept close_ok push_amt ret_on_fail pinned_checks owns w_init h = (ss, w') /\
    sink_failed w' = true /\ (forall s, In s ss -> s = OK) /\ deliv (st w') <> bytes_of h.
Proof. exact SinkProofs.sink_failure_unreported_pinned. Qed.
Print Assumptions sink_failure_reported_refuted_on_pinned_tree.
