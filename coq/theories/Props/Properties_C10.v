(** C10 - built-in Snappy and LZ4 speak the standard formats.
    This file only restates lemmas proved in Comp/SnappyProofs.v and Comp/Lz4Proofs.v (models:
    Comp/SnappyModel.v, Comp/Lz4Model.v mirroring src/compression/snappy.c and lz4.c; specifications:
    Comp/SnappySpec.v and Comp/Lz4Spec.v, transcriptions of the format documents).  [bytes s] says that
    every element of [s] is below 256. *)
From Coq Require Import NArith ZArith List.
From Carquet Require Import Base.Res Comp.CompBase Comp.CompMem Comp.SnappySpec Comp.SnappyModel Comp.SnappyProofs
  Comp.Lz4Spec Comp.Lz4Model Comp.Lz4Proofs.
Local Open Scope N_scope.

(** carquet's Snappy decompressor accepts every valid raw Snappy block - all literal length forms,
    copy-1/2/4, overlapping copies - and returns the bytes the block denotes. *)
Theorem snappy_decompress_complete : forall s x cap,
  bytes s -> DenotesSnappy s x -> nlen x <= cap -> SnappyModel.decompress s cap = Ok x.
Proof. exact snappy_decompress_complete_thm. Qed.
Print Assumptions snappy_decompress_complete.

(** ... and accepts nothing else: an OK result means the input is a valid block denoting the result. *)
Theorem snappy_decompress_sound : forall s x cap,
  bytes s -> SnappyModel.decompress s cap = Ok x -> DenotesSnappy s x /\ nlen x <= cap.
Proof. exact snappy_decompress_sound_thm. Qed.
Print Assumptions snappy_decompress_sound.

(** Streams the format defines as invalid are refused with an error status. *)
Theorem snappy_decompress_rejects_invalid : forall s cap,
  bytes s -> (forall x, ~ DenotesSnappy s x) -> exists c, SnappyModel.decompress s cap = Err c.
Proof. exact snappy_decompress_rejects_invalid_thm. Qed.
Print Assumptions snappy_decompress_rejects_invalid.

(** (shared with C08) the repaired Snappy decompressor never accesses memory outside
    [src, src+len) and [dst, dst+cap) and terminates, on arbitrary bytes. *)
Theorem snappy_decompress_never_faults : forall s cap f,
  bytes s -> SnappyModel.decompress s cap <> Fault f.
Proof. exact snappy_decompress_never_faults_thm. Qed.
Print Assumptions snappy_decompress_never_faults.

(** carquet's LZ4 decompressor accepts every valid LZ4 block and returns the denoted bytes. *)
Theorem lz4_decompress_complete : forall s x cap,
  bytes s -> DenotesLz4 s x -> nlen x <= cap -> Lz4Model.decompress s cap = Ok x.
Proof. exact lz4_decompress_complete_thm. Qed.
Print Assumptions lz4_decompress_complete.

(** An OK result means the input is a valid block denoting the result, or a series of complete
    sequences that stops right after a match (the format lets a decoder accept or reject that). *)
Theorem lz4_decompress_sound : forall s x cap,
  bytes s -> Lz4Model.decompress s cap = Ok x -> (DenotesLz4 s x \/ DenotesLz4Open s x) /\ nlen x <= cap.
Proof. exact lz4_decompress_sound_thm. Qed.
Print Assumptions lz4_decompress_sound.

Theorem lz4_decompress_rejects_invalid : forall s cap,
  bytes s -> (forall x, ~ DenotesLz4 s x /\ ~ DenotesLz4Open s x) -> exists c, Lz4Model.decompress s cap = Err c.
Proof. exact lz4_decompress_rejects_invalid_thm. Qed.
Print Assumptions lz4_decompress_rejects_invalid.

(** (shared with C08) *)
Theorem lz4_decompress_never_faults : forall s cap f,
  bytes s -> Lz4Model.decompress s cap <> Fault f.
Proof. exact lz4_decompress_never_faults_thm. Qed.
Print Assumptions lz4_decompress_never_faults.

(** Every stream carquet's Snappy compressor produces - whatever the match finder does (every hash
    function, table size, 16-bit position aliasing beyond 64 KiB) - is a valid raw Snappy block
    denoting the input: the decoder derived from the format document recovers the input. *)
Theorem snappy_compress_valid : forall (St : Type) (look : St -> nat -> nat * St) (ins : St -> nat -> St)
    (st0 : St) (x : list N),
  bytes x -> nlen x < 2 ^ 32 ->
  exists out, SnappyModel.compress_with look ins st0 x = Ok out /\ SnappySpec.spec_decode out = Some x.
Proof. exact snappy_compress_spec_decode_thm. Qed.
Print Assumptions snappy_compress_valid.

(** Every stream carquet's LZ4 compressor produces is a valid LZ4 block denoting the input and
    respects the end-of-block rules (last 5 bytes literals, last match starts at least 12 bytes
    before the end), for every match finder. *)
Theorem lz4_compress_valid : forall (St : Type) (look : St -> nat -> nat * St) (ins : St -> nat -> St)
    (st0 : St) (x : list N) (cap : N),
  bytes x -> Lz4Model.compress_bound (nlen x) <= cap ->
  exists out, Lz4Model.compress_with look ins st0 x cap = Ok out /\ ValidLz4Output out x /\
              Lz4Spec.spec_decode out = Some x.
Proof. exact lz4_compress_spec_decode_thm. Qed.
Print Assumptions lz4_compress_valid.
