(** C09 - codecs round-trip every input and honour their size bounds.
    This file only restates lemmas proved in Comp/SnappyProofs.v, Comp/Lz4Proofs.v and Comp/CodecIface.v.
    Snappy and LZ4 are carquet's own code and are proved for every match finder (hence for inputs
    beyond 64 KiB where the 16-bit table positions alias).  GZIP and ZSTD are zlib / libzstd: the last
    theorem is PARTIAL - it is about carquet's wrappers only, under explicit assumptions on the library. *)
From Coq Require Import NArith ZArith List.
From Carquet Require Import Base.Res Comp.CompBase Comp.CompMem Comp.SnappySpec Comp.SnappyModel Comp.SnappyProofs
  Comp.Lz4Spec Comp.Lz4Model Comp.Lz4Proofs Comp.CodecIface.
Local Open Scope N_scope.

(** Snappy: compress, then decompress into exactly len(x) bytes, gives x back. *)
Theorem snappy_roundtrip : forall (St : Type) (look : St -> nat -> nat * St) (ins : St -> nat -> St)
    (st0 : St) (x : list N),
  bytes x -> nlen x < 2 ^ 32 ->
  exists out, SnappyModel.compress_with look ins st0 x = Ok out /\ SnappyModel.decompress out (nlen x) = Ok x.
Proof. exact snappy_roundtrip_thm. Qed.
Print Assumptions snappy_roundtrip.

(** Snappy: into a destination of at least carquet_snappy_compress_bound = 32 + n + n/6 the call
    succeeds, no write passes the destination, at most [bound] bytes are reported, round trip holds. *)
Theorem snappy_bound : forall (St : Type) (look : St -> nat -> nat * St) (ins : St -> nat -> St)
    (st0 : St) (x : list N) (cap : N),
  bytes x -> nlen x < 2 ^ 32 -> SnappyModel.compress_bound (nlen x) <= cap ->
  exists out, SnappyModel.compress_c look ins st0 x cap = Ok out /\
              nlen out <= SnappyModel.compress_bound (nlen x) /\ SnappyModel.decompress out (nlen x) = Ok x.
Proof. exact snappy_compress_c_ok_thm. Qed.
Print Assumptions snappy_bound.

Theorem snappy_small_dst_refused : forall (St : Type) (look : St -> nat -> nat * St) (ins : St -> nat -> St)
    (st0 : St) (x : list N) (cap : N),
  cap < SnappyModel.compress_bound (nlen x) -> SnappyModel.compress_c look ins st0 x cap = Err ERR_COMP.
Proof. exact snappy_compress_small_dst_refused_thm. Qed.
Print Assumptions snappy_small_dst_refused.

Theorem snappy_decompress_small_dst_refused : forall s x cap,
  bytes s -> DenotesSnappy s x -> cap < nlen x -> exists c, SnappyModel.decompress s cap = Err c.
Proof. exact snappy_decompress_small_dst_refused_thm. Qed.
Print Assumptions snappy_decompress_small_dst_refused.

(** LZ4: into a destination of at least carquet_lz4_compress_bound = n + n/255 + 16 the call
    succeeds (the in-loop space checks, which under-count the length-extension bytes, never fire and
    no write passes the destination), at most [bound] bytes are reported, round trip holds. *)
Theorem lz4_roundtrip_and_bound : forall (St : Type) (look : St -> nat -> nat * St) (ins : St -> nat -> St)
    (st0 : St) (x : list N) (cap : N),
  bytes x -> Lz4Model.compress_bound (nlen x) <= cap ->
  exists out, Lz4Model.compress_with look ins st0 x cap = Ok out /\
              nlen out <= Lz4Model.compress_bound (nlen x) /\ Lz4Model.decompress out (nlen x) = Ok x.
Proof. exact lz4_roundtrip_thm. Qed.
Print Assumptions lz4_roundtrip_and_bound.

Theorem lz4_small_dst_refused : forall (St : Type) (look : St -> nat -> nat * St) (ins : St -> nat -> St)
    (st0 : St) (x : list N) (cap : N),
  cap < Lz4Model.compress_bound (nlen x) -> Lz4Model.compress_with look ins st0 x cap = Err ERR_COMP.
Proof. exact lz4_compress_small_dst_refused_thm. Qed.
Print Assumptions lz4_small_dst_refused.

Theorem lz4_decompress_small_dst_refused : forall s x cap,
  bytes s -> DenotesLz4 s x -> cap < nlen x -> Lz4Model.decompress s cap = Err ERR_DATA.
Proof. exact lz4_decompress_small_dst_refused_thm. Qed.
Print Assumptions lz4_decompress_small_dst_refused.

(** GZIP / ZSTD, PARTIAL: for an external codec that (assumed) fits its output in avail_out, succeeds
    at its own bound for levels lo..hi and round-trips, carquet's wrapper - which clamps the level into
    lo..hi, maps the status and reports the size - succeeds at the bound for EVERY requested level,
    reports at most [cap] bytes, and its output decompresses into exactly len(x) bytes to x.
    Full statement not proved: the same without the four hypotheses (that would be a proof about zlib /
    libzstd themselves). *)
Theorem external_codec_wrapper_roundtrip_partial :
  forall (lo hi : Z), (lo <= hi)%Z ->
  forall (ext_bound : N -> N) (ext_compress : Z -> list N -> N -> option (list N))
         (ext_decompress : list N -> N -> option (list N)),
  (forall l x cap out, ext_compress l x cap = Some out -> nlen out <= cap) ->
  (forall l x cap, (lo <= l <= hi)%Z -> ext_bound (nlen x) <= cap -> exists out, ext_compress l x cap = Some out) ->
  (forall l x cap out cap', (lo <= l <= hi)%Z -> ext_compress l x cap = Some out -> nlen x <= cap' ->
                            ext_decompress out cap' = Some x) ->
  (forall s cap y, ext_decompress s cap = Some y -> nlen y <= cap) ->
  forall x cap level, ext_bound (nlen x) <= cap ->
  exists out, wrap_compress lo hi ext_compress x cap level = Ok out /\ nlen out <= cap /\
              wrap_decompress ext_decompress out (nlen x) = Ok x.
Proof. exact wrap_roundtrip. Qed.
Print Assumptions external_codec_wrapper_roundtrip_partial.
