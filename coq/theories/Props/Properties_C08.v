(** C08 - component decoders are safe on arbitrary bytes and respect capacities.

    Full statement (properties.jsonl): each decoding entry point below the file layer, given any input bytes of
    the declared length and any declared output capacity/count, terminates, reads only within the input, writes
    only within the declared output, and returns either an error or a result whose reported size does not exceed
    the capacity; failure never leaves memory allocated.

    In the models every read is a checked access ([Fault OobRead] outside the buffer), every store into the
    caller's output is checked against the declared capacity ([Fault OobWrite]), loops run on fuel that is a
    stated linear function of input length + count ([Fault OutOfFuel]) and C recursion carries a depth counter
    ([Fault DepthExceeded]).  "Safe" is therefore [... <> Fault f] for every [f], and "respects the capacity" is
    the size clause.  This file only restates lemmas; where they are proved:

      entry point                               model                       proofs
      carquet_rle_decode_levels / _prefixed     Dec/LevelsModel.v           Dec/LevelsProofs.v      (this engine)
      carquet_rle_decode_all, decoder_get_batch Enc/RleModel.v (lead)       Dec/DecSafety.v         (this engine)
      carquet_dictionary_decode_*               Enc/DictModel.v (enc2)      Enc/DictProofs.v + Dec/DecSafety.v
      PLAIN, DELTA_*, BYTE_STREAM_SPLIT         Enc/*Model.v (enc2)         Enc/*Proofs.v
      carquet_snappy_/lz4_decompress            Comp/*Model.v (comp)        Comp/*Proofs.v
      thrift_skip                               Thrift/ThriftModel.v        Thrift/ThriftProofs.v
      carquet_gzip_/zstd_decompress             Dec/WrapperModel.v          same file; PARTIAL: zlib / libzstd are
                                                                            Section variables with assumed bounds

    Not expressible in a model with values instead of addresses, observed by harness/h_dec.c instead
    (DESIGN.md section 10): that a failing call leaves nothing allocated (live-heap counter + LeakSanitizer), and
    that the C code does what the models say on the sampled inputs (model tie of checks/C08.py). *)
From Coq Require Import NArith ZArith List.
From Carquet Require Import Base.Res Enc.BitpackModel Enc.RleModel
  Dec.LevelsModel Dec.LevelsProofs Dec.WrapperModel Dec.DecSafety
  Comp.CompBase Comp.CompMem Comp.SnappyModel Comp.SnappyProofs Comp.Lz4Model Comp.Lz4Proofs
  Thrift.ThriftModel Thrift.ThriftProofs.
Import ListNotations.
Local Open Scope N_scope.

(* ------------------------------------------------------------------ RLE levels (int16 fast path) *)

(** carquet_rle_decode_levels: for every input, bit width (any int: widths outside 0..32 are refused with -1)
    and max_values, no read outside the input, no store outside the max_values slots, and the step budget
    2 * |input| + max_values + 2 is not exhausted. *)
Theorem decode_levels_never_faults : forall input w max f, decode_levels input w max <> Fault f.
Proof. exact LevelsProofs.decode_levels_never_faults. Qed.
Print Assumptions decode_levels_never_faults.

Theorem decode_levels_count_le : forall input w max out,
  decode_levels input w max = Ok out -> (Z.of_nat (length out) <= Z.max 0 max)%Z.
Proof. exact LevelsProofs.decode_levels_count_le. Qed.
Print Assumptions decode_levels_count_le.

(** carquet_rle_decode_levels_prefixed *)
Theorem decode_levels_prefixed_never_faults : forall input w max f, decode_levels_prefixed input w max <> Fault f.
Proof. exact LevelsProofs.decode_levels_prefixed_never_faults. Qed.
Print Assumptions decode_levels_prefixed_never_faults.

Theorem decode_levels_prefixed_consumed : forall input w max out used,
  decode_levels_prefixed input w max = Ok (out, used) ->
  (Z.of_nat (length out) <= Z.max 0 max)%Z /\ used <= LevelsModel.nlen input /\
  exists l, LevelsModel.rd_le input 0 4 = Ok l /\ used = 4 + l.
Proof. exact LevelsProofs.decode_levels_prefixed_consumed. Qed.
Print Assumptions decode_levels_prefixed_consumed.

(** The prefix test of the pinned tree (`4 + rle_length > input_size` in 32-bit arithmetic) violated the
    property: finding fixed by /repo commit c96b6f8, witness replayed in corpus/C08. *)
Theorem decode_levels_prefixed_pinned_refuted :
  exists input w max, decode_levels_prefixed_pinned input w max = Fault OobRead.
Proof. exact LevelsProofs.decode_levels_prefixed_pinned_refuted. Qed.
Print Assumptions decode_levels_prefixed_pinned_refuted.

(* ------------------------------------------------------------------ RLE values *)

(** carquet_rle_decode_all (width guard of commit cf4f4e1 + the streaming decoder of Enc/RleModel.v) *)
Theorem rle_decode_all_never_faults : forall input w max f, rle_decode_all input w max <> Fault f.
Proof. exact DecSafety.rle_decode_all_never_faults. Qed.
Print Assumptions rle_decode_all_never_faults.

Theorem rle_decode_all_count_le : forall input w max out,
  rle_decode_all input w max = Ok out -> (Z.of_nat (length out) <= Z.max 0 max)%Z.
Proof. exact DecSafety.rle_decode_all_count_le. Qed.
Print Assumptions rle_decode_all_count_le.

(** carquet_rle_decoder_get_batch / _skip on any decoder state: never more than requested *)
Theorem rle_get_batch_count_le : forall fuel w d want, (length (fst (RleModel.get_batch fuel w d want)) <= want)%nat.
Proof. exact DecSafety.get_batch_length. Qed.
Print Assumptions rle_get_batch_count_le.

Theorem rle_skip_count_le : forall fuel w d want, (fst (RleModel.skip fuel w d want) <= want)%nat.
Proof. exact DecSafety.skip_count_le. Qed.
Print Assumptions rle_skip_count_le.

(** termination: the fuel of the batch loop (requested count + 1) and of the empty-run loop (unread bytes + 1)
    is never what stops the model - any larger fuel gives the same result *)
Theorem rle_get_batch_terminates : forall f1 f2 w d want, (want < f1)%nat -> (want < f2)%nat ->
  RleModel.get_batch f1 w d want = RleModel.get_batch f2 w d want.
Proof. exact DecSafety.get_batch_fuel. Qed.
Print Assumptions rle_get_batch_terminates.

Theorem rle_start_new_run_terminates : forall f1 f2 w (d : RleModel.dec),
  (length (RleModel.d_rest d) < f1)%nat -> (length (RleModel.d_rest d) < f2)%nat ->
  RleModel.start_new_run f1 w d = RleModel.start_new_run f2 w d.
Proof. exact DecSafety.start_new_run_fuel. Qed.
Print Assumptions rle_start_new_run_terminates.

(* ------------------------------------------------------------------ Snappy / LZ4 (comp engine) *)

Theorem snappy_decompress_never_faults : forall s cap f, bytes s -> SnappyModel.decompress s cap <> Fault f.
Proof. exact snappy_decompress_never_faults_thm. Qed.
Print Assumptions snappy_decompress_never_faults.

Theorem lz4_decompress_never_faults : forall s cap f, bytes s -> Lz4Model.decompress s cap <> Fault f.
Proof. exact lz4_decompress_never_faults_thm. Qed.
Print Assumptions lz4_decompress_never_faults.

(* ------------------------------------------------------------------ Thrift (thrift engine) *)

(** thrift_skip, which every unknown or unparsed field of parquet_parse_file_metadata / _page_header goes through *)
Theorem thrift_skip_never_faults : forall ty d f, thrift_skip ty d <> Fault f.
Proof. exact skip_never_faults_all. Qed.
Print Assumptions thrift_skip_never_faults.

(* ------------------------------------------------------------------ GZIP / ZSTD wrappers (partial) *)

(** PARTIAL: zlib is the Section variable [inflate] with the assumption [inflate_fits]
    (it stores at most avail_out bytes); proved is what gzip.c adds. *)
Theorem gzip_decompress_partial : forall (inflate_init : Z) (inflate : list N -> N -> Z * list N),
  (forall s avail, WrapperModel.nlen (snd (inflate s avail)) <= avail) ->
  forall src dst_null size_null cap,
    (forall f, o_status (gzip_decompress inflate_init inflate src dst_null size_null cap) <> Fault f) /\
    WrapperModel.nlen (o_stored (gzip_decompress inflate_init inflate src dst_null size_null cap)) <= cap /\
    (forall n, o_status (gzip_decompress inflate_init inflate src dst_null size_null cap) = Ok n -> n <= cap).
Proof. exact WrapperModel.gzip_decompress_safe. Qed.
Print Assumptions gzip_decompress_partial.

Theorem zstd_decompress_partial : forall (have_dctx : bool) (zstd : bool -> list N -> N -> N * list N) (is_error : N -> bool),
  (forall c s cap, WrapperModel.nlen (snd (zstd c s cap)) <= cap) ->
  (forall c s cap, is_error (fst (zstd c s cap)) = false -> fst (zstd c s cap) = WrapperModel.nlen (snd (zstd c s cap))) ->
  forall src dst_null size_null cap,
    (forall f, o_status (zstd_decompress_wrapper have_dctx zstd is_error src dst_null size_null cap) <> Fault f) /\
    WrapperModel.nlen (o_stored (zstd_decompress_wrapper have_dctx zstd is_error src dst_null size_null cap)) <= cap /\
    (forall n, o_status (zstd_decompress_wrapper have_dctx zstd is_error src dst_null size_null cap) = Ok n -> n <= cap).
Proof. exact WrapperModel.zstd_decompress_safe. Qed.
Print Assumptions zstd_decompress_partial.
