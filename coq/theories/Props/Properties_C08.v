(** C08 - component decoders are safe on arbitrary bytes and respect capacities.

    Full statement (properties.jsonl): each decoding entry point below the file layer, given any input bytes of
    the declared length and any declared output capacity/count, terminates, reads only within the input, writes
    only within the declared output, and returns either an error or a result whose reported size does not exceed
    the capacity; failure never leaves memory allocated.

    In the models every read is a checked access ([Fault OobRead] outside the buffer), every store into the
    caller's output is checked against the declared capacity ([Fault OobWrite]), loops run on fuel that is a
    stated linear function of input length + count ([Fault OutOfFuel]) and C recursion carries a depth counter
    ([Fault DepthExceeded]).  "Safe" is therefore [... <> Fault f] for every [f], and "respects the capacity" is
    the size clause.  This file only restates lemmas; where they are proved:

      entry point                               model                       proofs
      carquet_rle_decode_levels / _prefixed     Dec/LevelsModel.v           Dec/LevelsProofs.v      (this engine)
      carquet_rle_decode_all, decoder_get_batch Enc/RleModel.v (lead)       Dec/DecSafety.v         (this engine)
      carquet_dictionary_decode_*               Enc/DictModel.v (enc2)      Enc/DictProofs.v + Dec/DecSafety.v
      PLAIN, DELTA_*, BYTE_STREAM_SPLIT         Enc/*Model.v (enc2)         Enc/*Proofs.v
      carquet_snappy_/lz4_decompress            Comp/*Model.v (comp)        Comp/*Proofs.v
      parquet_parse_file_metadata/_page_header  Thrift/ParquetMetaModel.v   Thrift/ParquetMetaProofs.v (thrift engine)
      thrift_skip                               Thrift/ThriftModel.v        Thrift/ThriftProofs.v
      carquet_gzip_/zstd_decompress             Dec/WrapperModel.v          same file; PARTIAL: zlib / libzstd are
                                                                            Section variables with assumed bounds

    Not expressible in a model with values instead of addresses, observed by harness/h_dec.c instead
    (DESIGN.md section 10): that a failing call leaves nothing allocated (live-heap counter + LeakSanitizer), and
    that the C code does what the models say on the sampled inputs (model tie of checks/C08.py). *)
From Coq Require Import NArith ZArith List.
From Carquet Require Import Base.Res Enc.BitpackModel Enc.RleModel
  Dec.LevelsModel Dec.LevelsProofs Dec.WrapperModel Dec.DecSafety
  Comp.CompBase Comp.CompMem Comp.SnappySpec Comp.SnappyModel Comp.SnappyProofs Comp.Lz4Spec Comp.Lz4Model Comp.Lz4Proofs
  Thrift.ThriftModel Thrift.ThriftProofs Thrift.ParquetMetaDesc Thrift.ParquetMetaModel Thrift.ParquetMetaProofs
  Enc.DeltaBits Enc.PlainModel Enc.PlainProofs Enc.BssModel Enc.BssProofs Enc.DeltaModel Enc.DeltaProofs
  Enc.DeltaLenModel Enc.DeltaStrModel Enc.DeltaStrProofs Enc.DictModel Enc.DictRleInst.
Import ListNotations.
Local Open Scope N_scope.

(* ------------------------------------------------------------------ RLE levels (int16 fast path) *)

(** carquet_rle_decode_levels: for every input, bit width (any int: widths outside 0..32 are refused with -1)
    and max_values, no read outside the input, no store outside the max_values slots, and the step budget
    2 * |input| + max_values + 2 is not exhausted. *)
Theorem decode_levels_never_faults : forall input w max f, decode_levels input w max <> Fault f.
Proof. exact LevelsProofs.decode_levels_never_faults. Qed.
Print Assumptions decode_levels_never_faults.

Theorem decode_levels_count_le : forall input w max out,
  decode_levels input w max = Ok out -> (Z.of_nat (length out) <= Z.max 0 max)%Z.
Proof. exact LevelsProofs.decode_levels_count_le. Qed.
Print Assumptions decode_levels_count_le.

(** carquet_rle_decode_levels_prefixed *)
Theorem decode_levels_prefixed_never_faults : forall input w max f, decode_levels_prefixed input w max <> Fault f.
Proof. exact LevelsProofs.decode_levels_prefixed_never_faults. Qed.
Print Assumptions decode_levels_prefixed_never_faults.

Theorem decode_levels_prefixed_consumed : forall input w max out used,
  decode_levels_prefixed input w max = Ok (out, used) ->
  (Z.of_nat (length out) <= Z.max 0 max)%Z /\ used <= LevelsModel.nlen input /\
  exists l, LevelsModel.rd_le input 0 4 = Ok l /\ used = 4 + l.
Proof. exact LevelsProofs.decode_levels_prefixed_consumed. Qed.
Print Assumptions decode_levels_prefixed_consumed.

(** The prefix test of the pinned tree (`4 + rle_length > input_size` in 32-bit arithmetic) violated the
    property: finding fixed by /repo commit c96b6f8, witness replayed in corpus/C08. *)
Theorem decode_levels_prefixed_pinned_refuted :
  exists input w max, decode_levels_prefixed_pinned input w max = Fault OobRead.
Proof. exact LevelsProofs.decode_levels_prefixed_pinned_refuted. Qed.
Print Assumptions decode_levels_prefixed_pinned_refuted.

(* ------------------------------------------------------------------ RLE values *)

(** carquet_rle_decode_all (width guard of commit cf4f4e1 + the streaming decoder of Enc/RleModel.v) *)
Theorem rle_decode_all_never_faults : forall input w max f, rle_decode_all input w max <> Fault f.
Proof. exact DecSafety.rle_decode_all_never_faults. Qed.
Print Assumptions rle_decode_all_never_faults.

Theorem rle_decode_all_count_le : forall input w max out,
  rle_decode_all input w max = Ok out -> (Z.of_nat (length out) <= Z.max 0 max)%Z.
Proof. exact DecSafety.rle_decode_all_count_le. Qed.
Print Assumptions rle_decode_all_count_le.

(** carquet_rle_decoder_get_batch / _skip on any decoder state: never more than requested *)
Theorem rle_get_batch_count_le : forall fuel w d want, (length (fst (RleModel.get_batch fuel w d want)) <= want)%nat.
Proof. exact DecSafety.get_batch_length. Qed.
Print Assumptions rle_get_batch_count_le.

Theorem rle_skip_count_le : forall fuel w d want, (fst (RleModel.skip fuel w d want) <= want)%nat.
Proof. exact DecSafety.skip_count_le. Qed.
Print Assumptions rle_skip_count_le.

(** termination: the fuel of the batch loop (requested count + 1) and of the empty-run loop (unread bytes + 1)
    is never what stops the model - any larger fuel gives the same result *)
Theorem rle_get_batch_terminates : forall f1 f2 w d want, (want < f1)%nat -> (want < f2)%nat ->
  RleModel.get_batch f1 w d want = RleModel.get_batch f2 w d want.
Proof. exact DecSafety.get_batch_fuel. Qed.
Print Assumptions rle_get_batch_terminates.

Theorem rle_start_new_run_terminates : forall f1 f2 w (d : RleModel.dec),
  (length (RleModel.d_rest d) < f1)%nat -> (length (RleModel.d_rest d) < f2)%nat ->
  RleModel.start_new_run f1 w d = RleModel.start_new_run f2 w d.
Proof. exact DecSafety.start_new_run_fuel. Qed.
Print Assumptions rle_start_new_run_terminates.

(* ------------------------------------------------------------------ Snappy / LZ4 (comp engine) *)

Theorem snappy_decompress_never_faults : forall s cap f, bytes s -> SnappyModel.decompress s cap <> Fault f.
Proof. exact snappy_decompress_never_faults_thm. Qed.
Print Assumptions snappy_decompress_never_faults.

Theorem lz4_decompress_never_faults : forall s cap f, bytes s -> Lz4Model.decompress s cap <> Fault f.
Proof. exact lz4_decompress_never_faults_thm. Qed.
Print Assumptions lz4_decompress_never_faults.

(** an OK result never exceeds the destination capacity *)
Theorem snappy_decompress_size_le_cap : forall s x cap, bytes s -> SnappyModel.decompress s cap = Ok x -> nlen x <= cap.
Proof. exact DecSafety.snappy_decompress_size_le_cap. Qed.
Print Assumptions snappy_decompress_size_le_cap.

Theorem lz4_decompress_size_le_cap : forall s x cap, bytes s -> Lz4Model.decompress s cap = Ok x -> nlen x <= cap.
Proof. exact DecSafety.lz4_decompress_size_le_cap. Qed.
Print Assumptions lz4_decompress_size_le_cap.

(* ------------------------------------------------------------------ Thrift (thrift engine) *)

(** thrift_skip, which every unknown or unparsed field of parquet_parse_file_metadata / _page_header goes through *)
Theorem thrift_skip_never_faults : forall ty d f, thrift_skip ty d <> Fault f.
Proof. exact skip_never_faults_all. Qed.
Print Assumptions thrift_skip_never_faults.

(** parquet_parse_file_metadata / parquet_parse_page_header on arbitrary bytes: no read outside the buffer, the
    struct-nesting fuel and the skip depth are not exhausted; the bytes consumed lie within the input *)
Theorem parse_file_metadata_never_faults : forall bs f, parse_file_metadata bs <> Fault f.
Proof. exact ParquetMetaProofs.parse_file_metadata_never_faults. Qed.
Print Assumptions parse_file_metadata_never_faults.

Theorem parse_page_header_never_faults : forall bs f, parse_page_header bs <> Fault f.
Proof. exact ParquetMetaProofs.parse_page_header_never_faults. Qed.
Print Assumptions parse_page_header_never_faults.

Theorem parse_page_header_consumed : forall bs r c, parse_page_header bs = Ok (r, c) -> c <= N.of_nat (length bs).
Proof. exact ParquetMetaProofs.parse_page_header_consumed. Qed.
Print Assumptions parse_page_header_consumed.

Theorem parse_file_metadata_consumed : forall bs r c, parse_file_metadata bs = Ok (r, c) -> c <= N.of_nat (length bs).
Proof. exact ParquetMetaProofs.parse_file_metadata_consumed. Qed.
Print Assumptions parse_file_metadata_consumed.

(* ------------------------------------------------------------------ PLAIN (enc2 engine) *)

(** INT32 / INT64 / FLOAT / DOUBLE ([k] = 4, 8): the count is the declared capacity *)
Theorem plain_fixed_never_faults : forall k bs count f, dec_fixed k bs count <> Fault f.
Proof. exact PlainProofs.plain_fixed_never_faults. Qed.
Print Assumptions plain_fixed_never_faults.

Theorem plain_fixed_result_size : forall k bs count vs c, (0 < k)%nat -> dec_fixed k bs count = Ok (vs, c) ->
  len vs = count /\ c <= len bs.
Proof. exact PlainProofs.plain_fixed_result_size. Qed.
Print Assumptions plain_fixed_result_size.

Theorem plain_int96_never_faults : forall bs count f, plain_decode_int96 bs count <> Fault f.
Proof. exact PlainProofs.plain_int96_never_faults. Qed.
Print Assumptions plain_int96_never_faults.

(** BOOLEAN: count is an int64_t *)
Theorem plain_boolean_never_faults : forall bs count, count < 2 ^ 63 -> forall f, plain_decode_boolean bs count <> Fault f.
Proof. exact PlainProofs.plain_boolean_never_faults. Qed.
Print Assumptions plain_boolean_never_faults.

Theorem plain_byte_array_never_faults : forall bs count f, plain_decode_byte_array bs count <> Fault f.
Proof. exact PlainProofs.plain_byte_array_never_faults. Qed.
Print Assumptions plain_byte_array_never_faults.

Theorem plain_flba_never_faults : forall bs count flen f, plain_decode_flba bs count flen <> Fault f.
Proof. exact PlainProofs.plain_flba_never_faults. Qed.
Print Assumptions plain_flba_never_faults.

(* ------------------------------------------------------------------ DELTA_BINARY_PACKED / DELTA_LENGTH / DELTA_BYTE_ARRAY (enc2) *)

Theorem delta64_decode_never_faults : forall data count f, delta_decode_int64 data count <> Fault f.
Proof. exact DeltaProofs.delta64_decode_never_faults. Qed.
Print Assumptions delta64_decode_never_faults.

Theorem delta64_decode_result_size : forall data count vals c, delta_decode_int64 data count = Ok (vals, c) ->
  len vals = count /\ c <= len data.
Proof. exact DeltaProofs.delta64_decode_result_size. Qed.
Print Assumptions delta64_decode_result_size.

Theorem delta32_decode_never_faults : forall data count f, delta_decode_int32 data count <> Fault f.
Proof. exact DeltaProofs.delta32_decode_never_faults. Qed.
Print Assumptions delta32_decode_never_faults.

Theorem delta32_decode_result_size : forall data count vals c, delta_decode_int32 data count = Ok (vals, c) ->
  len vals = count /\ c <= len data.
Proof. exact DeltaProofs.delta32_decode_result_size. Qed.
Print Assumptions delta32_decode_result_size.

Theorem delta_length_decode_never_faults : forall data count f, delta_length_decode data count <> Fault f.
Proof. exact DeltaStrProofs.delta_length_decode_never_faults. Qed.
Print Assumptions delta_length_decode_never_faults.

Theorem delta_length_decode_result_size : forall data count ss c, delta_length_decode data count = Ok (ss, c) ->
  len ss = count /\ c <= len data.
Proof. exact DeltaStrProofs.delta_length_decode_result_size. Qed.
Print Assumptions delta_length_decode_result_size.

(** [cap] = work_buffer_size: the model's stores into the work buffer are checked against it *)
Theorem delta_strings_decode_never_faults : forall data count cap f, delta_strings_decode data count cap <> Fault f.
Proof. exact DeltaStrProofs.delta_strings_decode_never_faults. Qed.
Print Assumptions delta_strings_decode_never_faults.

Theorem delta_strings_decode_result_size : forall data count cap ss c, delta_strings_decode data count cap = Ok (ss, c) ->
  len ss <= count /\ c <= len data.
Proof. exact DeltaStrProofs.delta_strings_decode_result_size. Qed.
Print Assumptions delta_strings_decode_result_size.

(* ------------------------------------------------------------------ BYTE_STREAM_SPLIT (enc2) *)

Theorem bss_decode_never_faults : forall k data count f, bss_decode k data count <> Fault f.
Proof. exact BssProofs.bss_decode_never_faults. Qed.
Print Assumptions bss_decode_never_faults.

Theorem bss_decode_result_size : forall k data count out, bss_decode k data count = Ok out ->
  len out = count * k /\ count * k <= len data.
Proof. exact BssProofs.bss_decode_result_size. Qed.
Print Assumptions bss_decode_result_size.

(* ------------------------------------------------------------------ dictionary indices (enc2 model, carquet's RLE decoder) *)

Theorem dict_decode_never_faults : forall k dict dc indices out_count f,
  dict_decode_fixed DictRleInst.rle_dec k dict dc indices out_count <> Fault f.
Proof. exact DecSafety.dict_decode_never_faults_carquet. Qed.
Print Assumptions dict_decode_never_faults.

Theorem dict_decode_result_size : forall k dict dc indices out_count vs,
  dict_decode_fixed DictRleInst.rle_dec k dict dc indices out_count = Ok vs -> N.of_nat (length vs) <= out_count.
Proof. exact DecSafety.dict_decode_result_size_carquet. Qed.
Print Assumptions dict_decode_result_size.

(* ------------------------------------------------------------------ GZIP / ZSTD wrappers (partial) *)

(** PARTIAL: zlib is the Section variable [inflate] with the assumption [inflate_fits]
    (it stores at most avail_out bytes); proved is what gzip.c adds. *)
Theorem gzip_decompress_partial : forall (inflate_init : Z) (inflate : list N -> N -> Z * list N),
  (forall s avail, WrapperModel.nlen (snd (inflate s avail)) <= avail) ->
  forall src dst_null size_null cap,
    (forall f, o_status (gzip_decompress inflate_init inflate src dst_null size_null cap) <> Fault f) /\
    WrapperModel.nlen (o_stored (gzip_decompress inflate_init inflate src dst_null size_null cap)) <= cap /\
    (forall n, o_status (gzip_decompress inflate_init inflate src dst_null size_null cap) = Ok n -> n <= cap).
Proof. exact WrapperModel.gzip_decompress_safe. Qed.
Print Assumptions gzip_decompress_partial.

Theorem zstd_decompress_partial : forall (have_dctx : bool) (zstd : bool -> list N -> N -> N * list N) (is_error : N -> bool),
  (forall c s cap, WrapperModel.nlen (snd (zstd c s cap)) <= cap) ->
  (forall c s cap, is_error (fst (zstd c s cap)) = false -> fst (zstd c s cap) = WrapperModel.nlen (snd (zstd c s cap))) ->
  forall src dst_null size_null cap,
    (forall f, o_status (zstd_decompress_wrapper have_dctx zstd is_error src dst_null size_null cap) <> Fault f) /\
    WrapperModel.nlen (o_stored (zstd_decompress_wrapper have_dctx zstd is_error src dst_null size_null cap)) <= cap /\
    (forall n, o_status (zstd_decompress_wrapper have_dctx zstd is_error src dst_null size_null cap) = Ok n -> n <= cap).
Proof. exact WrapperModel.zstd_decompress_safe. Qed.
Print Assumptions zstd_decompress_partial.
