(** C15 - every SIMD kernel equals its scalar definition at every ISA level.
    This file only restates lemmas proved in Simd/DispatchProofs.v and Simd/SimdProofs.v. *)
From Coq Require Import List Bool.
From Coq Require Import NArith.
From Carquet Require Import Base.Res Gen.Dispatch_gen Gen.Intrinsics_gen Simd.DispatchModel Simd.DispatchProofs.
From Carquet Require Import Simd.Vec Simd.ScalarKernels Simd.SseKernels Simd.Avx2Kernels Simd.Avx512Kernels Simd.BssProofs.
Import ListNotations.

(** Dispatcher: for EVERY capability set (any list of features) and every slot of the dispatch table
    regenerated from src/simd/dispatch.c, a kernel is selected and every ISA feature it requires
    (from the regenerated intrinsic inventory) is provided by the capability set. *)
Theorem dispatch_selects_supported :
  forall (c : caps) (s : slot), exists k, select c s = Some k /\ supported c k = true.
Proof. exact dispatch_selects_supported_all. Qed.
Print Assumptions dispatch_selects_supported.

(** The same statement is false for the table of the pinned tree (AVX-512 block keyed on avx512f alone):
    finding F28, repaired in /repo. *)
Theorem dispatch_pinned_refuted :
  exists (c : caps) (s : slot) (k : kernel),
    select_with base_table pinned_blocks c s = Some k /\ supported c k = false /\
    In F_avx512bw (requires k) /\ ~ In F_avx512bw c.
Proof. exact dispatch_pinned_table_refuted. Qed.
Print Assumptions dispatch_pinned_refuted.

(** Kernels.  Shape of every kernel theorem: for every count and every content of exact-size arrays, the
    transcription of the vector kernel returns (no [Fault]: every load/store index is inside [0, count*width))
    exactly what the transcription of the scalar definition of dispatch.c returns. *)

(** byte_stream_split, float: carquet_{sse,avx2,avx512}_byte_stream_split_{encode,decode}_float *)
Theorem sse_bss_encode_float_kernel_eq_scalar : forall count src out0,
  length src = 4 * count -> length out0 = 4 * count ->
  exists out, sse_bss_encode_float count src out0 = Ok out /\ scalar_bss_encode 4 count src out0 = Ok out.
Proof. exact sse_bss_encode_float_eq_scalar. Qed.
Print Assumptions sse_bss_encode_float_kernel_eq_scalar.
Theorem sse_bss_decode_float_kernel_eq_scalar : forall count src out0,
  length src = 4 * count -> length out0 = 4 * count ->
  exists out, sse_bss_decode_float count src out0 = Ok out /\ scalar_bss_decode 4 count src out0 = Ok out.
Proof. exact sse_bss_decode_float_eq_scalar. Qed.
Print Assumptions sse_bss_decode_float_kernel_eq_scalar.
Theorem avx2_bss_encode_float_kernel_eq_scalar : forall count src out0,
  length src = 4 * count -> length out0 = 4 * count ->
  exists out, avx2_bss_encode_float count src out0 = Ok out /\ scalar_bss_encode 4 count src out0 = Ok out.
Proof. exact avx2_bss_encode_float_eq_scalar. Qed.
Print Assumptions avx2_bss_encode_float_kernel_eq_scalar.
Theorem avx2_bss_decode_float_kernel_eq_scalar : forall count src out0,
  length src = 4 * count -> length out0 = 4 * count ->
  exists out, avx2_bss_decode_float count src out0 = Ok out /\ scalar_bss_decode 4 count src out0 = Ok out.
Proof. exact avx2_bss_decode_float_eq_scalar. Qed.
Print Assumptions avx2_bss_decode_float_kernel_eq_scalar.
Theorem avx512_bss_encode_float_kernel_eq_scalar : forall count src out0,
  length src = 4 * count -> length out0 = 4 * count ->
  exists out, avx512_bss_encode_float count src out0 = Ok out /\ scalar_bss_encode 4 count src out0 = Ok out.
Proof. exact avx512_bss_encode_float_eq_scalar. Qed.
Print Assumptions avx512_bss_encode_float_kernel_eq_scalar.
Theorem avx512_bss_decode_float_kernel_eq_scalar : forall count src out0,
  length src = 4 * count -> length out0 = 4 * count ->
  exists out, avx512_bss_decode_float count src out0 = Ok out /\ scalar_bss_decode 4 count src out0 = Ok out.
Proof. exact avx512_bss_decode_float_eq_scalar. Qed.
Print Assumptions avx512_bss_decode_float_kernel_eq_scalar.

(** byte_stream_split, double: carquet_{sse,avx2}_byte_stream_split_{encode,decode}_double (there is no AVX-512 variant) *)
Theorem sse_bss_encode_double_kernel_eq_scalar : forall count src out0,
  length src = 8 * count -> length out0 = 8 * count ->
  exists out, sse_bss_encode_double count src out0 = Ok out /\ scalar_bss_encode 8 count src out0 = Ok out.
Proof. exact sse_bss_encode_double_eq_scalar. Qed.
Print Assumptions sse_bss_encode_double_kernel_eq_scalar.
Theorem sse_bss_decode_double_kernel_eq_scalar : forall count src out0,
  length src = 8 * count -> length out0 = 8 * count ->
  exists out, sse_bss_decode_double count src out0 = Ok out /\ scalar_bss_decode 8 count src out0 = Ok out.
Proof. exact sse_bss_decode_double_eq_scalar. Qed.
Print Assumptions sse_bss_decode_double_kernel_eq_scalar.
Theorem avx2_bss_encode_double_kernel_eq_scalar : forall count src out0,
  length src = 8 * count -> length out0 = 8 * count ->
  exists out, avx2_bss_encode_double count src out0 = Ok out /\ scalar_bss_encode 8 count src out0 = Ok out.
Proof. exact avx2_bss_encode_double_eq_scalar. Qed.
Print Assumptions avx2_bss_encode_double_kernel_eq_scalar.
Theorem avx2_bss_decode_double_kernel_eq_scalar : forall count src out0,
  length src = 8 * count -> length out0 = 8 * count ->
  exists out, avx2_bss_decode_double count src out0 = Ok out /\ scalar_bss_decode 8 count src out0 = Ok out.
Proof. exact avx2_bss_decode_double_eq_scalar. Qed.
Print Assumptions avx2_bss_decode_double_kernel_eq_scalar.

(** ... and the scalar definition is the byte transposition output[b*count + i] = src[i*w + b] *)
Theorem scalar_bss_encode_is_transposition : forall w count src out0,
  length src = w * count -> length out0 = w * count ->
  exists out, scalar_bss_encode w count src out0 = Ok out /\ length out = w * count /\
              forall b i, b < w -> i < count -> nth (b * count + i) out 0%N = nth (i * w + b) src 0%N.
Proof. exact scalar_bss_encode_transposes. Qed.
Print Assumptions scalar_bss_encode_is_transposition.
