(** C15 - every SIMD kernel equals its scalar definition at every ISA level.
    This file only restates lemmas proved in Simd/DispatchProofs.v and Simd/SimdProofs.v. *)
From Coq Require Import List Bool.
From Carquet Require Import Gen.Dispatch_gen Gen.Intrinsics_gen Simd.DispatchModel Simd.DispatchProofs.
Import ListNotations.

(** Dispatcher: for EVERY capability set (any list of features) and every slot of the dispatch table
    regenerated from src/simd/dispatch.c, a kernel is selected and every ISA feature it requires
    (from the regenerated intrinsic inventory) is provided by the capability set. *)
Theorem dispatch_selects_supported :
  forall (c : caps) (s : slot), exists k, select c s = Some k /\ supported c k = true.
Proof. exact dispatch_selects_supported_all. Qed.
Print Assumptions dispatch_selects_supported.

(** The same statement is false for the table of the pinned tree (AVX-512 block keyed on avx512f alone):
    finding F28, repaired in /repo. *)
Theorem dispatch_pinned_refuted :
  exists (c : caps) (s : slot) (k : kernel),
    select_with base_table pinned_blocks c s = Some k /\ supported c k = false /\
    In F_avx512bw (requires k) /\ ~ In F_avx512bw c.
Proof. exact dispatch_pinned_table_refuted. Qed.
Print Assumptions dispatch_pinned_refuted.
