(** C15 - every SIMD kernel equals its scalar definition at every ISA level.
    This file only restates lemmas proved in Simd/DispatchProofs.v and Simd/SimdProofs.v. *)
From Coq Require Import List Bool.
From Coq Require Import NArith Arith.
From Carquet Require Import Base.Res Gen.Consts_gen Gen.Dispatch_gen Gen.Intrinsics_gen Simd.DispatchModel Simd.DispatchProofs.
From Carquet Require Import Simd.Vec Simd.ScalarKernels Simd.SseKernels Simd.Avx2Kernels Simd.Avx512Kernels Simd.BssProofs Simd.SeqProofs Simd.MemProofs Simd.LevelProofs Simd.PackProofs Simd.PsumProofs Simd.UnpackProofs Simd.ScanProofs Simd.CrcProofs Simd.McopyProofs.
Import ListNotations.

(** Dispatcher: for EVERY capability set (any list of features) and every slot of the dispatch table
    regenerated from src/simd/dispatch.c, a kernel is selected and every ISA feature it requires
    (from the regenerated intrinsic inventory) is provided by the capability set. *)
Theorem dispatch_selects_supported :
  forall (c : caps) (s : slot), exists k, select c s = Some k /\ supported c k = true.
Proof. exact dispatch_selects_supported_all. Qed.
Print Assumptions dispatch_selects_supported.

(** ... and is one of the kernels for which this file carries a kernel_eq_scalar theorem (or a scalar definition):
    with the kernel theorems below, whatever the dispatcher selects equals the scalar definition. *)
Theorem dispatch_selects_proved_kernel :
  forall (c : caps) (s : slot), exists k, select c s = Some k /\ In k proved_kernels.
Proof. exact dispatch_selects_proved_all. Qed.
Print Assumptions dispatch_selects_proved_kernel.

(** The same statement is false for the table of the pinned tree (AVX-512 block keyed on avx512f alone):
    finding F28, repaired in /repo. *)
Theorem dispatch_pinned_refuted :
  exists (c : caps) (s : slot) (k : kernel),
    select_with base_table pinned_blocks c s = Some k /\ supported c k = false /\
    In F_avx512bw (requires k) /\ ~ In F_avx512bw c.
Proof. exact dispatch_pinned_table_refuted. Qed.
Print Assumptions dispatch_pinned_refuted.

(** Kernels.  Shape of every kernel theorem: for every count and every content of exact-size arrays, the
    transcription of the vector kernel returns (no [Fault]: every load/store index is inside [0, count*width))
    exactly what the transcription of the scalar definition of dispatch.c returns. *)

(** byte_stream_split, float: carquet_{sse,avx2,avx512}_byte_stream_split_{encode,decode}_float *)
Theorem sse_bss_encode_float_kernel_eq_scalar : forall count src out0,
  length src = 4 * count -> length out0 = 4 * count ->
  exists out, sse_bss_encode_float count src out0 = Ok out /\ scalar_bss_encode 4 count src out0 = Ok out.
Proof. exact sse_bss_encode_float_eq_scalar. Qed.
Print Assumptions sse_bss_encode_float_kernel_eq_scalar.
Theorem sse_bss_decode_float_kernel_eq_scalar : forall count src out0,
  length src = 4 * count -> length out0 = 4 * count ->
  exists out, sse_bss_decode_float count src out0 = Ok out /\ scalar_bss_decode 4 count src out0 = Ok out.
Proof. exact sse_bss_decode_float_eq_scalar. Qed.
Print Assumptions sse_bss_decode_float_kernel_eq_scalar.
Theorem avx2_bss_encode_float_kernel_eq_scalar : forall count src out0,
  length src = 4 * count -> length out0 = 4 * count ->
  exists out, avx2_bss_encode_float count src out0 = Ok out /\ scalar_bss_encode 4 count src out0 = Ok out.
Proof. exact avx2_bss_encode_float_eq_scalar. Qed.
Print Assumptions avx2_bss_encode_float_kernel_eq_scalar.
Theorem avx2_bss_decode_float_kernel_eq_scalar : forall count src out0,
  length src = 4 * count -> length out0 = 4 * count ->
  exists out, avx2_bss_decode_float count src out0 = Ok out /\ scalar_bss_decode 4 count src out0 = Ok out.
Proof. exact avx2_bss_decode_float_eq_scalar. Qed.
Print Assumptions avx2_bss_decode_float_kernel_eq_scalar.
Theorem avx512_bss_encode_float_kernel_eq_scalar : forall count src out0,
  length src = 4 * count -> length out0 = 4 * count ->
  exists out, avx512_bss_encode_float count src out0 = Ok out /\ scalar_bss_encode 4 count src out0 = Ok out.
Proof. exact avx512_bss_encode_float_eq_scalar. Qed.
Print Assumptions avx512_bss_encode_float_kernel_eq_scalar.
Theorem avx512_bss_decode_float_kernel_eq_scalar : forall count src out0,
  length src = 4 * count -> length out0 = 4 * count ->
  exists out, avx512_bss_decode_float count src out0 = Ok out /\ scalar_bss_decode 4 count src out0 = Ok out.
Proof. exact avx512_bss_decode_float_eq_scalar. Qed.
Print Assumptions avx512_bss_decode_float_kernel_eq_scalar.

(** byte_stream_split, double: carquet_{sse,avx2}_byte_stream_split_{encode,decode}_double (there is no AVX-512 variant) *)
Theorem sse_bss_encode_double_kernel_eq_scalar : forall count src out0,
  length src = 8 * count -> length out0 = 8 * count ->
  exists out, sse_bss_encode_double count src out0 = Ok out /\ scalar_bss_encode 8 count src out0 = Ok out.
Proof. exact sse_bss_encode_double_eq_scalar. Qed.
Print Assumptions sse_bss_encode_double_kernel_eq_scalar.
Theorem sse_bss_decode_double_kernel_eq_scalar : forall count src out0,
  length src = 8 * count -> length out0 = 8 * count ->
  exists out, sse_bss_decode_double count src out0 = Ok out /\ scalar_bss_decode 8 count src out0 = Ok out.
Proof. exact sse_bss_decode_double_eq_scalar. Qed.
Print Assumptions sse_bss_decode_double_kernel_eq_scalar.
Theorem avx2_bss_encode_double_kernel_eq_scalar : forall count src out0,
  length src = 8 * count -> length out0 = 8 * count ->
  exists out, avx2_bss_encode_double count src out0 = Ok out /\ scalar_bss_encode 8 count src out0 = Ok out.
Proof. exact avx2_bss_encode_double_eq_scalar. Qed.
Print Assumptions avx2_bss_encode_double_kernel_eq_scalar.
Theorem avx2_bss_decode_double_kernel_eq_scalar : forall count src out0,
  length src = 8 * count -> length out0 = 8 * count ->
  exists out, avx2_bss_decode_double count src out0 = Ok out /\ scalar_bss_decode 8 count src out0 = Ok out.
Proof. exact avx2_bss_decode_double_eq_scalar. Qed.
Print Assumptions avx2_bss_decode_double_kernel_eq_scalar.

(** ... and the scalar definition is the byte transposition output[b*count + i] = src[i*w + b] *)
Theorem scalar_bss_encode_is_transposition : forall w count src out0,
  length src = w * count -> length out0 = w * count ->
  exists out, scalar_bss_encode w count src out0 = Ok out /\ length out = w * count /\
              forall b i, b < w -> i < count -> nth (b * count + i) out 0%N = nth (i * w + b) src 0%N.
Proof. exact scalar_bss_encode_transposes. Qed.
Print Assumptions scalar_bss_encode_is_transposition.

(** unpack_bools: carquet_{sse,avx2,avx512}_unpack_bools (input = ceil(count/8) bytes, output = count bytes) *)
Theorem sse_unpack_bools_kernel_eq_scalar : forall count inp out0,
  length inp = (count + 7) / 8 -> bytes_ok inp -> length out0 = count ->
  exists out, sse_unpack_bools count inp out0 = Ok out /\ scalar_unpack_bools count inp out0 = Ok out.
Proof. exact sse_unpack_bools_eq_scalar. Qed.
Print Assumptions sse_unpack_bools_kernel_eq_scalar.
Theorem avx2_unpack_bools_kernel_eq_scalar : forall count inp out0,
  length inp = (count + 7) / 8 -> bytes_ok inp -> length out0 = count ->
  exists out, avx2_unpack_bools count inp out0 = Ok out /\ scalar_unpack_bools count inp out0 = Ok out.
Proof. exact avx2_unpack_bools_eq_scalar. Qed.
Print Assumptions avx2_unpack_bools_kernel_eq_scalar.
Theorem avx512_unpack_bools_kernel_eq_scalar : forall count inp out0,
  length inp = (count + 7) / 8 -> bytes_ok inp -> length out0 = count ->
  exists out, avx512_unpack_bools count inp out0 = Ok out /\ scalar_unpack_bools count inp out0 = Ok out.
Proof. exact avx512_unpack_bools_eq_scalar. Qed.
Print Assumptions avx512_unpack_bools_kernel_eq_scalar.

(** dictionary gathers (the float / double entry points are the same code on 4 / 8 byte elements).
    Domain: every index addresses an element of the dictionary ([gather_in_range]; page_reader.c validates
    this before the call) and - for the hardware gather instructions, which sign-extend the 32-bit index -
    is below 2^31 ([gather_small]; dictionary_count is an int32_t). *)
Theorem sse_gather_i32_kernel_eq_scalar : forall count dict idxs out0,
  length idxs = 4 * count -> gather_in_range 4 count dict idxs -> length out0 = 4 * count ->
  exists out, sse_gather_i32 count dict idxs out0 = Ok out /\ scalar_gather 4 count dict idxs out0 = Ok out.
Proof. exact sse_gather_i32_eq_scalar. Qed.
Print Assumptions sse_gather_i32_kernel_eq_scalar.
Theorem sse_gather_i64_kernel_eq_scalar : forall count dict idxs out0,
  length idxs = 4 * count -> gather_in_range 8 count dict idxs -> length out0 = 8 * count ->
  exists out, sse_gather_i64 count dict idxs out0 = Ok out /\ scalar_gather 8 count dict idxs out0 = Ok out.
Proof. exact sse_gather_i64_eq_scalar. Qed.
Print Assumptions sse_gather_i64_kernel_eq_scalar.
Theorem avx2_gather_i32_kernel_eq_scalar : forall count dict idxs out0,
  length idxs = 4 * count -> gather_in_range 4 count dict idxs -> gather_small count idxs -> length out0 = 4 * count ->
  exists out, avx2_gather_i32 count dict idxs out0 = Ok out /\ scalar_gather 4 count dict idxs out0 = Ok out.
Proof. exact avx2_gather_i32_eq_scalar. Qed.
Print Assumptions avx2_gather_i32_kernel_eq_scalar.
Theorem avx2_gather_i64_kernel_eq_scalar : forall count dict idxs out0,
  length idxs = 4 * count -> gather_in_range 8 count dict idxs -> gather_small count idxs -> length out0 = 8 * count ->
  exists out, avx2_gather_i64 count dict idxs out0 = Ok out /\ scalar_gather 8 count dict idxs out0 = Ok out.
Proof. exact avx2_gather_i64_eq_scalar. Qed.
Print Assumptions avx2_gather_i64_kernel_eq_scalar.
Theorem avx512_gather_i32_kernel_eq_scalar : forall count dict idxs out0,
  length idxs = 4 * count -> gather_in_range 4 count dict idxs -> gather_small count idxs -> length out0 = 4 * count ->
  exists out, avx512_gather_i32 count dict idxs out0 = Ok out /\ scalar_gather 4 count dict idxs out0 = Ok out.
Proof. exact avx512_gather_i32_eq_scalar. Qed.
Print Assumptions avx512_gather_i32_kernel_eq_scalar.
Theorem avx512_gather_i64_kernel_eq_scalar : forall count dict idxs out0,
  length idxs = 4 * count -> gather_in_range 8 count dict idxs -> gather_small count idxs -> length out0 = 8 * count ->
  exists out, avx512_gather_i64 count dict idxs out0 = Ok out /\ scalar_gather 8 count dict idxs out0 = Ok out.
Proof. exact avx512_gather_i64_eq_scalar. Qed.
Print Assumptions avx512_gather_i64_kernel_eq_scalar.

(** fill_def_levels *)
Theorem sse_fill_def_levels_kernel_eq_scalar : forall count v out0,
  length out0 = 2 * count ->
  exists out, sse_fill_def_levels count v out0 = Ok out /\ scalar_fill_def_levels count v out0 = Ok out.
Proof. exact sse_fill_def_levels_eq_scalar. Qed.
Print Assumptions sse_fill_def_levels_kernel_eq_scalar.

(** definition levels: carquet_sse_count_non_nulls, carquet_sse_build_null_bitmap (levels are int16_t: two bytes each;
    max_def_level is a 16-bit value) *)
Theorem sse_count_non_nulls_kernel_eq_scalar : forall count lv mx,
  length lv = 2 * count -> bytes_ok lv -> (mx < 65536)%N ->
  exists r, sse_count_non_nulls count lv mx = Ok r /\ scalar_count_non_nulls count lv mx = Ok r.
Proof. exact sse_count_non_nulls_eq_scalar. Qed.
Print Assumptions sse_count_non_nulls_kernel_eq_scalar.
Theorem sse_build_null_bitmap_kernel_eq_scalar : forall count lv mx out0,
  length lv = 2 * count -> (mx < 65536)%N -> length out0 = (count + 7) / 8 ->
  exists out, sse_build_null_bitmap count lv mx out0 = Ok out /\ scalar_build_null_bitmap count lv mx out0 = Ok out.
Proof. exact sse_build_null_bitmap_eq_scalar. Qed.
Print Assumptions sse_build_null_bitmap_kernel_eq_scalar.

(** memset / memcpy helpers *)
Theorem sse_memset_small_kernel_eq_scalar : forall n v out0,
  length out0 = n -> exists out, sse_memset_small n v out0 = Ok out /\ scalar_memset n v out0 = Ok out.
Proof. exact sse_memset_small_eq_scalar. Qed.
Print Assumptions sse_memset_small_kernel_eq_scalar.
Theorem avx2_memset_kernel_eq_scalar : forall n v out0,
  length out0 = n -> exists out, avx2_memset n v out0 = Ok out /\ scalar_memset n v out0 = Ok out.
Proof. exact avx2_memset_eq_scalar. Qed.
Print Assumptions avx2_memset_kernel_eq_scalar.
Theorem avx512_memset_kernel_eq_scalar : forall n v out0,
  length out0 = n -> exists out, avx512_memset n v out0 = Ok out /\ scalar_memset n v out0 = Ok out.
Proof. exact avx512_memset_eq_scalar. Qed.
Print Assumptions avx512_memset_kernel_eq_scalar.
Theorem sse_memcpy_small_kernel_eq_scalar : forall n src out0,
  length src = n -> length out0 = n -> exists out, sse_memcpy_small n src out0 = Ok out /\ scalar_memcpy n src out0 = Ok out.
Proof. exact sse_memcpy_small_eq_scalar. Qed.
Print Assumptions sse_memcpy_small_kernel_eq_scalar.
Theorem avx2_memcpy_kernel_eq_scalar : forall n src out0,
  length src = n -> length out0 = n -> exists out, avx2_memcpy n src out0 = Ok out /\ scalar_memcpy n src out0 = Ok out.
Proof. exact avx2_memcpy_eq_scalar. Qed.
Print Assumptions avx2_memcpy_kernel_eq_scalar.
Theorem avx512_memcpy_kernel_eq_scalar : forall n src out0,
  length src = n -> length out0 = n -> exists out, avx512_memcpy n src out0 = Ok out /\ scalar_memcpy n src out0 = Ok out.
Proof. exact avx512_memcpy_eq_scalar. Qed.
Print Assumptions avx512_memcpy_kernel_eq_scalar.

(** pack_bools.  Domain of the SSE and AVX2 variants: input bytes are 0 or 1 ([bools01], as sse_ops.c documents);
    the AVX-512 variant agrees with the scalar definition on every input. *)
Theorem sse_pack_bools_kernel_eq_scalar : forall count inp out0,
  length inp = count -> bools01 inp -> length out0 = (count + 7) / 8 ->
  exists out, sse_pack_bools count inp out0 = Ok out /\ scalar_pack_bools count inp out0 = Ok out.
Proof. exact sse_pack_bools_eq_scalar. Qed.
Print Assumptions sse_pack_bools_kernel_eq_scalar.
Theorem avx2_pack_bools_kernel_eq_scalar : forall count inp out0,
  length inp = count -> bools01 inp -> length out0 = (count + 7) / 8 ->
  exists out, avx2_pack_bools count inp out0 = Ok out /\ scalar_pack_bools count inp out0 = Ok out.
Proof. exact avx2_pack_bools_eq_scalar. Qed.
Print Assumptions avx2_pack_bools_kernel_eq_scalar.
Theorem avx512_pack_bools_kernel_eq_scalar : forall count inp out0,
  length inp = count -> length out0 = (count + 7) / 8 ->
  exists out, avx512_pack_bools count inp out0 = Ok out /\ scalar_pack_bools count inp out0 = Ok out.
Proof. exact avx512_pack_bools_eq_scalar. Qed.
Print Assumptions avx512_pack_bools_kernel_eq_scalar.

(** prefix sums (in place; two's complement arithmetic wraps modulo 2^32 / 2^64 - what the compiled scalar code does;
    signed overflow is undefined in ISO C) *)
Theorem sse_prefix_sum_i32_kernel_eq_scalar : forall count buf init,
  length buf = 4 * count -> bytes_ok buf ->
  exists out, sse_prefix_sum_i32 count buf init = Ok out /\ scalar_prefix_sum 4 count buf init = Ok out.
Proof. exact sse_prefix_sum_i32_eq_scalar. Qed.
Print Assumptions sse_prefix_sum_i32_kernel_eq_scalar.
Theorem sse_prefix_sum_i64_kernel_eq_scalar : forall count buf init,
  length buf = 8 * count -> bytes_ok buf ->
  exists out, sse_prefix_sum_i64 count buf init = Ok out /\ scalar_prefix_sum 8 count buf init = Ok out.
Proof. exact sse_prefix_sum_i64_eq_scalar. Qed.
Print Assumptions sse_prefix_sum_i64_kernel_eq_scalar.
Theorem avx2_prefix_sum_i32_kernel_eq_scalar : forall count buf init,
  length buf = 4 * count -> bytes_ok buf ->
  exists out, avx2_prefix_sum_i32 count buf init = Ok out /\ scalar_prefix_sum 4 count buf init = Ok out.
Proof. exact avx2_prefix_sum_i32_eq_scalar. Qed.
Print Assumptions avx2_prefix_sum_i32_kernel_eq_scalar.
Theorem avx2_prefix_sum_i64_kernel_eq_scalar : forall count buf init,
  length buf = 8 * count -> bytes_ok buf ->
  exists out, avx2_prefix_sum_i64 count buf init = Ok out /\ scalar_prefix_sum 8 count buf init = Ok out.
Proof. exact avx2_prefix_sum_i64_eq_scalar. Qed.
Print Assumptions avx2_prefix_sum_i64_kernel_eq_scalar.
Theorem avx512_prefix_sum_i32_kernel_eq_scalar : forall count buf init,
  length buf = 4 * count -> bytes_ok buf ->
  exists out, avx512_prefix_sum_i32 count buf init = Ok out /\ scalar_prefix_sum 4 count buf init = Ok out.
Proof. exact avx512_prefix_sum_i32_eq_scalar. Qed.
Print Assumptions avx512_prefix_sum_i32_kernel_eq_scalar.
Theorem avx512_prefix_sum_i64_kernel_eq_scalar : forall count buf init,
  length buf = 8 * count -> bytes_ok buf ->
  exists out, avx512_prefix_sum_i64 count buf init = Ok out /\ scalar_prefix_sum 8 count buf init = Ok out.
Proof. exact avx512_prefix_sum_i64_eq_scalar. Qed.
Print Assumptions avx512_prefix_sum_i64_kernel_eq_scalar.

(** fixed-width bit unpackers: N values of W bits, LSB first, widened to uint32 ([scalar_bitunpack W N] is the generic
    meaning; the driver also compares with carquet_bitunpack8_32 of core/bitpack.c) *)
Theorem sse_bitunpack32_1bit_kernel_eq_scalar : forall inp,
  length inp = 4 -> bytes_ok inp -> sse_bitunpack32_1bit inp = Ok (scalar_bitunpack 1 32 inp).
Proof. exact sse_bitunpack32_1bit_eq_scalar. Qed.
Print Assumptions sse_bitunpack32_1bit_kernel_eq_scalar.
Theorem sse_bitunpack8_4bit_kernel_eq_scalar : forall inp,
  length inp = 4 -> bytes_ok inp -> sse_bitunpack8_4bit inp = Ok (scalar_bitunpack 4 8 inp).
Proof. exact sse_bitunpack8_4bit_eq_scalar. Qed.
Print Assumptions sse_bitunpack8_4bit_kernel_eq_scalar.
Theorem sse_bitunpack8_8bit_kernel_eq_scalar : forall inp,
  length inp = 8 -> bytes_ok inp -> sse_bitunpack8_8bit inp = Ok (scalar_bitunpack 8 8 inp).
Proof. exact sse_bitunpack8_8bit_eq_scalar. Qed.
Print Assumptions sse_bitunpack8_8bit_kernel_eq_scalar.
Theorem avx2_bitunpack64_1bit_kernel_eq_scalar : forall inp,
  length inp = 8 -> bytes_ok inp -> avx2_bitunpack64_1bit inp = Ok (scalar_bitunpack 1 64 inp).
Proof. exact avx2_bitunpack64_1bit_eq_scalar. Qed.
Print Assumptions avx2_bitunpack64_1bit_kernel_eq_scalar.
Theorem avx2_bitunpack16_4bit_kernel_eq_scalar : forall inp,
  length inp = 8 -> bytes_ok inp -> avx2_bitunpack16_4bit inp = Ok (scalar_bitunpack 4 16 inp).
Proof. exact avx2_bitunpack16_4bit_eq_scalar. Qed.
Print Assumptions avx2_bitunpack16_4bit_kernel_eq_scalar.
Theorem avx2_bitunpack16_8bit_kernel_eq_scalar : forall inp,
  length inp = 16 -> bytes_ok inp -> avx2_bitunpack16_8bit inp = Ok (scalar_bitunpack 8 16 inp).
Proof. exact avx2_bitunpack16_8bit_eq_scalar. Qed.
Print Assumptions avx2_bitunpack16_8bit_kernel_eq_scalar.
Theorem avx2_bitunpack8_16bit_kernel_eq_scalar : forall inp,
  length inp = 16 -> bytes_ok inp -> avx2_bitunpack8_16bit inp = Ok (scalar_bitunpack 16 8 inp).
Proof. exact avx2_bitunpack8_16bit_eq_scalar. Qed.
Print Assumptions avx2_bitunpack8_16bit_kernel_eq_scalar.
Theorem avx512_bitunpack32_8bit_kernel_eq_scalar : forall inp,
  length inp = 32 -> bytes_ok inp -> avx512_bitunpack32_8bit inp = Ok (scalar_bitunpack 8 32 inp).
Proof. exact avx512_bitunpack32_8bit_eq_scalar. Qed.
Print Assumptions avx512_bitunpack32_8bit_kernel_eq_scalar.
Theorem avx512_bitunpack16_16bit_kernel_eq_scalar : forall inp,
  length inp = 32 -> bytes_ok inp -> avx512_bitunpack16_16bit inp = Ok (scalar_bitunpack 16 16 inp).
Proof. exact avx512_bitunpack16_16bit_eq_scalar. Qed.
Print Assumptions avx512_bitunpack16_16bit_kernel_eq_scalar.
Theorem avx512_bitunpack32_4bit_kernel_eq_scalar : forall inp,
  length inp = 16 -> bytes_ok inp -> avx512_bitunpack32_4bit inp = Ok (scalar_bitunpack 4 32 inp).
Proof. exact avx512_bitunpack32_4bit_eq_scalar. Qed.
Print Assumptions avx512_bitunpack32_4bit_kernel_eq_scalar.

(** early-exit scans: find_run_length_i32 (three ISAs) and match_length (SSE) *)
Theorem sse_find_run_length_kernel_eq_scalar : forall count vals,
  length vals = 4 * count -> bytes_ok vals ->
  exists r, sse_find_run_length count vals = Ok r /\ scalar_find_run_length count vals = Ok r.
Proof. exact sse_find_run_length_eq_scalar. Qed.
Print Assumptions sse_find_run_length_kernel_eq_scalar.
Theorem avx2_find_run_length_kernel_eq_scalar : forall count vals,
  length vals = 4 * count -> bytes_ok vals ->
  exists r, avx2_find_run_length count vals = Ok r /\ scalar_find_run_length count vals = Ok r.
Proof. exact avx2_find_run_length_eq_scalar. Qed.
Print Assumptions avx2_find_run_length_kernel_eq_scalar.
Theorem avx512_find_run_length_kernel_eq_scalar : forall count vals,
  length vals = 4 * count -> bytes_ok vals ->
  exists r, avx512_find_run_length count vals = Ok r /\ scalar_find_run_length count vals = Ok r.
Proof. exact avx512_find_run_length_eq_scalar. Qed.
Print Assumptions avx512_find_run_length_kernel_eq_scalar.
Theorem sse_match_length_kernel_eq_scalar : forall n p m,
  length p = n -> length m = n -> exists r, sse_match_length n p m = Ok r /\ scalar_match_length n p m = Ok r.
Proof. exact sse_match_length_eq_scalar. Qed.
Print Assumptions sse_match_length_kernel_eq_scalar.

(** CRC32C: the SSE4.2 crc32-instruction kernel equals the table-driven scalar definition (table regenerated from dispatch.c) *)
Theorem sse_crc32c_kernel_eq_scalar : forall crc data,
  bytes_ok data -> sse_crc32c crc data = Ok (scalar_crc32c Simd_crc32c_table crc data).
Proof. exact sse_crc32c_eq_scalar. Qed.
Print Assumptions sse_crc32c_kernel_eq_scalar.

(** match copy (LZ77 match inside one buffer: dst = buf + d, src = dst - offset; domain 1 <= offset <= d) *)
Theorem sse_match_copy_kernel_eq_scalar : forall buf d len offset,
  1 <= offset <= d -> d + len <= length buf -> bytes_ok buf ->
  exists out, sse_match_copy buf d len offset = Ok out /\ scalar_match_copy buf d len offset = Ok out.
Proof. exact sse_match_copy_eq_scalar. Qed.
Print Assumptions sse_match_copy_kernel_eq_scalar.
