(** C17 - schema trees map to the right leaf columns and def/rep levels.
    This file only restates lemmas proved in Schema/SchemaProofs.v (specification: Schema/SchemaTree.v;
    models: Schema/SchemaModel.v mirroring src/reader/file_reader.c + the queries of src/metadata/schema.c,
    Schema/SchemaBuilderModel.v mirroring the builder of src/metadata/schema.c). *)
From Coq Require Import ZArith NArith List.
From Carquet Require Import Schema.SchemaTree Schema.SchemaModel Schema.SchemaBuilderModel Schema.SchemaProofs.
Import ListNotations.

(** For EVERY element list the parser can deliver (not only flattenings of trees): the per-leaf arrays sized
    by count_leaves are never overrun, no element is read outside the list, the recursion depth stays within
    the element limit and the linear fuel suffices. *)
Theorem leaf_idx_bounded : forall elems, length elems <= MAX_ELEMS ->
  forall f, build_schema elems <> Fault f.
Proof. exact leaf_idx_bounded_thm. Qed.
Print Assumptions leaf_idx_bounded.

(** For every element list: at most one call of traverse_schema_recursive per element. *)
Theorem traverse_linear : forall elems s, length elems <= MAX_ELEMS ->
  build_schema elems = Ok s -> s_calls s <= 1 * length elems /\ fuel_of elems = 2 * length elems + 3.
Proof. exact traverse_linear_thm. Qed.
Print Assumptions traverse_linear.

(** Column lookup on any schema the reader builds reads inside the arrays and answers -1 or a column index. *)
Theorem find_column_in_bounds : forall elems s name, length elems <= MAX_ELEMS -> build_schema elems = Ok s ->
  exists j, find_column s name = Ok j /\ (-1 <= j < num_columns s)%Z.
Proof. exact find_column_safe. Qed.
Print Assumptions find_column_in_bounds.
