(** C17 - schema trees map to the right leaf columns and def/rep levels.
    This file only restates lemmas proved in Schema/SchemaProofs.v.
      specification: Schema/SchemaTree.v   (trees, flattening, textbook columns and levels; imports no model)
      models:        Schema/SchemaModel.v  (count_leaves, traverse_schema_recursive, compute_levels, build_schema of
                                            src/reader/file_reader.c; find_column, get_element and the node accessors of
                                            src/metadata/schema.c), Schema/SchemaBuilderModel.v (schema_create,
                                            ensure_capacity, add_column, add_group)
    [valid_schema children]: the root has at least one child, no group is empty (an element without children is a
    primitive field in Parquet) and the element count is within CARQUET_MAX_SCHEMA_ELEMENTS, which the parser enforces
    (this also keeps every level inside int16_t). *)
From Coq Require Import ZArith NArith List.
From Carquet Require Import Schema.SchemaTree Schema.SchemaModel Schema.SchemaBuilderModel Schema.SchemaProofs.
Import ListNotations.

(** For every schema tree, stored as the depth-first element list with child counts, the reader's schema has exactly
    the leaves in depth-first order as columns; each column's maximum definition level is the number of non-REQUIRED
    nodes and its maximum repetition level the number of REPEATED nodes on its path; name, physical type, type length,
    logical type and repetition read through the accessors are what the file states; the per-node level accessors
    agree; lookup by name returns the first column of that name. *)
Theorem levels_correct : forall rr nm children, valid_schema children ->
  exists s, build_schema (schema_of rr nm children) = Ok s /\
            s_leaves s = map (fun c => (c_elem c, c_def c, c_rep c)) (columns children) /\
            reader_columns s = Ok (columns children) /\
            accessor_levels s = map (fun c => Some (c_def c, c_rep c)) (columns children) /\
            (forall name, find_column s name = Ok (find_name name 0%Z (columns children))) /\
            num_columns s = Z.of_nat (length (columns children)).
Proof. exact levels_correct_full. Qed.
Print Assumptions levels_correct.

(** Every element (groups included) is returned by get_element with the stored fields and the textbook levels of
    that node; indices outside [0, num_elements) give NULL. *)
Theorem element_accessors : forall rr nm children, valid_schema children ->
  exists s, build_schema (schema_of rr nm children) = Ok s /\
    num_elements s = Z.of_nat (length (schema_of rr nm children)) /\
    get_element s (-1)%Z = None /\ get_element s (num_elements s) = None /\
    forall k, k < length (schema_of rr nm children) ->
      exists e lv, get_element s (Z.of_nat k) = Some (e, lv) /\
                   nth_error (schema_of rr nm children) k = Some e /\
                   nth_error ((0%Z, 0%Z) :: flat_map (node_levels 0 0) children) k = Some lv.
Proof. exact element_accessors_correct. Qed.
Print Assumptions element_accessors.

(** For EVERY element list the parser can deliver (not only flattenings of trees): the per-leaf arrays sized
    by count_leaves are never overrun, no element is read outside the list, the recursion depth stays within
    the element limit and the linear fuel suffices. *)
Theorem leaf_idx_bounded : forall elems, length elems <= MAX_ELEMS ->
  forall f, build_schema elems <> Fault f.
Proof. exact leaf_idx_bounded_thm. Qed.
Print Assumptions leaf_idx_bounded.

(** For every element list: at most one call of traverse_schema_recursive per element
    (holds for the repaired loops of /repo commit eab7c31; before it, a 40-byte footer took hours). *)
Theorem traverse_linear : forall elems s, length elems <= MAX_ELEMS ->
  build_schema elems = Ok s -> s_calls s <= 1 * length elems /\ fuel_of elems = 2 * length elems + 3.
Proof. exact traverse_linear_thm. Qed.
Print Assumptions traverse_linear.

(** Column lookup on any schema the reader builds reads inside the arrays and answers -1 or a column index. *)
Theorem find_column_in_bounds : forall elems s name, length elems <= MAX_ELEMS -> build_schema elems = Ok s ->
  exists j, find_column s name = Ok j /\ (-1 <= j < num_columns s)%Z.
Proof. exact find_column_safe. Qed.
Print Assumptions find_column_in_bounds.

(** Builder: for ANY list of carquet_schema_add_column calls (any length: the arrays grow past the initial capacity)
    every call returns CARQUET_OK, no store leaves the allocations, and the schema has exactly the element list, leaf
    arrays and node levels of the flat tree with those columns - hence (levels_correct) the same counts, names, types
    and levels a reader reports for it. *)
Theorem builder_flat_correct : forall cols : list colspec,
  exists b, run_ops schema_create (map op_of cols) [] = Ok (b, repeat 0%Z (length cols)) /\
            b_elems b = s_elems (tree_schema None ROOT_NAME (map leaf_of cols)) /\
            b_leaves b = s_leaves (tree_schema None ROOT_NAME (map leaf_of cols)) /\
            b_nodes b = s_nodes (tree_schema None ROOT_NAME (map leaf_of cols)) /\
            (Z.of_nat (length (b_elems b)) <= b_capacity b)%Z.
Proof. exact builder_flat_correct_thm. Qed.
Print Assumptions builder_flat_correct.

(** Builder: EVERY call sequence - add_column and add_group in any order with any arguments, any length - completes without
    a store outside the (growing) allocations; element count <= capacity and leaf count < element count always hold. *)
Theorem builder_never_faults : forall ops, exists b rets, run_ops schema_create ops [] = Ok (b, rets) /\ bsafe b.
Proof. exact builder_never_faults_thm. Qed.
Print Assumptions builder_never_faults.
