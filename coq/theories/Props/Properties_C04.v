(** C04 - no input file can make the reader memory-unsafe, hang or leak: the bounds / termination LOGIC.
    This file only restates lemmas proved in Reader/FooterProofs.v and Reader/RobustProofs.v about the models
    Reader/FooterModel.v (open decision) and Reader/PageBoundsModel.v (index checks, page loads, view /
    dictionary / copy-out sizes, page walk, error records).  Which checks the C code makes, the header
    window and the limits are regenerated from the sources (Gen/Robust_gen.v, Gen/Consts_gen.v).

    PARTIAL with respect to the property: heap discipline of the real process (leaks, double frees, use
    after free, lifetime of zero-copy views), stack depth of the Thrift parser and the decoders'
    own loops are not in these models; they are observed (ASan/UBSan/LSan, CPU and wall-clock limits) by
    checks/C04.py, and the Thrift parser / decoders are other properties' models (C13, C08).  The
    premises about the two Thrift parsers are explicit hypotheses of the statements below. *)
From Coq Require Import NArith ZArith List.
From Carquet Require Import Base.Res Gen.Enums_gen Gen.Consts_gen Reader.FooterModel Reader.FooterProofs
  Reader.PageBoundsModel Reader.RobustProofs Reader.RobustInst.
Import ListNotations.
Local Open Scope Z_scope.

(** The open decision never reads outside the file: for every byte string and every open path. *)
Theorem open_decision_in_bounds : forall m f, open_stage m f <> StFault.
Proof. exact open_stage_no_fault. Qed.
Print Assumptions open_decision_in_bounds.

(** open: an error with a non-OK code, or metadata whose counts are within the CARQUET_MAX_* limits and
    whose leaf map points into the schema - given that the footer parser (a premise: C13) respects its
    limits, does not fault and does not fail with CARQUET_OK. *)
Theorem open_safe : forall (parse : list N -> res file_meta),
  (forall bs m, parse bs = Ok m -> within_limits m) ->
  (forall bs ft, parse bs <> Fault ft) ->
  (forall bs, parse bs <> Err 0) ->
  forall mode f,
    (exists c, open file_meta parse mode f = Err c /\ c <> 0) \/
    (exists m, open file_meta parse mode f = Ok m /\ within_limits m).
Proof. exact RobustProofs.open_safe. Qed.
Print Assumptions open_safe.

(** Out-of-range row-group / column indices (any C ints) are reported as errors. *)
Theorem get_column_safe : forall m rg col,
  rg < 0 \/ Z.of_nat (length (fm_row_groups m)) <= rg \/ col < 0 \/ Z.of_nat (length (fm_leaves m)) <= col ->
  exists c, get_column current_pchecks m rg col = Err c /\ c <> 0.
Proof. exact get_column_index_error. Qed.
Print Assumptions get_column_safe.

(** ... and for any indices get_column stays inside the metadata arrays. *)
Theorem get_column_in_bounds : forall m rg col,
  within_limits m -> forall ft, get_column current_pchecks m rg col <> Fault ft.
Proof. exact get_column_no_fault. Qed.
Print Assumptions get_column_in_bounds.

(** Every range of the file a page load reads lies inside the file, or the load reports an error: for all
    files, offsets, headers, both I/O paths (mapped = mmap and buffer; stdio), dictionary and data pages. *)
Theorem page_load_in_bounds : forall (parse_hdr : list N -> hdr_result),
  (forall bs h hs, parse_hdr bs = HdrOk h hs -> (hs <= length bs)%nat) ->
  (forall bs h hs, parse_hdr bs = HdrOk h hs -> -2147483648 <= ph_csize h < 2147483648) ->
  forall p k f off,
    (exists c, load parse_hdr current_pchecks p k f off = Err c) \/
    (exists l, load parse_hdr current_pchecks p k f off = Ok l /\
       Forall (in_file (Z.of_nat (length f))) (ld_reads l) /\ in_file (Z.of_nat (length f)) (ld_body l) /\
       0 <= ld_hs l /\ r_off (ld_body l) = off + ld_hs l /\ r_len (ld_body l) = ph_csize (ld_header l) /\
       0 <= off < Z.of_nat (length f)).
Proof. exact RobustProofs.page_load_in_bounds. Qed.
Print Assumptions page_load_in_bounds.

(** The zero-copy view handed to read_batch lies inside the page body. *)
Theorem zero_copy_view_in_bounds : forall r l,
  0 <= r_len (ld_body l) ->
  (exists c, zero_copy_view current_pchecks r l = Err c) \/
  (exists v, zero_copy_view current_pchecks r l = Ok v /\
     r_off v = r_off (ld_body l) /\ 0 <= r_len v <= r_len (ld_body l)).
Proof. exact zero_copy_view_in_body. Qed.
Print Assumptions zero_copy_view_in_bounds.

(** The fixed-width dictionary copy stays inside the dictionary page. *)
Theorem dictionary_copy_in_bounds : forall r dn ps,
  0 <= ps ->
  (exists c, dictionary_copy current_pchecks r dn ps = Err c) \/
  (exists b, dictionary_copy current_pchecks r dn ps = Ok b /\ 0 <= b <= ps).
Proof. exact RobustProofs.dictionary_copy_in_bounds. Qed.
Print Assumptions dictionary_copy_in_bounds.

(** read_batch writes no more into the caller's buffer than a caller who sized it from the schema made room for. *)
Theorem decode_writes_in_bounds : forall m rg col r pv vr mv,
  get_column current_pchecks m rg col = Ok r -> 0 <= mv ->
  exists w, copy_out r pv vr mv = Ok w /\ 0 <= w <= mv * value_size (cr_schema_type r) (cr_type_length r).
Proof. exact RobustProofs.decode_writes_in_bounds. Qed.
Print Assumptions decode_writes_in_bounds.

(** Walking the pages of a chunk takes at most (file size + 1) page loads whatever the metadata and the
    page headers say (worst case: the declared value count never runs out). *)
Theorem read_terminates_linear : forall (parse_hdr : list N -> hdr_result),
  (forall bs h hs, parse_hdr bs = HdrOk h hs -> (hs <= length bs)%nat) ->
  (forall bs h hs, parse_hdr bs = HdrOk h hs -> -2147483648 <= ph_csize h < 2147483648) ->
  (forall bs h hs, parse_hdr bs = HdrOk h hs -> (1 <= hs)%nat) ->
  forall p f off, exists k, walk parse_hdr current_pchecks (length f + 1) p f off 0 = Ok k /\ (k <= length f + 1)%nat.
Proof. exact RobustProofs.read_terminates_linear. Qed.
Print Assumptions read_terminates_linear.

(** An error record carries a non-OK code and a NUL-terminated message inside its array. *)
Theorem error_has_code_and_nul_message : forall code text,
  code <> 0 ->
  e_code (error_set code text) <> 0 /\
  (length (e_message (error_set code text)) <= N.to_nat Robust_CARQUET_ERROR_MESSAGE_MAX)%nat /\
  last (e_message (error_set code text)) 1%N = 0%N /\ In 0%N (e_message (error_set code text)).
Proof. exact RobustProofs.error_has_code_and_nul_message. Qed.
Print Assumptions error_has_code_and_nul_message.

(** The same three theorems with the parsers INSTANTIATED - no hypothesis about a parser is left:
    [footer_parse_carquet] = the Thrift engine's model of parquet_parse_file_metadata (Thrift/ParquetMetaModel.v)
    followed by the schema engine's build_schema (Schema/SchemaModel.v); [parse_hdr_carquet] = the Thrift
    engine's model of parquet_parse_page_header.  The premises are proved in Reader/RobustInst.v from the
    Thrift owner's theorems (never faults, consumed <= input, parse_struct_good) plus lemmas proved there:
    error statuses are never CARQUET_OK, a successful parse consumes >= 1 byte, the VALIDATE_COUNT limits
    hold of the parsed lists; the leaf map bound is Schema.build_schema_total. *)
Theorem open_safe_carquet : forall mode f,
  (exists c, open file_meta footer_parse_carquet mode f = Err c /\ c <> 0) \/
  (exists m, open file_meta footer_parse_carquet mode f = Ok m /\ within_limits m).
Proof. exact RobustInst.open_safe_carquet. Qed.
Print Assumptions open_safe_carquet.

Theorem page_load_in_bounds_carquet : forall p k f off,
  (exists c, load parse_hdr_carquet current_pchecks p k f off = Err c) \/
  (exists l, load parse_hdr_carquet current_pchecks p k f off = Ok l /\
     Forall (in_file (Z.of_nat (length f))) (ld_reads l) /\ in_file (Z.of_nat (length f)) (ld_body l) /\
     0 <= ld_hs l /\ r_off (ld_body l) = off + ld_hs l /\ r_len (ld_body l) = ph_csize (ld_header l) /\
     0 <= off < Z.of_nat (length f)).
Proof. exact RobustInst.page_load_in_bounds_carquet. Qed.
Print Assumptions page_load_in_bounds_carquet.

Theorem read_terminates_linear_carquet : forall p f off,
  exists k, walk parse_hdr_carquet current_pchecks (length f + 1) p f off 0 = Ok k /\ (k <= length f + 1)%nat.
Proof. exact RobustInst.read_terminates_linear_carquet. Qed.
Print Assumptions read_terminates_linear_carquet.

(** The pinned tree violated the bounds theorems (DESIGN F21-F24; replays in corpus/C04). *)
Theorem page_load_in_bounds_refuted_on_pinned_tree :
  exists parse_hdr f off, load parse_hdr pinned_pchecks Mapped DataPage f off = Fault OobRead.
Proof. exact page_load_in_bounds_refuted_pinned_size. Qed.
Print Assumptions page_load_in_bounds_refuted_on_pinned_tree.

Theorem zero_copy_view_refuted_on_pinned_tree :
  exists r l v, zero_copy_view pinned_pchecks r l = Ok v /\ r_len (ld_body l) < r_len v.
Proof. exact zero_copy_view_refuted_pinned. Qed.
Print Assumptions zero_copy_view_refuted_on_pinned_tree.

Theorem dictionary_copy_refuted_on_pinned_tree :
  exists r dn ps, dictionary_copy pinned_pchecks r dn ps = Fault OobRead.
Proof. exact dictionary_copy_refuted_pinned. Qed.
Print Assumptions dictionary_copy_refuted_on_pinned_tree.

Theorem decode_writes_in_bounds_refuted_on_pinned_tree :
  exists m rg col r mv, get_column pinned_pchecks m rg col = Ok r /\ copy_out r 10 0 mv = Fault OobWrite.
Proof. exact decode_writes_in_bounds_refuted_pinned. Qed.
Print Assumptions decode_writes_in_bounds_refuted_on_pinned_tree.
