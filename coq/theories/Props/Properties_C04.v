(** C04 - no input file can make the reader memory-unsafe, hang or leak (bounds / termination logic).
    This file only restates lemmas proved in Reader/FooterProofs.v and Reader/RobustProofs.v. *)
From Coq Require Import NArith ZArith List.
From Carquet Require Import Base.Res Gen.Enums_gen Reader.FooterModel Reader.FooterProofs.
Import ListNotations.

(** The open decision never reads outside the file: for every byte string and every open path. *)
Theorem open_decision_in_bounds : forall m f, open_stage m f <> StFault.
Proof. exact open_stage_no_fault. Qed.
Print Assumptions open_decision_in_bounds.
