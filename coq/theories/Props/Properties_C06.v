(** C06 - spec-valid files from another writer decode to the values stored in them; features carquet does not
    implement are rejected with an error, never decoded to wrong values.
    This file only restates lemmas proved in File/ForeignProofs.v (model: File/ForeignModel.v mirroring the page
    decode path of src/reader/page_reader.c; specification: File/SpecPage.v, what a column chunk of data pages v1
    denotes per the format documents). *)
From Coq Require Import NArith ZArith List.
From Carquet Require Import Base.Res Gen.Enums_gen Comp.CompBase File.SpecPage File.ForeignModel File.ForeignProofs.
Local Open Scope N_scope.

(** Second sentence of the property, page level.  Every page carquet does not claim - DATA_PAGE_V2, INDEX_PAGE and
    every other integer in the type field; every integer in the encoding field other than PLAIN / PLAIN_DICTIONARY /
    RLE_DICTIONARY; a level encoding other than RLE on a column that has levels - gets an error status, whatever the
    body holds. *)
Theorem unsupported_rejected : forall col dict hdr body,
  ~ supported_page col hdr -> exists e, decode_page col dict hdr body = Err e.
Proof. exact unsupported_page_rejected_thm. Qed.
Print Assumptions unsupported_rejected.

(** ... the same inside the page loop of a chunk (after decompression, which must not fault) ... *)
Theorem unsupported_data_page_rejected : forall (gz_d zs_d : list N -> N -> res (list N)) col dict p,
  ~ supported_page col (fst p) -> (forall f, page_body gz_d zs_d col p <> Fault f) ->
  exists e, load_data_page gz_d zs_d col dict p = Err e.
Proof. exact unsupported_data_page_rejected_thm. Qed.
Print Assumptions unsupported_data_page_rejected.

(** ... and unknown codecs: a chunk with any codec id other than UNCOMPRESSED, SNAPPY, GZIP, ZSTD, LZ4_RAW (and LZ4,
    see below) - LZO, BROTLI, every other integer - cannot be read at all, whatever zlib / libzstd would do. *)
Theorem unknown_codec_rejected : forall (gz_d zs_d : list N -> N -> res (list N)) col has_off nv pages,
  ~ accepted_codec (c_codec col) -> (0 < nv)%Z -> exists e, decode_chunk gz_d zs_d col has_off nv pages = Err e.
Proof. exact unknown_codec_rejected_thm. Qed.
Print Assumptions unknown_codec_rejected.

(** The recorded deviation from the format: codec id 5 (LZ4, which Compression.md defines as the Hadoop-framed
    layout) is sent to the same bare-block decoder as LZ4_RAW. *)
Theorem lz4_id5_read_as_bare_block : forall (gz_d zs_d : list N -> N -> res (list N)) stored cap,
  decompress_page gz_d zs_d E_CARQUET_COMPRESSION_LZ4 stored cap = Lz4Model.decompress stored cap /\
  decompress_page gz_d zs_d E_CARQUET_COMPRESSION_LZ4_RAW stored cap = Lz4Model.decompress stored cap.
Proof. exact lz4_id5_read_as_bare_block_thm. Qed.
Print Assumptions lz4_id5_read_as_bare_block.
