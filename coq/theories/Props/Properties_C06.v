(** C06 - spec-valid files from another writer decode to the values stored in them; features carquet does not
    implement are rejected with an error, never decoded to wrong values.
    This file only restates lemmas proved in File/ForeignProofs.v (model: File/ForeignModel.v mirroring the page
    decode path of src/reader/page_reader.c; specification: File/SpecPage.v, what a column chunk of data pages v1
    denotes per the format documents). *)
From Coq Require Import NArith ZArith List.
From Carquet Require Import Base.Res Gen.Enums_gen Enc.DeltaBits Enc.RleSpec Comp.CompBase File.SpecPage File.ForeignModel File.ForeignProofs.
Local Open Scope N_scope.

(** First sentence of the property, as far as the page decode path goes: for every column chunk [pages] that denotes
    (reps, defs, vals) per the format - data pages v1, PLAIN or dictionary values, levels and indices in any mix of run
    kinds, any page split, a dictionary page announced by dictionary_page_offset or not, all eight physical types, the
    five codecs - the reader returns exactly (reps, defs, vals).  zlib / libzstd are external code: their completeness
    is a premise of [chunk_decode_accepts] (named in the trusted base); [chunk_decode_accepts_builtin_codecs] has no
    premise of that kind (UNCOMPRESSED, SNAPPY, LZ4_RAW).  The one restriction carquet has inside the claimed features:
    dictionary pages are implemented for every type but BOOLEAN ([dictionary_capable]; no known writer
    dictionary-encodes BOOLEAN; such pages are refused with NOT_IMPLEMENTED).
    File-level plumbing (offsets, Thrift page headers, fseek/fread/mmap, the level computation for nested schemas - C17,
    the column-reader cursor - C02) is outside this model: the differential run of checks/C06.py covers it. *)

(** carquet_rle_decode_levels (the level decoder of the page reader) returns the levels of every well-formed hybrid
    stream: RLE runs of any length, bit-packed runs of any number of groups, zero-length runs, in any mix. *)
Theorem rle_decode_levels_accepts : forall w bytes vals n,
  (1 <= w <= 32)%nat -> RleSpec.Denotes w bytes vals -> (n <= length vals)%nat ->
  rle_decode_levels w bytes n = firstn n vals.
Proof. exact rle_decode_levels_accepts_thm. Qed.
Print Assumptions rle_decode_levels_accepts.

(** the level bit width the code computes is the one the format prescribes *)
Theorem level_bit_width : forall m, m < 2 ^ 32 -> bit_width_for_max m = bit_width m.
Proof. exact bit_width_for_max_spec. Qed.
Print Assumptions level_bit_width.

(** PLAIN values: carquet_decode_plain returns what the PLAIN specification reads, for all eight physical types. *)
Theorem plain_accepts : forall t tlen n bs vals,
  DeltaBits.bytes bs -> DeltaBits.len bs < 2 ^ 60 -> plain_values t tlen n bs = Some vals ->
  decode_plain t (N.of_nat tlen) bs (N.of_nat n) = Ok vals.
Proof. exact plain_accepts_all_thm. Qed.
Print Assumptions plain_accepts.

(** One data page v1: what the page denotes is what the page decoder returns (levels of both kinds, the non-null
    count, PLAIN or dictionary-index values). *)
Theorem page_decode_accepts : forall col dict hdr body reps defs vals,
  c_maxrep col < 2 ^ 32 -> c_maxdef col < 2 ^ 32 -> DeltaBits.bytes body -> DeltaBits.len body < 2 ^ 60 ->
  (is_dict_encoding (h_encoding hdr) = true -> dictionary_capable (c_type col)) ->
  PageDenotes col dict hdr body (reps, defs, vals) ->
  decode_page col (option_map model_dict dict) hdr body = Ok (reps, defs, vals).
Proof. exact page_decode_accepts_full_thm. Qed.
Print Assumptions page_decode_accepts.

(** A whole column chunk: any number of pages, dictionary page first with or without dictionary_page_offset, the
    five codecs (Snappy and LZ4 through carquet's own decompressors, proved complete in C10). *)
Theorem chunk_decode_accepts :
  forall (gz_d zs_d : list N -> N -> res (list N)) (GzipDenotes ZstdDenotes : list N -> list N -> Prop),
  (forall stored body cap, GzipDenotes stored body -> nlen body <= cap -> gz_d stored cap = Ok body) ->
  (forall stored body cap, ZstdDenotes stored body -> nlen body <= cap -> zs_d stored cap = Ok body) ->
  forall col, c_maxrep col < 2 ^ 32 -> c_maxdef col < 2 ^ 32 ->
  forall has_off pages reps defs vals,
  ChunkDenotes GzipDenotes ZstdDenotes col pages (reps, defs, vals) ->
  dict_pages_ok col pages ->
  (has_off = true -> exists dp rest, pages = dp :: rest /\ h_type (fst dp) = E_CARQUET_PAGE_DICTIONARY) ->
  (forall dp rest, pages = dp :: rest -> h_type (fst dp) = E_CARQUET_PAGE_DICTIONARY -> dictionary_capable (c_type col)) ->
  decode_chunk gz_d zs_d col has_off (Z.of_nat (length defs)) pages = Ok (reps, defs, vals).
Proof. exact chunk_decode_accepts_full_thm. Qed.
Print Assumptions chunk_decode_accepts.

(** ... and with no assumption about external code: chunks stored UNCOMPRESSED, SNAPPY or LZ4_RAW. *)
Theorem chunk_decode_accepts_builtin_codecs : forall col, c_maxrep col < 2 ^ 32 -> c_maxdef col < 2 ^ 32 ->
  forall has_off pages reps defs vals,
  ChunkDenotes NoExternal NoExternal col pages (reps, defs, vals) ->
  dict_pages_ok col pages ->
  (has_off = true -> exists dp rest, pages = dp :: rest /\ h_type (fst dp) = E_CARQUET_PAGE_DICTIONARY) ->
  (forall dp rest, pages = dp :: rest -> h_type (fst dp) = E_CARQUET_PAGE_DICTIONARY -> dictionary_capable (c_type col)) ->
  decode_chunk no_external_d no_external_d col has_off (Z.of_nat (length defs)) pages = Ok (reps, defs, vals).
Proof. exact chunk_decode_accepts_builtin_thm. Qed.
Print Assumptions chunk_decode_accepts_builtin_codecs.

(** Second sentence of the property, page level.  Every page carquet does not claim - DATA_PAGE_V2, INDEX_PAGE and
    every other integer in the type field; every integer in the encoding field other than PLAIN / PLAIN_DICTIONARY /
    RLE_DICTIONARY; a level encoding other than RLE on a column that has levels - gets an error status, whatever the
    body holds. *)
Theorem unsupported_rejected : forall col dict hdr body,
  ~ supported_page col hdr -> exists e, decode_page col dict hdr body = Err e.
Proof. exact unsupported_page_rejected_thm. Qed.
Print Assumptions unsupported_rejected.

(** ... the same inside the page loop of a chunk (after decompression, which must not fault) ... *)
Theorem unsupported_data_page_rejected : forall (gz_d zs_d : list N -> N -> res (list N)) col dict p,
  ~ supported_page col (fst p) -> (forall f, page_body gz_d zs_d col p <> Fault f) ->
  exists e, load_data_page gz_d zs_d col dict p = Err e.
Proof. exact unsupported_data_page_rejected_thm. Qed.
Print Assumptions unsupported_data_page_rejected.

(** ... and unknown codecs: a chunk with any codec id other than UNCOMPRESSED, SNAPPY, GZIP, ZSTD, LZ4_RAW (and LZ4,
    see below) - LZO, BROTLI, every other integer - cannot be read at all, whatever zlib / libzstd would do. *)
Theorem unknown_codec_rejected : forall (gz_d zs_d : list N -> N -> res (list N)) col has_off nv pages,
  ~ accepted_codec (c_codec col) -> (0 < nv)%Z -> exists e, decode_chunk gz_d zs_d col has_off nv pages = Err e.
Proof. exact unknown_codec_rejected_thm. Qed.
Print Assumptions unknown_codec_rejected.

(** The recorded deviation from the format: codec id 5 (LZ4, which Compression.md defines as the Hadoop-framed
    layout) is sent to the same bare-block decoder as LZ4_RAW. *)
Theorem lz4_id5_read_as_bare_block : forall (gz_d zs_d : list N -> N -> res (list N)) stored cap,
  decompress_page gz_d zs_d E_CARQUET_COMPRESSION_LZ4 stored cap = Lz4Model.decompress stored cap /\
  decompress_page gz_d zs_d E_CARQUET_COMPRESSION_LZ4_RAW stored cap = Lz4Model.decompress stored cap.
Proof. exact lz4_id5_read_as_bare_block_thm. Qed.
Print Assumptions lz4_id5_read_as_bare_block.

(** ... and what the format defines for id 5 - the Hadoop frame - is refused by that decoder for every page below
    256 MiB (first frame byte < 16): rejected, never decoded to wrong values. *)
Theorem lz4_hadoop_frame_rejected : forall tok a b rest cap,
  tok < 16 -> exists e, Lz4Model.decompress (tok :: a :: b :: rest) cap = Err e.
Proof. exact lz4_hadoop_frame_rejected_thm. Qed.
Print Assumptions lz4_hadoop_frame_rejected.
