(** C20 - Bloom filters have no false negatives and follow the Parquet algorithm; the hash is XXH64.
    This file only restates lemmas proved in Util/Xxh64Proofs.v and Util/BloomProofs.v.
    Models: Util/Xxh64Model.v (mirror of src/util/xxhash.c), Util/BloomModel.v (mirror of
    src/metadata/bloom_filter.c, byte array with checked 32-bit accesses).
    Specifications: Util/Xxh64Spec.v (xxHash specification), Util/BloomSpec.v (Parquet split-block
    Bloom filter).  [create n = Some f]: the filter returned for a requested size of n bytes (n < 2^64;
    [None] is the NULL result).  Values: BloomSpec.value = int32 / int64 / float bits / double bits /
    byte string; [value_ok] only asks byte strings to consist of bytes. *)
From Coq Require Import NArith ZArith List.
From Carquet Require Import Base.Res Gen.Enums_gen
     Util.Xxh64Spec Util.Xxh64Model Util.Xxh64Proofs Util.BloomSpec Util.BloomModel Util.BloomProofs.
Local Open Scope N_scope.

(** The hash function equals reference XXH64 for every input length and seed ... *)
Theorem xxh64_model_eq_spec : forall bs seed, bytes bs -> seed < 2^64 ->
  Xxh64Model.xxh64 bs seed = Xxh64Spec.xxh64 bs seed.
Proof. exact xxh64_eq_spec. Qed.
Print Assumptions xxh64_model_eq_spec.

(** ... and it never reads outside its input (the model's reads are bounds-checked). *)
Theorem xxh64_model_no_out_of_bounds_read : forall bs seed, bytes bs -> seed < 2^64 ->
  xxh64_checked bs seed = Some (Xxh64Spec.xxh64 bs seed).
Proof. exact xxh64_checked_eq_spec. Qed.
Print Assumptions xxh64_model_no_out_of_bounds_read.

(** For every filter size and every list of inserted values of any supported type, every insertion
    succeeds without a fault and a membership check for an inserted value returns true. *)
Theorem bloom_no_false_negative : forall n f vs x,
  create n = Some f -> Forall value_ok vs -> In x vs ->
  exists f', insert_values f vs = Ok f' /\ check_value f' x = Ok true.
Proof. exact no_false_negative. Qed.
Print Assumptions bloom_no_false_negative.

(** The same for raw 64-bit hashes (carquet_bloom_filter_insert_hash / check_hash). *)
Theorem bloom_no_false_negative_hash : forall n f hs h,
  create n = Some f -> Forall (fun h => h < 2^64) hs -> In h hs ->
  exists f', insert_hashes f hs = Ok f' /\ check_hash f' h = Ok true.
Proof. exact no_false_negative_hash. Qed.
Print Assumptions bloom_no_false_negative_hash.

(** Serialising into a buffer that is large enough and re-loading gives back the same filter, so
    every inserted value is still reported present. *)
Theorem bloom_no_false_negative_after_reload : forall n f vs f' cap,
  create n = Some f -> Forall value_ok vs -> insert_values f vs = Ok f' -> num_bytes f' <= cap ->
  exists out g, write f' cap = Ok out /\ read out = Ok g /\ g = f' /\
                forall x, In x vs -> check_value g x = Ok true.
Proof. exact no_false_negative_after_reload. Qed.
Print Assumptions bloom_no_false_negative_after_reload.

(** Merging into a filter of equal size gives the byte-wise OR, which contains the union: every
    value inserted in either filter is reported present.  Unequal sizes are rejected. *)
Theorem bloom_merge_union : forall na nb fa fb va vb a b,
  create na = Some fa -> create nb = Some fb -> Forall value_ok va -> Forall value_ok vb ->
  insert_values fa va = Ok a -> insert_values fb vb = Ok b ->
  (num_bytes a = num_bytes b ->
     exists m, merge a b = Ok m /\ data m = map2 N.lor (data a) (data b) /\
               forall x, In x va \/ In x vb -> check_value m x = Ok true) /\
  (num_bytes a <> num_bytes b -> merge a b = Err E_CARQUET_ERROR_INVALID_ARGUMENT).
Proof. exact merge_union. Qed.
Print Assumptions bloom_merge_union.

(** A fresh filter reports false for everything. *)
Theorem bloom_fresh_all_false : forall n f, create n = Some f ->
  (forall h, h < 2^64 -> check_hash f h = Ok false) /\ (forall v, value_ok v -> check_value f v = Ok false).
Proof. exact fresh_all_false. Qed.
Print Assumptions bloom_fresh_all_false.

(** Sizes are rounded up to whole 32-byte blocks, at least one; a size that cannot be rounded
    within size_t gives no filter. *)
Theorem bloom_size_rounding : forall n,
  (n <= 2^64 - 32 -> exists f, create n = Some f /\
       num_bytes f = 32 * N.max 1 ((n + 31) / 32) /\ num_blocks f = N.max 1 ((n + 31) / 32) /\
       N.of_nat (length (data f)) = num_bytes f /\ Forall (fun b => b = 0) (data f)) /\
  (2^64 - 32 < n -> create n = None).
Proof. exact size_rounding. Qed.
Print Assumptions bloom_size_rounding.

(** The bit array after any sequence of insertions is the stored form of the Parquet split-block
    Bloom filter after the same insertions (block by multiply-shift of the upper hash half, eight
    salted bit positions from the lower half, XXH64 seed 0 of the plain encoding), and every check
    answers as the Parquet filter does - for every filter of at most 2^32 blocks (requested size
    up to 128 GiB - 32; beyond that the 64-bit product in the block selection wraps). *)
Theorem bloom_bits_eq_spec : forall n f vs,
  create n = Some f -> n <= 2^37 - 32 -> Forall value_ok vs ->
  let spec := fold_left BloomSpec.insert vs (empty (N.to_nat (blocks_for n))) in
  exists f', insert_values f vs = Ok f' /\ data f' = to_bytes spec /\
             forall v, value_ok v -> check_value f' v = Ok (BloomSpec.check spec v).
Proof. exact bits_eq_spec. Qed.
Print Assumptions bloom_bits_eq_spec.

(** History: the block selection of the pinned tree, (hash >> 32) % num_blocks, is not the one of the
    Parquet format (repaired in /repo; see findings.d/C20.json). *)
Theorem bloom_old_block_index_refuted :
  exists n h f f', create n = Some f /\ old_insert_hash f h = Ok f' /\
    data f' <> to_bytes (BloomSpec.insert_hash (empty (N.to_nat (blocks_for n))) h).
Proof. exact old_bits_eq_spec_refuted. Qed.
Print Assumptions bloom_old_block_index_refuted.
