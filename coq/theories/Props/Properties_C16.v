(** C16 - statistics are true bounds and pruning never discards matching data.
    This file only restates lemmas proved in Stats/StatsProofs.v.
      orders:  Stats/Order.v             values are byte strings in memory order; [ord t] is the type's three-way order
                                         (signed integers, IEEE order of non-NaN floats through sign-magnitude keys, unsigned
                                         lexicographic byte strings, INT96 by words high to low); [sat t op x probe] is
                                         "x op probe" with C / IEEE semantics (a NaN makes = < <= > >= false and != true)
      models:  Stats/StatsBuilderModel.v (statistics builder, page writer), Stats/PruneModel.v (column_statistics,
               row_group_matches, filter_row_groups, statistics_compare, range_overlaps), Stats/PageIndexModel.v
    "True bounds" for floating-point columns: min and max are not NaN and bound every non-NaN value in IEEE order
    (the Parquet convention); NaN values are bounded by nothing, which is why != never filters a float column. *)
From Coq Require Import ZArith NArith List.
From Carquet Require Import Gen.Enums_gen Stats.Order Stats.StatsBuilderModel Stats.PruneModel Stats.PageIndexModel Stats.StatsProofs.
Import ListNotations.
Local Open Scope Z_scope.

(** Builder, every physical type, any sequence of add_values / add_byte_arrays / add_nulls / reset calls (slices of the
    type's width): no store leaves the 256-byte buffers, null_count is the number of nulls announced since the last reset,
    and an emitted min / max is not NaN and bounds every non-NaN value recorded since the last reset. *)
Theorem builder_bounds : forall t tlen ops, slices_ok t tlen ops ->
  exists b sts, run_sops (builder_create t tlen) ops [] = SOk (b, sts) /\
    let ps := build b in
    let seen := fst (seen_of t tlen ops [] 0) in
    ps_has_null_count ps = true /\ ps_null_count ps = snd (seen_of t tlen ops [] 0) /\
    (forall mn, ps_min_value ps = Some mn ->
       val_nan t mn = false /\ forall v, In v seen -> val_nan t v = false -> ord t mn v <= 0) /\
    (forall mx, ps_max_value ps = Some mx ->
       val_nan t mx = false /\ forall v, In v seen -> val_nan t v = false -> ord t v mx <= 0).
Proof. exact builder_bounds_thm. Qed.
Print Assumptions builder_bounds.

(** Page writer (INT32, INT64, FLOAT, DOUBLE), any sequence of batches: the Statistics struct of the page header, when
    written, has null_count = number of rows below the maximum definition level and non-NaN min / max bounding every
    non-NaN value of the page. *)
Theorem writer_page_stats_bounds : forall t maxdef bs ps,
  pw_tracks t = true -> batches_ok bs -> pw_statistics (pw_run t maxdef bs) = Some ps ->
  let values := flat_map (fun b : batch => fst (fst b)) bs in
  ps_has_null_count ps = true /\ ps_null_count ps = fold_right Z.add 0 (map (batch_nulls maxdef) bs) /\
  exists mn mx, ps_min_value ps = Some mn /\ ps_max_value ps = Some mx /\
    val_nan t mn = false /\ val_nan t mx = false /\
    forall v, In v values -> val_nan t v = false -> ord t mn v <= 0 /\ ord t v mx <= 0.
Proof. exact writer_page_stats_bounds_thm. Qed.
Print Assumptions writer_page_stats_bounds.

(** Pruning is sound: for the six reader-side types and all six operators, a row group whose statistics are true bounds
    and which holds a value x with  x op probe  is reported as "might match". *)
Theorem prune_sound : forall r rg col cs data o probe,
  reader_type (col_type r col) -> wf_val (col_type r col) probe ->
  column_statistics r rg col = SOk cs -> true_bounds (col_type r col) cs data ->
  (exists v, In v data /\ sat (col_type r col) o v probe = true) ->
  row_group_matches r rg col (op_code o) probe = SOk (E_CARQUET_OK, true).
Proof. exact prune_sound_thm. Qed.
Print Assumptions prune_sound.

(** Absent statistics (and every error status) mean "might match". *)
Theorem absent_stats_match : forall r rg col op probe,
  (forall cs, column_statistics r rg col = SOk cs -> cs_has_min_max cs = false) ->
  exists st, row_group_matches r rg col op probe = SOk (st, true).
Proof. exact absent_stats_match_thm. Qed.
Print Assumptions absent_stats_match.

(** Statistics in the new fields are preferred, the deprecated pair is the fallback, anything less is "absent". *)
Theorem column_statistics_fields : forall r rg col cols ch ps,
  nth_z (r_row_groups r) rg = Some cols -> (0 <= col < Z.of_nat (length (r_leaf_types r))) ->
  nth_z cols col = Some ch -> ch_has_metadata ch = true -> ch_stats ch = Some ps ->
  exists cs, column_statistics r rg col = SOk cs /\ cs_num_values cs = ch_num_values ch /\
    cs_has_null_count cs = ps_has_null_count ps /\ (ps_has_null_count ps = true -> cs_null_count cs = ps_null_count ps) /\
    match nonempty (ps_min_value ps), nonempty (ps_max_value ps) with
    | Some mn, Some mx => cs_has_min_max cs = true /\ cs_min cs = mn /\ cs_max cs = mx
    | _, _ =>
      match nonempty (ps_min_deprecated ps), nonempty (ps_max_deprecated ps) with
      | Some mn, Some mx => cs_has_min_max cs = true /\ cs_min cs = mn /\ cs_max cs = mx
      | _, _ => cs_has_min_max cs = false
      end
    end.
Proof. exact column_statistics_fields_thm. Qed.
Print Assumptions column_statistics_fields.

(** filter_row_groups returns exactly the ascending list of the row groups row_group_matches does not exclude, capped at
    max_indices (-1, no list, for max_indices <= 0). *)
Theorem filter_exact : forall r col op value max_indices,
  no_fault r col op value ->
  filter_row_groups r col op value max_indices =
    SOk (if max_indices <=? 0 then None
         else Some (firstn (Z.to_nat max_indices)
                           (filter (might r col op value) (map Z.of_nat (seq 0 (length (r_row_groups r))))))).
Proof. exact filter_exact_thm. Qed.
Print Assumptions filter_exact.

(** carquet_statistics_compare never places a value the data holds outside the range (all physical types). *)
Theorem compare_sound : forall t ps data value,
  wf_val t value -> lower_ok t (ps_min_value ps) data -> upper_ok t (ps_max_value ps) data ->
  (exists v, In v data /\ sat t OpEq v value = true) ->
  statistics_compare ps t value = SOk 0.
Proof. exact compare_sound_thm. Qed.
Print Assumptions compare_sound.

(** carquet_statistics_range_overlaps reports an overlap whenever the data holds a value inside the (one- or two-sided)
    query range. *)
Theorem overlap_sound : forall t ps data qmin qmax,
  helper_type t ->
  (forall a, qmin = Some a -> wf_val t a) -> (forall b, qmax = Some b -> wf_val t b) ->
  lower_ok t (ps_min_value ps) data -> upper_ok t (ps_max_value ps) data ->
  (exists v, In v data /\ (forall a, qmin = Some a -> sat t OpGe v a = true) /\
                          (forall b, qmax = Some b -> sat t OpLe v b = true) /\ val_nan t v = false) ->
  range_overlaps ps t qmin qmax = SOk true.
Proof. exact overlap_sound_thm. Qed.
Print Assumptions overlap_sound.

(** carquet_column_index_page_might_match keeps every page that holds a value inside the query range. *)
Theorem page_might_match_sound : forall t pages idx pg data qmin qmax,
  helper_type t -> 0 <= idx -> nth_error pages (Z.to_nat idx) = Some pg -> page_wf pg ->
  (pg_null_page pg = true -> data = []) ->
  (forall a, qmin = Some a -> wf_val t a) -> (forall b, qmax = Some b -> wf_val t b) ->
  lower_ok t (pg_min pg) data -> upper_ok t (pg_max pg) data ->
  (exists v, In v data /\ (forall a, qmin = Some a -> sat t OpGe v a = true) /\
                          (forall b, qmax = Some b -> sat t OpLe v b = true) /\ val_nan t v = false) ->
  page_might_match t pages idx qmin qmax = SOk (E_CARQUET_OK, true).
Proof. exact page_might_match_sound_thm. Qed.
Print Assumptions page_might_match_sound.

(** The hypothesis of filter_exact holds for every file whose present min/max values are at least as wide as the column's
    type (in particular for all true-bounds statistics) and every probe of that width. *)
Theorem filter_exact_applies : forall r col op value,
  col_type r col <> TBoolean -> wf_val (col_type r col) value ->
  (forall i cs, column_statistics r i col = SOk cs -> cs_has_min_max cs = true ->
                wf_val (col_type r col) (cs_min cs) /\ wf_val (col_type r col) (cs_max cs)) ->
  no_fault r col op value.
Proof. exact no_fault_of_wide_stats. Qed.
Print Assumptions filter_exact_applies.

(** Link of the float order used above to IEEE-754 as formalised by Flocq: for ALL binary32 (binary64) bit patterns,
    Flocq's comparison of the decoded floats equals the comparison of the sign-magnitude keys and is undefined exactly on
    the patterns [is_nan32] ([is_nan64]) classifies as NaN.  These two statements - and only these - depend on the axioms
    of Coq's real-number library through Flocq's definitions (listed by Print Assumptions below). *)
Theorem float_key_is_ieee32 : forall x y : N, (x < 4294967296)%N -> (y < 4294967296)%N ->
  flocq_cmp32 x y = key_cmp is_nan32 fkey32 x y.
Proof. exact FloatLink.float_key_is_ieee32. Qed.
Print Assumptions float_key_is_ieee32.

Theorem float_key_is_ieee64 : forall x y : N, (x < 18446744073709551616)%N -> (y < 18446744073709551616)%N ->
  flocq_cmp64 x y = key_cmp is_nan64 fkey64 x y.
Proof. exact FloatLink.float_key_is_ieee64. Qed.
Print Assumptions float_key_is_ieee64.
