(** C12 - encoded bytes follow the Parquet encoding specifications (both directions).
    Only restatements.  Specifications: Enc/BitpackSpec.v (positional-numeral reading of the bit-packing
    layout), Enc/RleSpec.v (run grammar [Denotes] + executable decoder [spec_decode_all] written from
    the Encodings document); neither imports a model. *)
From Coq Require Import NArith List.
From Carquet Require Import Base.Res Enc.BitpackSpec Enc.BitpackModel Enc.BitpackProofs
  Enc.RleSpec Enc.RleModel Enc.RleProofs Enc.RleSpecProofs.
Import ListNotations.
Local Open Scope N_scope.

(** raw bit packing: the packer writes the specified layout ... *)
Theorem bitpack_encode_conforms : forall w vs, length vs = 8%nat -> pack8 w vs = pack_spec w vs.
Proof. exact pack8_spec. Qed.
Print Assumptions bitpack_encode_conforms.

(** ... and the unpacker reads any w bytes as the specification does *)
Theorem bitpack_decode_conforms : forall w input, (w <= length input)%nat ->
  unpack8 w input = Ok (unpack_spec w (firstn w input)).
Proof. exact unpack8_spec. Qed.
Print Assumptions bitpack_decode_conforms.

(** RLE hybrid, carquet-encode -> specification: the encoder's bytes are a legal stream of the run
    grammar carrying the input followed by fewer than 8 padding zeros (the final group's padding) ... *)
Theorem rle_encode_conforms : forall w vs, fits w vs -> 2 * N.of_nat (length vs) < 2 ^ 32 ->
  exists k, (k < 8)%nat /\ Denotes w (encode_all w vs) (vs ++ repeat 0 k).
Proof. exact rle_encode_denotes. Qed.
Print Assumptions rle_encode_conforms.

(** ... and the independent decoder written from the specification recovers exactly that. *)
Theorem rle_spec_decoder_reads_encoder : forall w vs, fits w vs -> 2 * N.of_nat (length vs) < 2 ^ 32 ->
  exists k, (k < 8)%nat /\ spec_decode_all w (encode_all w vs) = Some (vs ++ repeat 0 k).
Proof. exact spec_decodes_encoder. Qed.
Print Assumptions rle_spec_decoder_reads_encoder.

(** RLE hybrid, specification -> carquet-decode: EVERY legal stream - RLE runs of any count including
    zero-length runs, bit-packed runs of any number of groups, padded final groups, any mix - is decoded
    to the values it denotes (the first n of them when n are requested). *)
Theorem rle_decode_accepts : forall w bytes vals n, (w <= 32)%nat -> Denotes w bytes vals ->
  decode_all w bytes n = firstn n vals.
Proof. exact rle_decode_denotes. Qed.
Print Assumptions rle_decode_accepts.

(** the executable specification decoder is sound for the grammar (ties [spec_decode_all] to [Denotes]) *)
Theorem rle_spec_decoder_sound : forall w rs, Forall (wf_run w) rs ->
  spec_decode_all w (bytes_of_runs w rs) = Some (runs_vals rs).
Proof. exact spec_decode_all_runs. Qed.
Print Assumptions rle_spec_decoder_sound.

(* ====================================================================================
   C12, other encodings: restated from the enc2 engine (models Enc/Plain*, Delta*, DeltaLen*, DeltaStr*,
   Bss*, Dict*; values are bit patterns, [len] is the length as N).
   ==================================================================================== *)
From Coq Require Import ZArith.
From Carquet Require Import Base.Res Enc.DeltaBits
  Enc.PlainSpec Enc.PlainModel Enc.PlainProofs Enc.BssSpec Enc.BssModel Enc.BssProofs
  Enc.DeltaSpec Enc.DeltaModel Enc.DeltaArith Enc.DeltaProofs Enc.DeltaLenModel Enc.DeltaStrModel Enc.DeltaStrProofs
  Enc.DictModel Enc.DictProofs Enc.RleModel Enc.DictRleInst.

(* ---------------------------------------------------------------- PLAIN *)
Theorem plain_fixed_encode_conforms : forall k vs, Forall (fun v => v < 256 ^ N.of_nat k) vs ->
  spec_fixed_dec k (length vs) (enc_fixed k vs) = Some (vs, []).
Proof. exact PlainProofs.plain_fixed_encode_conforms. Qed.
Print Assumptions plain_fixed_encode_conforms.

Theorem plain_fixed_decode_accepts : forall k n bs vs rest, (0 < k)%nat ->
  spec_fixed_dec k n bs = Some (vs, rest) ->
  dec_fixed k bs (N.of_nat n) = Ok (vs, N.of_nat k * N.of_nat n).
Proof. exact PlainProofs.plain_fixed_decode_accepts. Qed.
Print Assumptions plain_fixed_decode_accepts.

Theorem plain_byte_array_encode_conforms : forall vs, Forall ba_ok vs ->
  spec_ba_dec (length vs) (plain_encode_byte_array vs) = Some (vs, []).
Proof. exact PlainProofs.plain_byte_array_encode_conforms. Qed.
Print Assumptions plain_byte_array_encode_conforms.

Theorem plain_byte_array_decode_accepts : forall n bs vs rest, spec_ba_dec n bs = Some (vs, rest) ->
  plain_decode_byte_array bs (N.of_nat n) = Ok (vs, len bs - len rest).
Proof. exact PlainProofs.plain_byte_array_decode_accepts. Qed.
Print Assumptions plain_byte_array_decode_accepts.

Theorem plain_boolean_encode_conforms : forall vs, len vs < 2 ^ 63 ->
  spec_bool_dec (length vs) (plain_encode_boolean vs) = Some (map truth vs, []).
Proof. exact PlainProofs.plain_boolean_encode_conforms. Qed.
Print Assumptions plain_boolean_encode_conforms.

Theorem plain_boolean_decode_accepts : forall n bs vs rest, N.of_nat n < 2 ^ 63 -> spec_bool_dec n bs = Some (vs, rest) ->
  plain_decode_boolean bs (N.of_nat n) = Ok (vs, (N.of_nat n + 7) / 8) /\ len bs = (N.of_nat n + 7) / 8 + len rest.
Proof. exact PlainProofs.plain_boolean_decode_accepts. Qed.
Print Assumptions plain_boolean_decode_accepts.

(* ---------------------------------------------------------------- BYTE_STREAM_SPLIT *)
(* values as rows of k bytes: the model encoder writes exactly the K streams of the specification, and the model decoder
   returns the rows the specification decoder returns *)
Theorem bss_encode_eq_spec : forall k (vs : list (list N)), Forall (fun v => length v = k) vs ->
  bss_gather k (length vs) (concat vs) = Ok (spec_bss_enc k vs).
Proof. exact BssProofs.bss_encode_eq_spec. Qed.
Print Assumptions bss_encode_eq_spec.

Theorem bss_decode_accepts : forall k count data rows, spec_bss_dec k count data = Some rows ->
  bss_scatter k count data = Ok (concat rows).
Proof. exact BssProofs.bss_decode_accepts. Qed.
Print Assumptions bss_decode_accepts.

(* ---------------------------------------------------------------- DELTA_BINARY_PACKED *)
Theorem delta64_encode_conforms : forall vs, vs <> [] -> Forall DeltaProofs.u64v vs -> len vs < W64 ->
  spec_delta_decode 64 (delta_bytes_int64 vs) = Some {| ds_block := 128; ds_minis := 4; ds_values := vs; ds_rest := [] |}.
Proof. exact DeltaProofs.delta64_encode_conforms. Qed.
Print Assumptions delta64_encode_conforms.

Theorem delta32_encode_conforms : forall vs, vs <> [] -> Forall DeltaProofs.u32v vs -> len vs < W64 ->
  spec_delta_decode 32 (delta_bytes_int32 vs) = Some {| ds_block := 128; ds_minis := 4; ds_values := vs; ds_rest := [] |}.
Proof. exact DeltaProofs.delta32_encode_conforms. Qed.
Print Assumptions delta32_encode_conforms.

(* every stream the reference decoder accepts - any legal varints, min delta, widths, junk width bytes of unused
   mini-blocks, padding - at the geometry carquet supports *)
Theorem delta64_decode_accepts : forall bs st, bytes bs -> spec_delta_decode 64 bs = Some st ->
  ds_block st = 128 -> ds_minis st = 4 -> len (ds_values st) < 2 ^ 31 ->
  delta_decode_int64 bs (len (ds_values st)) = Ok (ds_values st, len bs - len (ds_rest st)).
Proof. exact DeltaProofs.delta64_decode_accepts. Qed.
Print Assumptions delta64_decode_accepts.

Theorem delta32_decode_accepts : forall bs st, bytes bs -> spec_delta_decode 32 bs = Some st ->
  ds_block st = 128 -> ds_minis st = 4 -> len (ds_values st) < 2 ^ 31 ->
  delta_decode_int32 bs (len (ds_values st)) = Ok (ds_values st, len bs - len (ds_rest st)).
Proof. exact DeltaProofs.delta32_decode_accepts. Qed.
Print Assumptions delta32_decode_accepts.

(* the other legal geometries are refused with DECODE, never mis-decoded *)
Theorem delta_other_geometry_rejected : forall bs block minis r1 r2, bytes bs ->
  read_uleb bs = Some (block, r1) -> read_uleb r1 = Some (minis, r2) ->
  legal_geometry block minis = true -> block < 2 ^ 31 -> minis < 2 ^ 31 -> (block, minis) <> (128, 4) ->
  delta_init bs = Err DeltaModel.ERR_DECODE.
Proof. exact DeltaProofs.delta_other_geometry_rejected. Qed.
Print Assumptions delta_other_geometry_rejected.

(* ---------------------------------------------------------------- DELTA_LENGTH_BYTE_ARRAY *)
Theorem delta_length_encode_conforms : forall vs bs, vs <> [] -> Forall str_ok vs -> len vs < 2 ^ 31 ->
  delta_length_encode vs = Ok bs -> spec_delta_length_decode bs = Some (vs, []).
Proof. exact DeltaStrProofs.delta_length_encode_conforms. Qed.
Print Assumptions delta_length_encode_conforms.

Theorem delta_length_decode_accepts : forall bs vs rest, bytes bs -> vs <> [] -> len vs < 2 ^ 31 ->
  spec_delta_length_decode bs = Some (vs, rest) ->
  (exists st, spec_delta_decode 32 bs = Some st /\ ds_block st = 128 /\ ds_minis st = 4) ->
  delta_length_decode bs (len vs) = Ok (vs, len bs - len rest).
Proof. exact DeltaStrProofs.delta_length_decode_accepts. Qed.
Print Assumptions delta_length_decode_accepts.

(* ---------------------------------------------------------------- DELTA_BYTE_ARRAY *)
Theorem delta_strings_encode_conforms : forall vs bs, vs <> [] -> Forall str_ok vs -> len vs < 2 ^ 31 ->
  delta_strings_encode vs = Ok bs -> spec_delta_strings_decode bs = Some (vs, []).
Proof. exact DeltaStrProofs.delta_strings_encode_conforms. Qed.
Print Assumptions delta_strings_encode_conforms.

(* any legal prefix lengths (not only the longest common prefix), both length streams at geometry 128/4 *)
Theorem delta_strings_decode_accepts : forall bs vs rest work_cap, bytes bs -> vs <> [] -> len vs < 2 ^ 31 ->
  Forall (fun s => len s < 2 ^ 31) vs -> len (concat vs) <= work_cap ->
  spec_delta_strings_decode bs = Some (vs, rest) ->
  (exists st1 st2, spec_delta_decode 32 bs = Some st1 /\ ds_block st1 = 128 /\ ds_minis st1 = 4 /\
                   spec_delta_decode 32 (ds_rest st1) = Some st2 /\ ds_block st2 = 128 /\ ds_minis st2 = 4) ->
  delta_strings_decode bs (len vs) work_cap = Ok (vs, len bs - len rest).
Proof. exact DeltaStrProofs.delta_strings_decode_accepts. Qed.
Print Assumptions delta_strings_decode_accepts.
