(** ENC2 - scratch restatement of the enc2 engine's lemmas (PLAIN, DELTA_BINARY_PACKED, DELTA_LENGTH_BYTE_ARRAY,
    DELTA_BYTE_ARRAY, BYTE_STREAM_SPLIT, dictionary) for Print Assumptions; the statements are copied into
    Properties_C11.v (round trips), Properties_C12.v (specification, both directions) and Properties_C08.v
    (never-fault).  Values are bit patterns: u32v v := v < 2^32, u64v v := v < 2^64; [len] is the length as N. *)
From Coq Require Import NArith ZArith List.
From Carquet Require Import Base.Res Enc.DeltaBits
  Enc.PlainSpec Enc.PlainModel Enc.PlainProofs Enc.BssSpec Enc.BssModel Enc.BssProofs
  Enc.DeltaSpec Enc.DeltaModel Enc.DeltaArith Enc.DeltaProofs Enc.DeltaLenModel Enc.DeltaStrModel Enc.DeltaStrProofs
  Enc.DictModel Enc.DictProofs Enc.RleModel Enc.DictRleInst.
Import ListNotations.
Local Open Scope N_scope.

(* ------------------------------------------------------------------------------------------ C11: PLAIN *)
Theorem plain_roundtrip_boolean : forall vs, len vs < 2 ^ 63 ->
  plain_decode_boolean (plain_encode_boolean vs) (len vs) = Ok (map truth vs, len (plain_encode_boolean vs)).
Proof. exact PlainProofs.plain_roundtrip_boolean. Qed.
Print Assumptions plain_roundtrip_boolean.

Theorem plain_roundtrip_int32 : forall vs, Forall PlainProofs.u32v vs ->
  plain_decode_int32 (plain_encode_int32 vs) (len vs) = Ok (vs, len (plain_encode_int32 vs)).
Proof. exact PlainProofs.plain_roundtrip_int32. Qed.
Print Assumptions plain_roundtrip_int32.

Theorem plain_roundtrip_int64 : forall vs, Forall PlainProofs.u64v vs ->
  plain_decode_int64 (plain_encode_int64 vs) (len vs) = Ok (vs, len (plain_encode_int64 vs)).
Proof. exact PlainProofs.plain_roundtrip_int64. Qed.
Print Assumptions plain_roundtrip_int64.

Theorem plain_roundtrip_int96 : forall vs, Forall u96v vs ->
  plain_decode_int96 (plain_encode_int96 vs) (len vs) = Ok (vs, len (plain_encode_int96 vs)).
Proof. exact PlainProofs.plain_roundtrip_int96. Qed.
Print Assumptions plain_roundtrip_int96.

Theorem plain_roundtrip_float : forall vs, Forall PlainProofs.u32v vs ->
  plain_decode_float (plain_encode_float vs) (len vs) = Ok (vs, len (plain_encode_float vs)).
Proof. exact PlainProofs.plain_roundtrip_float. Qed.
Print Assumptions plain_roundtrip_float.

Theorem plain_roundtrip_double : forall vs, Forall PlainProofs.u64v vs ->
  plain_decode_double (plain_encode_double vs) (len vs) = Ok (vs, len (plain_encode_double vs)).
Proof. exact PlainProofs.plain_roundtrip_double. Qed.
Print Assumptions plain_roundtrip_double.

Theorem plain_roundtrip_byte_array : forall vs, Forall ba_ok vs ->
  plain_decode_byte_array (plain_encode_byte_array vs) (len vs) = Ok (vs, len (plain_encode_byte_array vs)).
Proof. exact PlainProofs.plain_roundtrip_byte_array. Qed.
Print Assumptions plain_roundtrip_byte_array.

Theorem plain_roundtrip_flba : forall raw count flen, flen <> 0 -> len raw = count * flen ->
  plain_decode_flba (plain_encode_flba raw) count flen = Ok (raw, len (plain_encode_flba raw)).
Proof. exact PlainProofs.plain_roundtrip_flba. Qed.
Print Assumptions plain_roundtrip_flba.

(* ------------------------------------------------------------------------------------------ C11: DELTA_BINARY_PACKED *)
Theorem delta64_roundtrip : forall vs, vs <> [] -> Forall DeltaProofs.u64v vs -> len vs < 2 ^ 31 ->
  delta_decode_int64 (delta_bytes_int64 vs) (len vs) = Ok (vs, len (delta_bytes_int64 vs)).
Proof. exact DeltaProofs.delta64_roundtrip. Qed.
Print Assumptions delta64_roundtrip.

Theorem delta32_roundtrip : forall vs, vs <> [] -> Forall DeltaProofs.u32v vs -> len vs < 2 ^ 31 ->
  delta_decode_int32 (delta_bytes_int32 vs) (len vs) = Ok (vs, len (delta_bytes_int32 vs)).
Proof. exact DeltaProofs.delta32_roundtrip. Qed.
Print Assumptions delta32_roundtrip.

(* the C entry points with their capacity checks write exactly [delta_bytes_*] whenever they report success *)
Theorem delta_encode_int64_ok : forall vs cap bs, delta_encode_int64 vs cap = Ok bs -> bs = delta_bytes_int64 vs.
Proof. exact DeltaProofs.delta_encode_int64_ok. Qed.
Print Assumptions delta_encode_int64_ok.

Theorem delta_encode_int32_ok : forall vs cap bs, delta_encode_int32 vs cap = Ok bs -> bs = delta_bytes_int32 vs.
Proof. exact DeltaProofs.delta_encode_int32_ok. Qed.
Print Assumptions delta_encode_int32_ok.

(* zero values: as the C code behaves *)
Theorem delta_empty_encode : forall cap, delta_encode_int64 [] cap = Ok [] /\ delta_encode_int32 [] cap = Ok [].
Proof. exact DeltaProofs.delta_empty_encode. Qed.
Print Assumptions delta_empty_encode.

Theorem delta_empty_decode : delta_decode_int64 [] 0 = Err DeltaModel.ERR_DECODE /\ delta_decode_int32 [] 0 = Err DeltaModel.ERR_DECODE.
Proof. exact DeltaProofs.delta_empty_decode. Qed.
Print Assumptions delta_empty_decode.

(* ------------------------------------------------------------------------------------------ C11: DELTA_LENGTH / DELTA_BYTE_ARRAY *)
Theorem delta_length_roundtrip : forall vs bs, vs <> [] -> Forall str_ok vs -> len vs < 2 ^ 31 ->
  delta_length_encode vs = Ok bs -> delta_length_decode bs (len vs) = Ok (vs, len bs).
Proof. exact DeltaStrProofs.delta_length_roundtrip. Qed.
Print Assumptions delta_length_roundtrip.

Theorem delta_strings_roundtrip : forall vs bs work_cap, vs <> [] -> Forall str_ok vs -> len vs < 2 ^ 31 ->
  len (concat vs) <= work_cap -> delta_strings_encode vs = Ok bs ->
  delta_strings_decode bs (len vs) work_cap = Ok (vs, len bs).
Proof. exact DeltaStrProofs.delta_strings_roundtrip. Qed.
Print Assumptions delta_strings_roundtrip.

Theorem delta_length_empty : forall data, delta_length_encode [] = Err DeltaLenModel.ERR_INVALID_ARGUMENT /\
  delta_length_decode data 0 = Err DeltaLenModel.ERR_INVALID_ARGUMENT.
Proof. exact DeltaStrProofs.delta_length_empty. Qed.
Print Assumptions delta_length_empty.

Theorem delta_strings_empty : forall data cap, delta_strings_encode [] = Err DeltaLenModel.ERR_INVALID_ARGUMENT /\
  delta_strings_decode data 0 cap = Err DeltaLenModel.ERR_INVALID_ARGUMENT.
Proof. exact DeltaStrProofs.delta_strings_empty. Qed.
Print Assumptions delta_strings_empty.

(* ------------------------------------------------------------------------------------------ C11: BYTE_STREAM_SPLIT *)
Theorem bss_roundtrip_flba : forall k values count cap,
  k <> 0 -> len values = count * k -> count * k < 2 ^ 64 -> count * k <= cap ->
  exists enc, bss_encode k values count cap = Ok enc /\ len enc = count * k /\ bss_decode k enc count = Ok values.
Proof. exact BssProofs.bss_roundtrip_flba. Qed.
Print Assumptions bss_roundtrip_flba.

Theorem bss_roundtrip_float : forall values count cap, len values = count * 4 -> count * 4 < 2 ^ 64 -> count * 4 <= cap ->
  exists enc, bss_encode_float values count cap = Ok enc /\ len enc = count * 4 /\ bss_decode_float enc count = Ok values.
Proof. exact BssProofs.bss_roundtrip_float. Qed.
Print Assumptions bss_roundtrip_float.

Theorem bss_roundtrip_double : forall values count cap, len values = count * 8 -> count * 8 < 2 ^ 64 -> count * 8 <= cap ->
  exists enc, bss_encode_double values count cap = Ok enc /\ len enc = count * 8 /\ bss_decode_double enc count = Ok values.
Proof. exact BssProofs.bss_roundtrip_double. Qed.
Print Assumptions bss_roundtrip_double.

(* ------------------------------------------------------------------------------------------ C11: dictionary *)
(* with carquet's own index codec (Enc/RleModel.v through the adapter DictRleInst.rle_enc / rle_dec; hypothesis closed
   with RleProofs.rle_roundtrip_lemma) *)
Theorem dict_roundtrip_int32_rle : forall vs, Forall (fun v => v < 2 ^ 32) vs -> len vs < 2 ^ 31 ->
  let '(d, ixs) := dict_encode_fixed rle_enc 4 vs in
  dict_decode_fixed rle_dec 4 d (Z.of_N (len d / 4)) ixs (len vs) = Ok vs.
Proof. exact DictRleInst.dict_roundtrip_int32_rle. Qed.
Print Assumptions dict_roundtrip_int32_rle.

Theorem dict_roundtrip_int64_rle : forall vs, Forall (fun v => v < 2 ^ 64) vs -> len vs < 2 ^ 31 ->
  let '(d, ixs) := dict_encode_fixed rle_enc 8 vs in
  dict_decode_fixed rle_dec 8 d (Z.of_N (len d / 8)) ixs (len vs) = Ok vs.
Proof. exact DictRleInst.dict_roundtrip_int64_rle. Qed.
Print Assumptions dict_roundtrip_int64_rle.

Theorem dict_roundtrip_float_rle : forall vs, Forall (fun v => v < 2 ^ 32) vs -> len vs < 2 ^ 31 ->
  let '(d, ixs) := dict_encode_fixed rle_enc 4 vs in
  dict_decode_fixed rle_dec 4 d (Z.of_N (len d / 4)) ixs (len vs) = Ok vs.
Proof. exact DictRleInst.dict_roundtrip_float_rle. Qed.
Print Assumptions dict_roundtrip_float_rle.

Theorem dict_roundtrip_double_rle : forall vs, Forall (fun v => v < 2 ^ 64) vs -> len vs < 2 ^ 31 ->
  let '(d, ixs) := dict_encode_fixed rle_enc 8 vs in
  dict_decode_fixed rle_dec 8 d (Z.of_N (len d / 8)) ixs (len vs) = Ok vs.
Proof. exact DictRleInst.dict_roundtrip_double_rle. Qed.
Print Assumptions dict_roundtrip_double_rle.

Theorem dict_roundtrip_fixed_rle : forall k vs, (0 < k)%nat -> Forall (fun v => v < 256 ^ N.of_nat k) vs -> len vs < 2 ^ 31 ->
  let '(d, ixs) := dict_encode_fixed rle_enc k vs in
  dict_decode_fixed rle_dec k d (Z.of_N (len d / N.of_nat k)) ixs (len vs) = Ok vs.
Proof. exact DictRleInst.dict_roundtrip_fixed_rle. Qed.
Print Assumptions dict_roundtrip_fixed_rle.

(* the same relative to ANY index-stream codec with the round-trip property *)
Theorem dict_roundtrip_fixed : forall (rle_encode : N -> list N -> list N) (rle_decode : N -> list N -> N -> res (list N)),
  (forall w ix, w <= 32 -> Forall (fun i => i < 2 ^ w) ix -> len ix < 2 ^ 31 -> rle_decode w (rle_encode w ix) (len ix) = Ok ix) ->
  forall k vs, (0 < k)%nat -> Forall (fun v => v < 256 ^ N.of_nat k) vs -> len vs < 2 ^ 31 ->
  let '(d, ixs) := dict_encode_fixed rle_encode k vs in
  dict_decode_fixed rle_decode k d (Z.of_N (len d / N.of_nat k)) ixs (len vs) = Ok vs.
Proof. exact DictProofs.dict_roundtrip_fixed. Qed.
Print Assumptions dict_roundtrip_fixed.

Theorem dict_roundtrip_int32 : forall (rle_encode : N -> list N -> list N) (rle_decode : N -> list N -> N -> res (list N)),
  (forall w ix, w <= 32 -> Forall (fun i => i < 2 ^ w) ix -> len ix < 2 ^ 31 -> rle_decode w (rle_encode w ix) (len ix) = Ok ix) ->
  forall vs, Forall (fun v => v < 2 ^ 32) vs -> len vs < 2 ^ 31 ->
  let '(d, ixs) := dict_encode_fixed rle_encode 4 vs in
  dict_decode_fixed rle_decode 4 d (Z.of_N (len d / 4)) ixs (len vs) = Ok vs.
Proof. exact DictProofs.dict_roundtrip_int32. Qed.
Print Assumptions dict_roundtrip_int32.

Theorem dict_roundtrip_int64 : forall (rle_encode : N -> list N -> list N) (rle_decode : N -> list N -> N -> res (list N)),
  (forall w ix, w <= 32 -> Forall (fun i => i < 2 ^ w) ix -> len ix < 2 ^ 31 -> rle_decode w (rle_encode w ix) (len ix) = Ok ix) ->
  forall vs, Forall (fun v => v < 2 ^ 64) vs -> len vs < 2 ^ 31 ->
  let '(d, ixs) := dict_encode_fixed rle_encode 8 vs in
  dict_decode_fixed rle_decode 8 d (Z.of_N (len d / 8)) ixs (len vs) = Ok vs.
Proof. exact DictProofs.dict_roundtrip_int64. Qed.
Print Assumptions dict_roundtrip_int64.

Theorem dict_roundtrip_float : forall (rle_encode : N -> list N -> list N) (rle_decode : N -> list N -> N -> res (list N)),
  (forall w ix, w <= 32 -> Forall (fun i => i < 2 ^ w) ix -> len ix < 2 ^ 31 -> rle_decode w (rle_encode w ix) (len ix) = Ok ix) ->
  forall vs, Forall (fun v => v < 2 ^ 32) vs -> len vs < 2 ^ 31 ->
  let '(d, ixs) := dict_encode_fixed rle_encode 4 vs in
  dict_decode_fixed rle_decode 4 d (Z.of_N (len d / 4)) ixs (len vs) = Ok vs.
Proof. exact DictProofs.dict_roundtrip_float. Qed.
Print Assumptions dict_roundtrip_float.

Theorem dict_roundtrip_double : forall (rle_encode : N -> list N -> list N) (rle_decode : N -> list N -> N -> res (list N)),
  (forall w ix, w <= 32 -> Forall (fun i => i < 2 ^ w) ix -> len ix < 2 ^ 31 -> rle_decode w (rle_encode w ix) (len ix) = Ok ix) ->
  forall vs, Forall (fun v => v < 2 ^ 64) vs -> len vs < 2 ^ 31 ->
  let '(d, ixs) := dict_encode_fixed rle_encode 8 vs in
  dict_decode_fixed rle_decode 8 d (Z.of_N (len d / 8)) ixs (len vs) = Ok vs.
Proof. exact DictProofs.dict_roundtrip_double. Qed.
Print Assumptions dict_roundtrip_double.

(* BYTE_ARRAY has no dictionary decoder in dictionary.c: the dictionary page is the PLAIN encoding of the distinct
   values in first-occurrence order and every index selects its value *)
Theorem dict_byte_array_sound : forall (rle_encode : N -> list N -> list N) vs,
  let '(d, ix) := build vs [] in
  fst (dict_encode_byte_array rle_encode vs) = plain_encode_byte_array d /\
  Forall2 (fun v i => nth_error d (N.to_nat i) = Some v) vs ix /\ NoDup d.
Proof. exact DictProofs.dict_byte_array_sound. Qed.
Print Assumptions dict_byte_array_sound.

(* ------------------------------------------------------------------------------------------ C12: PLAIN *)
Theorem plain_fixed_encode_conforms : forall k vs, Forall (fun v => v < 256 ^ N.of_nat k) vs ->
  spec_fixed_dec k (length vs) (enc_fixed k vs) = Some (vs, []).
Proof. exact PlainProofs.plain_fixed_encode_conforms. Qed.
Print Assumptions plain_fixed_encode_conforms.

Theorem plain_fixed_decode_accepts : forall k n bs vs rest, (0 < k)%nat ->
  spec_fixed_dec k n bs = Some (vs, rest) ->
  dec_fixed k bs (N.of_nat n) = Ok (vs, N.of_nat k * N.of_nat n).
Proof. exact PlainProofs.plain_fixed_decode_accepts. Qed.
Print Assumptions plain_fixed_decode_accepts.

Theorem plain_byte_array_encode_conforms : forall vs, Forall ba_ok vs ->
  spec_ba_dec (length vs) (plain_encode_byte_array vs) = Some (vs, []).
Proof. exact PlainProofs.plain_byte_array_encode_conforms. Qed.
Print Assumptions plain_byte_array_encode_conforms.

Theorem plain_byte_array_decode_accepts : forall n bs vs rest, spec_ba_dec n bs = Some (vs, rest) ->
  plain_decode_byte_array bs (N.of_nat n) = Ok (vs, len bs - len rest).
Proof. exact PlainProofs.plain_byte_array_decode_accepts. Qed.
Print Assumptions plain_byte_array_decode_accepts.

Theorem plain_boolean_encode_conforms : forall vs, len vs < 2 ^ 63 ->
  spec_bool_dec (length vs) (plain_encode_boolean vs) = Some (map truth vs, []).
Proof. exact PlainProofs.plain_boolean_encode_conforms. Qed.
Print Assumptions plain_boolean_encode_conforms.

Theorem plain_boolean_decode_accepts : forall n bs vs rest, N.of_nat n < 2 ^ 63 -> spec_bool_dec n bs = Some (vs, rest) ->
  plain_decode_boolean bs (N.of_nat n) = Ok (vs, (N.of_nat n + 7) / 8) /\ len bs = (N.of_nat n + 7) / 8 + len rest.
Proof. exact PlainProofs.plain_boolean_decode_accepts. Qed.
Print Assumptions plain_boolean_decode_accepts.

(* ------------------------------------------------------------------------------------------ C12: BYTE_STREAM_SPLIT *)
(* values as rows of k bytes: the model encoder writes exactly the K streams of the specification, and the model decoder
   returns the rows the specification decoder returns *)
Theorem bss_encode_eq_spec : forall k (vs : list (list N)), Forall (fun v => length v = k) vs ->
  bss_gather k (length vs) (concat vs) = Ok (spec_bss_enc k vs).
Proof. exact BssProofs.bss_encode_eq_spec. Qed.
Print Assumptions bss_encode_eq_spec.

Theorem bss_decode_accepts : forall k count data rows, spec_bss_dec k count data = Some rows ->
  bss_scatter k count data = Ok (concat rows).
Proof. exact BssProofs.bss_decode_accepts. Qed.
Print Assumptions bss_decode_accepts.

(* ------------------------------------------------------------------------------------------ C12: DELTA_BINARY_PACKED *)
Theorem delta64_encode_conforms : forall vs, vs <> [] -> Forall DeltaProofs.u64v vs -> len vs < W64 ->
  spec_delta_decode 64 (delta_bytes_int64 vs) = Some {| ds_block := 128; ds_minis := 4; ds_values := vs; ds_rest := [] |}.
Proof. exact DeltaProofs.delta64_encode_conforms. Qed.
Print Assumptions delta64_encode_conforms.

Theorem delta32_encode_conforms : forall vs, vs <> [] -> Forall DeltaProofs.u32v vs -> len vs < W64 ->
  spec_delta_decode 32 (delta_bytes_int32 vs) = Some {| ds_block := 128; ds_minis := 4; ds_values := vs; ds_rest := [] |}.
Proof. exact DeltaProofs.delta32_encode_conforms. Qed.
Print Assumptions delta32_encode_conforms.

(* every stream the reference decoder accepts - any legal varints, min delta, widths, junk width bytes of unused
   mini-blocks, padding - at the geometry carquet supports *)
Theorem delta64_decode_accepts : forall bs st, bytes bs -> spec_delta_decode 64 bs = Some st ->
  ds_block st = 128 -> ds_minis st = 4 -> len (ds_values st) < 2 ^ 31 ->
  delta_decode_int64 bs (len (ds_values st)) = Ok (ds_values st, len bs - len (ds_rest st)).
Proof. exact DeltaProofs.delta64_decode_accepts. Qed.
Print Assumptions delta64_decode_accepts.

Theorem delta32_decode_accepts : forall bs st, bytes bs -> spec_delta_decode 32 bs = Some st ->
  ds_block st = 128 -> ds_minis st = 4 -> len (ds_values st) < 2 ^ 31 ->
  delta_decode_int32 bs (len (ds_values st)) = Ok (ds_values st, len bs - len (ds_rest st)).
Proof. exact DeltaProofs.delta32_decode_accepts. Qed.
Print Assumptions delta32_decode_accepts.

(* the other legal geometries are refused with DECODE, never mis-decoded *)
Theorem delta_other_geometry_rejected : forall bs block minis r1 r2, bytes bs ->
  read_uleb bs = Some (block, r1) -> read_uleb r1 = Some (minis, r2) ->
  legal_geometry block minis = true -> block < 2 ^ 31 -> minis < 2 ^ 31 -> (block, minis) <> (128, 4) ->
  delta_init bs = Err DeltaModel.ERR_DECODE.
Proof. exact DeltaProofs.delta_other_geometry_rejected. Qed.
Print Assumptions delta_other_geometry_rejected.

(* ------------------------------------------------------------------------------------------ C12: DELTA_LENGTH_BYTE_ARRAY *)
Theorem delta_length_encode_conforms : forall vs bs, vs <> [] -> Forall str_ok vs -> len vs < 2 ^ 31 ->
  delta_length_encode vs = Ok bs -> spec_delta_length_decode bs = Some (vs, []).
Proof. exact DeltaStrProofs.delta_length_encode_conforms. Qed.
Print Assumptions delta_length_encode_conforms.

Theorem delta_length_decode_accepts : forall bs vs rest, bytes bs -> vs <> [] -> len vs < 2 ^ 31 ->
  spec_delta_length_decode bs = Some (vs, rest) ->
  (exists st, spec_delta_decode 32 bs = Some st /\ ds_block st = 128 /\ ds_minis st = 4) ->
  delta_length_decode bs (len vs) = Ok (vs, len bs - len rest).
Proof. exact DeltaStrProofs.delta_length_decode_accepts. Qed.
Print Assumptions delta_length_decode_accepts.

(* ------------------------------------------------------------------------------------------ C12: DELTA_BYTE_ARRAY *)
Theorem delta_strings_encode_conforms : forall vs bs, vs <> [] -> Forall str_ok vs -> len vs < 2 ^ 31 ->
  delta_strings_encode vs = Ok bs -> spec_delta_strings_decode bs = Some (vs, []).
Proof. exact DeltaStrProofs.delta_strings_encode_conforms. Qed.
Print Assumptions delta_strings_encode_conforms.

(* any legal prefix lengths (not only the longest common prefix), both length streams at geometry 128/4 *)
Theorem delta_strings_decode_accepts : forall bs vs rest work_cap, bytes bs -> vs <> [] -> len vs < 2 ^ 31 ->
  Forall (fun s => len s < 2 ^ 31) vs -> len (concat vs) <= work_cap ->
  spec_delta_strings_decode bs = Some (vs, rest) ->
  (exists st1 st2, spec_delta_decode 32 bs = Some st1 /\ ds_block st1 = 128 /\ ds_minis st1 = 4 /\
                   spec_delta_decode 32 (ds_rest st1) = Some st2 /\ ds_block st2 = 128 /\ ds_minis st2 = 4) ->
  delta_strings_decode bs (len vs) work_cap = Ok (vs, len bs - len rest).
Proof. exact DeltaStrProofs.delta_strings_decode_accepts. Qed.
Print Assumptions delta_strings_decode_accepts.

(* ------------------------------------------------------------------------------------------ C08: never-fault *)
Theorem plain_fixed_never_faults : forall k bs count f, dec_fixed k bs count <> Fault f.
Proof. exact PlainProofs.plain_fixed_never_faults. Qed.
Print Assumptions plain_fixed_never_faults.

Theorem plain_fixed_result_size : forall k bs count vs c, (0 < k)%nat -> dec_fixed k bs count = Ok (vs, c) ->
  len vs = count /\ c <= len bs.
Proof. exact PlainProofs.plain_fixed_result_size. Qed.
Print Assumptions plain_fixed_result_size.

Theorem plain_int96_never_faults : forall bs count f, plain_decode_int96 bs count <> Fault f.
Proof. exact PlainProofs.plain_int96_never_faults. Qed.
Print Assumptions plain_int96_never_faults.

Theorem plain_boolean_never_faults : forall bs count, count < 2 ^ 63 -> forall f, plain_decode_boolean bs count <> Fault f.
Proof. exact PlainProofs.plain_boolean_never_faults. Qed.
Print Assumptions plain_boolean_never_faults.

Theorem plain_byte_array_never_faults : forall bs count f, plain_decode_byte_array bs count <> Fault f.
Proof. exact PlainProofs.plain_byte_array_never_faults. Qed.
Print Assumptions plain_byte_array_never_faults.

Theorem plain_flba_never_faults : forall bs count flen f, plain_decode_flba bs count flen <> Fault f.
Proof. exact PlainProofs.plain_flba_never_faults. Qed.
Print Assumptions plain_flba_never_faults.

Theorem delta64_decode_never_faults : forall data count f, delta_decode_int64 data count <> Fault f.
Proof. exact DeltaProofs.delta64_decode_never_faults. Qed.
Print Assumptions delta64_decode_never_faults.

Theorem delta64_decode_result_size : forall data count vals c, delta_decode_int64 data count = Ok (vals, c) ->
  len vals = count /\ c <= len data.
Proof. exact DeltaProofs.delta64_decode_result_size. Qed.
Print Assumptions delta64_decode_result_size.

Theorem delta32_decode_never_faults : forall data count f, delta_decode_int32 data count <> Fault f.
Proof. exact DeltaProofs.delta32_decode_never_faults. Qed.
Print Assumptions delta32_decode_never_faults.

Theorem delta32_decode_result_size : forall data count vals c, delta_decode_int32 data count = Ok (vals, c) ->
  len vals = count /\ c <= len data.
Proof. exact DeltaProofs.delta32_decode_result_size. Qed.
Print Assumptions delta32_decode_result_size.

Theorem delta_length_decode_never_faults : forall data count f, delta_length_decode data count <> Fault f.
Proof. exact DeltaStrProofs.delta_length_decode_never_faults. Qed.
Print Assumptions delta_length_decode_never_faults.

Theorem delta_length_decode_result_size : forall data count ss c, delta_length_decode data count = Ok (ss, c) ->
  len ss = count /\ c <= len data.
Proof. exact DeltaStrProofs.delta_length_decode_result_size. Qed.
Print Assumptions delta_length_decode_result_size.

Theorem delta_strings_decode_never_faults : forall data count cap f, delta_strings_decode data count cap <> Fault f.
Proof. exact DeltaStrProofs.delta_strings_decode_never_faults. Qed.
Print Assumptions delta_strings_decode_never_faults.

Theorem delta_strings_decode_result_size : forall data count cap ss c, delta_strings_decode data count cap = Ok (ss, c) ->
  len ss <= count /\ c <= len data.
Proof. exact DeltaStrProofs.delta_strings_decode_result_size. Qed.
Print Assumptions delta_strings_decode_result_size.

Theorem bss_decode_never_faults : forall k data count f, bss_decode k data count <> Fault f.
Proof. exact BssProofs.bss_decode_never_faults. Qed.
Print Assumptions bss_decode_never_faults.

Theorem bss_decode_result_size : forall k data count out, bss_decode k data count = Ok out ->
  len out = count * k /\ count * k <= len data.
Proof. exact BssProofs.bss_decode_result_size. Qed.
Print Assumptions bss_decode_result_size.

Theorem dict_decode_never_faults : forall (rle_decode : N -> list N -> N -> res (list N)),
  (forall w bs max f, rle_decode w bs max <> Fault f) ->
  (forall w bs max ix, rle_decode w bs max = Ok ix -> len ix <= max) ->
  forall k dict dc indices out_count f, dict_decode_fixed rle_decode k dict dc indices out_count <> Fault f.
Proof. exact DictProofs.dict_decode_never_faults. Qed.
Print Assumptions dict_decode_never_faults.

Theorem dict_decode_result_size : forall (rle_decode : N -> list N -> N -> res (list N)),
  (forall w bs max f, rle_decode w bs max <> Fault f) ->
  (forall w bs max ix, rle_decode w bs max = Ok ix -> len ix <= max) ->
  forall k dict dc indices out_count vs, dict_decode_fixed rle_decode k dict dc indices out_count = Ok vs -> len vs <= out_count.
Proof. exact DictProofs.dict_decode_result_size. Qed.
Print Assumptions dict_decode_result_size.

(* with carquet's own index decoder, given that it returns at most max_values values on arbitrary bytes (RLE / C08 engine) *)
Theorem dict_decode_never_faults_rle :
  (forall w bs max, (length (RleModel.decode_all w bs max) <= max)%nat) ->
  forall k dict dc indices out_count f, dict_decode_fixed rle_dec k dict dc indices out_count <> Fault f.
Proof. exact DictRleInst.dict_decode_never_faults_rle. Qed.
Print Assumptions dict_decode_never_faults_rle.
