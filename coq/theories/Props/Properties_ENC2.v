(** ENC2 - scratch restatement of the enc2 engine's lemmas (PLAIN, DELTA_*, BYTE_STREAM_SPLIT, dictionary) for
    Print Assumptions; the statements are copied into Properties_C11.v / Properties_C12.v / Properties_C08.v. *)
From Coq Require Import NArith ZArith List.
From Carquet Require Import Base.Res Enc.DeltaBits.
Import ListNotations.
Local Open Scope N_scope.

(** bit packing at any width is inverted by unpacking (arithmetic definition shared by model and specification) *)
Theorem bits_unpack_pack : forall w vs, Forall (fun v => v < 2 ^ w) vs -> unpack w (length vs) (pack w vs) = vs.
Proof. exact unpack_pack. Qed.
Print Assumptions bits_unpack_pack.
