(** C03 - file, mmap and in-memory-buffer reading are observationally equivalent.
    This file only restates lemmas proved in Reader/BatchProofs.v (models: Reader/IoModeModel.v, Reader/CursorModel.v,
    Reader/BatchModel.v; the mode parameter selects the branches src/reader/page_reader.c, batch_reader.c,
    file_reader.c and mmap_reader.c select). *)
From Coq Require Import List ZArith.
From Carquet Require Import Base.Res Reader.CursorSpec Reader.CursorModel Reader.IoModeModel Reader.BatchModel
     Reader.ReaderProofs Reader.BatchProofs.
Import ListNotations.
Local Open Scope Z_scope.

(** Column-reader content: for every valid chunk and every call history the three modes deliver the same outputs. *)
Theorem io_mode_irrelevant_column :
  forall (A : Type) (garbage : A) max_def eligible (pages : list (@page A)) ops m1 m2,
  chunk_ok max_def pages -> Forall op_ok ops ->
  run garbage true ops (open max_def (loads_view m1 eligible) pages) =
  run garbage true ops (open max_def (loads_view m2 eligible) pages).
Proof. exact @io_mode_irrelevant_column_proved. Qed.
Print Assumptions io_mode_irrelevant_column.

(** Metadata: the three footer readers hand the same bytes to the (shared) footer parser for every file that
    starts with the magic. *)
Theorem footer_location_irrelevant : forall file m1 m2,
  firstn 4 file = magic -> footer_location m1 file = footer_location m2 file.
Proof. exact footer_location_irrelevant_proved. Qed.
Print Assumptions footer_location_irrelevant.

(** Batch-reader output (row alignment, values, null bitmaps, batch boundaries, final status): the same in the three
    modes for every valid file, projection and batch size - zero-copy shortcuts change how, never what. *)
Theorem io_mode_irrelevant_batch : forall (A : Type) (garbage : A) (f : @mfile A) proj bs m1 m2,
  proj <> [] -> Forall (rg_ok proj) f -> 0 < bs ->
  batches garbage true true m1 f proj bs = batches garbage true true m2 f proj bs.
Proof. exact @io_mode_irrelevant_batch_proved. Qed.
Print Assumptions io_mode_irrelevant_batch.

(** On the pinned tree the modes differed (DESIGN F7; same witness as C02's batch_aligned_pinned_refuted). *)
Theorem io_mode_irrelevant_pinned_refuted :
  exists (f : @mfile N) proj bs,
    Forall (rg_ok proj) f /\ proj <> [] /\ 0 < bs /\
    (forall bl c, batches 0%N true false Mmap f proj bs = Ok (bl, c) -> ~ Forall batch_aligned_prop bl) /\
    batches 0%N true false Mmap f proj bs <> batches 0%N true false Fread f proj bs.
Proof. exact batch_aligned_pinned_refuted_proved. Qed.
Print Assumptions io_mode_irrelevant_pinned_refuted.

(* The lifetime clause of C03 ("data handed out in zero-copy mode stays valid until the owning reader is closed")
   is a statement about pointers into the mapping; the models have values, not addresses.  It is observed, not
   proved: harness/h_reader.c keeps every batch, re-reads every byte of every column after all later calls and just
   before the reader is closed, under ASan (checks/C03.py, token L1).  Hence C03 is claimed as partial. *)
