(** C03 - file, mmap and in-memory-buffer reading are observationally equivalent.
    This file only restates lemmas proved in Reader/BatchProofs.v (models: Reader/IoModeModel.v, Reader/CursorModel.v,
    Reader/BatchModel.v; the mode parameter selects the branches src/reader/page_reader.c, batch_reader.c,
    file_reader.c and mmap_reader.c select). *)
From Coq Require Import List ZArith.
From Carquet Require Import Base.Res Reader.CursorSpec Reader.CursorModel Reader.IoModeModel Reader.BatchModel
     Reader.ReaderProofs Reader.BatchProofs.
Import ListNotations.
Local Open Scope Z_scope.

(** Column-reader content: for every valid chunk and every call history the three modes deliver the same outputs. *)
Theorem io_mode_irrelevant_column :
  forall (A : Type) (garbage : A) max_def eligible (pages : list (@page A)) ops m1 m2,
  chunk_ok max_def pages -> Forall op_ok ops ->
  run garbage true ops (open max_def (loads_view m1 eligible) pages) =
  run garbage true ops (open max_def (loads_view m2 eligible) pages).
Proof. exact @io_mode_irrelevant_column_proved. Qed.
Print Assumptions io_mode_irrelevant_column.

(** Metadata: the three footer readers hand the same bytes to the (shared) footer parser for every file that
    starts with the magic. *)
Theorem footer_location_irrelevant : forall file m1 m2,
  firstn 4 file = magic -> footer_location m1 file = footer_location m2 file.
Proof. exact footer_location_irrelevant_proved. Qed.
Print Assumptions footer_location_irrelevant.
