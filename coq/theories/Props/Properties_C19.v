(** C19 - allocation failure gives a clean error or a correct result, nothing else.
    This file only restates lemmas proved in Alloc/AllocProofs.v (models: Alloc/AllocMonad.v - the
    allocator as an oracle; Alloc/BufferModel.v mirroring src/core/buffer.c; Alloc/ArenaModel.v
    mirroring src/core/arena.c; Alloc/SiteModel.v - the scenarios at the granularity of allocation
    call sites; Gen/AllocSites_gen.v - the table of call sites regenerated from the sources).

    PARTIAL (DESIGN.md section 10): an executable model has values, not addresses.  That an error
    path frees what it owns, that nothing is used after free, and which call site the k-th request of
    a real run comes from, are observed by checks/C19.py (k-th-request-fails runs under ASan and
    LeakSanitizer), not proved.  The site table is a regular-expression reading of the sources. *)
From Coq Require Import List NArith String.
From Carquet Require Import Alloc.AllocMonad Alloc.BufferModel Alloc.ArenaModel Alloc.SiteModel Alloc.AllocProofs
     Gen.AllocSites_gen.
Import ListNotations.

(** Full statement, at site level: for every scenario shape and every k, if every allocation site
    the scenario passes through tests its result, then with request k failing there is no fault, a
    reported success has the effect of the fault-free run, and the handles are closed. *)
Theorem alloc_failure_clean :
  forall (sc : scenario) (k : nat), all_ok sc -> clean sc (run (fail_at k) sc).
Proof. exact AllocProofs.alloc_failure_clean. Qed.
Print Assumptions alloc_failure_clean.

(** ... for every oracle, i.e. also for several failing requests *)
Theorem alloc_failure_clean_oracle :
  forall (sc : scenario) (o : oracle), all_ok sc -> clean sc (run o sc).
Proof. exact AllocProofs.alloc_failure_clean_oracle. Qed.
Print Assumptions alloc_failure_clean_oracle.

(** The hypothesis holds for the CURRENT sources: every row of the regenerated table is Checked or
    Propagated (finite sweep by vm_compute over the generated list). *)
Theorem all_sites_checked : forallb (fun s => class_ok (s_class s)) alloc_sites = true.
Proof. exact AllocProofs.all_sites_checked. Qed.
Print Assumptions all_sites_checked.

Theorem alloc_failure_clean_current_code :
  forall sc k, over alloc_sites sc -> clean sc (run (fail_at k) sc).
Proof. exact AllocProofs.alloc_failure_clean_current_code. Qed.
Print Assumptions alloc_failure_clean_current_code.

(** Finding F26 (repaired by /repo e2d2011, 4d96e67, a0050c8, 06f7708, 96d5d3b, 427aa61): with a
    site that drops a status the scenario reports success without the effect ... *)
Theorem alloc_failure_clean_refuted_ignored :
  exists sc k, ~ clean sc (run (fail_at k) sc) /\ r_status (run (fail_at k) sc) = SOk.
Proof. exact AllocProofs.alloc_failure_clean_refuted_ignored. Qed.
Print Assumptions alloc_failure_clean_refuted_ignored.

(** ... and with a site that uses an unchecked pointer it faults. *)
Theorem alloc_failure_clean_refuted_unchecked :
  exists sc k, r_status (run (fail_at k) sc) = SFault.
Proof. exact AllocProofs.alloc_failure_clean_refuted_unchecked. Qed.
Print Assumptions alloc_failure_clean_refuted_unchecked.

(** Buffer (src/core/buffer.c): a failed append leaves the buffer untouched ... *)
Theorem buffer_append_fail_unchanged :
  forall b bytes o n, fst (fst (append b bytes o n)) <> ST_OK -> snd (fst (append b bytes o n)) = b.
Proof. exact AllocProofs.append_fail_unchanged. Qed.
Print Assumptions buffer_append_fail_unchanged.

(** ... a successful one adds exactly the bytes, within the capacity. *)
Theorem buffer_append_ok :
  forall b bytes o n, (bsize b <= bcap b)%N ->
    fst (fst (append b bytes o n)) = ST_OK ->
    bdata (snd (fst (append b bytes o n))) = bdata b ++ bytes /\
    (bsize (snd (fst (append b bytes o n))) <= bcap (snd (fst (append b bytes o n))))%N.
Proof. exact AllocProofs.append_ok. Qed.
Print Assumptions buffer_append_ok.

(** Assembling a page with checked appends: an error, or exactly the concatenation. *)
Theorem page_assembly_checked_clean :
  forall chunks b o n,
    fst (fst (append_all_checked b chunks o n)) = ST_OK ->
    bdata (snd (fst (append_all_checked b chunks o n))) = bdata b ++ List.concat chunks.
Proof. exact AllocProofs.append_all_checked_clean. Qed.
Print Assumptions page_assembly_checked_clean.

(** The assembly of the code before /repo 4d96e67 (statuses dropped): a short page reported OK. *)
Theorem page_assembly_ignoring_refuted :
  exists chunks k,
    fst (exec (append_all_ignoring buf_init chunks) (fail_at k)) = ST_OK /\
    bdata (snd (exec (append_all_ignoring buf_init chunks) (fail_at k))) <>
    bdata (snd (exec (append_all_ignoring buf_init chunks) never)).
Proof. exact AllocProofs.append_all_ignoring_refuted. Qed.
Print Assumptions page_assembly_ignoring_refuted.

(** Arena (src/core/arena.c): a denied request returns NULL and leaves the arena untouched ... *)
Theorem arena_alloc_fail_unchanged :
  forall a n al o k, fst (fst (alloc a n al o k)) = None -> snd (fst (alloc a n al o k)) = a.
Proof. exact AllocProofs.arena_alloc_fail_unchanged. Qed.
Print Assumptions arena_alloc_fail_unchanged.

(** ... a granted one lies inside its block behind everything handed out before. *)
Theorem arena_alloc_in_bounds :
  forall a n al o k i off,
    fst (fst (alloc a n al o k)) = Some (i, off) ->
    let a' := snd (fst (alloc a n al o k)) in
    exists b', nth_error (blocks a') i = Some b' /\
               (off + n <= bk_size b')%N /\ bk_used b' = (off + n)%N /\
               (forall b, nth_error (blocks a) i = Some b -> (bk_used b <= off)%N).
Proof. exact AllocProofs.arena_alloc_in_bounds. Qed.
Print Assumptions arena_alloc_in_bounds.
