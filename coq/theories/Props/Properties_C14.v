(** C14 - page checksums are IEEE CRC-32 and page damage is always detected.
    This file only restates lemmas proved in Util/Crc32Proofs.v (model: Util/Crc32Model.v mirroring
    src/util/crc32.c; specification: Util/Crc32Spec.v, the bit-serial IEEE 802.3 definition). *)
From Coq Require Import NArith List.
From Carquet Require Import Util.Crc32Spec Util.Crc32Model Util.Crc32Proofs.
Local Open Scope N_scope.

(** The slicing-by-8 implementation model equals the bit-serial standard CRC-32 on every byte string. *)
Theorem crc_model_eq_spec : forall bs, bytes bs -> crc32 bs = Crc32Spec.crc bs.
Proof. exact crc32_eq_spec. Qed.
Print Assumptions crc_model_eq_spec.

(** Incremental updates compose: crc(a || b) = update(crc(a), b). *)
Theorem crc_update_compose : forall a b, bytes a -> bytes b -> crc32 (a ++ b) = crc32_update (crc32 a) b.
Proof. exact crc32_compose. Qed.
Print Assumptions crc_update_compose.

(** Two equally long messages that differ exactly inside a window of at most 32 bits
    (any single bit, any byte, any burst up to 32 bits) have different checksums. *)
Theorem crc_detects_burst : forall m m', bytes m -> bytes m' ->
  differs_in_burst 32 (bits_of_bytes m) (bits_of_bytes m') -> crc32 m <> crc32 m'.
Proof. exact crc32_detects_burst. Qed.
Print Assumptions crc_detects_burst.

(** With verification enabled, a page body damaged inside such a window is rejected ... *)
Theorem page_damage_detected : forall body body', bytes body -> bytes body' ->
  differs_in_burst 32 (bits_of_bytes body) (bits_of_bytes body') ->
  page_crc_ok true true (crc32 body) body' = false.
Proof. exact page_damage_rejected. Qed.
Print Assumptions page_damage_detected.

(** ... and an undamaged page never reports a checksum error, whatever the options. *)
Theorem page_undamaged_accepted : forall verify has_crc body,
  page_crc_ok verify has_crc (crc32 body) body = true.
Proof. exact page_undamaged_ok. Qed.
Print Assumptions page_undamaged_accepted.
