(** C14 - page checksums are IEEE CRC-32 and page damage is always detected.
    This file only restates lemmas proved in Util/Crc32Proofs.v (model: Util/Crc32Model.v mirroring
    src/util/crc32.c; specification: Util/Crc32Spec.v, the bit-serial IEEE 802.3 definition). *)
From Coq Require Import NArith ZArith List Bool.
From Carquet Require Import Gen.CrcSites_gen Util.Crc32Spec Util.Crc32Model Util.Crc32Proofs Util.Crc32Chunk Util.Crc32Sites.
Local Open Scope N_scope.

(** The slicing-by-8 implementation model equals the bit-serial standard CRC-32 on every byte string. *)
Theorem crc_model_eq_spec : forall bs, bytes bs -> crc32 bs = Crc32Spec.crc bs.
Proof. exact crc32_eq_spec. Qed.
Print Assumptions crc_model_eq_spec.

(** Incremental updates compose: crc(a || b) = update(crc(a), b). *)
Theorem crc_update_compose : forall a b, bytes a -> bytes b -> crc32 (a ++ b) = crc32_update (crc32 a) b.
Proof. exact crc32_compose. Qed.
Print Assumptions crc_update_compose.

(** Any chunking: feeding a buffer to carquet_crc32_update in any number of pieces of any sizes (empty ones
    included; the 8-byte main loop restarts in every piece) gives the IEEE CRC-32 of the whole ... *)
Theorem crc_update_any_chunking : forall chunks, Forall bytes chunks ->
  fold_left crc32_update chunks 0 = Crc32Spec.crc (concat chunks).
Proof. exact crc32_chunked_spec. Qed.
Print Assumptions crc_update_any_chunking.

(** ... also from an arbitrary 32-bit starting state (a checksum continued by a later caller) ... *)
Theorem crc_update_chunks_from_state : forall chunks c, c < 2^32 -> Forall bytes chunks ->
  fold_left crc32_update chunks c = crc32_update c (concat chunks).
Proof. exact crc32_update_chunks. Qed.
Print Assumptions crc_update_chunks_from_state.

(** ... and every checksum is a 32-bit value (what the page header's i32 field stores is the whole checksum). *)
Theorem crc_update_is_32_bit : forall c data, c < 2^32 -> bytes data -> crc32_update c data < 2^32.
Proof. exact crc32_update_lt. Qed.
Print Assumptions crc_update_is_32_bit.

(** Two equally long messages that differ exactly inside a window of at most 32 bits
    (any single bit, any byte, any burst up to 32 bits) have different checksums. *)
Theorem crc_detects_burst : forall m m', bytes m -> bytes m' ->
  differs_in_burst 32 (bits_of_bytes m) (bits_of_bytes m') -> crc32 m <> crc32 m'.
Proof. exact crc32_detects_burst. Qed.
Print Assumptions crc_detects_burst.

(** With verification enabled, a page body damaged inside such a window is rejected ... *)
Theorem page_damage_detected : forall body body', bytes body -> bytes body' ->
  differs_in_burst 32 (bits_of_bytes body) (bits_of_bytes body') ->
  page_crc_ok true true (crc32 body) body' = false.
Proof. exact page_damage_rejected. Qed.
Print Assumptions page_damage_detected.

(** ... and an undamaged page never reports a checksum error, whatever the options. *)
Theorem page_undamaged_accepted : forall verify has_crc body,
  page_crc_ok verify has_crc (crc32 body) body = true.
Proof. exact page_undamaged_ok. Qed.
Print Assumptions page_undamaged_accepted.

(** Code tie of that decision.  CrcSite_guards is regenerated on every run from src/reader/page_reader.c: the
    condition around every call of carquet_crc32, as a function of page_header.has_crc, options.verify_checksums and
    the stored crc field.  Every site of the current source decides exactly like the model's page_crc_ok, for every
    stored value (negative as an int32, or 0, included) ... *)
Theorem crc_sites_decide_like_model : forall g, In g CrcSite_guards ->
  forall has_crc verify stored_field stored_u32 body,
    site_accepts g has_crc verify stored_field stored_u32 body = page_crc_ok verify has_crc stored_u32 body.
Proof. exact Crc32Sites.crc_sites_decide_like_model. Qed.
Print Assumptions crc_sites_decide_like_model.

(** ... so at every site damage inside a 32-bit window is rejected under verification ... *)
Theorem crc_sites_reject_damage : forall g, In g CrcSite_guards ->
  forall stored_field body body', bytes body -> bytes body' ->
    differs_in_burst 32 (bits_of_bytes body) (bits_of_bytes body') ->
    site_accepts g true true stored_field (crc32 body) body' = false.
Proof. exact Crc32Sites.crc_sites_reject_damage. Qed.
Print Assumptions crc_sites_reject_damage.

(** ... and no site reports an undamaged page; the list is not empty (checksums are verified somewhere). *)
Theorem crc_sites_accept_undamaged : forall g, In g CrcSite_guards ->
  forall has_crc verify stored_field body, site_accepts g has_crc verify stored_field (crc32 body) body = true.
Proof. exact Crc32Sites.crc_sites_accept_undamaged. Qed.
Print Assumptions crc_sites_accept_undamaged.

Theorem crc_sites_exist : CrcSite_guards <> nil /\ length CrcSite_guards = CrcSite_count.
Proof. exact Crc32Sites.crc_sites_nonempty. Qed.
Print Assumptions crc_sites_exist.

(** Writer side (two cooperating sites of src/writer/page_writer.c, regenerated the same way): the page header
    stores a crc field only when the checksum of the body was computed, for every page size - so an undamaged file
    written by carquet never carries a stale (0) checksum that verification would report. *)
Theorem crc_writer_stores_only_computed : forall (write_crc : bool) (size : Z),
  CrcWriter_stores write_crc size = true -> CrcWriter_computes write_crc size = true.
Proof. exact Crc32Sites.crc_writer_stores_only_computed. Qed.
Print Assumptions crc_writer_stores_only_computed.
