(** C02 - what a reader returns does not depend on how the caller consumes it.
    This file only restates lemmas proved in Reader/ReaderProofs.v and Reader/BatchProofs.v
    (specification: Reader/CursorSpec.v; models: Reader/CursorModel.v, Reader/BatchModel.v, mirrors of
    src/reader/page_reader.c:carquet_read_next_page, column_reader.c, batch_reader.c, file_reader.c). *)
From Coq Require Import List ZArith.
From Carquet Require Import Base.Res Reader.CursorSpec Reader.CursorModel Reader.IoModeModel Reader.BatchModel
     Reader.ReaderProofs Reader.BatchProofs.
Import ListNotations.
Local Open Scope Z_scope.

(** For ALL histories over read_batch k | read_batch k without levels | skip k | has_next | remaining |
    re-creation (every k >= 0) and ALL cuts of a chunk into consistent pages (empty pages included), the column reader
    (after the repairs "fix: column reader: copy packed values by non-null count" (DESIGN F5), "fix: column
    reader: a data page without values is passed over" and "fix: column reader: read_batch with max_values >= 2^31")
    delivers
    exactly what a position in the list of rows delivers. *)
Theorem cursor_refines : forall (A : Type) (garbage : A) max_def zc (pages : list (@page A)) ops,
  chunk_ok max_def pages -> Forall op_ok ops ->
  run garbage true ops (open max_def zc pages) = Ok (spec_outputs ops (rows_of garbage max_def pages)).
Proof. exact @cursor_refines_proved. Qed.
Print Assumptions cursor_refines.

(** skip(n) after any history returns, and advances by, exactly min(n, remaining). *)
Theorem skip_exact : forall (A : Type) (garbage : A) max_def zc (pages : list (@page A)) ops st k,
  chunk_ok max_def pages -> Forall op_ok ops -> 0 <= k ->
  exec garbage ops (open max_def zc pages) = Ok st ->
  exists st', skip garbage true st k = Ok (st', Z.min k (remaining st)) /\
              remaining st' = remaining st - Z.min k (remaining st).
Proof. exact @skip_exact_proved. Qed.
Print Assumptions skip_exact.

(** remaining() after any history is the number of rows not yet delivered or skipped since the reader was
    (re-)created, and has_next() says whether that number is positive. *)
Theorem remaining_exact : forall (A : Type) (garbage : A) max_def zc (pages : list (@page A)) ops st,
  chunk_ok max_def pages -> Forall op_ok ops ->
  exec garbage ops (open max_def zc pages) = Ok st ->
  let rows := rows_of garbage max_def pages in
  remaining st = Z.of_nat (length rows - spec_pos rows 0 ops) /\
  has_next st = (0 <? length rows - spec_pos rows 0 ops)%nat.
Proof. exact @remaining_exact_proved. Qed.
Print Assumptions remaining_exact.

(** The pinned tree violated the refinement (DESIGN F5): one page [1, NULL, 3, 4], read_batch(2) twice. *)
Theorem cursor_refines_pinned_refuted :
  exists (pages : list (@page N)) ops,
    chunk_ok 1%N pages /\ Forall op_ok ops /\
    run 3200171710%N false ops (open 1%N false pages) <> Ok (spec_outputs ops (rows_of 3200171710%N 1%N pages)).
Proof. exact cursor_refines_pinned_refuted_proved. Qed.
Print Assumptions cursor_refines_pinned_refuted.

(** Batch reader (after the repair of DESIGN F7, commit "fix: batch reader: a zero-copy column delivers exactly the
    rows of the batch"): for every valid file, non-empty projection (indices may repeat; names are resolved to indices
    before, src/metadata/schema.c), batch size bs >= 1 and I/O mode, the batches are exactly the blocks of at
    most bs rows of the projected columns, row group after row group, followed by END_OF_DATA. *)
Theorem batch_refines : forall (A : Type) (garbage : A) m (f : @mfile A) proj bs,
  proj <> [] -> Forall (rg_ok proj) f -> 0 < bs ->
  batches garbage true true m f proj bs =
  Ok (spec_batches (Z.to_nat bs) proj (table_of garbage f), E_END_OF_DATA).
Proof. exact @batch_refines_proved. Qed.
Print Assumptions batch_refines.

(** every batch has one number of rows in all of its columns (values and bitmap) *)
Theorem batch_aligned : forall (A : Type) (garbage : A) m (f : @mfile A) proj bs,
  proj <> [] -> Forall (rg_ok proj) f -> 0 < bs ->
  exists bl, batches garbage true true m f proj bs = Ok (bl, E_END_OF_DATA) /\ Forall batch_aligned_prop bl.
Proof. exact @batch_aligned_proved. Qed.
Print Assumptions batch_aligned.

(** the concatenation of the batches of projected column j is the column-reader content of the file column it selects *)
Theorem batch_concat : forall (A : Type) (garbage : A) m (f : @mfile A) proj bs,
  proj <> [] -> Forall (rg_ok proj) f -> 0 < bs ->
  exists bl, batches garbage true true m f proj bs = Ok (bl, E_END_OF_DATA) /\
    forall j i, nth_error proj j = Some i -> batches_column bl j = table_column (table_of garbage f) i.
Proof. exact @batch_concat_proved. Qed.
Print Assumptions batch_concat.

(** the null bitmap separates null from non-null rows as the definition levels do: bit set = null, for every column,
    batch and I/O mode *)
Theorem bitmap_iff_level : forall (A : Type) (garbage : A) m (f : @mfile A) proj bs,
  proj <> [] -> Forall (rg_ok proj) f -> 0 < bs ->
  exists bl, batches garbage true true m f proj bs = Ok (bl, E_END_OF_DATA) /\
    forall j i, nth_error proj j = Some i ->
      concat (map (fun b => match nth_error (b_cols b) j with Some c => bc_bitmap c | None => [] end) bl) =
      map is_null (table_column (table_of garbage f) i).
Proof. exact @bitmap_iff_level_proved. Qed.
Print Assumptions bitmap_iff_level.

(** The pinned tree violated alignment (DESIGN F7): REQUIRED zero-copy column in pages of 2,2,1 rows next to an
    OPTIONAL column, batch_size 3, mmap mode: the first batch has 2 rows in one column and 3 in the other. *)
Theorem batch_aligned_pinned_refuted :
  exists (f : @mfile N) proj bs,
    Forall (rg_ok proj) f /\ proj <> [] /\ 0 < bs /\
    (forall bl c, batches 0%N true false Mmap f proj bs = Ok (bl, c) -> ~ Forall batch_aligned_prop bl) /\
    batches 0%N true false Mmap f proj bs <> batches 0%N true false Fread f proj bs.
Proof. exact batch_aligned_pinned_refuted_proved. Qed.
Print Assumptions batch_aligned_pinned_refuted.
