(** C13 - Thrift metadata round-trips and is genuine compact protocol.
    This file only restates lemmas proved in Thrift/*Proofs.v (specification: Thrift/ThriftSpec.v, written
    from the compact-protocol text; model: Thrift/ThriftModel.v mirroring thrift_encode.c / thrift_decode.c and
    Thrift/ParquetMetaModel.v + ParquetMetaDesc.v mirroring parquet_types.c). *)
From Coq Require Import ZArith NArith List.
From Carquet Require Import Base.Res Thrift.ThriftSpec Thrift.ThriftModel Thrift.ThriftProofs.
From Carquet Require Import Thrift.ParquetMetaDesc Thrift.ParquetMetaModel Thrift.ParquetMetaProofs.
Import ListNotations.
Local Open Scope N_scope.

(** thrift_skip (as repaired by commits 970c3cc and e3562e1) never reads outside the buffer, never runs out
    of the model's loop fuel, and never needs more C stack frames than THRIFT_MAX_NESTING - for every type
    code and every decoder state (any bytes). *)
Theorem skip_never_faults : forall ty d f, thrift_skip ty d <> Fault f.
Proof. exact skip_never_faults_all. Qed.
Print Assumptions skip_never_faults.

Theorem skip_depth_bounded : forall ty d, thrift_skip ty d <> Fault DepthExceeded.
Proof. exact skip_depth_bounded_all. Qed.
Print Assumptions skip_depth_bounded.

(** The function before commit 970c3cc had no bound: for every number of stack frames there is an input
    one byte longer that exhausts them (finding F9, fixed). *)
Theorem skip_depth_unbounded_before_repair : forall frames, exists bs,
  length bs = S frames /\ skip_unbounded frames 9 (decoder_init bs) = Fault DepthExceeded.
Proof. exact skip_unbounded_refuted. Qed.
Print Assumptions skip_depth_unbounded_before_repair.

(** parquet_parse_file_metadata / parquet_parse_page_header on ANY bytes: no read outside the buffer, no
    fuel or depth exhaustion (they terminate), and the reported byte count stays within the input. *)
Theorem parse_metadata_never_faults : forall bs f,
  parse_file_metadata bs <> Fault f /\ parse_page_header bs <> Fault f.
Proof. intros bs f. split; [apply parse_file_metadata_never_faults | apply parse_page_header_never_faults]. Qed.
Print Assumptions parse_metadata_never_faults.

Theorem parse_consumed_within_input : forall bs r c,
  (parse_file_metadata bs = Ok (r, c) -> c <= N.of_nat (length bs)) /\
  (parse_page_header bs = Ok (r, c) -> c <= N.of_nat (length bs)).
Proof. intros bs r c. split; [apply parse_file_metadata_consumed | apply parse_page_header_consumed]. Qed.
Print Assumptions parse_consumed_within_input.
