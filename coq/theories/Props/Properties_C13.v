(** C13 - Thrift metadata round-trips and is genuine compact protocol.
    This file only restates lemmas proved in Thrift/*.v.
      specification  Thrift/ThriftSpec.v           (compact protocol, written from the protocol text; no carquet)
      model          Thrift/ThriftModel.v          (thrift_encode.c / thrift_decode.c, function by function)
                     Thrift/ParquetMetaDesc.v      (descriptor tables for parquet_types.c)
                     Thrift/ParquetMetaModel.v     (generic descriptor-driven writer / parser)
                     Thrift/ParquetMetaSem.v       (to_tval, interp, norm, wf, typed)
    The model is the code as repaired by /repo commits 970c3cc, e3562e1 (thrift_skip) and 1aabf2d (data page
    statistics). *)
From Coq Require Import ZArith NArith List.
From Carquet Require Import Base.Res Thrift.ThriftSpec Thrift.ThriftSpecProofs Thrift.ThriftModel Thrift.ThriftProofs Thrift.ThriftConform.
From Carquet Require Import Thrift.ParquetMetaDesc Thrift.ParquetMetaModel Thrift.ParquetMetaSem Thrift.ParquetMetaProofs Thrift.ParquetMetaRoundtrip.
Import ListNotations.
Local Open Scope N_scope.

(* ------------------------------------------------------------------------------------------------------ *)
(** ** The specification is coherent *)

(** [spec_decode] (executable, type-directed by the wire types in the stream) accepts exactly the relation
    [Encodes]: sound and complete. *)
Theorem spec_decode_is_the_relation : forall bs v, spec_decode bs = Some v <-> Encodes bs v.
Proof. exact spec_decode_iff. Qed.
Print Assumptions spec_decode_is_the_relation.

(** the canonical encoder round-trips through the reader on every value the protocol can carry *)
Theorem spec_encode_decode : forall fs, tval_ok (VStruct fs) -> spec_decode (spec_encode (VStruct fs)) = Some (VStruct fs).
Proof. exact spec_encode_roundtrip. Qed.
Print Assumptions spec_encode_decode.

(* ------------------------------------------------------------------------------------------------------ *)
(** ** Primitives (C integer widths), all inputs *)

(** every uint64_t: at most 10 bytes written, read back exactly *)
Theorem varint_roundtrip_all : forall v, v < 2 ^ 64 ->
  exists bs, varint_bytes v = Ok bs /\ (length bs <= 10)%nat /\
    forall tail pos lf, exists d', read_varint (d_of bs tail pos lf) = Ok (v, d') /\ at_ d' tail (pos + N.of_nat (length bs)) lf.
Proof. exact varint_roundtrip. Qed.
Print Assumptions varint_roundtrip_all.

(** the reader accepts every legal varint, zero-padded ones included *)
Theorem read_varint_accepts_every_legal_varint : forall n l d tail pos lf, varint n l -> at_ d (l ++ tail) pos lf ->
  exists d', read_varint d = Ok (n, d') /\ at_ d' tail (pos + N.of_nat (length l)) lf.
Proof. exact read_varint_spec. Qed.
Print Assumptions read_varint_accepts_every_legal_varint.

(** zig-zag on the whole int64 range (INT64_MIN and INT64_MAX included) equals the specification's and inverts *)
Theorem zigzag_roundtrip_all : forall z, in_range 64 z ->
  zigzag_encode64 z = zz z /\ zigzag_decode64 (zigzag_encode64 z) = z.
Proof. exact zigzag_roundtrip_both. Qed.
Print Assumptions zigzag_roundtrip_all.

(** field headers for EVERY pair of int16 ids: short/long switch at gap 15/16, negative gaps, int16 wrap *)
Theorem field_header_roundtrip_all : forall ty id last st e, 1 <= ty <= 15 -> in_range 16 id -> in_range 16 last ->
  e_lfid e = last :: st ->
  exists e' h, write_field_header ty id e = Ok e' /\ wrote e e' h (id :: st) /\
    forall tail pos st', exists d',
      read_field_begin (d_of h tail pos (last :: st')) = Ok (Some (ty, id), d') /\
      after_fhdr d' ty tail (pos + N.of_nat (length h)) (id :: st').
Proof. exact field_header_roundtrip. Qed.
Print Assumptions field_header_roundtrip_all.

(** list headers for every size below 2^31 (short/long switch at 14/15), canonical per the specification *)
Theorem list_header_roundtrip_all : forall et n e, 1 <= et <= 15 -> n < 2 ^ 31 ->
  exists e', write_list_begin et (Z.of_N n) e = Ok e' /\ wrote e e' (enc_lhdr et n) (e_lfid e) /\
    forall tail pos lf, (N.to_nat n <= length tail)%nat -> exists d',
      read_list_begin (d_of (enc_lhdr et n) tail pos lf) = Ok (et, Z.of_N n, d') /\
      at_ d' tail (pos + N.of_nat (length (enc_lhdr et n))) lf.
Proof. exact list_header_roundtrip. Qed.
Print Assumptions list_header_roundtrip_all.

(* ------------------------------------------------------------------------------------------------------ *)
(** ** thrift_skip *)

(** never reads outside the buffer, never runs out of loop fuel, never needs more than THRIFT_MAX_NESTING
    frames - every type code, every decoder state, any bytes *)
Theorem skip_never_faults : forall ty d f, thrift_skip ty d <> Fault f.
Proof. exact skip_never_faults_all. Qed.
Print Assumptions skip_never_faults.

Theorem skip_depth_bounded : forall ty d, thrift_skip ty d <> Fault DepthExceeded.
Proof. exact skip_depth_bounded_all. Qed.
Print Assumptions skip_depth_bounded.

(** before commit 970c3cc there was no bound: for every number of stack frames, an input one byte longer
    exhausts them (finding F9, fixed) *)
Theorem skip_depth_unbounded_before_repair : forall frames, exists bs,
  length bs = S frames /\ skip_unbounded frames 9 (decoder_init bs) = Fault DepthExceeded.
Proof. exact skip_unbounded_refuted. Qed.
Print Assumptions skip_depth_unbounded_before_repair.

(** skipping an unknown field consumes exactly one legal encoding of ANY value of ANY wire type, nested up
    to the limit the code enforces *)
Theorem skip_consumes_any_value : forall v pay d tail pos lf,
  type_of v <> TBool -> enc (type_of v) v pay ->
  N.of_nat (vdepth v) <= MAX_NESTING -> len lf + N.of_nat (vdepth v) <= MAX_NESTING ->
  at_ d (pay ++ tail) pos lf ->
  exists d', thrift_skip (code (type_of v)) d = Ok d' /\ at_ d' tail (pos + N.of_nat (length pay)) lf.
Proof. exact thrift_skip_field_spec. Qed.
Print Assumptions skip_consumes_any_value.

(* ------------------------------------------------------------------------------------------------------ *)
(** ** FileMetaData and PageHeader *)

(** write_parse and write_is_compact, FileMetaData: for every structure in the writer's domain the bytes
    written are read by the independent specification reader as [to_tval m] (same field ids, wire types,
    values), and carquet's parser returns [norm m] having consumed exactly the bytes produced *)
Theorem write_parse_file_metadata : forall m, wf_file_metadata m ->
  exists bs, write_file_metadata m = Ok bs /\
             spec_decode bs = Some (to_tval_file_metadata m) /\
             parse_file_metadata bs = Ok (norm_file_metadata m, N.of_nat (length bs)).
Proof. exact file_metadata_roundtrip. Qed.
Print Assumptions write_parse_file_metadata.

Theorem write_parse_page_header : forall m, wf_page_header m ->
  exists bs, write_page_header m = Ok bs /\
             spec_decode bs = Some (to_tval_page_header m) /\
             parse_page_header bs = Ok (norm_page_header m, N.of_nat (length bs)).
Proof. exact page_header_roundtrip. Qed.
Print Assumptions write_parse_page_header.

(** carquet parses the encodings an independent encoder produces: ANY legal encoding (any field order,
    short or long headers, padded varints, unknown fields of every wire type at every struct) *)
Theorem parse_accepts_file_metadata : forall fs bs, Encodes bs (VStruct fs) -> typed carquet_tbl FUEL S_FILE_META 0 fs ->
  parse_file_metadata bs = Ok (interp carquet_tbl FUEL S_FILE_META fs (s_init d_file_meta), N.of_nat (length bs)).
Proof. exact file_metadata_parse_accepts. Qed.
Print Assumptions parse_accepts_file_metadata.

Theorem parse_accepts_page_header : forall fs bs, Encodes bs (VStruct fs) -> typed carquet_tbl FUEL S_PAGE_HEADER 0 fs ->
  parse_page_header bs = Ok (interp carquet_tbl FUEL S_PAGE_HEADER fs (s_init d_page_header), N.of_nat (length bs)).
Proof. exact page_header_parse_accepts. Qed.
Print Assumptions parse_accepts_page_header.

(** inserting an unknown field of any wire type (any value within the nesting limit) anywhere among the
    fields leaves the parse result unchanged *)
Theorem parse_accepts_unknown_fields_file_metadata : forall fs1 fs2 uid v bs',
  find_field uid (s_fields d_file_meta) = None ->
  typed carquet_tbl FUEL S_FILE_META 0 (fs1 ++ fs2) ->
  N.of_nat (vdepth v) + 1 <= MAX_NESTING ->
  Encodes bs' (VStruct (fs1 ++ (uid, v) :: fs2)) ->
  parse_file_metadata bs' = Ok (interp carquet_tbl FUEL S_FILE_META (fs1 ++ fs2) (s_init d_file_meta), N.of_nat (length bs')).
Proof. exact file_metadata_accepts_unknown_field. Qed.
Print Assumptions parse_accepts_unknown_fields_file_metadata.

Theorem parse_accepts_unknown_fields_page_header : forall fs1 fs2 uid v bs',
  find_field uid (s_fields d_page_header) = None ->
  typed carquet_tbl FUEL S_PAGE_HEADER 0 (fs1 ++ fs2) ->
  N.of_nat (vdepth v) + 1 <= MAX_NESTING ->
  Encodes bs' (VStruct (fs1 ++ (uid, v) :: fs2)) ->
  parse_page_header bs' = Ok (interp carquet_tbl FUEL S_PAGE_HEADER (fs1 ++ fs2) (s_init d_page_header), N.of_nat (length bs')).
Proof. exact page_header_accepts_unknown_field. Qed.
Print Assumptions parse_accepts_unknown_fields_page_header.

(** on ANY bytes the parsers never read outside the buffer, terminate, and report a byte count within the input *)
Theorem parse_metadata_never_faults : forall bs f,
  parse_file_metadata bs <> Fault f /\ parse_page_header bs <> Fault f.
Proof. exact parse_never_faults_both. Qed.
Print Assumptions parse_metadata_never_faults.

Theorem parse_consumed_within_input : forall bs r c,
  (parse_file_metadata bs = Ok (r, c) -> c <= N.of_nat (length bs)) /\
  (parse_page_header bs = Ok (r, c) -> c <= N.of_nat (length bs)).
Proof. exact parse_consumed_both. Qed.
Print Assumptions parse_consumed_within_input.
