(** Extraction of the reader engine (ExtrOcamlBasic only; numbers stay inductive). *)
Require Extraction.
Require Import ExtrOcamlBasic.
From Carquet Require Import Reader.CursorSpec Reader.CursorModel.
Extraction Language OCaml.
Extraction "extracted/reader_ext.ml" CursorModel.run CursorModel.open CursorModel.rows_of CursorSpec.spec_outputs.
