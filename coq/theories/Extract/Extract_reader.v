(** Extraction of the reader engine (ExtrOcamlBasic only; numbers stay inductive). *)
Require Extraction.
Require Import ExtrOcamlBasic.
From Carquet Require Import Gen.Reader_gen Reader.CursorSpec Reader.CursorModel Reader.IoModeModel Reader.BatchModel.
Extraction Language OCaml.
Extraction "extracted/reader_ext.ml" CursorModel.run CursorModel.open CursorModel.rows_of CursorSpec.spec_outputs
  BatchModel.batches BatchModel.table_of CursorSpec.spec_batches IoModeModel.footer_location Reader_gen.Reader_zero_copy_type.
