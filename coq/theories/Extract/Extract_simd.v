(** Extraction of the simd engine (ExtrOcamlBasic only; numbers and strings stay inductive). *)
Require Extraction.
Require Import ExtrOcamlBasic.
From Coq Require Import NArith.
From Carquet Require Import Simd.DispatchModel.
Extraction Language OCaml.
Extraction "extracted/simd_ext.ml" N.add Nat.add DispatchModel.dispatch_indices.
