(** Extraction of the simd engine (ExtrOcamlBasic only; numbers stay inductive). *)
Require Extraction.
Require Import ExtrOcamlBasic.
From Coq Require Import NArith.
From Carquet Require Import Simd.DispatchModel Simd.Vec Simd.X86Sem Simd.ScalarKernels Simd.SseKernels
  Simd.Avx2Kernels Simd.Avx512Kernels.
Extraction Language OCaml.
Extraction "extracted/simd_ext.ml" N.add Nat.add DispatchModel.dispatch_indices X86Sem.intr_eval
  ScalarKernels.scalar_bss_encode ScalarKernels.scalar_bss_decode
  SseKernels.sse_bss_encode_float SseKernels.sse_bss_decode_float SseKernels.sse_bss_encode_double SseKernels.sse_bss_decode_double
  Avx2Kernels.avx2_bss_encode_float Avx2Kernels.avx2_bss_decode_float Avx2Kernels.avx2_bss_encode_double Avx2Kernels.avx2_bss_decode_double
  Avx512Kernels.avx512_bss_encode_float Avx512Kernels.avx512_bss_decode_float.
