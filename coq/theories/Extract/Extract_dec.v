(** Extraction of the dec engine (C08): the level decoders of Dec/LevelsModel.v and the guarded
    carquet_rle_decode_all of Dec/DecSafety.v (ExtrOcamlBasic only; numbers stay inductive). *)
Require Extraction.
Require Import ExtrOcamlBasic.
From Coq Require Import NArith ZArith List.
From Carquet Require Import Base.Res Dec.LevelsModel Dec.DecSafety Enc.DictModel.
Extraction Language OCaml.

Definition m_decode_levels := LevelsModel.decode_levels.
Definition m_decode_levels_prefixed := LevelsModel.decode_levels_prefixed.
Definition m_decode_levels_prefixed_pinned := LevelsModel.decode_levels_prefixed_pinned.
Definition m_rle_decode_all := DecSafety.rle_decode_all.
(** carquet_dictionary_decode_* of Enc/DictModel.v (enc2 engine) over the guarded index codec of Dec/DecSafety.v *)
Definition m_dict_decode := DictModel.dict_decode_fixed DecSafety.rle_dec_n.

Extraction "extracted/dec_ext.ml" m_decode_levels m_decode_levels_prefixed m_decode_levels_prefixed_pinned m_rle_decode_all m_dict_decode.
