(** Extraction of the robust engine (C18, C04): ExtrOcamlBasic only; numbers stay inductive. *)
Require Extraction.
Require Import ExtrOcamlBasic.
From Carquet Require Import Reader.FooterModel Reader.PageBoundsModel Writer.Stdio Writer.CloseModel.
Extraction Language OCaml.
Extraction "extracted/robust_ext.ml"
  FooterModel.open_stage FooterModel.stage_code
  CloseModel.run CloseModel.w_init CloseModel.current_checks CloseModel.pinned_checks CloseModel.bytes_of
  CloseModel.sink_failed Stdio.deliv Stdio.pend CloseModel.st
  PageBoundsModel.get_column PageBoundsModel.current_pchecks PageBoundsModel.pinned_pchecks PageBoundsModel.load
  PageBoundsModel.mapped_data_page PageBoundsModel.dictionary_copy PageBoundsModel.walk PageBoundsModel.copy_out.
