(** Extraction of the foreign engine (C06): the chunk decoder of File/ForeignModel.v with its imported component
    models (RleModel.decode_all, PlainModel, SnappyModel / Lz4Model decompressors).  ExtrOcamlBasic only. *)
Require Extraction.
Require Import ExtrOcamlBasic.
From Coq Require Import NArith ZArith List.
From Carquet Require Import Base.Res File.SpecPage File.ForeignModel.
Extraction Language OCaml.

Definition m_mkcol := mkcol.
Definition m_mkhdr := mkhdr.
Definition m_decode_chunk := decode_chunk.
Definition m_decode_page := decode_page.
Definition m_bit_width_for_max := bit_width_for_max.
Definition m_spec_bit_width := bit_width.
Definition m_rle_decode_levels := rle_decode_levels.

Extraction "extracted/foreign_ext.ml" m_mkcol m_mkhdr m_decode_chunk m_decode_page m_bit_width_for_max m_spec_bit_width
  m_rle_decode_levels.
