(** Extraction of the writer engine (ExtrOcamlBasic only; numbers stay inductive). *)
Require Extraction.
Require Import ExtrOcamlBasic.
From Coq Require Import NArith ZArith List.
From Carquet Require Import Base.Res Writer.TableSpec Writer.PageWriterModel Writer.ColumnWriterModel
     Writer.FileWriterModel Writer.WriterThriftModel.
Extraction Language OCaml.

Definition w_run := WriterThriftModel.run_concrete.
Definition w_table_of := TableSpec.table_of.
Definition w_mkcol := TableSpec.mkcol.
Definition w_mkbatch := TableSpec.mkbatch.
Definition w_mkopt := FileWriterModel.mkopt.
Definition w_read := WriterThriftModel.read_concrete.

Extraction "extracted/writer_ext.ml" w_run w_table_of w_mkcol w_mkbatch w_mkopt w_read.
