(** Extraction of the util engine (ExtrOcamlBasic only; numbers stay inductive). *)
Require Extraction.
Require Import ExtrOcamlBasic.
From Coq Require Import NArith ZArith List.
From Carquet Require Import Base.Res Util.Crc32Spec Util.Crc32Model
     Util.Xxh64Spec Util.Xxh64Model Util.BloomSpec Util.BloomModel.
Extraction Language OCaml.

(** C20: entry points under names that cannot clash between model and specification *)
Definition m_xxh64 : list N -> N -> option N := Xxh64Model.xxh64_checked.
Definition s_xxh64 : list N -> N -> N := Xxh64Spec.xxh64.

Definition m_sgn32 (x : N) : Z := if N.ltb x 2147483648 then Z.of_N x else (Z.of_N x - 4294967296)%Z.
Definition m_sgn64 (x : N) : Z :=
  if N.ltb x 9223372036854775808 then Z.of_N x else (Z.of_N x - 18446744073709551616)%Z.

Definition m_create := BloomModel.create.
Definition m_insert_hash := BloomModel.insert_hash.
Definition m_check_hash := BloomModel.check_hash.
Definition m_insert_i32 := BloomModel.insert_i32.
Definition m_insert_i64 := BloomModel.insert_i64.
Definition m_insert_float := BloomModel.insert_float.
Definition m_insert_double := BloomModel.insert_double.
Definition m_insert_bytes := BloomModel.insert_bytes.
Definition m_check_i32 := BloomModel.check_i32.
Definition m_check_i64 := BloomModel.check_i64.
Definition m_check_float := BloomModel.check_float.
Definition m_check_double := BloomModel.check_double.
Definition m_check_bytes := BloomModel.check_bytes.
Definition m_write := BloomModel.write.
Definition m_read := BloomModel.read.
Definition m_merge := BloomModel.merge.
Definition m_data := BloomModel.data.
Definition m_num_bytes := BloomModel.num_bytes.
Definition m_num_blocks := BloomModel.num_blocks.

(** the specification side: filter of the requested size, typed insert/check, stored form *)
Definition s_new (n : N) : sbbf := BloomSpec.empty (N.to_nat (BloomSpec.blocks_for n)).
Definition s_insert_hash := BloomSpec.insert_hash.
Definition s_check_hash := BloomSpec.check_hash.
Definition s_insert := BloomSpec.insert.
Definition s_check := BloomSpec.check.
Definition s_union := BloomSpec.union.
Definition s_to_bytes := BloomSpec.to_bytes.
Definition s_nblocks := BloomSpec.nblocks.
Definition s_I32 (x : N) : value := I32 (m_sgn32 x).
Definition s_I64 (x : N) : value := I64 (m_sgn64 x).
Definition s_F32 (x : N) : value := F32 x.
Definition s_F64 (x : N) : value := F64 x.
Definition s_Bytes (bs : list N) : value := Bytes bs.

Extraction "extracted/util_ext.ml" Crc32Model.crc32 Crc32Model.crc32_update Crc32Model.page_crc_ok Crc32Spec.crc
  m_xxh64 s_xxh64 m_sgn32 m_sgn64
  m_create m_insert_hash m_check_hash m_insert_i32 m_insert_i64 m_insert_float m_insert_double m_insert_bytes
  m_check_i32 m_check_i64 m_check_float m_check_double m_check_bytes m_write m_read m_merge
  m_data m_num_bytes m_num_blocks
  s_new s_insert_hash s_check_hash s_insert s_check s_union s_to_bytes s_nblocks
  s_I32 s_I64 s_F32 s_F64 s_Bytes.
