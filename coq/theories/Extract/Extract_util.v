(** Extraction of the util engine (ExtrOcamlBasic only; numbers stay inductive). *)
Require Extraction.
Require Import ExtrOcamlBasic.
From Carquet Require Import Util.Crc32Spec Util.Crc32Model.
Extraction Language OCaml.
Extraction "extracted/util_ext.ml" Crc32Model.crc32 Crc32Model.crc32_update Crc32Model.page_crc_ok Crc32Spec.crc.
