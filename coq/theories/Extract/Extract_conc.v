(** Extraction of the conc engine (ExtrOcamlBasic only; numbers stay inductive). *)
Require Extraction.
Require Import ExtrOcamlBasic.
From Carquet Require Import Conc.Interleave Conc.BatchConc Conc.LazyInit.
Extraction Language OCaml.
Extraction "extracted/conc_ext.ml" BatchConc.run_data BatchConc.run_full BatchConc.alone_log LazyInit.lazy_run.
