(** Extraction of the loop-shaped model of carquet_bitunpack8_32 / carquet_bitpack8_32
    (Enc/BitpackLoopModel.v; proved equal to the closed form in Enc/BitpackLoopProofs.v). *)
Require Extraction.
Require Import ExtrOcamlBasic.
From Carquet Require Import Enc.BitpackLoopModel.
Extraction Language OCaml.
Extraction "extracted/bitloop_ext.ml" BitpackLoopModel.unpack8_c BitpackLoopModel.pack8_c.
