(** Extraction of the alloc engine (ExtrOcamlBasic only; numbers stay inductive). *)
Require Extraction.
Require Import ExtrOcamlBasic.
From Coq Require Import List NArith String.
From Carquet Require Import Alloc.AllocMonad Alloc.BufferModel Alloc.ArenaModel Alloc.SiteModel.
Import ListNotations.

(** executable views used by the runner *)
Definition buf_run (sizes : list N) (k : nat) : list N * N * N :=
  (* append chunks of the given sizes (content irrelevant) with request k denied: statuses, size, capacity *)
  let step := fun (acc : list N * buffer) (sz : N) =>
                fun o n => let '(r, n') := append (snd acc) (repeat 0%N (N.to_nat sz)) o n in
                           ((fst acc ++ [fst r], snd r), n') in
  let fix go (l : list N) (acc : list N * buffer) : M (list N * buffer) :=
      match l with [] => ret acc | s :: r => bind (step acc s) (go r) end in
  let res := exec (go sizes ([], buf_init)) (if Nat.eqb k 0 then never else fail_at k) in
  (fst res, bsize (snd res), bcap (snd res)).

Definition arena_run (dflt0 : N) (reqs : list (N * N)) (k : nat) : list (option (nat * N)) :=
  (* arena_init then the requests (size, alignment), request k denied (counting the init as request 1) *)
  let o := if Nat.eqb k 0 then never else fail_at k in
  let fix go (l : list (N * N)) (a : arena) (acc : list (option (nat * N))) : M (list (option (nat * N))) :=
      match l with
      | [] => ret acc
      | r :: t => bind (alloc a (fst r) (snd r)) (fun x => go t (snd x) (acc ++ [fst x]))
      end in
  exec (bind (arena_init dflt0) (fun oa => match oa with None => ret [] | Some a => go reqs a [] end)) o.

Definition site_run (classes : list (list site_class)) (k : nat) : result :=
  let mk := fun (i : nat) (c : site_class) => mkVisit c i in
  let fix number (l : list (list site_class)) (i : nat) : scenario :=
      match l with
      | [] => []
      | c :: r => (let fix nv (cs : list site_class) (j : nat) := match cs with [] => [] | x :: t => mk j x :: nv t (S j) end in nv c i)
                  :: number r (i + List.length c)
      end in
  run (if Nat.eqb k 0 then never else fail_at k) (number classes 1).

Extraction Language OCaml.
Extraction "extracted/alloc_ext.ml" buf_run arena_run site_run.
