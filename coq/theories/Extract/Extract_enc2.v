(** Extraction of the enc2 engine: PLAIN, DELTA_*, BYTE_STREAM_SPLIT and dictionary models and reference
    decoders (ExtrOcamlBasic only; numbers stay inductive).  The dictionary model's index-stream codec is
    instantiated with the RLE engine's model of carquet_rle_encode_all / carquet_rle_decode_all. *)
Require Extraction.
Require Import ExtrOcamlBasic.
From Coq Require Import NArith List.
From Carquet Require Import Base.Res Enc.DeltaBits Enc.PlainSpec Enc.PlainModel Enc.BssSpec Enc.BssModel
  Enc.DeltaSpec Enc.DeltaModel Enc.DeltaLenModel Enc.DeltaStrModel Enc.DictModel Enc.RleModel Enc.DictRleInst.

(* the adapter over RleModel.encode_all / decode_all (with the C decoder's width guard) is DictRleInst.rle_enc / rle_dec *)
Definition dict_encode_fixed_i := DictModel.dict_encode_fixed DictRleInst.rle_enc.
Definition dict_encode_byte_array_i := DictModel.dict_encode_byte_array DictRleInst.rle_enc.
Definition dict_decode_fixed_i := DictModel.dict_decode_fixed DictRleInst.rle_dec.

Extraction Language OCaml.
Extraction "extracted/enc2_ext.ml"
  PlainModel.plain_encode_boolean PlainModel.plain_decode_boolean
  PlainModel.enc_fixed PlainModel.dec_fixed
  PlainModel.plain_encode_int96 PlainModel.plain_decode_int96
  PlainModel.plain_encode_byte_array PlainModel.plain_decode_byte_array
  PlainModel.plain_encode_flba PlainModel.plain_decode_flba
  PlainSpec.spec_fixed_dec PlainSpec.spec_bool_dec PlainSpec.spec_ba_dec PlainSpec.spec_flba_dec
  PlainSpec.spec_bool_enc
  BssModel.bss_encode BssModel.bss_decode BssSpec.spec_bss_dec BssSpec.spec_bss_enc
  DeltaModel.delta_encode_int32 DeltaModel.delta_encode_int64
  DeltaModel.delta_decode_int32 DeltaModel.delta_decode_int64
  DeltaModel.delta_bytes_int32 DeltaModel.delta_bytes_int64
  DeltaSpec.spec_delta_decode DeltaSpec.spec_delta_length_decode DeltaSpec.spec_delta_strings_decode
  DeltaLenModel.delta_length_encode DeltaLenModel.delta_length_decode
  DeltaStrModel.delta_strings_encode DeltaStrModel.delta_strings_decode
  DictModel.build DictModel.bit_width_for_count
  dict_encode_fixed_i dict_encode_byte_array_i dict_decode_fixed_i.
