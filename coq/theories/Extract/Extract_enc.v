(** Extraction of the enc engine: bit packing and the RLE / bit-packed hybrid (models and specs). *)
Require Extraction.
Require Import ExtrOcamlBasic.
From Carquet Require Import Enc.BitpackSpec Enc.BitpackModel Enc.RleSpec Enc.RleModel Enc.BitRwSpec Enc.BitRwModel.
Extraction Language OCaml.
Extraction "extracted/enc_ext.ml"
  BitpackModel.pack8 BitpackModel.unpack8 BitpackModel.bitpack_32 BitpackModel.bitunpack_32
  BitpackSpec.pack_spec BitpackSpec.unpack_spec
  RleModel.encode_all RleModel.decode_all RleModel.dec_init RleModel.get_batch RleModel.get
  RleModel.skip RleModel.has_next RleModel.d_ok
  RleSpec.spec_decode_all
  BitRwModel.write_all BitRwModel.read_all BitRwModel.br_init BitRwModel.w_out BitRwModel.remaining_bits
  BitRwModel.has_more BitRwSpec.stream_bytes.
