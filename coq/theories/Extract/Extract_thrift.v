(** Extraction of the thrift engine (ExtrOcamlBasic only; numbers stay inductive). *)
Require Extraction.
Require Import ExtrOcamlBasic.
From Carquet Require Import Base.Res Thrift.ThriftSpec Thrift.ThriftModel Thrift.ParquetMetaDesc Thrift.ParquetMetaModel Thrift.ParquetMetaSem.
Extraction Language OCaml.
Extraction "extracted/thrift_ext.ml"
  ThriftModel.varint_bytes ThriftModel.zigzag_encode64 ThriftModel.zigzag_decode64
  ThriftModel.encoder_init ThriftModel.write_varint ThriftModel.write_zigzag ThriftModel.write_byte
  ThriftModel.write_i16 ThriftModel.write_i32 ThriftModel.write_i64 ThriftModel.write_double ThriftModel.write_bool
  ThriftModel.write_binary ThriftModel.write_string ThriftModel.write_struct_begin ThriftModel.write_struct_end
  ThriftModel.write_field_header ThriftModel.write_list_begin ThriftModel.write_map_begin
  ThriftModel.decoder_init ThriftModel.read_varint ThriftModel.read_zigzag ThriftModel.read_byte
  ThriftModel.read_i16 ThriftModel.read_i32 ThriftModel.read_i64 ThriftModel.read_double ThriftModel.read_bool
  ThriftModel.read_binary ThriftModel.read_struct_begin ThriftModel.read_struct_end ThriftModel.read_field_begin
  ThriftModel.read_list_begin ThriftModel.read_map_begin ThriftModel.thrift_skip ThriftModel.with_lfid
  ParquetMetaModel.write_file_metadata ParquetMetaModel.write_page_header
  ParquetMetaModel.parse_file_metadata ParquetMetaModel.parse_page_header
  ParquetMetaSem.to_tval_file_metadata ParquetMetaSem.to_tval_page_header
  ParquetMetaSem.norm_file_metadata ParquetMetaSem.norm_page_header
  ParquetMetaSem.wfb_file_metadata ParquetMetaSem.wfb_page_header
  ThriftModel.write_uuid ThriftModel.write_set_begin ThriftModel.read_set_begin ThriftModel.read_uuid
  ThriftModel.read_string ThriftModel.skip_field
  ThriftModel.e_out ThriftSpec.spec_decode ThriftSpec.spec_encode.
