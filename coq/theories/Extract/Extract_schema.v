(** Extraction of the schema engine (ExtrOcamlBasic only; numbers stay inductive). *)
Require Extraction.
Require Import ExtrOcamlBasic.
From Carquet Require Import Schema.SchemaTree Schema.SchemaModel Schema.SchemaBuilderModel.
Extraction Language OCaml.
Extraction "extracted/schema_ext.ml"
  SchemaTree.schema_of SchemaTree.columns SchemaTree.find_name SchemaTree.node_levels SchemaTree.wf SchemaTree.forest_size
  SchemaModel.build_schema SchemaModel.find_column SchemaModel.get_element SchemaModel.num_columns SchemaModel.num_elements
  SchemaModel.node_name SchemaModel.node_is_leaf SchemaModel.node_physical_type SchemaModel.node_logical_type
  SchemaModel.node_repetition SchemaModel.node_type_length SchemaModel.node_max_def_level SchemaModel.node_max_rep_level
  SchemaModel.reader_columns SchemaModel.accessor_levels SchemaModel.count_leaves
  SchemaBuilderModel.schema_create SchemaBuilderModel.run_ops SchemaBuilderModel.as_schema SchemaBuilderModel.b_capacity.
