(** Extraction of the stats engine (ExtrOcamlBasic only; numbers stay inductive). *)
Require Extraction.
Require Import ExtrOcamlBasic.
From Carquet Require Import Stats.Order Stats.StatsBuilderModel Stats.PruneModel Stats.PageIndexModel.
Extraction Language OCaml.
Extraction "extracted/stats_ext.ml"
  Order.ptype_of_code Order.sat Order.ord Order.val_nan Order.compare_R Order.compare_M Order.compare_P
  StatsBuilderModel.builder_create StatsBuilderModel.run_sops StatsBuilderModel.build
  StatsBuilderModel.pw_create StatsBuilderModel.pw_add_values StatsBuilderModel.pw_statistics
  PruneModel.column_statistics PruneModel.row_group_matches PruneModel.filter_row_groups
  PruneModel.statistics_compare PruneModel.range_overlaps
  PageIndexModel.add_page PageIndexModel.page_might_match.
