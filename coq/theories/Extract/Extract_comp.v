(** Extraction of the comp engine (ExtrOcamlBasic only; numbers stay inductive). *)
Require Extraction.
Require Import ExtrOcamlBasic.
From Coq Require Import NArith List FMapPositive.
From Carquet Require Import Base.Res Comp.CompBase Comp.CompMem Comp.SnappySpec Comp.SnappyModel Comp.Lz4Spec Comp.Lz4Model.

Definition snappy_spec_decode := SnappySpec.spec_decode.
Definition snappy_decompress := SnappyModel.decompress.
Definition snappy_decompress_pinned := SnappyModel.decompress_pinned.
Definition snappy_compress := SnappyModel.compress.
Definition snappy_bound := SnappyModel.compress_bound.
Definition snappy_compress_c (x : list N) (cap : N) :=
  SnappyModel.compress_c (CompMem.hash_look SnappyModel.snappy_hash x) (CompMem.hash_ins SnappyModel.snappy_hash x)
    (FMapPositive.PositiveMap.empty N) x cap.
Definition snappy_get_len := SnappyModel.get_uncompressed_length.
Definition snappy_varint (n : N) := SnappyModel.write_varint 5 (N.modulo n (2 ^ 32)).
Definition lz4_spec_decode := Lz4Spec.spec_decode.
Definition lz4_spec_decode_lax := Lz4Spec.spec_decode_lax.
Definition lz4_check_end_rules := Lz4Spec.check_end_rules.
Definition lz4_decompress := Lz4Model.decompress.
Definition lz4_compress := Lz4Model.compress.
Definition lz4_bound := Lz4Model.compress_bound.

Extraction Language OCaml.
Extraction "extracted/comp_ext.ml"
  snappy_spec_decode snappy_decompress snappy_decompress_pinned snappy_compress snappy_compress_c snappy_bound snappy_get_len snappy_varint
  lz4_spec_decode lz4_spec_decode_lax lz4_check_end_rules lz4_decompress lz4_compress lz4_bound.
