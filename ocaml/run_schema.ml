(* conv: n z *)
(* Runner for the schema engine (C17): the extracted model of the reader-side schema code and of the builder,
   and the extracted specification (SchemaTree).  Same case lines and the same output text as harness/h_schema.c;
   for a tree case the specification's answer follows after " | ". *)
let soi = string_of_int
let zs (x : z) = soi (int_of_z x)
let opt_n = function None -> "-" | Some x -> soi (int_of_n x)
let split c s = if s = "-" || s = "" then [] else String.split_on_char c s
let zi s = z_of_int (int_of_string s)
let ni s = n_of_int (int_of_string s)
let optn s = if s = "-" then None else Some (ni s)
let join l = if l = [] then "-" else String.concat "," l

let fault_name = function
  | OobRead -> "oob-read" | OobWrite -> "oob-write" | NullDeref -> "null-deref"
  | DepthExceeded -> "depth" | OutOfFuel -> "fuel"

(* name/hastype/type/tlen/hasrep/rep/nc/logical *)
let elem_of s =
  match String.split_on_char '/' s with
  | [nm; ht; ty; tl; hr; rp; nc; lg] ->
      { e_name = optn nm; e_has_type = (ht = "1"); e_type = zi ty; e_tlen = zi tl; e_has_rep = (hr = "1");
        e_rep = zi rp; e_nc = zi nc; e_logical = optn lg }
  | _ -> failwith "bad element"

let leaves_text ls =
  join (List.map (fun ((ei, d), r) -> Printf.sprintf "%d/%s/%s" (int_of_nat ei) (zs d) (zs r)) ls)

let elements_text s =
  let n = int_of_z (num_elements s) in
  let one i =
    match get_element s (z_of_int i) with
    | None -> "NULL"
    | Some x ->
        Printf.sprintf "%s/%d/%s/%s/%s/%s/%s/%s" (opt_n (node_name x)) (if node_is_leaf x then 1 else 0)
          (zs (node_physical_type x)) (zs (node_type_length x)) (opt_n (node_logical_type x))
          (zs (node_repetition x)) (zs (node_max_def_level x)) (zs (node_max_rep_level x)) in
  let rec go i acc = if i < 0 then acc else go (i - 1) (one i :: acc) in
  let x b = if b then "1" else "0" in
  Printf.sprintf "%s X=%s%s" (join (go (n - 1) []))
    (x (get_element s (z_of_int (-1)) <> None)) (x (get_element s (z_of_int n) <> None))

let finds_text s ids =
  join (List.map (fun id -> match find_column s (ni id) with
                            | Ok i -> zs i | Err c -> "E" ^ zs c | Fault f -> "FAULT-" ^ fault_name f) (split ',' ids))

let rg_text s has_rg =
  if not has_rg then "-" else
  join (List.map (fun ((ei, d), r) ->
          match get_element s (z_of_int (int_of_nat ei)) with
          | Some x -> Printf.sprintf "%s/%s/%s" (zs d) (zs r) (zs (node_type_length x))
          | None -> "FAULT-oob-read") s.s_leaves)

(* ---- tree text:  <rootrep>.<rootname>[t;t;...]   t ::= L<r>.<name>.<type>.<tlen>.<logical> | G<r>.<name>[t;...] *)
let parse_tree (s : string) =
  let pos = ref 0 in
  let peek () = if !pos < String.length s then s.[!pos] else '\000' in
  let adv () = incr pos in
  let field () =
    let b = Buffer.create 8 in
    while (let c = peek () in c <> '.' && c <> '[' && c <> ']' && c <> ';' && c <> '\000') do
      Buffer.add_char b (peek ()); adv () done;
    Buffer.contents b in
  let dot () = if peek () = '.' then adv () else failwith "expected ." in
  let rep_of = function "0" -> Required | "1" -> Optional | "2" -> Repeated | _ -> failwith "bad repetition" in
  let rec tree () =
    let c = peek () in adv ();
    if c = 'L' then begin
      let r = rep_of (field ()) in dot ();
      let nm = field () in dot ();
      let ty = field () in dot ();
      let tl = field () in dot ();
      let lg = field () in
      Leaf (r, { li_name = ni nm; li_type = zi ty; li_tlen = zi tl; li_logical = optn lg })
    end else if c = 'G' then begin
      let r = rep_of (field ()) in dot ();
      let nm = field () in
      let cs = forest () in
      Group (r, ni nm, cs)
    end else failwith "bad tree"
  and forest () =
    if peek () <> '[' then failwith "expected [";
    adv ();
    let acc = ref [] in
    if peek () = ']' then adv ()
    else begin
      let fin = ref false in
      while not !fin do
        acc := tree () :: !acc;
        if peek () = ';' then adv () else if peek () = ']' then (adv (); fin := true) else failwith "expected ; or ]"
      done
    end;
    List.rev !acc in
  let rr = field () in dot ();
  let rn = field () in
  let cs = forest () in
  ((if rr = "-" then None else Some (rep_of rr)), ni rn, cs)

let spec_text tree finds =
  let (rr, rn, cs) = parse_tree tree in
  let cols = columns cs in
  let col c = Printf.sprintf "%d/%s/%s/%s/%s/%s/%s/%s" (int_of_nat c.c_elem) (soi (int_of_n c.c_name)) (zs c.c_type)
                (zs c.c_tlen) (opt_n c.c_logical) (zs c.c_repetition) (zs c.c_def) (zs c.c_rep) in
  let el e = Printf.sprintf "%s/%d/%s/%s/%d/%s/%s/%s" (opt_n e.e_name) (if e.e_has_type then 1 else 0) (zs e.e_type)
               (zs e.e_tlen) (if e.e_has_rep then 1 else 0) (zs e.e_rep) (zs e.e_nc) (opt_n e.e_logical) in
  let nl = (Z0, Z0) :: flat_map (node_levels Z0 Z0) cs in
  Printf.sprintf "SPEC k=%d C=%s F=%s N=%s FL=%s WF=%d"
    (List.length cols) (join (List.map col cols))
    (join (List.map (fun id -> zs (find_name (ni id) Z0 cols)) (split ',' finds)))
    (join (List.map (fun (d, r) -> zs d ^ "/" ^ zs r) nl))
    (join (List.map el (schema_of rr rn cs)))
    (if forallb wf cs then 1 else 0)

let op_of s =
  match String.split_on_char ':' s with
  | ["c"; nm; ty; lg; rp; tl] -> AddColumn (ni nm, zi ty, optn lg, zi rp, zi tl)
  | ["g"; nm; rp; pi] -> AddGroup (ni nm, zi rp, zi pi)
  | _ -> failwith "bad op"

let handle toks =
  match toks with
  | ["schema"; _hex; elems; finds; rg; tree] ->
      let es = List.map elem_of (split ',' elems) in
      let m =
        match build_schema es with
        | Err c -> "ERR " ^ zs c
        | Fault f -> "FAULT " ^ fault_name f
        | Ok s ->
            Printf.sprintf "OK n=%s k=%s kr=%s L=%s E=%s F=%s R=%s" (zs (num_elements s)) (zs (num_columns s))
              (zs (num_columns s)) (leaves_text s.s_leaves) (elements_text s) (finds_text s finds) (rg_text s (rg = "1")) in
      if tree = "-" then m else m ^ " | " ^ spec_text tree finds
  | ["builder"; ops; finds; tree] ->
      let ops = List.map op_of (split ',' ops) in
      (match run_ops schema_create ops [] with
       | Err c -> "ERR " ^ zs c
       | Fault f -> "FAULT " ^ fault_name f
       | Ok (b, rets) ->
           let s = as_schema b in
           let rootnc = match b.b_elems with e :: _ -> zs e.e_nc | [] -> "?" in
           let m = Printf.sprintf "OK rets=%s n=%s k=%s cap=%s L=%s E=%s rootnc=%s F=%s" (join (List.map zs rets))
             (zs (num_elements s)) (zs (num_columns s)) (zs b.b_capacity) (leaves_text s.s_leaves) (elements_text s)
             rootnc (finds_text s finds) in
           if tree = "-" then m else m ^ " | " ^ spec_text tree finds)
  | _ -> "RUNNER-ERROR unknown-op"
let () = main_loop handle
