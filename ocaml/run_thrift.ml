(* conv: n z *)
(* Runner for the thrift engine (C13): extracted ThriftModel / ParquetMetaModel / ThriftSpec.
   Same case lines and same result lines as harness/h_thrift.c. *)
module T = Thrift_ext

let fault_name = function
  | T.OobRead -> "OobRead" | T.OobWrite -> "OobWrite" | T.NullDeref -> "NullDeref"
  | T.DepthExceeded -> "DepthExceeded" | T.ShiftTooWide -> "ShiftTooWide" | T.DoubleFree -> "DoubleFree"
  | T.Leak -> "Leak" | T.OutOfFuel -> "OutOfFuel"

let res_line (r : 'a T.res) (f : 'a -> string) : string =
  match r with
  | T.Ok a -> "OK " ^ f a
  | T.Err c -> "ERR " ^ string_of_int (int_of_z c)
  | T.Fault fl -> "FAULT " ^ fault_name fl

let nat_len l = List.length l

(* ---- generic trees ---- *)
let rec mval_to_string (m : T.mval) : string =
  match m with
  | T.MInt z -> "i" ^ shex_of_z z
  | T.MBytes None -> "n"
  | T.MBytes (Some bs) -> "b" ^ hex_of_bytes bs
  | T.MRec l -> "r(" ^ String.concat "," (List.map mval_to_string l) ^ ")"
  | T.MArr l -> "a(" ^ String.concat "," (List.map mval_to_string l) ^ ")"

let is_hex c = (c >= '0' && c <= '9') || (c >= 'a' && c <= 'f')

let parse_mval (s : string) : T.mval =
  let n = String.length s in
  let pos = ref 0 in
  let rec go () : T.mval =
    if !pos >= n then failwith "mval: eof";
    let c = s.[!pos] in
    incr pos;
    match c with
    | 'i' ->
      let st = !pos in
      if !pos < n && s.[!pos] = '-' then incr pos;
      while !pos < n && is_hex s.[!pos] do incr pos done;
      T.MInt (z_of_shex (String.sub s st (!pos - st)))
    | 'n' -> T.MBytes None
    | 'b' ->
      if !pos < n && s.[!pos] = '-' then (incr pos; T.MBytes (Some []))
      else begin
        let st = !pos in
        while !pos < n && is_hex s.[!pos] do incr pos done;
        T.MBytes (Some (bytes_of_hex (String.sub s st (!pos - st))))
      end
    | 'r' | 'a' ->
      if !pos >= n || s.[!pos] <> '(' then failwith "mval: (";
      incr pos;
      let items = ref [] in
      while !pos < n && s.[!pos] <> ')' do
        items := go () :: !items;
        if !pos < n && s.[!pos] = ',' then incr pos
      done;
      if !pos >= n then failwith "mval: )";
      incr pos;
      let l = List.rev !items in
      if c = 'r' then T.MRec l else T.MArr l
    | _ -> failwith "mval: tag"
  in
  go ()

let rec_of (m : T.mval) : T.mval list = match m with T.MRec l -> l | _ -> failwith "record expected"

(* ---- specification values ---- *)
let code_of (t : T.ttype) : int = int_of_n (T.code t)
let rec tval_to_string (v : T.tval) : string =
  match v with
  | T.VBool b -> if b then "t" else "f"
  | T.VByte z -> "y" ^ shex_of_z z
  | T.VI16 z -> "h" ^ shex_of_z z
  | T.VI32 z -> "i" ^ shex_of_z z
  | T.VI64 z -> "l" ^ shex_of_z z
  | T.VDouble b -> "d" ^ hex_of_n b
  | T.VBinary bs -> "b" ^ hex_of_bytes bs
  | T.VList (et, vs) -> "L" ^ string_of_int (code_of et) ^ "(" ^ String.concat "," (List.map tval_to_string vs) ^ ")"
  | T.VSet (et, vs) -> "S" ^ string_of_int (code_of et) ^ "(" ^ String.concat "," (List.map tval_to_string vs) ^ ")"
  | T.VMap kvs -> "M(" ^ String.concat "," (List.map (fun (k, v) -> tval_to_string k ^ ":" ^ tval_to_string v) kvs) ^ ")"
  | T.VStruct fs -> "{" ^ String.concat "," (List.map (fun (id, v) -> string_of_int (int_of_z id) ^ ":" ^ tval_to_string v) fs) ^ "}"
  | T.VUuid bs -> "u" ^ hex_of_bytes bs

(* ---- decoder set-up: `level` open structs, innermost last field id = last ---- *)
let dec_setup (bs : n list) (level : int) (last : z) : T.decoder T.res =
  let rec go i (d : T.decoder) : T.decoder T.res =
    if i = 0 then T.Ok d
    else match T.read_struct_begin d with
      | T.Ok d1 -> go (i - 1) d1
      | T.Err c -> T.Err c
      | T.Fault f -> T.Fault f in
  match go level (T.decoder_init bs) with
  | T.Ok d ->
    T.Ok (match d.T.d_lfid with [] -> d | _ :: t -> { d with T.d_lfid = last :: t })
  | r -> r

let top_lfid (d : T.decoder) : z = match d.T.d_lfid with [] -> Z0 | x :: _ -> x
let pos_s (d : T.decoder) = string_of_int (int_of_n d.T.d_pos)
let b01 b = if b then "1" else "0"

let enc_out (r : T.encoder T.res) : string = res_line r (fun e -> hex_of_bytes (T.e_out e))

let handle toks =
  match toks with
  (* encoder primitives *)
  | ["wvarint"; v] -> enc_out (T.write_varint (n_of_hex v) T.encoder_init)
  | ["wzigzag"; v] -> enc_out (T.write_zigzag (z_of_shex v) T.encoder_init)
  | ["wi16"; v] -> enc_out (T.write_i16 (z_of_shex v) T.encoder_init)
  | ["wi32"; v] -> enc_out (T.write_i32 (z_of_shex v) T.encoder_init)
  | ["wi64"; v] -> enc_out (T.write_i64 (z_of_shex v) T.encoder_init)
  | ["wbyte"; v] -> enc_out (T.write_byte (z_of_shex v) T.encoder_init)
  | ["wbool"; v] -> enc_out (T.write_bool (v <> "0") T.encoder_init)
  | ["wdouble"; v] -> enc_out (T.write_double (n_of_hex v) T.encoder_init)
  | ["wbin"; h] -> let bs = bytes_of_hex h in
      enc_out (T.write_binary (Some bs) (z_of_int (nat_len bs)) T.encoder_init)
  | ["wstr"; h] -> enc_out (T.write_string (if h = "n" then None else Some (bytes_of_hex h)) T.encoder_init)
  | ["wfield"; level; last; ty; id] ->
      let rec go i (e : T.encoder) : T.encoder T.res =
        if i = 0 then T.Ok e else match T.write_struct_begin e with T.Ok e1 -> go (i - 1) e1 | r -> r in
      (match go (int_of_string level) T.encoder_init with
       | T.Ok e ->
         let e = (match e.T.e_lfid with [] -> e | _ :: t -> { e with T.e_lfid = z_of_shex last :: t }) in
         res_line (T.write_field_header (n_of_int (int_of_string ty)) (z_of_shex id) e)
           (fun e2 -> hex_of_bytes (T.e_out e2) ^ " " ^ shex_of_z (match e2.T.e_lfid with [] -> Z0 | x :: _ -> x))
       | r -> enc_out r)
  | ["wset"; ty; c] -> enc_out (T.write_set_begin (n_of_int (int_of_string ty)) (z_of_shex c) T.encoder_init)
  | ["wuuid"; h] -> let bs = bytes_of_hex h in
      if List.length bs = 16 then enc_out (T.write_uuid bs T.encoder_init) else enc_out (T.Ok T.encoder_init)
  | ["wlist"; ty; c] -> enc_out (T.write_list_begin (n_of_int (int_of_string ty)) (z_of_shex c) T.encoder_init)
  | ["wmap"; kt; vt; c] ->
      enc_out (T.write_map_begin (n_of_int (int_of_string kt)) (n_of_int (int_of_string vt)) (z_of_shex c) T.encoder_init)
  | ["wlevel"; k; j] ->
      let k = int_of_string k and j = int_of_string j in
      let rec b i (r : T.encoder T.res) = if i = 0 then r else b (i - 1) (match r with T.Ok e -> T.write_struct_begin e | x -> x) in
      let rec en i (r : T.encoder T.res) = if i = 0 then r else en (i - 1) (match r with T.Ok e -> T.write_struct_end e | x -> x) in
      res_line (en j (b k (T.Ok T.encoder_init))) (fun e -> hex_of_bytes (T.e_out e) ^ " " ^ string_of_int (nat_len e.T.e_lfid))
  | ["wnest"; k] ->
      let k = int_of_string k in
      let rec b i (r : T.encoder T.res) = if i = 0 then r else b (i - 1) (match r with T.Ok e -> T.write_struct_begin e | x -> x) in
      let rec en i (r : T.encoder T.res) = if i = 0 then r else en (i - 1) (match r with T.Ok e -> T.write_struct_end e | x -> x) in
      enc_out (en k (b k (T.Ok T.encoder_init)))
  (* decoder primitives *)
  | op :: level :: last :: h :: rest when String.length op > 1 && op.[0] = 'r' && op.[1] <> 't' ->
      let level = String.concat "" (String.split_on_char 'r' level) in      (* "1r": set up through init_reader, same state *)
      (match dec_setup (bytes_of_hex h) (int_of_string level) (z_of_shex last) with
       | T.Ok d ->
         (match op, rest with
          | "rvarint", [] -> res_line (T.read_varint d) (fun (v, d1) -> hex_of_n v ^ " " ^ pos_s d1)
          | "rzigzag", [] -> res_line (T.read_zigzag d) (fun (v, d1) -> shex_of_z v ^ " " ^ pos_s d1)
          | "ri16", [] -> res_line (T.read_i16 d) (fun (v, d1) -> shex_of_z v ^ " " ^ pos_s d1)
          | "ri32", [] -> res_line (T.read_i32 d) (fun (v, d1) -> shex_of_z v ^ " " ^ pos_s d1)
          | "ri64", [] -> res_line (T.read_i64 d) (fun (v, d1) -> shex_of_z v ^ " " ^ pos_s d1)
          | "rbyte", [] -> res_line (T.read_byte d) (fun (v, d1) -> shex_of_z v ^ " " ^ pos_s d1)
          | "rbool", [] -> res_line (T.read_bool d) (fun (v, d1) -> b01 v ^ " " ^ pos_s d1)
          | "rdouble", [] -> res_line (T.read_double d) (fun (v, d1) -> hex_of_n v ^ " " ^ pos_s d1)
          | "rbin", [] -> res_line (T.read_binary d) (fun (v, d1) -> hex_of_bytes v ^ " " ^ pos_s d1)
          | "rfield", [] ->
            res_line (T.read_field_begin d) (fun (hd, d1) ->
              let pre = (match hd with
                         | None -> "0 0 0"
                         | Some (ty, id) -> "1 " ^ string_of_int (int_of_n ty) ^ " " ^ string_of_int (int_of_z id)) in
              pre ^ " " ^ string_of_int (int_of_z (top_lfid d1)) ^ " " ^ b01 d1.T.d_boolp ^ " "
              ^ (if d1.T.d_boolp then b01 d1.T.d_boolv else "0") ^ " " ^ pos_s d1)
          | "rlist", [] -> res_line (T.read_list_begin d) (fun ((et, c), d1) ->
              string_of_int (int_of_n et) ^ " " ^ string_of_int (int_of_z c) ^ " " ^ pos_s d1)
          | "rmap", [] -> res_line (T.read_map_begin d) (fun (((kt, vt), c), d1) ->
              string_of_int (int_of_n kt) ^ " " ^ string_of_int (int_of_n vt) ^ " " ^ string_of_int (int_of_z c) ^ " " ^ pos_s d1)
          | "rlevel", [j] ->
              let rec en i (d : T.decoder) = if i = 0 then d else en (i - 1) (T.read_struct_end d) in
              let d1 = en (int_of_string j) d in
              "OK " ^ string_of_int (nat_len d1.T.d_lfid) ^ " " ^ pos_s d1
          | "rset", [] -> res_line (T.read_set_begin d) (fun ((et, c), d1) ->
              string_of_int (int_of_n et) ^ " " ^ string_of_int (int_of_z c) ^ " " ^ pos_s d1)
          | "ruuid", [] -> res_line (T.read_uuid d) (fun (v, d1) -> hex_of_bytes v ^ " " ^ pos_s d1)
          | "rstr", [] -> res_line (T.read_string d) (fun (v, d1) -> hex_of_bytes v ^ " " ^ pos_s d1)
          | "rskipf", [ty] -> res_line (T.skip_field (n_of_int (int_of_string ty)) d) (fun d1 ->
              string_of_int (nat_len d1.T.d_lfid) ^ " " ^ pos_s d1)
          | "rskip", [ty] -> res_line (T.thrift_skip (n_of_int (int_of_string ty)) d) (fun d1 ->
              string_of_int (nat_len d1.T.d_lfid) ^ " " ^ pos_s d1)
          | _ -> "RUNNER-ERROR unknown-op")
       | T.Err c -> "ERR " ^ string_of_int (int_of_z c)
       | T.Fault f -> "FAULT " ^ fault_name f)
  (* metadata *)
  | ["wfm"; m] -> res_line (T.write_file_metadata (rec_of (parse_mval m))) hex_of_bytes
  | ["wph"; m] -> res_line (T.write_page_header (rec_of (parse_mval m))) hex_of_bytes
  | ["rtfm"; m] ->
      res_line (T.write_file_metadata (rec_of (parse_mval m))) (fun bs ->
        hex_of_bytes bs ^ " " ^ res_line (T.parse_file_metadata bs) (fun (r, c) ->
          string_of_int (int_of_n c) ^ " " ^ mval_to_string (T.MRec r)))
  | ["rtph"; m] ->
      res_line (T.write_page_header (rec_of (parse_mval m))) (fun bs ->
        hex_of_bytes bs ^ " " ^ res_line (T.parse_page_header bs) (fun (r, c) ->
          string_of_int (int_of_n c) ^ " " ^ mval_to_string (T.MRec r)))
  | ["pfm"; h] -> res_line (T.parse_file_metadata (bytes_of_hex h)) (fun (r, c) ->
      string_of_int (int_of_n c) ^ " " ^ mval_to_string (T.MRec r))
  | ["pph"; h] -> res_line (T.parse_page_header (bytes_of_hex h)) (fun (r, c) ->
      string_of_int (int_of_n c) ^ " " ^ mval_to_string (T.MRec r))
  (* the semantics the theorems are stated with: domain check, norm, to_tval *)
  | ["sem"; st; m] ->
      let r = rec_of (parse_mval m) in
      if st = "fm" then
        "OK " ^ b01 (T.wfb_file_metadata r) ^ " " ^ mval_to_string (T.MRec (T.norm_file_metadata r)) ^ " "
        ^ tval_to_string (T.to_tval_file_metadata r)
      else
        "OK " ^ b01 (T.wfb_page_header r) ^ " " ^ mval_to_string (T.MRec (T.norm_page_header r)) ^ " "
        ^ tval_to_string (T.to_tval_page_header r)
  (* specification *)
  | ["sdec"; h] -> (match T.spec_decode (bytes_of_hex h) with Some v -> "OK " ^ tval_to_string v | None -> "NONE")
  | ["sround"; h] ->
      (* decode, canonically re-encode, decode again: must give the same value *)
      (match T.spec_decode (bytes_of_hex h) with
       | Some v -> let bs = T.spec_encode v in
         (match T.spec_decode bs with
          | Some v2 -> if v = v2 then "OK " ^ hex_of_bytes bs else "DIFF " ^ hex_of_bytes bs
          | None -> "DIFF-NONE " ^ hex_of_bytes bs)
       | None -> "NONE")
  | _ -> "RUNNER-ERROR unknown-op"
let () = main_loop handle
