(* conv: n z *)
(* Runner for the reader engine: the extracted CursorModel / BatchModel replay the case lines of
   harness/h_reader.c and print the same canonical result lines.  Values are opaque tokens (hex text). *)
let garbage = "!garbage"

let split_on c s = String.split_on_char c s

type coldef = { cname : string; ctyp : string; cnullable : bool }

(* w:<codec>:<coldefs>:<rowgroups>  ->  codec, coldefs, rowgroups (rg -> column -> page -> row token) *)
let parse_wspec (s : string) =
  match split_on ':' s with
  | "w" :: codec :: defs :: rest ->
      let rgs = String.concat ":" rest in
      let cols = List.map (fun d ->
        match split_on '=' d with
        | [n; t] ->
            let nl = String.length t > 0 && t.[String.length t - 1] = '?' in
            { cname = n; ctyp = (if nl then String.sub t 0 (String.length t - 1) else t); cnullable = nl }
        | _ -> failwith "bad-coldef") (split_on ',' defs) in
      let table = List.map (fun rg ->
        (* a chunk without pages is "", an empty page (no values) is "" between the page separators *)
        List.map (fun ch -> if ch = "" then [] else List.map (fun pg -> if pg = "" then [] else split_on '.' pg) (split_on '/' ch))
          (split_on ';' rg)) (split_on '|' rgs) in
      (* "<codec>" or "<codec>d" (d: values are dictionary encoded, i.e. not PLAIN) *)
      let plain = not (String.length codec > 0 && codec.[String.length codec - 1] = 'd') in
      let codec = if plain then codec else String.sub codec 0 (String.length codec - 1) in
      (int_of_string codec, plain, cols, table)
  | _ -> failwith "bad-spec"

let page_of (rows : string list) : string Reader_ext.page =
  { Reader_ext.pg_levels = List.map (fun r -> if r = "N" then N0 else n_of_int 1) rows;
    Reader_ext.pg_vals = List.filter (fun r -> r <> "N") rows }

(* physical type id of a column type token *)
let type_id t =
  if t = "bool" then 0 else if t = "i32" then 1 else if t = "i64" then 2 else if t = "i96" then 3 else if t = "f32" then 4
  else if t = "f64" then 5 else if t = "ba" then 6 else 7
(* zero-copy eligibility of a chunk: codec UNCOMPRESSED, encoding PLAIN, type accepted by the regenerated rule *)
let eligible codec plain t = codec = 0 && plain && Reader_ext.reader_zero_copy_type (nat_of_int (type_id t))

let parse_ops (s : string) : Reader_ext.op list =
  List.map (fun t ->
    let k () = z_of_int (int_of_string (String.sub t 1 (String.length t - 1))) in
    match t.[0] with
    | 'r' -> Reader_ext.Read (k ())
    | 'q' -> Reader_ext.ReadNoDef (k ())
    | 's' -> Reader_ext.Skip (k ())
    | 'h' -> Reader_ext.HasNext
    | 'm' -> Reader_ext.Remaining
    | 'n' -> Reader_ext.Reopen
    | _ -> failwith "bad-op") (split_on ',' s)

let row_tok = function None -> "N" | Some v -> v

let print_out (nullable : bool) (o : string Reader_ext.out) : string =
  match o with
  | Reader_ext.ORead (ret, rows) ->
      let r = int_of_z ret in
      if r > 0 then Printf.sprintf "r%d:%s" r (String.concat "." (List.map row_tok rows)) else Printf.sprintf "r%d" r
  | Reader_ext.OReadNoDef (ret, vals) ->
      let r = int_of_z ret in
      if r > 0 && not nullable then Printf.sprintf "q%d:%s" r (String.concat "." vals) else Printf.sprintf "q%d" r
  | Reader_ext.OSkip n -> Printf.sprintf "s%d" (int_of_z n)
  | Reader_ext.OHas b -> if b then "h1" else "h0"
  | Reader_ext.ORem n -> Printf.sprintf "m%d" (int_of_z n)
  | Reader_ext.OReopened -> "n"

let fault_name = function
  | Reader_ext.OobRead -> "OobRead" | Reader_ext.OobWrite -> "OobWrite" | Reader_ext.OutOfFuel -> "OutOfFuel"
  | _ -> "other"

let handle toks =
  match toks with
  | ["col"; mode; _verify; spec; rg; col; ops] ->
      let (codec, plain, cols, table) = parse_wspec spec in
      let c = int_of_string col and g = int_of_string rg in
      let cd = List.nth cols c in
      let pages = List.map page_of (List.nth (List.nth table g) c) in
      let max_def = if cd.cnullable then n_of_int 1 else N0 in
      let zc = mode <> "f" && eligible codec plain cd.ctyp in
      let st = Reader_ext.open0 max_def zc pages in
      (match Reader_ext.run garbage true (parse_ops ops) st with
       | Reader_ext.Ok outs -> "OK " ^ String.concat " " (List.map (print_out cd.cnullable) outs)
       | Reader_ext.Err _ -> "MODEL-ERR"
       | Reader_ext.Fault f -> "MODEL-FAULT " ^ fault_name f)
  | ["bat"; mode; _verify; spec; bs; proj] ->
      let (codec, plain, cols, table) = parse_wspec spec in
      (* "d": carquet_batch_reader_create(reader, NULL): carquet_batch_reader_config_init's batch size, all columns *)
      let (bs, proj) = if bs = "d" then ("65536", "all") else (bs, proj) in
      let m = (match mode with "f" -> Reader_ext.Fread | "m" -> Reader_ext.Mmap | _ -> Reader_ext.Buffer) in
      let file = List.map (fun rg ->
        List.mapi (fun i ch ->
          let cd = List.nth cols i in
          { Reader_ext.ch_max_def = (if cd.cnullable then n_of_int 1 else N0);
            Reader_ext.ch_pages = List.map page_of ch;
            Reader_ext.ch_eligible = eligible codec plain cd.ctyp }) rg) table in
      let names = List.map (fun c -> c.cname) cols in
      let rec index_of x l i = match l with [] -> failwith "no-such-column" | y :: t -> if x = y then i else index_of x t (i + 1) in
      (* names are resolved to file column indices before the modelled code runs (carquet_batch_reader_create ->
         carquet_schema_find_column: exact match of the whole name, first match); an unknown name is COLUMN_NOT_FOUND *)
      let pcols =
        try
          if proj = "all" || proj = "i0" || proj = "n0" then List.mapi (fun i _ -> i) cols
          else if String.sub proj 0 2 = "i:" then List.map int_of_string (split_on ',' (String.sub proj 2 (String.length proj - 2)))
          else List.map (fun nm -> index_of nm names 0) (split_on ',' (String.sub proj 2 (String.length proj - 2)))
        with Failure _ -> [-1] in
      if pcols = [-1] then "ERR create 61" else
      let bits l = if l = [] then "-" else String.concat "" (List.map (fun b -> if b then "1" else "0") l) in
      let vals l = if l = [] then "-" else String.concat "." (List.map (fun v -> if v = "" then "-" else v) l) in
      (match Reader_ext.batches garbage true true m file (List.map nat_of_int pcols) (z_of_int (int_of_string bs)) with
       | Reader_ext.Ok (bl, status) ->
           let pb (b : string Reader_ext.batch) =
             Printf.sprintf "B%d[%s]" (int_of_z b.Reader_ext.b_num_rows)
               (String.concat "|" (List.map (fun (c : string Reader_ext.batch_col) ->
                  Printf.sprintf "%d:%s:%s" (int_of_z c.Reader_ext.bc_num_values) (bits c.Reader_ext.bc_bitmap) (vals c.Reader_ext.bc_packed))
                  b.Reader_ext.b_cols)) in
           "OK" ^ String.concat "" (List.map (fun b -> " " ^ pb b) bl) ^ Printf.sprintf " E%d L1" (int_of_z status)
       | Reader_ext.Err _ -> "MODEL-ERR"
       | Reader_ext.Fault f -> "MODEL-FAULT " ^ fault_name f)
  | ["foot"; mode; hex] ->
      let m = (match mode with "f" -> Reader_ext.Fread | "m" -> Reader_ext.Mmap | _ -> Reader_ext.Buffer) in
      (match Reader_ext.footer_location m (bytes_of_hex hex) with
       | None -> "ERR"
       | Some (off, len) -> Printf.sprintf "OK %d %d" (int_of_n off) (int_of_n len))
  | _ -> "RUNNER-ERROR unknown-op"
let () = main_loop handle
