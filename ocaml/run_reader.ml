(* conv: n z *)
(* Runner for the reader engine: the extracted CursorModel / BatchModel replay the case lines of
   harness/h_reader.c and print the same canonical result lines.  Values are opaque tokens (hex text). *)
let garbage = "!garbage"

let split_on c s = String.split_on_char c s

type coldef = { cname : string; ctyp : string; cnullable : bool }

(* w:<codec>:<coldefs>:<rowgroups>  ->  codec, coldefs, rowgroups (rg -> column -> page -> row token) *)
let parse_wspec (s : string) =
  match split_on ':' s with
  | "w" :: codec :: defs :: rest ->
      let rgs = String.concat ":" rest in
      let cols = List.map (fun d ->
        match split_on '=' d with
        | [n; t] ->
            let nl = String.length t > 0 && t.[String.length t - 1] = '?' in
            { cname = n; ctyp = (if nl then String.sub t 0 (String.length t - 1) else t); cnullable = nl }
        | _ -> failwith "bad-coldef") (split_on ',' defs) in
      let table = List.map (fun rg ->
        List.map (fun ch -> if ch = "" then [] else List.map (fun pg -> split_on '.' pg) (split_on '/' ch))
          (split_on ';' rg)) (split_on '|' rgs) in
      (int_of_string codec, cols, table)
  | _ -> failwith "bad-spec"

let page_of (rows : string list) : string Reader_ext.page =
  { Reader_ext.pg_levels = List.map (fun r -> if r = "N" then N0 else n_of_int 1) rows;
    Reader_ext.pg_vals = List.filter (fun r -> r <> "N") rows }

let fixed_width t = (t = "i32" || t = "i64" || t = "f32" || t = "f64" || (String.length t > 2 && String.sub t 0 2 = "fl"))

let parse_ops (s : string) : Reader_ext.op list =
  List.map (fun t ->
    let k () = z_of_int (int_of_string (String.sub t 1 (String.length t - 1))) in
    match t.[0] with
    | 'r' -> Reader_ext.Read (k ())
    | 'q' -> Reader_ext.ReadNoDef (k ())
    | 's' -> Reader_ext.Skip (k ())
    | 'h' -> Reader_ext.HasNext
    | 'm' -> Reader_ext.Remaining
    | 'n' -> Reader_ext.Reopen
    | _ -> failwith "bad-op") (split_on ',' s)

let row_tok = function None -> "N" | Some v -> v

let print_out (nullable : bool) (o : string Reader_ext.out) : string =
  match o with
  | Reader_ext.ORead (ret, rows) ->
      let r = int_of_z ret in
      if r > 0 then Printf.sprintf "r%d:%s" r (String.concat "." (List.map row_tok rows)) else Printf.sprintf "r%d" r
  | Reader_ext.OReadNoDef (ret, vals) ->
      let r = int_of_z ret in
      if r > 0 && not nullable then Printf.sprintf "q%d:%s" r (String.concat "." vals) else Printf.sprintf "q%d" r
  | Reader_ext.OSkip n -> Printf.sprintf "s%d" (int_of_z n)
  | Reader_ext.OHas b -> if b then "h1" else "h0"
  | Reader_ext.ORem n -> Printf.sprintf "m%d" (int_of_z n)
  | Reader_ext.OReopened -> "n"

let fault_name = function
  | Reader_ext.OobRead -> "OobRead" | Reader_ext.OobWrite -> "OobWrite" | Reader_ext.OutOfFuel -> "OutOfFuel"
  | _ -> "other"

let handle toks =
  match toks with
  | ["col"; mode; _verify; spec; rg; col; ops] ->
      let (codec, cols, table) = parse_wspec spec in
      let c = int_of_string col and g = int_of_string rg in
      let cd = List.nth cols c in
      let pages = List.map page_of (List.nth (List.nth table g) c) in
      let max_def = if cd.cnullable then n_of_int 1 else N0 in
      let zc = mode <> "f" && codec = 0 && fixed_width cd.ctyp in
      let st = Reader_ext.open0 max_def zc pages in
      (match Reader_ext.run garbage true (parse_ops ops) st with
       | Reader_ext.Ok outs -> "OK " ^ String.concat " " (List.map (print_out cd.cnullable) outs)
       | Reader_ext.Err _ -> "MODEL-ERR"
       | Reader_ext.Fault f -> "MODEL-FAULT " ^ fault_name f)
  | _ -> "RUNNER-ERROR unknown-op"
let () = main_loop handle
