(* conv: n *)
(* Runner for the loop-shaped bit packing model (BitpackLoopModel.unpack8_c / pack8_c).
   Same case syntax as harness/h_enc.c:
     pack8 <w> v0 .. v7   ->  OK <hex of the w output bytes> | FAULT <kind>
     unpack8 <w> <hex>    ->  OK v0,..,v7                    | FAULT
   Values travel as decimal tokens (they fit in 32 bits), byte strings as hex. *)
let ints toks = List.map (fun t -> n_of_int (int_of_string t)) toks
let show_vals vs = if vs = [] then "-" else String.concat "," (List.map (fun v -> string_of_int (int_of_n v)) vs)
let fault_name f = match f with
  | Bitloop_ext.OobRead -> "oob-read" | Bitloop_ext.OobWrite -> "oob-write"
  | Bitloop_ext.ShiftTooWide -> "shift-too-wide" | Bitloop_ext.OutOfFuel -> "out-of-fuel"
  | _ -> "other"
let handle toks =
  match toks with
  | "pack8" :: w :: vs ->
      (match Bitloop_ext.pack8_c (nat_of_int (int_of_string w)) (ints vs) with
       | Bitloop_ext.Ok bs -> "OK " ^ hex_of_bytes bs
       | Bitloop_ext.Err _ -> "ERR"
       | Bitloop_ext.Fault f -> "FAULT " ^ fault_name f)
  | ["unpack8"; w; data] ->
      (match Bitloop_ext.unpack8_c (nat_of_int (int_of_string w)) (bytes_of_hex data) with
       | Bitloop_ext.Ok vs -> "OK " ^ show_vals vs
       | Bitloop_ext.Err _ -> "ERR"
       | Bitloop_ext.Fault Bitloop_ext.OobRead -> "FAULT"
       | Bitloop_ext.Fault f -> "FAULT " ^ fault_name f)
  | _ -> "RUNNER-ERROR unknown-op"
let () = main_loop handle
