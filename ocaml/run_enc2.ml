(* conv: n z *)
(* Runner for the enc2 engine (PLAIN, DELTA_*, BYTE_STREAM_SPLIT, dictionary: models and reference decoders).
   Same case lines and the same canonical result lines as harness/h_enc2.c:
     numbers: comma separated hex bit patterns ("-" empty); byte strings: hex ("-" empty);
     lists of byte strings: comma separated, "." empty string, "-" empty list. *)
module E = Enc2_ext

let split_commas s = if s = "-" then [] else String.split_on_char ',' s
let nums s = List.map n_of_hex (split_commas s)
let show_nums l = if l = [] then "-" else String.concat "," (List.map hex_of_n l)
let bas s = List.map (fun t -> if t = "." then [] else bytes_of_hex t) (split_commas s)
let show_bas l = if l = [] then "-" else String.concat "," (List.map (fun b -> if b = [] then "." else hex_of_bytes b) l)
let dec_n s = n_of_int (int_of_string s)
let dec_nat s = nat_of_int (int_of_string s)
let str_n x = string_of_int (int_of_n x)
let fault_name = function
  | E.OobRead -> "OobRead" | E.OobWrite -> "OobWrite" | E.NullDeref -> "NullDeref" | E.DepthExceeded -> "DepthExceeded"
  | E.ShiftTooWide -> "ShiftTooWide" | E.DoubleFree -> "DoubleFree" | E.Leak -> "Leak" | E.OutOfFuel -> "OutOfFuel"
let res f r = match r with
  | E.Ok a -> "OK " ^ f a
  | E.Err c -> "ERR " ^ string_of_int (int_of_z c)
  | E.Fault x -> "FAULT " ^ fault_name x
let opt f r = match r with Some a -> "OK " ^ f a | None -> "ERR spec"
let rec triples l = match l with a :: b :: c :: t -> ((a, b), c) :: triples t | _ -> []
let rec untriples l = match l with ((a, b), c) :: t -> a :: b :: c :: untriples t | [] -> []
let rec chunks k l =
  if l = [] then [] else
  let rec go i acc l = if i = 0 then (List.rev acc, l) else match l with x :: t -> go (i - 1) (x :: acc) t | [] -> (List.rev acc, []) in
  let (a, r) = go k [] l in a :: chunks k r
let width_of ty = if ty = "f32" then 4 else if ty = "f64" then 8 else int_of_string ty
let big s = String.length s > 7   (* decimal counts beyond 10^7 are never run through the model *)

(* "OK <hex> ..." with the bytes already in the buffer put in front of the first [nbufs] byte strings *)
let with_prefix nbufs pre line =
  match String.split_on_char ' ' line with
  | "OK" :: rest ->
      let p = if pre = "-" then "" else pre in
      let rec go k l = match l with
        | x :: t when k > 0 -> (let x' = (if x = "-" then "" else x) in let y = p ^ x' in (if y = "" then "-" else y)) :: go (k - 1) t
        | l -> l in
      String.concat " " ("OK" :: go nbufs rest)
  | _ -> line

let rec handle toks =
  (* very large cases (BYTE_STREAM_SPLIT with tens of thousands of values) are not run through the inductive numbers *)
  let total = List.fold_left (fun a t -> a + String.length t) 0 toks in
  let is_bss = (match toks with op :: _ -> (String.length op >= 3 && String.sub op 0 3 = "bss") || (String.length op >= 8 && String.sub op 0 8 = "spec_bss") | [] -> false) in
  if total > 300000 || (is_bss && total > 20000) then "SKIP" else
  match toks with
  | ["plain_decg"; "bad"; _; _] -> "ERR -1"
  | ["plain_decg"; ty; count; data] -> handle ["plain_dec"; ty; count; data]   (* carquet_decode_plain only dispatches *)
  | ["plain_encp"; ty; vals; pre] -> with_prefix 1 pre (handle ["plain_enc"; ty; vals])
  | ["dl_encp"; vals; pre] -> with_prefix 1 pre (handle ["dl_enc"; vals])
  | ["ds_encp"; vals; pre] -> with_prefix 1 pre (handle ["ds_enc"; vals])
  | ["dict_encp"; ty; vals; pre] -> with_prefix 2 pre (handle ["dict_enc"; ty; vals])
  (* ------------------------------------------------------------ PLAIN *)
  | ["plain_enc"; ty; vals] ->
      (match ty with
       | "bool" -> "OK " ^ hex_of_bytes (E.plain_encode_boolean (nums vals))
       | "i32" | "f32" -> "OK " ^ hex_of_bytes (E.enc_fixed (nat_of_int 4) (nums vals))
       | "i64" | "f64" -> "OK " ^ hex_of_bytes (E.enc_fixed (nat_of_int 8) (nums vals))
       | "i96" -> "OK " ^ hex_of_bytes (E.plain_encode_int96 (triples (nums vals)))
       | "ba" -> "OK " ^ hex_of_bytes (E.plain_encode_byte_array (bas vals))
       | _ -> "OK " ^ hex_of_bytes (E.plain_encode_flba (bytes_of_hex vals)))
  | ["plain_dec"; ty; count; data] ->
      if big count then "SKIP" else
      let d = bytes_of_hex data and c = dec_n count in
      (match ty with
       | "bool" -> res (fun (vs, n) -> str_n n ^ " " ^ show_nums vs) (E.plain_decode_boolean d c)
       | "i32" | "f32" -> res (fun (vs, n) -> str_n n ^ " " ^ show_nums vs) (E.dec_fixed (nat_of_int 4) d c)
       | "i64" | "f64" -> res (fun (vs, n) -> str_n n ^ " " ^ show_nums vs) (E.dec_fixed (nat_of_int 8) d c)
       | "i96" -> res (fun (vs, n) -> str_n n ^ " " ^ show_nums (untriples vs)) (E.plain_decode_int96 d c)
       | "ba" -> res (fun (vs, n) -> str_n n ^ " " ^ show_bas vs) (E.plain_decode_byte_array d c)
       | _ -> let w = int_of_string (String.sub ty 4 (String.length ty - 4)) in
              res (fun (v, n) -> str_n n ^ " " ^ hex_of_bytes v) (E.plain_decode_flba d c (n_of_int w)))
  | ["spec_plain"; ty; count; data] ->
      let d = bytes_of_hex data and c = dec_nat count in
      let fin show (vs, rest) = string_of_int (List.length d - List.length rest) ^ " " ^ show vs in
      (match ty with
       | "bool" -> opt (fin show_nums) (E.spec_bool_dec c d)
       | "i32" | "f32" -> opt (fin show_nums) (E.spec_fixed_dec (nat_of_int 4) c d)
       | "i64" | "f64" -> opt (fin show_nums) (E.spec_fixed_dec (nat_of_int 8) c d)
       | "i96" -> opt (fin show_nums) (E.spec_fixed_dec (nat_of_int 4) (nat_of_int (3 * int_of_string count)) d)
       | "ba" -> opt (fin show_bas) (E.spec_ba_dec c d)
       | _ -> let w = int_of_string (String.sub ty 4 (String.length ty - 4)) in
              opt (fin (fun vs -> hex_of_bytes (List.concat vs))) (E.spec_flba_dec (nat_of_int w) c d))
  (* ------------------------------------------------------------ DELTA_BINARY_PACKED *)
  | ["d32_enc"; cap; vals] -> res hex_of_bytes (E.delta_encode_int32 (nums vals) (dec_n cap))
  | ["d64_enc"; cap; vals] -> res hex_of_bytes (E.delta_encode_int64 (nums vals) (dec_n cap))
  | ["d32_dec"; count; data] ->
      if big count then "SKIP" else
      let c = int_of_string count in
      res (fun (vs, n) -> str_n n ^ " " ^ show_nums vs) (E.delta_decode_int32 (bytes_of_hex data) (n_of_int (max c 0)))
  | ["d64_dec"; count; data] ->
      if big count then "SKIP" else
      let c = int_of_string count in
      res (fun (vs, n) -> str_n n ^ " " ^ show_nums vs) (E.delta_decode_int64 (bytes_of_hex data) (n_of_int (max c 0)))
  | ["spec_delta"; bits; data] ->
      let d = bytes_of_hex data in
      opt (fun st -> string_of_int (List.length d - List.length st.E.ds_rest) ^ " " ^ show_nums st.E.ds_values
                     ^ " " ^ str_n st.E.ds_block ^ " " ^ str_n st.E.ds_minis)
        (E.spec_delta_decode (dec_n bits) d)
  (* ------------------------------------------------------------ DELTA_LENGTH / DELTA_BYTE_ARRAY *)
  | ["dl_enc"; vals] -> res hex_of_bytes (E.delta_length_encode (bas vals))
  | ["ds_enc"; vals] -> res hex_of_bytes (E.delta_strings_encode (bas vals))
  | ["dl_dec"; count; data] ->
      if big count then "SKIP" else
      res (fun (vs, n) -> str_n n ^ " " ^ show_bas vs) (E.delta_length_decode (bytes_of_hex data) (n_of_int (max 0 (int_of_string count))))
  | ["ds_dec"; count; wcap; data] ->
      if big count then "SKIP" else
      res (fun (vs, n) -> str_n n ^ " " ^ show_bas vs)
        (E.delta_strings_decode (bytes_of_hex data) (n_of_int (max 0 (int_of_string count))) (dec_n wcap))
  | ["spec_dl"; data] ->
      let d = bytes_of_hex data in
      opt (fun (vs, rest) -> string_of_int (List.length d - List.length rest) ^ " " ^ show_bas vs) (E.spec_delta_length_decode d)
  | ["spec_ds"; data] ->
      let d = bytes_of_hex data in
      opt (fun (vs, rest) -> string_of_int (List.length d - List.length rest) ^ " " ^ show_bas vs) (E.spec_delta_strings_decode d)
  (* ------------------------------------------------------------ BYTE_STREAM_SPLIT *)
  | ["bss_enc"; kind; cap; raw] ->
      let w = width_of kind in
      let r = bytes_of_hex raw in
      let count = if w > 0 then List.length r / w else 0 in
      res hex_of_bytes (E.bss_encode (n_of_int w) r (n_of_int count) (dec_n cap))
  | ["bss_dec"; kind; count; data] ->
      if big count then "SKIP" else
      res hex_of_bytes (E.bss_decode (n_of_int (width_of kind)) (bytes_of_hex data) (n_of_int (max 0 (int_of_string count))))
  | ["spec_bss_dec"; kind; count; data] ->
      opt (fun vs -> hex_of_bytes (List.concat vs)) (E.spec_bss_dec (nat_of_int (width_of kind)) (dec_nat count) (bytes_of_hex data))
  | ["spec_bss_enc"; kind; raw] ->
      let w = width_of kind in
      "OK " ^ hex_of_bytes (E.spec_bss_enc (nat_of_int w) (chunks w (bytes_of_hex raw)))
  (* ------------------------------------------------------------ dictionary *)
  | ["dict_enc"; ty; vals] ->
      let (d, ix) = (match ty with
        | "ba" -> E.dict_encode_byte_array_i (bas vals)
        | "i32" | "f32" -> E.dict_encode_fixed_i (nat_of_int 4) (nums vals)
        | _ -> E.dict_encode_fixed_i (nat_of_int 8) (nums vals)) in
      (* also the builder's view: bit width and the index list *)
      let entries = (match ty with
        | "ba" -> bas vals
        | "i32" | "f32" -> List.map (fun v -> E.le_bytes_f (nat_of_int 4) v) (nums vals)
        | _ -> List.map (fun v -> E.le_bytes_f (nat_of_int 8) v) (nums vals)) in
      let (dd, idx) = E.build entries [] in
      let bw = E.bit_width_for_count (n_of_int (List.length dd)) in
      Printf.sprintf "OK %s %s %s %d %s" (hex_of_bytes d) (hex_of_bytes ix) (str_n bw) (List.length idx) (show_nums idx)
  | ["dict_dec"; ty; dc; oc; dict; ix] ->
      if big oc then "SKIP" else
      let k = if ty = "i32" || ty = "f32" then 4 else 8 in
      res show_nums (E.dict_decode_fixed_i (nat_of_int k) (bytes_of_hex dict) (z_of_int (int_of_string dc))
                       (bytes_of_hex ix) (n_of_int (max 0 (int_of_string oc))))
  | _ -> "RUNNER-ERROR unknown-op"
let () = main_loop handle
