(* conv: n *)
(* Runner for the alloc engine (C19): the extracted models of Alloc/BufferModel.v, ArenaModel.v and
   SiteModel.v with the k-th request denied (k = 0: none).
     buf   <k> <size,size,...>                    -> OK <status,status,...> <size> <capacity>
     arena <k> <default block> <n:al,n:al,...>    -> OK <blk:off|null,...>     (request 1 is arena_init)
     site  <k> <CCI;CU;...>                       -> OK <ok|err|fault> <effect> <closed>   C checked P propagated I ignored U unchecked *)
let split_on c s = if s = "-" || s = "" then [] else String.split_on_char c s
let handle toks =
  match toks with
  | ["buf"; k; sizes] ->
      let ((sts, sz), cap) = Alloc_ext.buf_run (List.map (fun t -> n_of_int (int_of_string t)) (split_on ',' sizes)) (nat_of_int (int_of_string k)) in
      Printf.sprintf "OK %s %d %d" (String.concat "," (List.map (fun x -> string_of_int (int_of_n x)) sts)) (int_of_n sz) (int_of_n cap)
  | ["arena"; k; dflt; reqs] ->
      let rs = List.map (fun r -> match String.split_on_char ':' r with
                 | [n; al] -> (n_of_int (int_of_string n), n_of_int (int_of_string al)) | _ -> failwith "bad request") (split_on ',' reqs) in
      let out = Alloc_ext.arena_run (n_of_int (int_of_string dflt)) rs (nat_of_int (int_of_string k)) in
      "OK " ^ (if out = [] then "-" else String.concat "," (List.map (function
                 | None -> "null" | Some (i, off) -> Printf.sprintf "%d:%d" (int_of_nat i) (int_of_n off)) out))
  | ["site"; k; calls] ->
      let cls = function 'C' -> Alloc_ext.Checked | 'P' -> Alloc_ext.Propagated | 'I' -> Alloc_ext.Ignored | 'U' -> Alloc_ext.Unchecked
                       | _ -> failwith "bad class" in
      let sc = List.map (fun c -> List.init (String.length c) (fun i -> cls c.[i])) (split_on ';' calls) in
      let r = Alloc_ext.site_run sc (nat_of_int (int_of_string k)) in
      Printf.sprintf "OK %s %s %d"
        (match r.Alloc_ext.r_status with Alloc_ext.SOk -> "ok" | Alloc_ext.SErr -> "err" | Alloc_ext.SFault -> "fault")
        (if r.Alloc_ext.r_effect = [] then "-" else String.concat "," (List.map (fun x -> string_of_int (int_of_nat x)) r.Alloc_ext.r_effect))
        (if r.Alloc_ext.r_closed then 1 else 0)
  | _ -> "RUNNER-ERROR unknown-op"
let () = main_loop handle
