(* conv: n z *)
(* Runner for the stats engine (C16): extracted models of the statistics builder, the page writer's running
   statistics, the reader-side statistics / pruning functions and the compare / overlap / page helpers.
   Same case lines as harness/h_stats.c; the answer is the harness's text without the ground-truth suffix. *)
let soi = string_of_int
let zs (x : z) = soi (int_of_z x)
let zi s = z_of_int (int_of_string s)
let split c s = if s = "-" || s = "" then [] else String.split_on_char c s
let bytes_of s = if s = "e" then [] else bytes_of_hex s
let hex_or_e l = if l = [] then "e" else hex_of_bytes l
let opt_bytes s = if s = "-" then None else Some (bytes_of s)
let qbound s = if s = "N" then None else Some (bytes_of s)
let fault_name = function SOobRead -> "oob-read" | SOobWrite -> "oob-write"
let ptype_of s = match ptype_of_code (zi s) with Some t -> t | None -> failwith "bad type"
let show_opt = function None -> "NULL" | Some l -> hex_or_e l

let handle toks =
  match toks with
  | ["bld"; ty; tlen; ops] ->
      let op_of s =
        if s = "r" then SReset
        else match s.[0] with
          | 'n' -> SAddNulls (zi (String.sub s 2 (String.length s - 2)))
          | 'v' -> SAddValues (List.map bytes_of (split '.' (String.sub s 2 (String.length s - 2))))
          | 'b' -> SAddBytes (List.map bytes_of (split '.' (String.sub s 2 (String.length s - 2))))
          | _ -> failwith "bad op" in
      let ops = List.map op_of (split ',' ops) in
      (match run_sops (builder_create (ptype_of ty) (zi tlen)) ops [] with
       | SErr c -> "ERR " ^ zs c
       | SFault f -> "FAULT " ^ fault_name f
       | SOk (b, sts) ->
           let ps = build b in
           Printf.sprintf "OK st=%s nulls=%s min=%s max=%s"
             (if sts = [] then "-" else String.concat "," (List.map zs sts))
             (if ps.ps_has_null_count then zs ps.ps_null_count else "-1")
             (show_opt ps.ps_min_value) (show_opt ps.ps_max_value))
  | ["pw"; _; _; _; "nostats"] -> "STATS none"
  | ["oix"; _; _] -> "NOMODEL"
  | ["pw"; ty; maxdef; batches] ->
      (* "s0" / "s1" items switch the statistics option; min/max are tracked regardless, the option decides at finalize *)
      let on = ref true in
      let w = List.fold_left (fun w bt ->
          if bt = "s0" then (on := false; w) else if bt = "s1" then (on := true; w) else
          match String.split_on_char '/' bt with
          | [vals; defs; nv] ->
              let vs = List.map bytes_of (split '.' vals) in
              let ds = if defs = "-" then None
                       else Some (List.init (String.length defs) (fun i -> z_of_int (Char.code defs.[i] - 48))) in
              pw_add_values w vs (zi nv) ds
          | _ -> failwith "bad batch") (pw_create (ptype_of ty) (zi maxdef)) (split ',' batches) in
      (match (if !on then pw_statistics w else None) with
       | None -> "STATS none"
       | Some ps -> Printf.sprintf "STATS nulls=%s min=%s max=%s" (zs ps.ps_null_count) (show_opt ps.ps_min_value) (show_opt ps.ps_max_value))
  | ["rd"; _file; ty; col; op; probe; maxidx; s; _d] ->
      let chunk_of e =
        match String.split_on_char '/' e with
        | [meta; st; nv; nc; mn; mx; omn; omx] ->
            { ch_has_metadata = (meta = "1"); ch_num_values = zi nv;
              ch_stats = if st = "1" then
                  Some { ps_has_null_count = (nc <> "-"); ps_null_count = (if nc = "-" then Z0 else zi nc);
                         ps_min_value = opt_bytes mn; ps_max_value = opt_bytes mx;
                         ps_min_deprecated = opt_bytes omn; ps_max_deprecated = opt_bytes omx }
                else None }
        | _ -> failwith "bad chunk" in
      (* "<t0>.<t1>...:<k>": leaf types of a nested / multi-column schema, the statistics belong to column k; the other
         columns have chunks with metadata and no statistics *)
      let (types, tcol) = match String.split_on_char ':' ty with
        | [ts; k] -> (List.map ptype_of (String.split_on_char '.' ts), int_of_string k)
        | _ -> ([ptype_of ty], 0) in
      let dummy = { ch_has_metadata = true; ch_num_values = Z0; ch_stats = None } in
      let rgs = List.map (fun e -> List.mapi (fun i _ -> if i = tcol then chunk_of e else dummy) types) (split ';' s) in
      let r = { r_row_groups = rgs; r_leaf_types = List.map (fun t -> Some t) types } in
      let col = zi col and op = zi op and probe = bytes_of probe in
      let nrg = List.length rgs in
      let idxs = List.init nrg (fun i -> z_of_int i) in
      let cs_text i =
        match column_statistics r i col with
        | SErr c -> "E" ^ zs c
        | SFault f -> "FAULT-" ^ fault_name f
        | SOk cs ->
            Printf.sprintf "%d:%d:%s:%s:%s" (if cs.cs_has_min_max then 1 else 0) (if cs.cs_has_null_count then 1 else 0)
              (zs cs.cs_null_count) (zs cs.cs_num_values)
              (if cs.cs_has_min_max then hex_of_bytes cs.cs_min ^ ":" ^ hex_of_bytes cs.cs_max else "-:-") in
      let err_code i = match column_statistics r (z_of_int i) col with SErr c -> zs c | _ -> "0" in
      let m_text i =
        match row_group_matches r i col op probe with
        | SOk (st, m) -> Printf.sprintf "%s:%d" (zs st) (if m then 1 else 0)
        | SErr c -> "E" ^ zs c
        | SFault f -> "FAULT-" ^ fault_name f in
      let f_text =
        match filter_row_groups r col op probe (zi maxidx) with
        | SOk None -> "-1:-"
        | SOk (Some l) -> Printf.sprintf "%d:%s" (List.length l) (if l = [] then "-" else String.concat "," (List.map zs l))
        | SErr c -> "E" ^ zs c
        | SFault f -> "FAULT-" ^ fault_name f in
      let j l = if l = [] then "-" else String.concat ";" l in
      Printf.sprintf "OK cs=%s X=%s,%s m=%s f=%s" (j (List.map cs_text idxs)) (err_code (-1)) (err_code nrg)
        (j (List.map m_text idxs)) f_text
  | ["cmp"; ty; mn; mx; v; _d] ->
      let ps = { ps_has_null_count = false; ps_null_count = Z0; ps_min_value = opt_bytes mn; ps_max_value = opt_bytes mx;
                 ps_min_deprecated = None; ps_max_deprecated = None } in
      (match statistics_compare ps (ptype_of ty) (bytes_of v) with
       | SOk r -> "OK 0 " ^ zs r | SErr c -> "OK " ^ zs c ^ " 0" | SFault f -> "FAULT " ^ fault_name f)
  | ["ovl"; ty; mn; mx; qmin; qmax; _d] ->
      let ps = { ps_has_null_count = false; ps_null_count = Z0; ps_min_value = opt_bytes mn; ps_max_value = opt_bytes mx;
                 ps_min_deprecated = None; ps_max_deprecated = None } in
      (match range_overlaps ps (ptype_of ty) (qbound qmin) (qbound qmax) with
       | SOk b -> "OK 0 " ^ (if b then "1" else "0") | SErr c -> "OK " ^ zs c ^ " 1" | SFault f -> "FAULT " ^ fault_name f)
  | ["pm"; ty; pages; idx; qmin; qmax; _d] ->
      let pgs = List.fold_left (fun acc pg ->
          match String.split_on_char '/' pg with
          | [nc; mn; mx; np] -> add_page acc (zi nc) (opt_bytes mn) (opt_bytes mx) (np = "1")
          | _ -> failwith "bad page") [] (split ';' pages) in
      (match page_might_match (ptype_of ty) pgs (zi idx) (qbound qmin) (qbound qmax) with
       | SOk (st, m) -> Printf.sprintf "OK %s %d" (zs st) (if m then 1 else 0)
       | SErr c -> "ERR " ^ zs c | SFault f -> "FAULT " ^ fault_name f)
  | ["pmw"; ty; _tlen; maxdef; pages; idx; qmin; qmax] ->
      let t = ptype_of ty in
      let texts = ref [] in
      let pgs = List.fold_left (fun acc pg ->
          let nonnull = ref 0 in
          let w = List.fold_left (fun w bt ->
              if bt = "s0" || bt = "s1" then w else
              match String.split_on_char '/' bt with
              | [vals; defs; nv] ->
                  let vs = List.map bytes_of (split '.' vals) in
                  nonnull := !nonnull + List.length vs;
                  let ds = if defs = "-" then None
                           else Some (List.init (String.length defs) (fun i -> z_of_int (Char.code defs.[i] - 48))) in
                  pw_add_values w vs (zi nv) ds
              | _ -> failwith "bad batch") (pw_create t (zi maxdef)) (split ',' pg) in
          let (mn, mx) = match pw_statistics w with
            | Some ps -> (ps.ps_min_value, ps.ps_max_value) | None -> (None, None) in
          texts := (Printf.sprintf "0:0:%s:%s" (zs w.pw_num_nulls)
                      (match mn, mx with Some a, Some b -> hex_or_e a ^ ":" ^ hex_or_e b | _ -> "-:-")) :: !texts;
          add_page acc w.pw_num_nulls mn mx (!nonnull = 0)) [] (split ';' pages) in
      let ptxt = if !texts = [] then "-" else String.concat ";" (List.rev !texts) in
      if idx = "all" then begin
        let n = List.length pgs in
        let b = Buffer.create n in
        for i = 0 to n - 1 do
          Buffer.add_char b (match page_might_match t pgs (z_of_int i) (qbound qmin) (qbound qmax) with
              | SOk (st, m) -> if int_of_z st <> 0 then 'E' else if m then '1' else '0'
              | _ -> 'F')
        done;
        Printf.sprintf "OK pages=%s m=%s" ptxt (Buffer.contents b)
      end else
      (match page_might_match t pgs (zi idx) (qbound qmin) (qbound qmax) with
       | SOk (st, m) -> Printf.sprintf "OK pages=%s m=%s:%d" ptxt (zs st) (if m then 1 else 0)
       | SErr c -> "ERR " ^ zs c | SFault f -> "FAULT " ^ fault_name f)
  | ["pmh"; ty; pages; queries] ->
      let t = ptype_of ty in
      let pgs = List.fold_left (fun acc pg ->
          match String.split_on_char '/' pg with
          | [nc; mn; mx; np; _d] -> add_page acc (zi nc) (opt_bytes mn) (opt_bytes mx) (np = "1")
          | _ -> failwith "bad page") [] (split ';' pages) in
      let n = List.length pgs in
      let one q =
        match String.split_on_char '/' q with
        | [a; b] ->
            let buf = Buffer.create n in
            for i = 0 to n - 1 do
              Buffer.add_char buf (match page_might_match t pgs (z_of_int i) (qbound a) (qbound b) with
                  | SOk (st, m) -> if int_of_z st <> 0 then 'E' else if m then '1' else '0'
                  | _ -> 'F')
            done;
            Buffer.contents buf
        | _ -> failwith "bad query" in
      Printf.sprintf "OK n=%d addbad=0 m=%s" n (String.concat "|" (List.map one (split ';' queries)))
  | _ -> "RUNNER-ERROR unknown-op"
let () = main_loop handle
