(* conv: n z *)
(* Runner for the robust engine: the open decision (FooterModel), the writer's stream calls over a failing
   sink (Stdio/CloseModel) and the page-load bounds model (PageBoundsModel). *)
let rec take n l = if n <= 0 then [] else match l with [] -> [] | x :: t -> x :: take (n - 1) t
let stage_str (s : Robust_ext.stage) : string =
  match s with
  | Robust_ext.StEmpty -> "empty/" ^ string_of_int (int_of_z (Robust_ext.stage_code s))
  | Robust_ext.StSize -> "size/" ^ string_of_int (int_of_z (Robust_ext.stage_code s))
  | Robust_ext.StLeadMagic -> "lead/" ^ string_of_int (int_of_z (Robust_ext.stage_code s))
  | Robust_ext.StTrailMagic -> "trail/" ^ string_of_int (int_of_z (Robust_ext.stage_code s))
  | Robust_ext.StFooterLen -> "flen/" ^ string_of_int (int_of_z (Robust_ext.stage_code s))
  | Robust_ext.StParse (off, len) -> Printf.sprintf "parse/%d/%d" (int_of_nat off) (int_of_nat len)
  | Robust_ext.StFault -> "fault"

let fnv1a (l : n list) : string =
  let h = ref 0xcbf29ce484222325L in
  List.iter (fun b -> h := Int64.mul (Int64.logxor !h (Int64.of_int (int_of_n b))) 0x100000001b3L) l;
  Printf.sprintf "%016Lx" !h

let parse_call (s : string) : Robust_ext.wcall =
  match String.split_on_char ':' s with
  | ["b"] -> Robust_ext.CBatch
  | ["n"; rg] -> Robust_ext.CNewRowGroup (bytes_of_hex rg)
  | ["c"; rg; ft] -> Robust_ext.CClose (bytes_of_hex rg, bytes_of_hex ft)
  | _ -> failwith "bad call"


(* "has,type,tl;..."  "i,j,..."  "hasmeta,type;...|..."  ->  file_meta *)
let parse_meta (sch : string) (lv : string) (rgs : string) : Robust_ext.file_meta =
  let ints s = List.map int_of_string (String.split_on_char ',' s) in
  let schema = if sch = "-" || sch = "" then [] else List.map (fun e -> match ints e with
      | [h; t; tl] -> { Robust_ext.se_has_type = (h = 1); se_type = z_of_int t; se_type_length = z_of_int tl; se_num_children = Z0 }
      | _ -> failwith "bad schema elem") (String.split_on_char ';' sch) in
  let leaves = if lv = "-" || lv = "" then [] else List.map nat_of_int (ints lv) in
  let groups = if rgs = "" || rgs = "none" then [] else List.map (fun g ->
      let cols = if g = "-" || g = "" then [] else List.map (fun c -> match ints c with
          | [h; t] -> { Robust_ext.cc_has_metadata = (h = 1);
                        cc_meta = { Robust_ext.cm_type = z_of_int t; cm_codec = Z0; cm_num_values = Z0; cm_data_page_offset = Z0;
                                    cm_has_dict_offset = false; cm_dict_page_offset = Z0 } }
          | _ -> failwith "bad chunk") (String.split_on_char ';' g) in
      { Robust_ext.rg_columns = cols; rg_num_rows = Z0 }) (String.split_on_char '|' rgs) in
  { Robust_ext.fm_schema = schema; fm_row_groups = groups; fm_leaves = leaves }

(* the page-header parser's verdicts, as observed on the implementation, per window length:
   "none" | "len@verdict|len@verdict|..." with verdict = "<status>" | "0/hs/type/usize/csize/crc/nv/enc/dnv" *)
let verdict_of (s : string) : Robust_ext.hdr_result =
  match String.split_on_char '/' s with
  | ["0"; hs; ty; us; cs; crc; nv; enc; dnv] ->
      let h = { Robust_ext.ph_type = z_of_int (int_of_string ty); ph_usize = z_of_int (int_of_string us);
                ph_csize = z_of_int (int_of_string cs); ph_has_crc = (crc = "1"); ph_num_values = z_of_int (int_of_string nv);
                ph_encoding = z_of_int (int_of_string enc); ph_dict_num_values = z_of_int (int_of_string dnv) } in
      Robust_ext.HdrOk (h, nat_of_int (int_of_string hs))
  | [st] ->
      let c = int_of_string st in
      if c = 33 then Robust_ext.HdrShort else Robust_ext.HdrErr (z_of_int c)
  | _ -> Robust_ext.HdrShort

let last_verdict (s : string) : Robust_ext.hdr_result =
  if s = "none" then Robust_ext.HdrShort else
  match List.rev (String.split_on_char '|' s) with
  | e :: _ -> (match String.split_on_char '@' e with [_; v] -> verdict_of v | _ -> Robust_ext.HdrShort)
  | [] -> Robust_ext.HdrShort

let hdr_of (s : string) : n list -> Robust_ext.hdr_result =
  if s = "none" then (fun _ -> Robust_ext.HdrShort) else begin
    let entries = List.map (fun e -> match String.split_on_char '@' e with
        | [l; v] -> (int_of_string l, verdict_of v)
        | _ -> failwith "bad header oracle") (String.split_on_char '|' s) in
    (fun bs -> let l = List.length bs in
               match List.assoc_opt l entries with Some v -> v | None -> Robust_ext.HdrShort)
  end

let handle toks =
  match toks with
  | ["opencuts"; from_; to_; data] ->
      let bs = bytes_of_hex data in
      let a = int_of_string from_ and b = int_of_string to_ in
      let buf = Buffer.create 4096 in
      Buffer.add_string buf "OK";
      for cut = a to b - 1 do
        let p = take cut bs in
        Buffer.add_string buf (Printf.sprintf " %d:%s,%s,%s" cut
          (stage_str (Robust_ext.open_stage Robust_ext.Fread p))
          (stage_str (Robust_ext.open_stage Robust_ext.Mmap p))
          (stage_str (Robust_ext.open_stage Robust_ext.Buffer p)))
      done;
      Buffer.contents buf
  | ["sinkrun"; owns; cap; plan; chk; hist] ->
      let h = List.map parse_call (String.split_on_char ';' hist) in
      let checks = if chk = "pinned" then Robust_ext.pinned_checks else Robust_ext.current_checks in
      let all_ok = fun (_ : nat) (nn : nat) -> nn in
      let accept, close_ok =
        match String.split_on_char ':' plan with
        | ["none"] -> all_ok, (fun _ -> true)
        | ["op"; k; a] ->
            let k = int_of_string k and a = int_of_string a in
            (fun idx nn -> if int_of_nat idx = k then nat_of_int (min a (int_of_nat nn)) else nn), (fun _ -> true)
        | ["ophalf"; k] ->
            let k = int_of_string k in
            (fun idx nn -> if int_of_nat idx = k then nat_of_int ((int_of_nat nn) / 2) else nn), (fun _ -> true)
        | ["opp"; k; a] ->
            let k = int_of_string k and a = int_of_string a in
            (fun idx nn -> let i = int_of_nat idx in
                           if i = k then nat_of_int (min a (int_of_nat nn)) else if i > k then O else nn), (fun _ -> true)
        | ["closefail"] -> all_ok, (fun _ -> false)
        | _ -> failwith "bad plan" in
      let push_amt = fun _ _ _ -> O in
      let ret_on_fail = fun _ nn -> nat_of_int ((int_of_nat nn) / 2) in
      let (ss, w') = Robust_ext.run (nat_of_int (int_of_string cap)) accept close_ok push_amt ret_on_fail checks
                       (owns = "1") Robust_ext.w_init h in
      let d = Robust_ext.deliv (Robust_ext.st w') in
      Printf.sprintf "OK st=%s sinkfail=%d n=%d fnv=%s want=%s"
        (String.concat "," (List.map (fun s -> string_of_int (int_of_z s)) ss))
        (if Robust_ext.sink_failed w' then 1 else 0) (List.length d) (fnv1a d) (fnv1a (Robust_ext.bytes_of h))
  | ["getcol"; chk; sch; lv; rgs; rg; col] ->
      let m = parse_meta sch lv rgs in
      let ck = if chk = "pinned" then Robust_ext.pinned_pchecks else Robust_ext.current_pchecks in
      (match Robust_ext.get_column ck m (z_of_int (int_of_string rg)) (z_of_int (int_of_string col)) with
       | Robust_ext.Ok r -> Printf.sprintf "OK type=%d schema=%d tl=%d" (int_of_z r.Robust_ext.cr_type)
                              (int_of_z r.Robust_ext.cr_schema_type) (int_of_z r.Robust_ext.cr_type_length)
       | Robust_ext.Err c -> Printf.sprintf "E%d" (int_of_z c)
       | Robust_ext.Fault _ -> "FAULT")
  | ["firstload"; chk; path; n; t; d; h1; h2] ->
      let ck = if chk = "pinned" then Robust_ext.pinned_pchecks else Robust_ext.current_pchecks in
      let p = if path = "stdio" then Robust_ext.Stdio else Robust_ext.Mapped in
      let f = List.init (int_of_string n) (fun _ -> N0) in
      let ti = List.map int_of_string (String.split_on_char ',' t) in
      let di = String.split_on_char ',' d in
      (match ti, di with
       | [ctype; stype; tl; codec; maxdef; maxrep], [hasdict; dictoff; dataoff] ->
         let hasdict = int_of_string hasdict in
         let dictoff = z_of_shex dictoff and dataoff = z_of_shex dataoff in
         let cm = { Robust_ext.cm_type = z_of_int ctype; cm_codec = z_of_int codec; cm_num_values = Z0;
                    cm_data_page_offset = dataoff; cm_has_dict_offset = (hasdict = 1);
                    cm_dict_page_offset = dictoff } in
         let r = { Robust_ext.cr_type = z_of_int ctype; cr_type_length = z_of_int tl; cr_schema_type = z_of_int stype; cr_meta = cm } in
         let cls = function Robust_ext.Ok _ -> "OK" | Robust_ext.Err c -> Printf.sprintf "E%d" (int_of_z c) | Robust_ext.Fault _ -> "FAULT" in
         let has_levels = maxdef > 0 || maxrep > 0 in
         let data_stage hdr off =
           let s = Robust_ext.load (hdr_of hdr) ck p Robust_ext.DataPage f off in
           let view = (match s with
             | Robust_ext.Ok l when path <> "stdio" -> cls (Robust_ext.mapped_data_page ck r l has_levels)
             | _ -> "-") in
           (cls s, view) in
         (* a chunk without dictionary_page_offset whose first page identifies itself as a dictionary page *)
         (* the code decides this right after the header parse, before the size checks *)
         let self_dict = hasdict <> 1 && (match last_verdict h1 with
             | Robust_ext.HdrOk (h, _) -> int_of_z h.Robust_ext.ph_type = 2
             | _ -> false) in
         let dictoff = if self_dict then dataoff else dictoff in
         if hasdict = 1 || self_dict then begin
           let s1 = Robust_ext.load (hdr_of h1) ck p Robust_ext.DictPage f dictoff in
           match s1 with
           | Robust_ext.Ok l1 ->
               let hdr = l1.Robust_ext.ld_header in
               let body_len = l1.Robust_ext.ld_body.Robust_ext.r_len in
               let dict = if ctype <> 6 && codec = 0 then cls (Robust_ext.dictionary_copy ck r hdr.Robust_ext.ph_dict_num_values body_len) else "-" in
               let off2 = Robust_ext.Z.add (Robust_ext.Z.add dictoff l1.Robust_ext.ld_hs) body_len in
               let (s2, view) = if h2 = "none" then ("-", "-") else data_stage h2 off2 in
               Printf.sprintf "first=OK dict=%s second=%s view=%s" dict s2 view
           | _ -> Printf.sprintf "first=%s dict=- second=- view=-" (cls s1)
         end else begin
           let s0 = Robust_ext.load (hdr_of h1) ck p Robust_ext.FirstDataPage f dataoff in
           let (s1, view) = data_stage h1 dataoff in
           ignore s0;
           Printf.sprintf "first=%s dict=- second=- view=%s" s1 view
         end
       | _ -> "RUNNER-ERROR bad-firstload")
  | _ -> "RUNNER-ERROR unknown-op"
let () = main_loop handle
