(* conv: n z *)
(* Runner for the robust engine: the open decision (FooterModel), the writer's stream calls over a failing
   sink (Stdio/CloseModel) and the page-load bounds model (PageBoundsModel). *)
let rec take n l = if n <= 0 then [] else match l with [] -> [] | x :: t -> x :: take (n - 1) t
let stage_str (s : Robust_ext.stage) : string =
  match s with
  | Robust_ext.StEmpty -> "empty/" ^ string_of_int (int_of_z (Robust_ext.stage_code s))
  | Robust_ext.StSize -> "size/" ^ string_of_int (int_of_z (Robust_ext.stage_code s))
  | Robust_ext.StLeadMagic -> "lead/" ^ string_of_int (int_of_z (Robust_ext.stage_code s))
  | Robust_ext.StTrailMagic -> "trail/" ^ string_of_int (int_of_z (Robust_ext.stage_code s))
  | Robust_ext.StFooterLen -> "flen/" ^ string_of_int (int_of_z (Robust_ext.stage_code s))
  | Robust_ext.StParse (off, len) -> Printf.sprintf "parse/%d/%d" (int_of_nat off) (int_of_nat len)
  | Robust_ext.StFault -> "fault"

let fnv1a (l : n list) : string =
  let h = ref 0xcbf29ce484222325L in
  List.iter (fun b -> h := Int64.mul (Int64.logxor !h (Int64.of_int (int_of_n b))) 0x100000001b3L) l;
  Printf.sprintf "%016Lx" !h

let parse_call (s : string) : Robust_ext.wcall =
  match String.split_on_char ':' s with
  | ["b"] -> Robust_ext.CBatch
  | ["n"; rg] -> Robust_ext.CNewRowGroup (bytes_of_hex rg)
  | ["c"; rg; ft] -> Robust_ext.CClose (bytes_of_hex rg, bytes_of_hex ft)
  | _ -> failwith "bad call"

let handle toks =
  match toks with
  | ["opencuts"; from_; to_; data] ->
      let bs = bytes_of_hex data in
      let a = int_of_string from_ and b = int_of_string to_ in
      let buf = Buffer.create 4096 in
      Buffer.add_string buf "OK";
      for cut = a to b - 1 do
        let p = take cut bs in
        Buffer.add_string buf (Printf.sprintf " %d:%s,%s,%s" cut
          (stage_str (Robust_ext.open_stage Robust_ext.Fread p))
          (stage_str (Robust_ext.open_stage Robust_ext.Mmap p))
          (stage_str (Robust_ext.open_stage Robust_ext.Buffer p)))
      done;
      Buffer.contents buf
  | ["sinkrun"; owns; cap; plan; chk; hist] ->
      let h = List.map parse_call (String.split_on_char ';' hist) in
      let checks = if chk = "pinned" then Robust_ext.pinned_checks else Robust_ext.current_checks in
      let all_ok = fun (_ : nat) (nn : nat) -> nn in
      let accept, close_ok =
        match String.split_on_char ':' plan with
        | ["none"] -> all_ok, (fun _ -> true)
        | ["op"; k; a] ->
            let k = int_of_string k and a = int_of_string a in
            (fun idx nn -> if int_of_nat idx = k then nat_of_int (min a (int_of_nat nn)) else nn), (fun _ -> true)
        | ["ophalf"; k] ->
            let k = int_of_string k in
            (fun idx nn -> if int_of_nat idx = k then nat_of_int ((int_of_nat nn) / 2) else nn), (fun _ -> true)
        | ["opp"; k; a] ->
            let k = int_of_string k and a = int_of_string a in
            (fun idx nn -> let i = int_of_nat idx in
                           if i = k then nat_of_int (min a (int_of_nat nn)) else if i > k then O else nn), (fun _ -> true)
        | ["closefail"] -> all_ok, (fun _ -> false)
        | _ -> failwith "bad plan" in
      let push_amt = fun _ _ _ -> O in
      let ret_on_fail = fun _ nn -> nat_of_int ((int_of_nat nn) / 2) in
      let (ss, w') = Robust_ext.run (nat_of_int (int_of_string cap)) accept close_ok push_amt ret_on_fail checks
                       (owns = "1") Robust_ext.w_init h in
      let d = Robust_ext.deliv (Robust_ext.st w') in
      Printf.sprintf "OK st=%s sinkfail=%d n=%d fnv=%s want=%s"
        (String.concat "," (List.map (fun s -> string_of_int (int_of_z s)) ss))
        (if Robust_ext.sink_failed w' then 1 else 0) (List.length d) (fnv1a d) (fnv1a (Robust_ext.bytes_of h))
  | _ -> "RUNNER-ERROR unknown-op"
let () = main_loop handle
