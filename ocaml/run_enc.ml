(* conv: n *)
(* Runner for the enc engine: bit packing and RLE hybrid models/specs.
   Values travel as decimal tokens (they fit in 32 bits), byte strings as hex. *)
let ints toks = List.map (fun t -> n_of_int (int_of_string t)) toks
let show_vals vs = if vs = [] then "-" else String.concat "," (List.map (fun v -> string_of_int (int_of_n v)) vs)
let res_str f r = match r with
  | Enc_ext.Ok a -> "OK " ^ f a
  | Enc_ext.Err _ -> "ERR"
  | Enc_ext.Fault _ -> "FAULT"
(* bitrw segments: b<0|1> | w<value dec>:<nbits> | q<value hex>:<nbits> *)
let seg_of_tok (t : string) : Enc_ext.seg =
  let body = String.sub t 1 (String.length t - 1) in
  match t.[0] with
  | 'b' -> Enc_ext.SBit (n_of_int (int_of_string body))
  | 'w' -> (match String.split_on_char ':' body with
            | [v; nb] -> Enc_ext.SBits (n_of_int (int_of_string v), n_of_int (int_of_string nb))
            | _ -> failwith "bad w segment")
  | _ -> (match String.split_on_char ':' body with
            | [v; nb] -> Enc_ext.SBits64 (n_of_hex v, n_of_int (int_of_string nb))
            | _ -> failwith "bad q segment")
let rec total_bits toks = match toks with
  | [] -> 0
  | t :: r -> (if t.[0] = 'b' then 1 else int_of_string (List.nth (String.split_on_char ':' t) 1)) + total_bits r
let handle toks =
  match toks with
  | "bitrw" :: segs ->
      (* the model of the bit writer / reader pair, capacity ceil(bits/8) as in the driver *)
      let gs = List.map seg_of_tok segs in
      let cap = (total_bits segs + 7) / 8 in
      let out = Enc_ext.w_out (Enc_ext.write_all (n_of_int cap) gs) in
      (match Enc_ext.read_all (Enc_ext.br_init out) gs with
       | None -> "OK " ^ hex_of_bytes out ^ " SHORT"
       | Some (vs, s) ->
           "OK " ^ hex_of_bytes out ^ " "
           ^ (if vs = [] then "-" else String.concat "," (List.map hex_of_n vs))
           ^ " rem=" ^ string_of_int (int_of_n (Enc_ext.remaining_bits s))
           ^ " more=" ^ (if Enc_ext.has_more s then "1" else "0"))
  | "pack8" :: w :: vs ->
      "OK " ^ hex_of_bytes (Enc_ext.pack8 (nat_of_int (int_of_string w)) (ints vs))
      ^ " " ^ hex_of_bytes (Enc_ext.pack_spec (nat_of_int (int_of_string w)) (ints vs))
  | ["unpack8"; w; data] ->
      res_str show_vals (Enc_ext.unpack8 (nat_of_int (int_of_string w)) (bytes_of_hex data))
  | "bitpack" :: w :: vs ->
      "OK " ^ hex_of_bytes (Enc_ext.bitpack_32 (nat_of_int (int_of_string w)) (ints vs))
  | ["bitunpack"; w; count; data] ->
      res_str (fun (vs, c) -> show_vals vs ^ " " ^ string_of_int (int_of_nat c))
        (Enc_ext.bitunpack_32 (nat_of_int (int_of_string w)) (bytes_of_hex data) (nat_of_int (int_of_string count)))
  | "rle_enc" :: w :: vs ->
      "OK " ^ hex_of_bytes (Enc_ext.encode_all (nat_of_int (int_of_string w)) (ints vs))
  | "rle_rt" :: w :: vs ->
      let wn = nat_of_int (int_of_string w) in
      let vals = ints vs in
      let bytes = Enc_ext.encode_all wn vals in
      let back = Enc_ext.decode_all wn bytes (nat_of_int (List.length vals)) in
      "OK " ^ hex_of_bytes bytes ^ " " ^ show_vals back
  | ["rle_dec"; w; n; data] ->
      let vs = Enc_ext.decode_all (nat_of_int (int_of_string w)) (bytes_of_hex data) (nat_of_int (int_of_string n)) in
      "OK " ^ show_vals vs
  | ["rle_spec_dec"; w; data] ->
      (match Enc_ext.spec_decode_all (nat_of_int (int_of_string w)) (bytes_of_hex data) with
       | Some vs -> "OK " ^ show_vals vs | None -> "ERR")
  | "rle_ops" :: w :: data :: ops ->
      let w = nat_of_int (int_of_string w) in
      let d = ref (Enc_ext.dec_init (bytes_of_hex data)) in
      let outs = List.map (fun op ->
        let k = if String.length op > 1 then int_of_string (String.sub op 1 (String.length op - 1)) else 0 in
        match op.[0] with
        | 'g' -> let (v, d') = Enc_ext.get w !d in d := d'; "g=" ^ string_of_int (int_of_n v)
        | 'b' -> let (vs, d') = Enc_ext.get_batch (nat_of_int (k + 1)) w !d (nat_of_int k) in d := d';
                 "b=" ^ show_vals vs
        | 's' -> let (n, d') = Enc_ext.skip (nat_of_int (k + 1)) w !d (nat_of_int k) in d := d';
                 "s=" ^ string_of_int (int_of_nat n)
        | 'h' -> "h=" ^ (if Enc_ext.has_next !d then "1" else "0")
        | _ -> failwith "bad op") ops in
      "OK " ^ String.concat " " outs
  | _ -> "RUNNER-ERROR unknown-op"
let () = main_loop handle
