(* conv: n *)
(* Runner for the util engine (CRC-32, XXH64, Bloom filter models and specifications). *)
let handle toks =
  match toks with
  | ["crc"; _al; data] ->
      let bs = bytes_of_hex data in
      Printf.sprintf "OK %s %s" (hex_of_n (Util_ext.crc32 bs)) (hex_of_n (Util_ext.crc bs))
  | ["crcupd"; split; data] ->
      let bs = bytes_of_hex data in
      let k = int_of_string split in
      let rec take n l = if n = 0 then [] else match l with [] -> [] | x :: t -> x :: take (n-1) t in
      let rec drop n l = if n = 0 then l else match l with [] -> [] | _ :: t -> drop (n-1) t in
      let a = take k bs and b = drop k bs in
      Printf.sprintf "OK %s" (hex_of_n (Util_ext.crc32_update (Util_ext.crc32 a) b))
  | ["pagecrc"; verify; has; stored; data] ->
      let b = Util_ext.page_crc_ok (verify = "1") (has = "1") (n_of_hex stored) (bytes_of_hex data) in
      if b then "OK accept" else "OK reject"
  | _ -> "RUNNER-ERROR unknown-op"
let () = main_loop handle
