(* conv: n *)
(* Runner for the util engine (CRC-32, XXH64, Bloom filter models and specifications). *)
(* ---- C20: Bloom filter scenarios (same line format as harness/h_util.c do_bloom).  The model
   (Util_ext.m_xxx) produces the result tokens; the specification (Util_ext.s_xxx) runs alongside and the
   last token says whether its stored form and its answers agreed with the model: SPEC=agree or
   SPEC=differs:<index of first op>. *)
let le_hex_value (s : string) : n =
  (* hex bytes in little-endian order -> number *)
  let l = String.length s / 2 in
  let b = Buffer.create (2 * l) in
  for i = l - 1 downto 0 do Buffer.add_string b (String.sub s (2 * i) 2) done;
  n_of_hex (Buffer.contents b)

let bloom (ops : string list) : string =
  let slots : Util_ext.filter option array = Array.make 4 None in
  let spec : Util_ext.sbbf option array = Array.make 4 None in
  let out = Buffer.create 256 in
  let bad = ref (-1) in
  let mark i = if !bad < 0 then bad := i in
  let tok s = Buffer.add_char out ' '; Buffer.add_string out s in
  let hexsz f = Printf.sprintf "%s/%s" (hex_of_n (Util_ext.m_num_bytes f)) (hex_of_n (Util_ext.m_num_blocks f)) in
  let value ty payload : (Util_ext.value option) =
    match ty with
    | "i32" -> Some (Util_ext.s_I32 (le_hex_value payload))
    | "i64" -> Some (Util_ext.s_I64 (le_hex_value payload))
    | "f32" -> Some (Util_ext.s_F32 (le_hex_value payload))
    | "f64" -> Some (Util_ext.s_F64 (le_hex_value payload))
    | "ba" -> Some (Util_ext.s_Bytes (bytes_of_hex payload))
    | _ -> None in
  let m_insert f ty payload =
    match ty with
    | "i32" -> Some (Util_ext.m_insert_i32 f (Util_ext.m_sgn32 (le_hex_value payload)))
    | "i64" -> Some (Util_ext.m_insert_i64 f (Util_ext.m_sgn64 (le_hex_value payload)))
    | "f32" -> Some (Util_ext.m_insert_float f (le_hex_value payload))
    | "f64" -> Some (Util_ext.m_insert_double f (le_hex_value payload))
    | "ba" -> Some (Util_ext.m_insert_bytes f (bytes_of_hex payload))
    | _ -> None in
  let m_check f ty payload =
    match ty with
    | "i32" -> Some (Util_ext.m_check_i32 f (Util_ext.m_sgn32 (le_hex_value payload)))
    | "i64" -> Some (Util_ext.m_check_i64 f (Util_ext.m_sgn64 (le_hex_value payload)))
    | "f32" -> Some (Util_ext.m_check_float f (le_hex_value payload))
    | "f64" -> Some (Util_ext.m_check_double f (le_hex_value payload))
    | "ba" -> Some (Util_ext.m_check_bytes f (bytes_of_hex payload))
    | _ -> None in
  List.iteri (fun i op ->
    let fld = String.split_on_char ':' op in
    let o = List.hd fld in
    let k = (match fld with _ :: ks :: _ -> (try int_of_string ks with _ -> -1) | _ -> 0) in
    if k < 0 || k >= 4 then tok "?slot" else
    match fld, slots.(k) with
    | ["c"; _; sz], _ ->
        let nn = n_of_hex sz in
        (match Util_ext.m_create nn with
         | Some f -> slots.(k) <- Some f; spec.(k) <- Some (Util_ext.s_new nn); tok ("c=" ^ hexsz f)
         | None -> slots.(k) <- None; spec.(k) <- None; tok "c=NULL")
    | ["r"; _; src], _ ->
        let s = (try int_of_string src with _ -> -1) in
        if s < 0 || s >= 4 || slots.(s) = None then tok "r=noslot" else
        (match slots.(s) with
         | Some g ->
            (match Util_ext.m_write g (Util_ext.m_num_bytes g) with
             | Util_ext.Ok bytes ->
                (match Util_ext.m_read bytes with
                 | Util_ext.Ok f -> slots.(k) <- Some f; spec.(k) <- spec.(s); tok "r=ok"
                 | Util_ext.Err _ -> tok "r=err"
                 | Util_ext.Fault _ -> tok "r=FAULT")
             | Util_ext.Err _ -> tok "r=err"
             | Util_ext.Fault _ -> tok "r=FAULT")
         | None -> ())
    | ["rb"; _; hx], _ ->
        (match Util_ext.m_read (bytes_of_hex hx) with
         | Util_ext.Ok f -> slots.(k) <- Some f; spec.(k) <- None; tok "rb=ok"
         | Util_ext.Err _ -> tok "rb=err"
         | Util_ext.Fault _ -> tok "rb=FAULT")
    | _, None -> tok (o ^ "=noslot")
    | ["x"; _], Some _ -> slots.(k) <- None; spec.(k) <- None; tok "x"
    | ["i"; _; ty; payload], Some f ->
        (match m_insert f ty payload with
         | None -> tok "i=badtype"
         | Some (Util_ext.Ok f') ->
             slots.(k) <- Some f';
             (match spec.(k), value ty payload with
              | Some s, Some v -> spec.(k) <- Some (Util_ext.s_insert s v) | _ -> ());
             tok "i"
         | Some (Util_ext.Err _) -> tok "i=err"
         | Some (Util_ext.Fault _) -> tok "i=FAULT")
    | ["q"; _; ty; payload], Some f ->
        (match m_check f ty payload with
         | None -> tok "q=badtype"
         | Some (Util_ext.Ok b) ->
             (match spec.(k), value ty payload with
              | Some s, Some v -> if Util_ext.s_check s v <> b then mark i | _ -> ());
             tok (if b then "q=1" else "q=0")
         | Some (Util_ext.Err _) -> tok "q=err"
         | Some (Util_ext.Fault _) -> tok "q=FAULT")
    | ["ih"; _; h], Some f ->
        let hh = n_of_hex h in
        (match Util_ext.m_insert_hash f hh with
         | Util_ext.Ok f' ->
             slots.(k) <- Some f';
             (match spec.(k) with Some s -> spec.(k) <- Some (Util_ext.s_insert_hash s hh) | None -> ());
             tok "ih"
         | Util_ext.Err _ -> tok "ih=err"
         | Util_ext.Fault _ -> tok "ih=FAULT")
    | ["qh"; _; h], Some f ->
        let hh = n_of_hex h in
        (match Util_ext.m_check_hash f hh with
         | Util_ext.Ok b ->
             (match spec.(k) with Some s -> if Util_ext.s_check_hash s hh <> b then mark i | None -> ());
             tok (if b then "qh=1" else "qh=0")
         | Util_ext.Err _ -> tok "qh=err"
         | Util_ext.Fault _ -> tok "qh=FAULT")
    | ["m"; _; src], Some f ->
        let s = (try int_of_string src with _ -> -1) in
        if s < 0 || s >= 4 || slots.(s) = None then tok "m=noslot" else
        (match slots.(s) with
         | Some g ->
            (match Util_ext.m_merge f g with
             | Util_ext.Ok f' ->
                 slots.(k) <- Some f';
                 (match spec.(k), spec.(s) with
                  | Some a, Some b -> spec.(k) <- Some (Util_ext.s_union a b)
                  | _ -> spec.(k) <- None);
                 tok "m=ok"
             | Util_ext.Err _ -> tok "m=err"
             | Util_ext.Fault _ -> tok "m=FAULT")
         | None -> ())
    | ["w"; _; cap], Some f ->
        (match Util_ext.m_write f (n_of_int (int_of_string cap)) with
         | Util_ext.Ok bytes -> tok ("w=ok:" ^ hex_of_bytes bytes)
         | Util_ext.Err _ -> tok "w=err"
         | Util_ext.Fault _ -> tok "w=FAULT")
    | ["d"; _], Some f ->
        (match spec.(k) with
         | Some s -> if Util_ext.s_to_bytes s <> Util_ext.m_data f then mark i
         | None -> ());
        tok ("d=" ^ hexsz f ^ "/" ^ hex_of_bytes (Util_ext.m_data f))
    | _ -> tok (o ^ "=badop")) ops;
  "OK" ^ Buffer.contents out ^ (if !bad < 0 then " SPEC=agree" else Printf.sprintf " SPEC=differs:%d" !bad)

let handle toks =
  match toks with
  | ["crc"; _al; data] ->
      let bs = bytes_of_hex data in
      Printf.sprintf "OK %s %s" (hex_of_n (Util_ext.crc32 bs)) (hex_of_n (Util_ext.crc bs))
  | ["crcupd"; split; data] ->
      let bs = bytes_of_hex data in
      let k = int_of_string split in
      let rec take n l = if n = 0 then [] else match l with [] -> [] | x :: t -> x :: take (n-1) t in
      let rec drop n l = if n = 0 then l else match l with [] -> [] | _ :: t -> drop (n-1) t in
      let a = take k bs and b = drop k bs in
      Printf.sprintf "OK %s" (hex_of_n (Util_ext.crc32_update (Util_ext.crc32 a) b))
  | ["crcchain"; cuts; data] ->
      let bs = bytes_of_hex data in
      let n = List.length bs in
      let cs = if cuts = "-" then [] else List.map int_of_string (String.split_on_char ',' cuts) in
      let rec take n l = if n = 0 then [] else match l with [] -> [] | x :: t -> x :: take (n-1) t in
      let rec drop n l = if n = 0 then l else match l with [] -> [] | _ :: t -> drop (n-1) t in
      let rec pieces prev cs = match cs with
        | [] -> [take (n - prev) (drop prev bs)]
        | c :: t -> let c = max prev (min c n) in take (c - prev) (drop prev bs) :: pieces c t in
      Printf.sprintf "OK %s" (hex_of_n (List.fold_left Util_ext.crc32_update (n_of_int 0) (pieces 0 cs)))
  | ["pagecrc"; verify; has; stored; data] ->
      let b = Util_ext.page_crc_ok (verify = "1") (has = "1") (n_of_hex stored) (bytes_of_hex data) in
      if b then "OK accept" else "OK reject"
  | ["xxh"; _al; seed; data] ->
      (* extracted model of carquet_xxhash64 (bounds-checked reads) and extracted XXH64 specification *)
      let bs = bytes_of_hex data and sd = n_of_hex seed in
      let m = (match Util_ext.m_xxh64 bs sd with Some h -> hex_of_n h | None -> "FAULT") in
      Printf.sprintf "OK %s %s" m (hex_of_n (Util_ext.s_xxh64 bs sd))
  | "bloom" :: ops -> bloom ops
  | _ -> "RUNNER-ERROR unknown-op"
let () = main_loop handle
