(* conv: n z *)
(* Runner for the foreign engine (C06): ForeignModel.decode_chunk on what carquet's page loop sees.
   chunk <ptype> <tlen> <maxdef> <maxrep> <codec> <num_values> <has_dict_off> <page>*
     page = <type>:<num_values>:<encoding>:<def_enc>:<rep_enc>:<uncompressed_size>:x<stored hex>:(-|!|x<uncompressed hex>)
   The last field instantiates the external decompressors (zlib / libzstd are Section variables of the model):
   x<hex> = what the library returns for these stored bytes, ! = the library reports an error, - = not asked.
   Output: OK defs=<d,d,..|-> reps=<..> vals=<xhex,xhex,..|->   |   ERR <status>   |   FAULT <kind>
   bw <max>                  -> <bit_width_for_max> <specification bit width>
   levels <w> <count> <hex>  -> decoded levels of carquet_rle_decode_levels *)
let xhex s = if s = "x" then [] else bytes_of_hex (String.sub s 1 (String.length s - 1))
let zdec s = z_of_int (int_of_string s)
let nat s = nat_of_int (int_of_string s)
let nn s = n_of_int (int_of_string s)
let levels l = if l = [] then "-" else String.concat "," (List.map (fun x -> string_of_int (int_of_n x)) l)
let fault_name f = match f with
  | OobRead -> "OobRead" | OobWrite -> "OobWrite" | NullDeref -> "NullDeref" | DepthExceeded -> "DepthExceeded"
  | ShiftTooWide -> "ShiftTooWide" | DoubleFree -> "DoubleFree" | Leak -> "Leak" | OutOfFuel -> "OutOfFuel"

let handle toks =
  match toks with
  | "chunk" :: pt :: tlen :: md :: mr :: codec :: nv :: hd :: pages ->
      let col = m_mkcol (zdec pt) (nat tlen) (nn md) (nn mr) (zdec codec) in
      let table = ref [] in
      let ps = List.map (fun p ->
        match String.split_on_char ':' p with
        | [ty; n; enc; de; re; us; st; un] ->
            let stored = xhex st in
            (if un <> "-" then table := (stored, (if un = "!" then None else Some (xhex un))) :: !table);
            (m_mkhdr (zdec ty) (zdec us) (zdec n) (zdec enc) (zdec de) (zdec re), stored)
        | _ -> failwith "bad page token") pages in
      let ext stored cap =
        match List.assoc_opt stored !table with
        | Some (Some body) -> if int_of_n cap < List.length body then Err (z_of_int 51) else Ok body
        | _ -> Err (z_of_int 51) in
      (match m_decode_chunk ext ext col (hd = "1") (zdec nv) ps with
       | Ok ((reps, defs), vals) ->
           Printf.sprintf "OK defs=%s reps=%s vals=%s" (levels defs) (levels reps)
             (if vals = [] then "-" else String.concat "," (List.map (fun v -> "x" ^ (if v = [] then "" else hex_of_bytes v)) vals))
       | Err c -> Printf.sprintf "ERR %d" (int_of_z c)
       | Fault f -> "FAULT " ^ fault_name f)
  | ["bw"; m] -> Printf.sprintf "%d %d" (int_of_nat (m_bit_width_for_max (nn m))) (int_of_nat (m_spec_bit_width (nn m)))
  | ["levels"; w; count; hx] -> levels (m_rle_decode_levels (nat w) (bytes_of_hex hx) (nat count))
  | _ -> "BAD-LINE"

let () = main_loop handle
