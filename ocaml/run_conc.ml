(* conv: n *)
(* Runner for the conc engine (C07): the extracted interleaving models of Conc/BatchConc.v and
   Conc/LazyInit.v run on explicit schedules.
     data <mode> <fsz> <cols> <sched>     one parallel region, data path only   -> OK <logs>
     full <mode> <fsz> <cols> <sched>     one call with the read_error protocol -> OK none | OK some <logs>
     lazy <init> <ws> <kss> <sched>       lazily initialised table               -> OK <flag> <table> <reads>
   cols  = requests of each column  off:len,off:len;off:len,...   ("-" = no column / no request)
   sched = thread ids               0,1,1,0                        ("-" = empty) *)
let split_on c s = if s = "-" || s = "" then [] else String.split_on_char c s
let parse_mode = function
  | "fread_unlocked" -> Conc_ext.FreadUnlocked | "fread" -> Conc_ext.Fread
  | "mmap" -> Conc_ext.Mmap | "buffer" -> Conc_ext.Buffer | _ -> failwith "bad mode"
let parse_req s = match String.split_on_char ':' s with
  | [o; l] -> (n_of_int (int_of_string o), n_of_int (int_of_string l)) | _ -> failwith "bad request"
let parse_cols s = List.map (fun c -> List.map parse_req (split_on ',' c)) (split_on ';' s)
let parse_sched s = List.map (fun t -> nat_of_int (int_of_string t)) (split_on ',' s)
let show_log l = if l = [] then "-" else String.concat "," (List.map (fun (o, n) -> Printf.sprintf "%d:%d" (int_of_n o) (int_of_n n)) l)
let show_logs ls = if ls = [] then "-" else String.concat ";" (List.map show_log ls)
let show_ns l = if l = [] then "-" else String.concat "," (List.map (fun x -> string_of_int (int_of_n x)) l)
let handle toks =
  match toks with
  | ["data"; m; fsz; cols; sched] ->
      "OK " ^ show_logs (Conc_ext.run_data (parse_mode m) (n_of_int (int_of_string fsz)) (parse_cols cols) (parse_sched sched))
  | ["full"; m; fsz; cols; sched] ->
      (match Conc_ext.run_full (parse_mode m) (n_of_int (int_of_string fsz)) (parse_cols cols) (parse_sched sched) with
       | None -> "OK none"
       | Some ls -> "OK some " ^ show_logs ls)
  | ["lazy"; init; ws; kss; sched] ->
      let init = List.map (fun t -> n_of_int (int_of_string t)) (split_on ',' init) in
      let ws = List.map (fun w -> match String.split_on_char ':' w with
                 | [k; v] -> (nat_of_int (int_of_string k), n_of_int (int_of_string v)) | _ -> failwith "bad write") (split_on ',' ws) in
      let kss = List.map (fun ks -> List.map (fun k -> nat_of_int (int_of_string k)) (split_on ',' ks)) (split_on ';' kss) in
      let ((fl, tb), rds) = Conc_ext.lazy_run init ws kss (parse_sched sched) in
      Printf.sprintf "OK %d %s %s" (if fl then 1 else 0) (show_ns tb) (String.concat ";" (List.map show_ns rds))
  | _ -> "RUNNER-ERROR unknown-op"
let () = main_loop handle
