(* conv: n z *)
(* Runner for the dec engine (property C08).  Same case lines as harness/h_dec.c:
       <op> <p> <count> <cap> <hex>
   for the entry points modelled in coq/theories/Dec: rle_levels, rle_levels_pref, rle_all (and
   rle_levels_pref_pinned: the prefix test before /repo commit c96b6f8).  Result lines as the driver's:
       OK <count> [<consumed>] [v=<values>]  |  ERR <code>  |  FAULT <kind>
   The values are printed (decimal, comma separated) when there are at most 64 of them. *)
module D = Dec_ext
let fault_name = function
  | D.OobRead -> "OobRead" | D.OobWrite -> "OobWrite" | D.NullDeref -> "NullDeref" | D.DepthExceeded -> "DepthExceeded"
  | D.ShiftTooWide -> "ShiftTooWide" | D.DoubleFree -> "DoubleFree" | D.Leak -> "Leak" | D.OutOfFuel -> "OutOfFuel"
let bytes_of s = if s = "null" then [] else bytes_of_hex s
let show_z l = if List.length l > 64 then "" else " v=" ^ (if l = [] then "-" else String.concat "," (List.map (fun v -> string_of_int (int_of_z v)) l))
let show_n l = if List.length l > 64 then "" else " v=" ^ (if l = [] then "-" else String.concat "," (List.map (fun v -> string_of_int (int_of_n v)) l))
let handle toks =
  match toks with
  | [op; p; count; _cap; data; dict] when String.length op > 5 && String.sub op 0 5 = "dict_" ->
      (* dict_<t> <dict_count> <output_count> - <indices> <dictionary> *)
      if String.length count > 7 then "SKIP count-too-large-for-the-inductive-model" else
      let k = if op = "dict_i32" || op = "dict_f32" then 4 else 8 in
      (match D.m_dict_decode (nat_of_int k) (bytes_of dict) (z_of_int (int_of_string p)) (bytes_of data)
               (n_of_int (max 0 (int_of_string count))) with
       | D.Ok out -> Printf.sprintf "OK %d" (List.length out)
       | D.Err e -> "ERR " ^ string_of_int (int_of_z e)
       | D.Fault f -> "FAULT " ^ fault_name f)
  | op :: p :: count :: _cap :: data :: _ ->
      if String.length count > 7 then "SKIP count-too-large-for-the-inductive-model" else
      let w = z_of_int (int_of_string p) and c = z_of_int (int_of_string count) and bs = bytes_of data in
      (match op with
       | "rle_levels" ->
           (match D.m_decode_levels bs w c with
            | D.Ok out -> Printf.sprintf "OK %d%s" (List.length out) (show_z out)
            | D.Err e -> "ERR " ^ string_of_int (int_of_z e)
            | D.Fault f -> "FAULT " ^ fault_name f)
       | "rle_levels_pref" | "rle_levels_pref_pinned" ->
           (match (if op = "rle_levels_pref" then D.m_decode_levels_prefixed bs w c else D.m_decode_levels_prefixed_pinned bs w c) with
            | D.Ok (out, used) -> Printf.sprintf "OK %d %d%s" (List.length out) (int_of_n used) (show_z out)
            | D.Err e -> "ERR " ^ string_of_int (int_of_z e)
            | D.Fault f -> "FAULT " ^ fault_name f)
       | "rle_all" ->
           (match D.m_rle_decode_all bs w c with
            | D.Ok out -> Printf.sprintf "OK %d%s" (List.length out) (show_n out)
            | D.Err e -> "ERR " ^ string_of_int (int_of_z e)
            | D.Fault f -> "FAULT " ^ fault_name f)
       | _ -> "SKIP not-modelled-here")
  | _ -> "RUNNER-ERROR malformed-case"
let () = main_loop handle
