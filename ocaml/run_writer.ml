(* conv: n z *)
(* Runner for the writer engine: the extracted model of carquet's writer (page / column / row group / file)
   on a write history.  One case per line:

     wr <codec id> <page_size> <created_by: hex | - (empty string) | NULL> <ncols> <col>* <op>*
     col = <name hex|->:<B|I32|I64|F|D|BA|FL>:<R|O>:<type_length>
     op  = B:<col>:<nrows>:<defs: digits | - (NULL) | E (empty array)>:<values: hex,hex,... | - >     x = empty value
         | N                                                                                    new_row_group
         | C                                                                                    close
   Output:  OK <statuses, comma separated> <closed 0|1> <file bytes hex>   |   ERR <code>   |   FAULT

     rd <verify 0|1> <file bytes hex>
   Output:  OK rows=<n> schema=<name:type:rep:tlen,..> groups=<num_rows>[<col>;<col>..]|..   col = row.row..   row = N | x | hex *)
let ptype_of s = match s with
  | "B" -> Writer_ext.TBool | "I32" -> Writer_ext.TInt32 | "I64" -> Writer_ext.TInt64 | "F" -> Writer_ext.TFloat
  | "D" -> Writer_ext.TDouble | "BA" -> Writer_ext.TByteArray | "FL" -> Writer_ext.TFlba
  | _ -> failwith "bad type"

let col_of s =
  match String.split_on_char ':' s with
  | [name; ty; rep; tl] ->
      Writer_ext.w_mkcol (bytes_of_hex name) (ptype_of ty)
        (if rep = "O" then Writer_ext.Optional else Writer_ext.Required) (n_of_int (int_of_string tl))
  | _ -> failwith "bad column"

let value_of s = if s = "x" then [] else bytes_of_hex s

let op_of s =
  match String.split_on_char ':' s with
  | ["N"] -> Writer_ext.WNewRowGroup
  | ["C"] -> Writer_ext.WClose
  | ["B"; col; nrows; defs; vals] ->
      let vs = if vals = "-" then [] else List.map value_of (String.split_on_char ',' vals) in
      let ds = if defs = "-" then None
               else if defs = "E" then Some []
               else Some (List.init (String.length defs) (fun i -> n_of_int (Char.code defs.[i] - 48))) in
      Writer_ext.WBatch (nat_of_int (int_of_string col), Writer_ext.w_mkbatch vs (nat_of_int (int_of_string nrows)) ds)
  | _ -> failwith "bad op"

let rec take n l = if n = 0 then [] else match l with [] -> [] | x :: t -> x :: take (n - 1) t
let rec drop n l = if n = 0 then l else match l with [] -> [] | _ :: t -> drop (n - 1) t

let handle toks =
  match toks with
  | "wr" :: codec :: page_size :: created :: ncols :: rest ->
      let nc = int_of_string ncols in
      let cols = List.map col_of (take nc rest) in
      let ops = List.map op_of (drop nc rest) in
      let cb = if created = "NULL" then None else Some (bytes_of_hex created) in
      let o = Writer_ext.w_mkopt (z_of_int (int_of_string codec)) (n_of_int (int_of_string page_size)) cb in
      (match Writer_ext.w_run cols o ops with
       | Writer_ext.Ok ((sts, bytes), closed) ->
           Printf.sprintf "OK %s %d %s"
             (String.concat "," (List.map (fun z -> string_of_int (int_of_z z)) sts))
             (if closed then 1 else 0) (hex_of_bytes bytes)
       | Writer_ext.Err c -> Printf.sprintf "ERR %d" (int_of_z c)
       | Writer_ext.Fault _ -> "FAULT")
  | ["rd"; verify; file] ->
      (* the reader model (open, footer, every chunk of every row group page after page) on the bytes of a file *)
      (match Writer_ext.w_read (verify = "1") (bytes_of_hex file) with
       | Writer_ext.Ok r ->
           let tyname t = match t with
             | Writer_ext.TBool -> "B" | Writer_ext.TInt32 -> "I32" | Writer_ext.TInt64 -> "I64" | Writer_ext.TFloat -> "F"
             | Writer_ext.TDouble -> "D" | Writer_ext.TByteArray -> "BA" | Writer_ext.TFlba -> "FL" in
           let col c = Printf.sprintf "%s:%s:%s:%d" (hex_of_bytes c.Writer_ext.c_name) (tyname c.Writer_ext.c_type)
                         (match c.Writer_ext.c_rep with Writer_ext.Optional -> "O" | Writer_ext.Required -> "R")
                         (int_of_n c.Writer_ext.c_tlen) in
           let row r = match r with None -> "N" | Some [] -> "x" | Some v -> hex_of_bytes v in
           let column rows = if rows = [] then "-" else String.concat "." (List.map row rows) in
           let group (n, cols) = Printf.sprintf "%d[%s]" (int_of_n n) (String.concat ";" (List.map column cols)) in
           Printf.sprintf "OK rows=%d schema=%s groups=%s" (int_of_n r.Writer_ext.rr_num_rows)
             (if r.Writer_ext.rr_schema = [] then "-" else String.concat "," (List.map col r.Writer_ext.rr_schema))
             (if r.Writer_ext.rr_groups = [] then "-" else String.concat "|" (List.map group r.Writer_ext.rr_groups))
       | Writer_ext.Err c -> Printf.sprintf "ERR %d" (int_of_z c)
       | Writer_ext.Fault _ -> "FAULT")
  | _ -> "RUNNER-ERROR unknown-op"
let () = main_loop handle
