(* conv: n *)
(* Runner for the comp engine: extracted Snappy / LZ4 specification decoders and models of carquet's
   codecs.  Same case lines as harness/h_comp.c (the fields it ignores are accepted). *)
let fault_name f = match f with
  | OobRead -> "OobRead" | OobWrite -> "OobWrite" | NullDeref -> "NullDeref" | DepthExceeded -> "DepthExceeded"
  | ShiftTooWide -> "ShiftTooWide" | DoubleFree -> "DoubleFree" | Leak -> "Leak" | OutOfFuel -> "OutOfFuel"
let rec int_of_z z = match z with Z0 -> 0 | Zpos p -> int_of_pos p | Zneg p -> - (int_of_pos p)
let show_res r = match r with
  | Ok bs -> "OK " ^ hex_of_bytes bs
  | Err c -> Printf.sprintf "ERR %d" (int_of_z c)
  | Fault f -> "FAULT " ^ fault_name f
let show_opt o = match o with Some bs -> "SOME " ^ hex_of_bytes bs | None -> "NONE"
let n_of_dec s = n_of_int (int_of_string s)
let handle toks =
  match toks with
  | ["sdec"; cap; s] ->
      let bs = bytes_of_hex s in
      Printf.sprintf "%s spec=%s" (show_res (Comp_ext.snappy_decompress bs (n_of_dec cap))) (show_opt (Comp_ext.snappy_spec_decode bs))
  | ["sdecpinned"; cap; s] -> show_res (Comp_ext.snappy_decompress_pinned (bytes_of_hex s) (n_of_dec cap))
  | ["sspec"; s] -> show_opt (Comp_ext.snappy_spec_decode (bytes_of_hex s))
  | ["ldec"; cap; s] ->
      let bs = bytes_of_hex s in
      Printf.sprintf "%s spec=%s lax=%s" (show_res (Comp_ext.lz4_decompress bs (n_of_dec cap)))
        (show_opt (Comp_ext.lz4_spec_decode bs)) (show_opt (Comp_ext.lz4_spec_decode_lax bs))
  | ["lspec"; s] ->
      let bs = bytes_of_hex s in
      Printf.sprintf "%s end=%d" (show_opt (Comp_ext.lz4_spec_decode bs)) (if Comp_ext.lz4_check_end_rules bs then 1 else 0)
  | ["scomp"; delta; x] ->
      let bs = bytes_of_hex x in
      let b = int_of_n (Comp_ext.snappy_bound (n_of_int (List.length bs))) + int_of_string delta in
      show_res (Comp_ext.snappy_compress_c bs (n_of_int (max b 0)))
  | ["lcomp"; delta; x] ->
      let bs = bytes_of_hex x in
      let b = int_of_n (Comp_ext.lz4_bound (n_of_int (List.length bs))) + int_of_string delta in
      show_res (Comp_ext.lz4_compress bs (n_of_int (max b 0)))
  | ["svarint"; n] -> "OK " ^ hex_of_bytes (Comp_ext.snappy_varint (n_of_dec n))
  | ["sbound"; n] -> Printf.sprintf "OK %d" (int_of_n (Comp_ext.snappy_bound (n_of_dec n)))
  | ["lbound"; n] -> Printf.sprintf "OK %d" (int_of_n (Comp_ext.lz4_bound (n_of_dec n)))
  | ["slen"; s] -> (match Comp_ext.snappy_get_len (bytes_of_hex s) with
                    | Ok v -> Printf.sprintf "OK %d" (int_of_n v) | Err c -> Printf.sprintf "ERR %d" (int_of_z c)
                    | Fault f -> "FAULT " ^ fault_name f)
  | _ -> "RUNNER-ERROR unknown-op"
let () = main_loop handle
