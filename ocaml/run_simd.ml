(* conv: n *)
(* Runner for the simd engine (C15): dispatcher model, kernel models, intrinsic semantics. *)
let handle toks =
  match toks with
  | ["dispatch"; bits] ->
      let bl = List.init (String.length bits) (fun i -> bits.[i] = '1') in
      "OK caps=" ^ bits ^
      String.concat "" (List.map (fun (s, k) -> Printf.sprintf " %d=%s" (int_of_nat s)
                                   (match k with Some k -> string_of_int (int_of_nat k) | None -> "none"))
                          (Simd_ext.dispatch_indices bl))
  | _ -> "UNMODELLED"
let () = main_loop handle
