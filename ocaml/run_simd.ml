(* conv: n *)
(* Runner for the simd engine (C15): dispatcher model, kernel models, intrinsic semantics.
   Case lines are those of harness/h_simd.c; the variants / alignment tokens are ignored (the models have no
   alignment).  Reply: "OK <result hex> <ret hex>" when the scalar model and every ISA model agree,
   "MDIFF variant=..", "MFAULT variant=..", or "UNMODELLED". *)
let rec repeat x n = if n <= 0 then [] else x :: repeat x (n - 1)
let fill n = repeat (n_of_int 0xEE) n

(* compare the ISA models with the scalar model *)
let judge (scalar : n list res) (variants : (string * n list res) list) : string =
  match scalar with
  | Ok want ->
      let rec go = function
        | [] -> Printf.sprintf "OK %s 0" (hex_of_bytes want)
        | (name, Ok got) :: tl -> if got = want then go tl else Printf.sprintf "MDIFF variant=%s got=%s want=%s" name (hex_of_bytes got) (hex_of_bytes want)
        | (name, _) :: _ -> "MFAULT variant=" ^ name in
      go variants
  | _ -> "MFAULT variant=scalar"

let intr_ids = [
  "_mm_shuffle_epi8", 0;
  "_mm_unpacklo_epi8", 1;
  "_mm_unpackhi_epi8", 2;
  "_mm_unpacklo_epi16", 3;
  "_mm_unpackhi_epi16", 4;
  "_mm_unpackhi_epi64", 5;
  "_mm_and_si128", 6;
  "_mm_min_epu8", 7;
  "_mm_add_epi16", 8;
  "_mm_add_epi32", 9;
  "_mm_add_epi64", 10;
  "_mm_cmpeq_epi8", 11;
  "_mm_cmpeq_epi16", 12;
  "_mm_cmpeq_epi32", 13;
  "_mm_cmplt_epi16", 14;
  "_mm_mullo_epi16", 15;
  "_mm_packs_epi16", 16;
  "_mm_slli_si128_4", 17;
  "_mm_slli_si128_8", 18;
  "_mm_srli_si128_2", 19;
  "_mm_srli_si128_4", 20;
  "_mm_srli_si128_8", 21;
  "_mm_slli_epi32_7", 22;
  "_mm_srli_epi16_4", 23;
  "_mm_set1_epi8", 24;
  "_mm_set1_epi16", 25;
  "_mm_set1_epi32", 26;
  "_mm_set1_epi64x", 27;
  "_mm_cvtsi32_si128", 28;
  "_mm_cvtsi64_si128", 29;
  "_mm_loadl_epi64", 30;
  "_mm_movemask_epi8", 31;
  "_mm_cvtsi128_si32", 32;
  "_mm_extract_epi32_3", 33;
  "_mm_extract_epi16_0", 34;
  "_mm_crc32_u8", 35;
  "_mm_crc32_u16", 36;
  "_mm_crc32_u32", 37;
  "_mm_crc32_u64", 38;
  "_mm256_shuffle_epi8", 39;
  "_mm256_and_si256", 40;
  "_mm256_min_epu8", 41;
  "_mm256_add_epi32", 42;
  "_mm256_add_epi64", 43;
  "_mm256_cmpeq_epi32", 44;
  "_mm256_slli_si256_4", 45;
  "_mm256_slli_si256_8", 46;
  "_mm256_set1_epi8", 47;
  "_mm256_set1_epi32", 48;
  "_mm256_set1_epi64x", 49;
  "_mm256_cvtepu8_epi32", 50;
  "_mm256_cvtepu16_epi32", 51;
  "_mm256_inserti128_si256_1", 52;
  "_mm256_extracti128_si256_0", 53;
  "_mm256_extracti128_si256_1", 54;
  "_mm256_movemask_epi8", 55;
  "_mm256_extract_epi32_0", 56;
  "_mm256_extract_epi32_4", 57;
  "_mm256_extract_epi32_7", 58;
  "_mm512_shuffle_epi8", 59;
  "_mm512_permutexvar_epi32", 60;
  "_mm512_add_epi32", 61;
  "_mm512_add_epi64", 62;
  "_mm512_set1_epi8", 63;
  "_mm512_set1_epi32", 64;
  "_mm512_set1_epi64", 65;
  "_mm512_cvtepu8_epi32", 66;
  "_mm512_cvtepu16_epi32", 67;
  "_mm512_maskz_set1_epi8_1", 68;
  "_mm512_maskz_alignr_epi32_FFFE_15", 69;
  "_mm512_maskz_alignr_epi32_FFFC_14", 70;
  "_mm512_maskz_alignr_epi32_FFF0_12", 71;
  "_mm512_maskz_alignr_epi32_FF00_8", 72;
  "_mm512_maskz_alignr_epi64_FE_7", 73;
  "_mm512_maskz_alignr_epi64_FC_6", 74;
  "_mm512_maskz_alignr_epi64_F0_4", 75;
  "_mm512_maskz_loadu_epi8", 76;
  "_mm512_castsi512_si128", 77;
  "_mm512_extracti32x4_epi32_1", 78;
  "_mm512_extracti32x4_epi32_2", 79;
  "_mm512_extracti32x4_epi32_3", 80;
  "_mm512_test_epi8_mask", 81;
  "_mm512_cmpeq_epi32_mask", 82;
]

let pad64 l = let n = List.length l in if n >= 64 then l else l @ repeat (n_of_int 0) (64 - n)

let handle toks =
  match toks with
  | ["dispatch"; bits] ->
      let bl = List.init (String.length bits) (fun i -> bits.[i] = '1') in
      "OK caps=" ^ bits ^
      String.concat "" (List.map (fun (s, k) -> Printf.sprintf " %d=%s" (int_of_nat s)
                                   (match k with Some k -> string_of_int (int_of_nat k) | None -> "none"))
                          (Simd_ext.dispatch_indices bl))
  | ["bssef"; _; _; count; data] ->
      let c = int_of_string count in let n = nat_of_int c and src = bytes_of_hex data and o = fill (4 * c) in
      judge (Simd_ext.scalar_bss_encode (nat_of_int 4) n src o)
        ["sse", Simd_ext.sse_bss_encode_float n src o; "avx2", Simd_ext.avx2_bss_encode_float n src o;
         "avx512", Simd_ext.avx512_bss_encode_float n src o]
  | ["bssdf"; _; _; count; data] ->
      let c = int_of_string count in let n = nat_of_int c and src = bytes_of_hex data and o = fill (4 * c) in
      judge (Simd_ext.scalar_bss_decode (nat_of_int 4) n src o)
        ["sse", Simd_ext.sse_bss_decode_float n src o; "avx2", Simd_ext.avx2_bss_decode_float n src o;
         "avx512", Simd_ext.avx512_bss_decode_float n src o]
  | ["bssed"; _; _; count; data] ->
      let c = int_of_string count in let n = nat_of_int c and src = bytes_of_hex data and o = fill (8 * c) in
      judge (Simd_ext.scalar_bss_encode (nat_of_int 8) n src o)
        ["sse", Simd_ext.sse_bss_encode_double n src o; "avx2", Simd_ext.avx2_bss_encode_double n src o]
  | ["bssdd"; _; _; count; data] ->
      let c = int_of_string count in let n = nat_of_int c and src = bytes_of_hex data and o = fill (8 * c) in
      judge (Simd_ext.scalar_bss_decode (nat_of_int 8) n src o)
        ["sse", Simd_ext.sse_bss_decode_double n src o; "avx2", Simd_ext.avx2_bss_decode_double n src o]
  | ["intr"; name; a; b; _] ->
      (match List.assoc_opt name intr_ids with
       | None -> "UNMODELLED"
       | Some id -> "OK " ^ hex_of_bytes (Simd_ext.intr_eval (n_of_int id) (pad64 (bytes_of_hex a)) (pad64 (bytes_of_hex b))))
  | _ -> "UNMODELLED"
let () = main_loop handle
