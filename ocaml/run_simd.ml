(* conv: n *)
(* Runner for the simd engine (C15): dispatcher model, kernel models, intrinsic semantics.
   Case lines are those of harness/h_simd.c; the variants / alignment tokens are ignored (the models have no
   alignment).  Reply: "OK <result hex> <ret hex>" when the scalar model and every ISA model agree,
   "MDIFF variant=..", "MFAULT variant=..", or "UNMODELLED". *)
let rec repeat x n = if n <= 0 then [] else x :: repeat x (n - 1)
let fill n = repeat (n_of_int 0xEE) n

(* canonical text of a model result: "<out hex> <ret hex>" *)
let sb (r : n list res) = match r with Ok l -> Some (hex_of_bytes l ^ " 0") | _ -> None
let sn (r : n res) = match r with Ok x -> Some ("- " ^ hex_of_n x) | _ -> None
let snat (r : nat res) = match r with Ok x -> Some (Printf.sprintf "- %x" (int_of_nat x)) | _ -> None

(* compare the ISA models with the scalar model *)
let judge (scalar : string option) (variants : (string * string option) list) : string =
  match scalar with
  | Some want ->
      let rec go = function
        | [] -> "OK " ^ want
        | (name, Some got) :: tl -> if got = want then go tl else Printf.sprintf "MDIFF variant=%s got=%s want=%s" name got want
        | (name, None) :: _ -> "MFAULT variant=" ^ name in
      go variants
  | None -> "MFAULT variant=scalar"

let nat = nat_of_int
let rec take n l = if n <= 0 then [] else match l with [] -> [] | x :: t -> x :: take (n - 1) t
let rec drop n l = if n <= 0 then l else match l with [] -> [] | _ :: t -> drop (n - 1) t

let intr_ids = [
  "_mm_shuffle_epi8", 0;
  "_mm_unpacklo_epi8", 1;
  "_mm_unpackhi_epi8", 2;
  "_mm_unpacklo_epi16", 3;
  "_mm_unpackhi_epi16", 4;
  "_mm_unpackhi_epi64", 5;
  "_mm_and_si128", 6;
  "_mm_min_epu8", 7;
  "_mm_add_epi16", 8;
  "_mm_add_epi32", 9;
  "_mm_add_epi64", 10;
  "_mm_cmpeq_epi8", 11;
  "_mm_cmpeq_epi16", 12;
  "_mm_cmpeq_epi32", 13;
  "_mm_cmplt_epi16", 14;
  "_mm_mullo_epi16", 15;
  "_mm_packs_epi16", 16;
  "_mm_slli_si128_4", 17;
  "_mm_slli_si128_8", 18;
  "_mm_srli_si128_2", 19;
  "_mm_srli_si128_4", 20;
  "_mm_srli_si128_8", 21;
  "_mm_slli_epi32_7", 22;
  "_mm_srli_epi16_4", 23;
  "_mm_set1_epi8", 24;
  "_mm_set1_epi16", 25;
  "_mm_set1_epi32", 26;
  "_mm_set1_epi64x", 27;
  "_mm_cvtsi32_si128", 28;
  "_mm_cvtsi64_si128", 29;
  "_mm_loadl_epi64", 30;
  "_mm_movemask_epi8", 31;
  "_mm_cvtsi128_si32", 32;
  "_mm_extract_epi32_3", 33;
  "_mm_extract_epi16_0", 34;
  "_mm_crc32_u8", 35;
  "_mm_crc32_u16", 36;
  "_mm_crc32_u32", 37;
  "_mm_crc32_u64", 38;
  "_mm256_shuffle_epi8", 39;
  "_mm256_and_si256", 40;
  "_mm256_min_epu8", 41;
  "_mm256_add_epi32", 42;
  "_mm256_add_epi64", 43;
  "_mm256_cmpeq_epi32", 44;
  "_mm256_slli_si256_4", 45;
  "_mm256_slli_si256_8", 46;
  "_mm256_set1_epi8", 47;
  "_mm256_set1_epi32", 48;
  "_mm256_set1_epi64x", 49;
  "_mm256_cvtepu8_epi32", 50;
  "_mm256_cvtepu16_epi32", 51;
  "_mm256_inserti128_si256_1", 52;
  "_mm256_extracti128_si256_0", 53;
  "_mm256_extracti128_si256_1", 54;
  "_mm256_movemask_epi8", 55;
  "_mm256_extract_epi32_0", 56;
  "_mm256_extract_epi32_4", 57;
  "_mm256_extract_epi32_7", 58;
  "_mm512_shuffle_epi8", 59;
  "_mm512_permutexvar_epi32", 60;
  "_mm512_add_epi32", 61;
  "_mm512_add_epi64", 62;
  "_mm512_set1_epi8", 63;
  "_mm512_set1_epi32", 64;
  "_mm512_set1_epi64", 65;
  "_mm512_cvtepu8_epi32", 66;
  "_mm512_cvtepu16_epi32", 67;
  "_mm512_maskz_set1_epi8_1", 68;
  "_mm512_maskz_alignr_epi32_FFFE_15", 69;
  "_mm512_maskz_alignr_epi32_FFFC_14", 70;
  "_mm512_maskz_alignr_epi32_FFF0_12", 71;
  "_mm512_maskz_alignr_epi32_FF00_8", 72;
  "_mm512_maskz_alignr_epi64_FE_7", 73;
  "_mm512_maskz_alignr_epi64_FC_6", 74;
  "_mm512_maskz_alignr_epi64_F0_4", 75;
  "_mm512_maskz_loadu_epi8", 76;
  "_mm512_castsi512_si128", 77;
  "_mm512_extracti32x4_epi32_1", 78;
  "_mm512_extracti32x4_epi32_2", 79;
  "_mm512_extracti32x4_epi32_3", 80;
  "_mm512_test_epi8_mask", 81;
  "_mm512_cmpeq_epi32_mask", 82;
]

let pad64 l = let n = List.length l in if n >= 64 then l else l @ repeat (n_of_int 0) (64 - n)

let handle toks =
  match toks with
  | ["dispatch"; bits] ->
      let bl = List.init (String.length bits) (fun i -> bits.[i] = '1') in
      "OK caps=" ^ bits ^
      String.concat "" (List.map (fun (s, k) -> Printf.sprintf " %d=%s" (int_of_nat s)
                                   (match k with Some k -> string_of_int (int_of_nat k) | None -> "none"))
                          (Simd_ext.dispatch_indices bl))
  | ["bssef"; _; _; count; data] ->
      let c = int_of_string count in let n = nat_of_int c and src = bytes_of_hex data and o = fill (4 * c) in
      judge (sb (Simd_ext.scalar_bss_encode (nat_of_int 4) n src o))
        ["sse", sb (Simd_ext.sse_bss_encode_float n src o); "avx2", sb (Simd_ext.avx2_bss_encode_float n src o);
         "avx512", sb (Simd_ext.avx512_bss_encode_float n src o)]
  | ["bssdf"; _; _; count; data] ->
      let c = int_of_string count in let n = nat_of_int c and src = bytes_of_hex data and o = fill (4 * c) in
      judge (sb (Simd_ext.scalar_bss_decode (nat_of_int 4) n src o))
        ["sse", sb (Simd_ext.sse_bss_decode_float n src o); "avx2", sb (Simd_ext.avx2_bss_decode_float n src o);
         "avx512", sb (Simd_ext.avx512_bss_decode_float n src o)]
  | ["bssed"; _; _; count; data] ->
      let c = int_of_string count in let n = nat_of_int c and src = bytes_of_hex data and o = fill (8 * c) in
      judge (sb (Simd_ext.scalar_bss_encode (nat_of_int 8) n src o))
        ["sse", sb (Simd_ext.sse_bss_encode_double n src o); "avx2", sb (Simd_ext.avx2_bss_encode_double n src o)]
  | ["bssdd"; _; _; count; data] ->
      let c = int_of_string count in let n = nat_of_int c and src = bytes_of_hex data and o = fill (8 * c) in
      judge (sb (Simd_ext.scalar_bss_decode (nat_of_int 8) n src o))
        ["sse", sb (Simd_ext.sse_bss_decode_double n src o); "avx2", sb (Simd_ext.avx2_bss_decode_double n src o)]
  | [("psum32" | "psum64") as op; _; _; count; init; data] ->
      let n = nat (int_of_string count) and buf = bytes_of_hex data and i0 = n_of_hex init in
      if op = "psum32" then
        judge (sb (Simd_ext.scalar_prefix_sum (nat 4) n buf i0))
          ["sse", sb (Simd_ext.sse_prefix_sum_i32 n buf i0); "avx2", sb (Simd_ext.avx2_prefix_sum_i32 n buf i0);
           "avx512", sb (Simd_ext.avx512_prefix_sum_i32 n buf i0)]
      else
        judge (sb (Simd_ext.scalar_prefix_sum (nat 8) n buf i0))
          ["sse", sb (Simd_ext.sse_prefix_sum_i64 n buf i0); "avx2", sb (Simd_ext.avx2_prefix_sum_i64 n buf i0);
           "avx512", sb (Simd_ext.avx512_prefix_sum_i64 n buf i0)]
  | [("gather32" | "gatherf" | "gather64" | "gatherd") as op; _; _; count; _dl; dict; idx] ->
      let c = int_of_string count in let n = nat c and d = bytes_of_hex dict and ix = bytes_of_hex idx in
      if op = "gather32" || op = "gatherf" then
        let o = fill (4 * c) in
        judge (sb (Simd_ext.scalar_gather (nat 4) n d ix o))
          ["sse", sb (Simd_ext.sse_gather_i32 n d ix o); "avx2", sb (Simd_ext.avx2_gather_i32 n d ix o);
           "avx512", sb (Simd_ext.avx512_gather_i32 n d ix o)]
      else
        let o = fill (8 * c) in
        judge (sb (Simd_ext.scalar_gather (nat 8) n d ix o))
          ["sse", sb (Simd_ext.sse_gather_i64 n d ix o); "avx2", sb (Simd_ext.avx2_gather_i64 n d ix o);
           "avx512", sb (Simd_ext.avx512_gather_i64 n d ix o)]
  | ["unpackb"; _; _; count; data] ->
      let c = int_of_string count in let n = nat c and inp = bytes_of_hex data and o = fill c in
      judge (sb (Simd_ext.scalar_unpack_bools n inp o))
        ["sse", sb (Simd_ext.sse_unpack_bools n inp o); "avx2", sb (Simd_ext.avx2_unpack_bools n inp o);
         "avx512", sb (Simd_ext.avx512_unpack_bools n inp o)]
  | ["packb"; _; _; count; data] ->
      let c = int_of_string count in let n = nat c and inp = bytes_of_hex data and o = fill ((c + 7) / 8) in
      judge (sb (Simd_ext.scalar_pack_bools n inp o))
        ["sse", sb (Simd_ext.sse_pack_bools n inp o); "avx2", sb (Simd_ext.avx2_pack_bools n inp o);
         "avx512", sb (Simd_ext.avx512_pack_bools n inp o)]
  | ["runlen"; _; _; count; data] ->
      let n = nat (int_of_string count) and v = bytes_of_hex data in
      judge (snat (Simd_ext.scalar_find_run_length n v))
        ["sse", snat (Simd_ext.sse_find_run_length n v); "avx2", snat (Simd_ext.avx2_find_run_length n v);
         "avx512", snat (Simd_ext.avx512_find_run_length n v)]
  | ["crc32c"; _; _; crc; data] ->
      let c = n_of_hex crc and d = bytes_of_hex data in
      judge (Some ("- " ^ hex_of_n (Simd_ext.scalar_crc32c Simd_ext.simd_crc32c_table c d))) ["sse", sn (Simd_ext.sse_crc32c c d)]
  | ["mcopy"; _; _; len; off; hist] ->
      let l = int_of_string len and h = bytes_of_hex hist in
      let hl = List.length h in let buf = h @ fill l in
      let fin r = match r with Ok b -> Ok (take l (drop hl b)) | Err c -> Err c | Fault f -> Fault f in
      judge (sb (fin (Simd_ext.scalar_match_copy buf (nat hl) (nat l) (nat (int_of_string off)))))
        ["sse", sb (fin (Simd_ext.sse_match_copy buf (nat hl) (nat l) (nat (int_of_string off))))]
  | ["mlen"; _; _; p; m] ->
      let p = bytes_of_hex p and m = bytes_of_hex m in let n = nat (List.length p) in
      judge (snat (Simd_ext.scalar_match_length n p m)) ["sse", snat (Simd_ext.sse_match_length n p m)]
  | ["nonnull"; _; _; count; mx; data] ->
      let n = nat (int_of_string count) and lv = bytes_of_hex data and mx = n_of_hex mx in
      judge (sn (Simd_ext.scalar_count_non_nulls n lv mx)) ["sse", sn (Simd_ext.sse_count_non_nulls n lv mx)]
  | ["nullbm"; _; _; count; mx; data; prefill] ->
      let c = int_of_string count in
      let n = nat c and lv = bytes_of_hex data and mx = n_of_hex mx and o = repeat (n_of_hex prefill) ((c + 7) / 8) in
      judge (sb (Simd_ext.scalar_build_null_bitmap n lv mx o)) ["sse", sb (Simd_ext.sse_build_null_bitmap n lv mx o)]
  | ["filldef"; _; _; count; v] ->
      let c = int_of_string count in let n = nat c and v = n_of_hex v and o = fill (2 * c) in
      judge (sb (Simd_ext.scalar_fill_def_levels n v o)) ["sse", sb (Simd_ext.sse_fill_def_levels n v o)]
  | ["bu"; _; _; name; data] ->
      let inp = bytes_of_hex data in
      let go w nv f = judge (Some (hex_of_bytes (Simd_ext.scalar_bitunpack (nat w) (nat nv) inp) ^ " 0")) [name, sb (f inp)] in
      (match name with
       | "sse_32_1" -> go 1 32 Simd_ext.sse_bitunpack32_1bit | "sse_8_4" -> go 4 8 Simd_ext.sse_bitunpack8_4bit
       | "sse_8_8" -> go 8 8 Simd_ext.sse_bitunpack8_8bit | "avx2_64_1" -> go 1 64 Simd_ext.avx2_bitunpack64_1bit
       | "avx2_16_4" -> go 4 16 Simd_ext.avx2_bitunpack16_4bit | "avx2_16_8" -> go 8 16 Simd_ext.avx2_bitunpack16_8bit
       | "avx2_8_16" -> go 16 8 Simd_ext.avx2_bitunpack8_16bit | "avx512_32_8" -> go 8 32 Simd_ext.avx512_bitunpack32_8bit
       | "avx512_16_16" -> go 16 16 Simd_ext.avx512_bitunpack16_16bit | "avx512_32_4" -> go 4 32 Simd_ext.avx512_bitunpack32_4bit
       | _ -> "UNMODELLED")
  | ["mset"; _; _; n; v] ->
      let c = int_of_string n in let n = nat c and v = n_of_hex v and o = fill c in
      judge (sb (Simd_ext.scalar_memset n v o))
        ["sse", sb (Simd_ext.sse_memset_small n v o); "avx2", sb (Simd_ext.avx2_memset n v o); "avx512", sb (Simd_ext.avx512_memset n v o)]
  | ["mcpy"; _; _; data] ->
      let src = bytes_of_hex data in let c = List.length src in let n = nat c and o = fill c in
      judge (sb (Simd_ext.scalar_memcpy n src o))
        ["sse", sb (Simd_ext.sse_memcpy_small n src o); "avx2", sb (Simd_ext.avx2_memcpy n src o); "avx512", sb (Simd_ext.avx512_memcpy n src o)]
  | ["intr"; name; a; b; _] ->
      (match List.assoc_opt name intr_ids with
       | None -> "UNMODELLED"
       | Some id -> "OK " ^ hex_of_bytes (Simd_ext.intr_eval (n_of_int id) (pad64 (bytes_of_hex a)) (pad64 (bytes_of_hex b))))
  | _ -> "UNMODELLED"
let () = main_loop handle
