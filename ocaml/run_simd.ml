(* conv: n *)
(* Runner for the simd engine (C15): dispatcher model, kernel models, intrinsic semantics.
   Case lines are those of harness/h_simd.c; the variants / alignment tokens are ignored (the models have no
   alignment).  Reply: "OK <result hex> <ret hex>" when the scalar model and every ISA model agree,
   "MDIFF variant=..", "MFAULT variant=..", or "UNMODELLED". *)
let rec repeat x n = if n <= 0 then [] else x :: repeat x (n - 1)
let fill n = repeat (n_of_int 0xEE) n

(* compare the ISA models with the scalar model *)
let judge (scalar : n list res) (variants : (string * n list res) list) : string =
  match scalar with
  | Ok want ->
      let rec go = function
        | [] -> Printf.sprintf "OK %s 0" (hex_of_bytes want)
        | (name, Ok got) :: tl -> if got = want then go tl else Printf.sprintf "MDIFF variant=%s got=%s want=%s" name (hex_of_bytes got) (hex_of_bytes want)
        | (name, _) :: _ -> "MFAULT variant=" ^ name in
      go variants
  | _ -> "MFAULT variant=scalar"

let handle toks =
  match toks with
  | ["dispatch"; bits] ->
      let bl = List.init (String.length bits) (fun i -> bits.[i] = '1') in
      "OK caps=" ^ bits ^
      String.concat "" (List.map (fun (s, k) -> Printf.sprintf " %d=%s" (int_of_nat s)
                                   (match k with Some k -> string_of_int (int_of_nat k) | None -> "none"))
                          (Simd_ext.dispatch_indices bl))
  | ["bssef"; _; _; count; data] ->
      let c = int_of_string count in let n = nat_of_int c and src = bytes_of_hex data and o = fill (4 * c) in
      judge (Simd_ext.scalar_bss_encode (nat_of_int 4) n src o)
        ["sse", Simd_ext.sse_bss_encode_float n src o; "avx2", Simd_ext.avx2_bss_encode_float n src o;
         "avx512", Simd_ext.avx512_bss_encode_float n src o]
  | ["bssdf"; _; _; count; data] ->
      let c = int_of_string count in let n = nat_of_int c and src = bytes_of_hex data and o = fill (4 * c) in
      judge (Simd_ext.scalar_bss_decode (nat_of_int 4) n src o)
        ["sse", Simd_ext.sse_bss_decode_float n src o; "avx2", Simd_ext.avx2_bss_decode_float n src o;
         "avx512", Simd_ext.avx512_bss_decode_float n src o]
  | ["bssed"; _; _; count; data] ->
      let c = int_of_string count in let n = nat_of_int c and src = bytes_of_hex data and o = fill (8 * c) in
      judge (Simd_ext.scalar_bss_encode (nat_of_int 8) n src o)
        ["sse", Simd_ext.sse_bss_encode_double n src o; "avx2", Simd_ext.avx2_bss_encode_double n src o]
  | ["bssdd"; _; _; count; data] ->
      let c = int_of_string count in let n = nat_of_int c and src = bytes_of_hex data and o = fill (8 * c) in
      judge (Simd_ext.scalar_bss_decode (nat_of_int 8) n src o)
        ["sse", Simd_ext.sse_bss_decode_double n src o; "avx2", Simd_ext.avx2_bss_decode_double n src o]
  | _ -> "UNMODELLED"
let () = main_loop handle
