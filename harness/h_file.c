/* h_file.c - file-level driver around carquet's PUBLIC writer/reader API.
 *
 * A stateful, line-driven interpreter (command language: harness/h_file.md).  Commands between
 * "CASE <id>" and "END" are executed in a forked child, so that a crash / sanitizer report / hang
 * is attributed to exactly that case ("FAULT <id> ...") and the following cases still run.
 * Output is canonical: no pointers, no timing, values as raw bit patterns in hex.
 *
 * Only <carquet/carquet.h> is used (no internal headers), so that the driver keeps building
 * when internals change.  All buffers handed to the library are exact-size heap allocations so
 * that a one-byte over-read/over-write is an AddressSanitizer report.
 */
#define _GNU_SOURCE
#include "hcommon.h"
#include <carquet/carquet.h>
/* declared in carquet.h but (in the pinned tree) defined nowhere: keep the driver linkable */
#pragma weak carquet_reader_open_file
#include <unistd.h>
#include <errno.h>
#include <fcntl.h>
#include <signal.h>
#include <sys/wait.h>
#include <sys/mman.h>
#include <sys/stat.h>
#include <sys/resource.h>

/* ------------------------------------------------------------------ allocation (optional fault injection) */
/* When built with -DHFILE_WRAP_ALLOC and -Wl,--wrap=malloc,--wrap=calloc,--wrap=realloc (see
 * harness/h_file_alloc.c) every malloc/calloc/realloc call made by the LIBRARY objects goes through
 * the wrappers below; the driver's own allocations use the real functions directly. */
#ifdef HFILE_WRAP_ALLOC
extern void* __real_malloc(size_t);
extern void* __real_calloc(size_t, size_t);
extern void* __real_realloc(void*, size_t);
static long g_alloc_count = 0;      /* requests seen since ALLOC_RESET */
static long g_alloc_fail_at = 0;    /* 1-based index of the request that fails; 0 = never */
static int g_alloc_sticky = 0;      /* 1: every request from fail_at on fails */
static int g_alloc_armed = 0;
static int alloc_should_fail(void) {
    if (!g_alloc_armed) return 0;
    g_alloc_count++;
    if (g_alloc_fail_at <= 0) return 0;
    if (g_alloc_count == g_alloc_fail_at) return 1;
    if (g_alloc_sticky && g_alloc_count > g_alloc_fail_at) return 1;
    return 0;
}
void* __wrap_malloc(size_t n) { if (alloc_should_fail()) { errno = ENOMEM; return NULL; } return __real_malloc(n); }
void* __wrap_calloc(size_t a, size_t b) { if (alloc_should_fail()) { errno = ENOMEM; return NULL; } return __real_calloc(a, b); }
void* __wrap_realloc(void* p, size_t n) { if (alloc_should_fail()) { errno = ENOMEM; return NULL; } return __real_realloc(p, n); }
#define H_MALLOC(n) __real_malloc(n)
#define H_CALLOC(a, b) __real_calloc(a, b)
#define H_REALLOC(p, n) __real_realloc(p, n)
#define ARM() (g_alloc_armed = 1)
#define DISARM() (g_alloc_armed = 0)
#else
#define H_MALLOC(n) malloc(n)
#define H_CALLOC(a, b) calloc(a, b)
#define H_REALLOC(p, n) realloc(p, n)
#define ARM() ((void)0)
#define DISARM() ((void)0)
#endif

static void* xmalloc(size_t n) {
    void* p = H_MALLOC(n);
    if (!p) { fprintf(stderr, "h_file: driver out of memory\n"); _exit(97); }
    return p;
}
static char* xstrdup(const char* s) { size_t n = strlen(s) + 1; char* p = xmalloc(n); memcpy(p, s, n); return p; }

/* ------------------------------------------------------------------ names */
static const char* stname(int s) {
    switch (s) {
    case CARQUET_OK: return "OK";
    case CARQUET_ERROR_INVALID_ARGUMENT: return "INVALID_ARGUMENT";
    case CARQUET_ERROR_OUT_OF_MEMORY: return "OUT_OF_MEMORY";
    case CARQUET_ERROR_NOT_IMPLEMENTED: return "NOT_IMPLEMENTED";
    case CARQUET_ERROR_INTERNAL: return "INTERNAL";
    case CARQUET_ERROR_FILE_NOT_FOUND: return "FILE_NOT_FOUND";
    case CARQUET_ERROR_FILE_OPEN: return "FILE_OPEN";
    case CARQUET_ERROR_FILE_READ: return "FILE_READ";
    case CARQUET_ERROR_FILE_WRITE: return "FILE_WRITE";
    case CARQUET_ERROR_FILE_SEEK: return "FILE_SEEK";
    case CARQUET_ERROR_FILE_TRUNCATED: return "FILE_TRUNCATED";
    case CARQUET_ERROR_INVALID_MAGIC: return "INVALID_MAGIC";
    case CARQUET_ERROR_INVALID_FOOTER: return "INVALID_FOOTER";
    case CARQUET_ERROR_INVALID_SCHEMA: return "INVALID_SCHEMA";
    case CARQUET_ERROR_INVALID_METADATA: return "INVALID_METADATA";
    case CARQUET_ERROR_INVALID_PAGE: return "INVALID_PAGE";
    case CARQUET_ERROR_INVALID_ENCODING: return "INVALID_ENCODING";
    case CARQUET_ERROR_VERSION_NOT_SUPPORTED: return "VERSION_NOT_SUPPORTED";
    case CARQUET_ERROR_THRIFT_DECODE: return "THRIFT_DECODE";
    case CARQUET_ERROR_THRIFT_ENCODE: return "THRIFT_ENCODE";
    case CARQUET_ERROR_THRIFT_INVALID_TYPE: return "THRIFT_INVALID_TYPE";
    case CARQUET_ERROR_THRIFT_TRUNCATED: return "THRIFT_TRUNCATED";
    case CARQUET_ERROR_DECODE: return "DECODE";
    case CARQUET_ERROR_ENCODE: return "ENCODE";
    case CARQUET_ERROR_DICTIONARY_NOT_FOUND: return "DICTIONARY_NOT_FOUND";
    case CARQUET_ERROR_INVALID_RLE: return "INVALID_RLE";
    case CARQUET_ERROR_INVALID_DELTA: return "INVALID_DELTA";
    case CARQUET_ERROR_COMPRESSION: return "COMPRESSION";
    case CARQUET_ERROR_DECOMPRESSION: return "DECOMPRESSION";
    case CARQUET_ERROR_UNSUPPORTED_CODEC: return "UNSUPPORTED_CODEC";
    case CARQUET_ERROR_INVALID_COMPRESSED_DATA: return "INVALID_COMPRESSED_DATA";
    case CARQUET_ERROR_TYPE_MISMATCH: return "TYPE_MISMATCH";
    case CARQUET_ERROR_COLUMN_NOT_FOUND: return "COLUMN_NOT_FOUND";
    case CARQUET_ERROR_ROW_GROUP_NOT_FOUND: return "ROW_GROUP_NOT_FOUND";
    case CARQUET_ERROR_END_OF_DATA: return "END_OF_DATA";
    case CARQUET_ERROR_CHECKSUM: return "CHECKSUM";
    case CARQUET_ERROR_CRC_MISMATCH: return "CRC_MISMATCH";
    case CARQUET_ERROR_INVALID_STATE: return "INVALID_STATE";
    case CARQUET_ERROR_ALREADY_CLOSED: return "ALREADY_CLOSED";
    case CARQUET_ERROR_NOT_OPEN: return "NOT_OPEN";
    default: return "UNKNOWN";
    }
}

/* "what OK"  or  "what ERR <code> <NAME>" */
static void pst(const char* what, int st) {
    if (st == CARQUET_OK) printf("%s OK\n", what);
    else printf("%s ERR %d %s\n", what, st, stname(st));
}
/* the same for calls that report through a carquet_error_t; msglen == 256 means "not NUL-terminated" */
static void perr(const char* what, const carquet_error_t* e) {
    printf("%s ERR %d %s msglen=%zu\n", what, (int)e->code, stname(e->code),
           strnlen(e->message, CARQUET_ERROR_MESSAGE_MAX));
}

static const char* TYPE_NAMES[8] = {"BOOLEAN", "INT32", "INT64", "INT96", "FLOAT", "DOUBLE", "BYTE_ARRAY",
                                    "FIXED_LEN_BYTE_ARRAY"};
static const char* REP_NAMES[3] = {"REQUIRED", "OPTIONAL", "REPEATED"};
static const char* CODEC_NAMES[8] = {"UNCOMPRESSED", "SNAPPY", "GZIP", "LZO", "BROTLI", "LZ4", "ZSTD", "LZ4_RAW"};

static int lookup(const char* s, const char* const* names, int n) {
    for (int i = 0; i < n; i++) if (!strcmp(s, names[i])) return i;
    char* e; long v = strtol(s, &e, 10);
    if (*s && !*e) return (int)v;            /* raw number: lets a case pass an out-of-range enum */
    return -1000;
}
static const char* tyname(int t) { return (t >= 0 && t < 8) ? TYPE_NAMES[t] : "?"; }
static const char* repname(int r) { return (r >= 0 && r < 3) ? REP_NAMES[r] : "?"; }

/* width in bytes of one value slot in the caller-side array for a physical type */
static size_t slot_size(int type, int tlen) {
    switch (type) {
    case CARQUET_PHYSICAL_BOOLEAN: return 1;
    case CARQUET_PHYSICAL_INT32: case CARQUET_PHYSICAL_FLOAT: return 4;
    case CARQUET_PHYSICAL_INT64: case CARQUET_PHYSICAL_DOUBLE: return 8;
    case CARQUET_PHYSICAL_INT96: return 12;
    case CARQUET_PHYSICAL_FIXED_LEN_BYTE_ARRAY: return tlen > 0 ? (size_t)tlen : 0;
    case CARQUET_PHYSICAL_BYTE_ARRAY: return sizeof(carquet_byte_array_t);
    default: return 0;
    }
}

/* ------------------------------------------------------------------ tokens */
#define MAXTOK 96
static char* T[MAXTOK];
static int NT;
static void split(char* p) {
    NT = 0;
    while (*p && NT < MAXTOK) {
        while (*p == ' ') p++;
        if (!*p) break;
        T[NT++] = p;
        while (*p && *p != ' ') p++;
        if (*p) *p++ = 0;
    }
}
/* value of "key=..." among tokens from index `from`, or NULL */
static const char* kv(const char* key, int from) {
    size_t kl = strlen(key);
    for (int i = from; i < NT; i++)
        if (!strncmp(T[i], key, kl) && T[i][kl] == '=') return T[i] + kl + 1;
    return NULL;
}
static long long kvi(const char* key, int from, long long dflt) {
    const char* v = kv(key, from);
    return v ? strtoll(v, NULL, 0) : dflt;
}
static int is_dash(const char* s) { return s[0] == '-' && s[1] == 0; }

/* hex -> exact-size heap buffer (len 0 -> a zero-byte allocation, never NULL) */
static uint8_t* unhex(const char* s, size_t* len) {
    size_t n = is_dash(s) ? 0 : strlen(s) / 2;
    uint8_t* b = xmalloc(n);
    for (size_t i = 0; i < n; i++) b[i] = (uint8_t)(h_hexval(s[2 * i]) * 16 + h_hexval(s[2 * i + 1]));
    *len = n;
    return b;
}
static uint8_t* unhexn(const char* s, size_t nchars, size_t* len) {
    size_t n = nchars / 2;
    uint8_t* b = xmalloc(n);
    for (size_t i = 0; i < n; i++) b[i] = (uint8_t)(h_hexval(s[2 * i]) * 16 + h_hexval(s[2 * i + 1]));
    *len = n;
    return b;
}
/* levels: "-" -> NULL; digits "0110"; or "L1,0,12" for levels above 9 */
static int16_t* parse_levels(const char* s, size_t* n) {
    *n = 0;
    if (is_dash(s)) return NULL;
    if (s[0] == 'L') {
        size_t cnt = 1;
        for (const char* p = s; *p; p++) if (*p == ',') cnt++;
        int16_t* a = xmalloc(cnt * sizeof(int16_t));
        const char* p = s + 1; size_t i = 0;
        while (*p && i < cnt) { a[i++] = (int16_t)strtol(p, (char**)&p, 10); if (*p == ',') p++; }
        *n = i;
        return a;
    }
    if (s[0] == 'E' && s[1] == 0) return xmalloc(0);   /* an empty, non-NULL level array */
    size_t len = strlen(s);
    int16_t* a = xmalloc(len * sizeof(int16_t));
    for (size_t i = 0; i < len; i++) a[i] = (int16_t)(s[i] - '0');
    *n = len;
    return a;
}
static void print_levels(const int16_t* a, int64_t n) {
    if (n <= 0) { putchar('-'); return; }
    int wide = 0;
    for (int64_t i = 0; i < n; i++) if (a[i] < 0 || a[i] > 9) wide = 1;
    if (!wide) { for (int64_t i = 0; i < n; i++) putchar('0' + a[i]); return; }
    putchar('L');
    for (int64_t i = 0; i < n; i++) printf(i ? ",%d" : "%d", (int)a[i]);
}

/* is [p, p+n) inside mapped memory?  (garbage pointers delivered by the library must not crash the
 * DRIVER; a mapped-but-poisoned address is still dereferenced so that ASan reports a lifetime bug) */
static int ptr_mapped(const void* p, size_t n) {
    if (!p) return 0;
    if (n == 0) n = 1;
    uintptr_t a = (uintptr_t)p & ~(uintptr_t)4095;
    uintptr_t e = ((uintptr_t)p + n + 4095) & ~(uintptr_t)4095;
    if (e <= a) return 0;
    size_t pages = (e - a) / 4096;
    if (pages > (1u << 18)) return 0;
    unsigned char* vec = xmalloc(pages);
    int r = mincore((void*)a, e - a, vec);
    free(vec);
    return r == 0;
}

/* ------------------------------------------------------------------ state */
#define MAXCOLS 10240       /* (the writer's own limit is 9999 columns: schema elements <= 10000) */
typedef struct { char* name; int type; int rep; int tlen; int has_lt; carquet_logical_type_t lt; } coldef_t;

typedef struct {
    /* failure plan */
    long long fail_byte;    /* total bytes the sink accepts before failing; -1 = unlimited */
    long fail_op;           /* 1-based index of the first write operation that fails; 0 = never */
    int sticky;             /* 1: once failed, every later write fails too */
    int fail_close;         /* close hook returns -1 */
    /* observation */
    long nwrites;
    int failed;
    uint8_t* data; size_t len, cap;   /* bytes accepted */
    int log;
} sink_t;

#define MAXCR 16
typedef struct {
    carquet_column_reader_t* cr;
    int rg, col, type, tlen, maxdef;
    /* byte arrays delivered by the last read call: pointers + private copies (lifetime clause) */
    carquet_byte_array_t* last_ba; uint8_t** last_copy; int64_t last_n;
} crslot_t;

#define MAXHELD 64
static struct {
    coldef_t cols[MAXCOLS]; int ncols;
    carquet_writer_options_t opts; int have_opts; int null_opts; char* created_by;
    carquet_schema_t* schema;
    carquet_writer_t* writer; char* wpath;
    FILE* sinkf; sink_t sink; char* sinkbuf;
    /* file image for buffer-mode reading and for producing damaged/truncated copies */
    uint8_t* img; size_t img_len; uint8_t* img_orig; size_t img_orig_len;
    /* reader */
    carquet_reader_t* reader; uint8_t* rbuf;   /* exact-size copy handed to open_buffer */
    FILE* rfile;                               /* stream handed to carquet_reader_open_file (caller-owned) */
    crslot_t cr[MAXCR];
    carquet_batch_reader_t* br; int br_ncols; int br_cols[MAXCOLS];
    int32_t* br_idx; char** br_names; int br_nnames;
    carquet_row_batch_t* held[MAXHELD]; int nheld;
} G;

static void opts_default(void) {
    carquet_writer_options_init(&G.opts);
    G.have_opts = 1;
}

/* ------------------------------------------------------------------ fopencookie sink (C18) */
static ssize_t sink_write(void* c, const char* buf, size_t n) {
    sink_t* s = (sink_t*)c;
    s->nwrites++;
    size_t ok = n;
    int fail = 0;
    if (s->sticky && s->failed) { ok = 0; fail = 1; }
    if (!fail && s->fail_op > 0 && (s->nwrites == s->fail_op || (s->sticky && s->nwrites > s->fail_op))) { ok = 0; fail = 1; }
    if (!fail && s->fail_byte >= 0 && (long long)(s->len + n) > s->fail_byte) {
        ok = (size_t)(s->fail_byte - (long long)s->len);
        fail = 1;
    }
    if (ok) {
        if (s->len + ok > s->cap) {
            s->cap = (s->len + ok) * 2 + 256;
            s->data = H_REALLOC(s->data, s->cap);
            if (!s->data) _exit(97);
        }
        memcpy(s->data + s->len, buf, ok);
        s->len += ok;
    }
    if (fail) s->failed = 1;
    if (s->log) printf("sink write n=%zu ret=%zu\n", n, ok);
    if (fail) errno = ENOSPC;
    return (ssize_t)ok;            /* a short count (incl. 0) is how a cookie write hook reports an error */
}
static int sink_close(void* c) {
    sink_t* s = (sink_t*)c;
    if (s->log) printf("sink close ret=%d\n", s->fail_close ? -1 : 0);
    if (s->fail_close) { errno = EIO; s->failed = 1; return -1; }
    return 0;
}

/* ------------------------------------------------------------------ write side */
static void free_schema_defs(void) {
    for (int i = 0; i < G.ncols; i++) free(G.cols[i].name);
    G.ncols = 0;
}

/* logical=<KIND>[:a[:b]]  DECIMAL:precision:scale  INT:bits:signed  TIME|TIMESTAMP:isAdjustedToUTC:MILLIS|MICROS|NANOS
 * STRING ENUM DATE JSON BSON UUID FLOAT16 NULL */
static int parse_logical(const char* spec, carquet_logical_type_t* lt) {
    char buf[96]; snprintf(buf, sizeof buf, "%s", spec);
    char* a = strchr(buf, ':'); char* b = NULL;
    if (a) { *a++ = 0; b = strchr(a, ':'); if (b) *b++ = 0; }
    memset(lt, 0, sizeof *lt);
    if (!strcmp(buf, "DECIMAL")) { lt->id = CARQUET_LOGICAL_DECIMAL; lt->params.decimal.precision = a ? atoi(a) : 0; lt->params.decimal.scale = b ? atoi(b) : 0; }
    else if (!strcmp(buf, "INT")) { lt->id = CARQUET_LOGICAL_INTEGER; lt->params.integer.bit_width = (int8_t)(a ? atoi(a) : 0); lt->params.integer.is_signed = b && atoi(b) != 0; }
    else if (!strcmp(buf, "TIME") || !strcmp(buf, "TIMESTAMP")) {
        carquet_time_unit_t u = (b && !strcmp(b, "MICROS")) ? CARQUET_TIME_UNIT_MICROS : (b && !strcmp(b, "NANOS")) ? CARQUET_TIME_UNIT_NANOS : CARQUET_TIME_UNIT_MILLIS;
        bool utc = a && atoi(a) != 0;
        if (!strcmp(buf, "TIME")) { lt->id = CARQUET_LOGICAL_TIME; lt->params.time.unit = u; lt->params.time.is_adjusted_to_utc = utc; }
        else { lt->id = CARQUET_LOGICAL_TIMESTAMP; lt->params.timestamp.unit = u; lt->params.timestamp.is_adjusted_to_utc = utc; }
    }
    else if (!strcmp(buf, "STRING")) lt->id = CARQUET_LOGICAL_STRING;
    else if (!strcmp(buf, "ENUM")) lt->id = CARQUET_LOGICAL_ENUM;
    else if (!strcmp(buf, "DATE")) lt->id = CARQUET_LOGICAL_DATE;
    else if (!strcmp(buf, "JSON")) lt->id = CARQUET_LOGICAL_JSON;
    else if (!strcmp(buf, "BSON")) lt->id = CARQUET_LOGICAL_BSON;
    else if (!strcmp(buf, "UUID")) lt->id = CARQUET_LOGICAL_UUID;
    else if (!strcmp(buf, "FLOAT16")) lt->id = CARQUET_LOGICAL_FLOAT16;
    else if (!strcmp(buf, "NULL")) lt->id = CARQUET_LOGICAL_NULL;
    else return 0;
    return 1;
}

static void cmd_col(void) {       /* COL <namehex> <TYPE> <REQUIRED|OPTIONAL|REPEATED> <type_length> [logical=<spec>] */
    if (NT < 5 || G.ncols >= MAXCOLS) { puts("col BAD"); return; }
    size_t n; uint8_t* nm = unhex(T[1], &n);
    char* name = xmalloc(n + 1); memcpy(name, nm, n); name[n] = 0; free(nm);
    coldef_t* c = &G.cols[G.ncols++];
    c->name = name;
    c->type = lookup(T[2], TYPE_NAMES, 8);
    c->rep = lookup(T[3], REP_NAMES, 3);
    c->tlen = atoi(T[4]);
    c->has_lt = 0;
    if (NT >= 6 && !strncmp(T[5], "logical=", 8)) {
        if (parse_logical(T[5] + 8, &c->lt)) c->has_lt = 1; else printf("col BAD logical %s\n", T[5] + 8);
    }
}

static void cmd_opt(void) {       /* OPT key=value ...   (NULL = pass a NULL options pointer) */
    if (!G.have_opts) opts_default();
    for (int i = 1; i < NT; i++) {
        char* eq = strchr(T[i], '=');
        if (!strcmp(T[i], "NULL")) { G.null_opts = 1; continue; }
        if (!eq) { printf("opt BAD %s\n", T[i]); continue; }
        *eq = 0; const char* k = T[i]; const char* v = eq + 1;
        if (!strcmp(k, "codec")) G.opts.compression = (carquet_compression_t)lookup(v, CODEC_NAMES, 8);
        else if (!strcmp(k, "level")) G.opts.compression_level = atoi(v);
        else if (!strcmp(k, "page_size")) G.opts.page_size = strtoll(v, NULL, 0);
        else if (!strcmp(k, "row_group_size")) G.opts.row_group_size = strtoll(v, NULL, 0);
        else if (!strcmp(k, "stats")) G.opts.write_statistics = atoi(v) != 0;
        else if (!strcmp(k, "page_index")) G.opts.write_page_index = atoi(v) != 0;
        else if (!strcmp(k, "bloom")) G.opts.write_bloom_filters = atoi(v) != 0;
        else if (!strcmp(k, "dict_enc")) {
            if (!strcmp(v, "PLAIN")) G.opts.dictionary_encoding = CARQUET_ENCODING_PLAIN;
            else if (!strcmp(v, "PLAIN_DICTIONARY")) G.opts.dictionary_encoding = CARQUET_ENCODING_PLAIN_DICTIONARY;
            else if (!strcmp(v, "RLE_DICTIONARY")) G.opts.dictionary_encoding = CARQUET_ENCODING_RLE_DICTIONARY;
            else G.opts.dictionary_encoding = (carquet_encoding_t)atoi(v);
        }
        else if (!strcmp(k, "dict_page_size")) G.opts.dictionary_page_size = strtoll(v, NULL, 0);
        else if (!strcmp(k, "created_by")) {
            free(G.created_by); G.created_by = NULL;
            if (is_dash(v)) G.opts.created_by = NULL;
            else { size_t n; uint8_t* b = unhex(v, &n); G.created_by = xmalloc(n + 1); memcpy(G.created_by, b, n);
                   G.created_by[n] = 0; free(b); G.opts.created_by = G.created_by; }
        }
        else printf("opt UNKNOWN %s\n", k);
    }
}

static int build_schema(void) {
    carquet_error_t e = CARQUET_ERROR_INIT;
    ARM();
    G.schema = carquet_schema_create(&e);
    DISARM();
    if (!G.schema) { perr("schema_create", &e); return 0; }
    for (int i = 0; i < G.ncols; i++) {
        ARM();
        carquet_status_t st = carquet_schema_add_column(G.schema, G.cols[i].name, (carquet_physical_type_t)G.cols[i].type,
                                                        G.cols[i].has_lt ? &G.cols[i].lt : NULL,
                                                        (carquet_field_repetition_t)G.cols[i].rep, G.cols[i].tlen);
        DISARM();
        if (st != CARQUET_OK) { printf("schema_add_column %d ERR %d %s\n", i, (int)st, stname(st)); return 0; }
    }
    return 1;
}

/* WOPEN path <path> [early_free=1]
 * WOPEN sink [fail_byte=k] [fail_op=k] [sticky=0|1] [fail_close=1] [buf=none|<bytes>] [log=1] [early_free=1] */
static void cmd_wopen(void) {
    if (NT < 2) { puts("create BAD"); return; }
    if (G.writer) { puts("create BAD writer-already-open"); return; }
    if (!G.have_opts) opts_default();
    if (!build_schema()) { if (G.schema) { carquet_schema_free(G.schema); G.schema = NULL; } puts("create SKIP no-schema"); return; }
    carquet_error_t e = CARQUET_ERROR_INIT;
    const carquet_writer_options_t* o = G.null_opts ? NULL : &G.opts;
    if (!strcmp(T[1], "path") && NT >= 3) {
        free(G.wpath); G.wpath = xstrdup(T[2]);
        ARM();
        G.writer = carquet_writer_create(G.wpath, G.schema, o, &e);
        DISARM();
    } else if (!strcmp(T[1], "sink")) {
        memset(&G.sink, 0, sizeof G.sink);
        G.sink.fail_byte = kvi("fail_byte", 2, -1);
        G.sink.fail_op = (long)kvi("fail_op", 2, 0);
        G.sink.sticky = (int)kvi("sticky", 2, 1);
        G.sink.fail_close = (int)kvi("fail_close", 2, 0);
        G.sink.log = (int)kvi("log", 2, 0);
        cookie_io_functions_t io = {NULL, sink_write, NULL, sink_close};
        G.sinkf = fopencookie(&G.sink, "wb", io);
        if (!G.sinkf) { puts("create BAD fopencookie"); return; }
        const char* b = kv("buf", 2);
        if (b) {
            if (!strcmp(b, "none")) setvbuf(G.sinkf, NULL, _IONBF, 0);
            else { size_t n = (size_t)strtoull(b, NULL, 0); G.sinkbuf = xmalloc(n ? n : 1); setvbuf(G.sinkf, G.sinkbuf, _IOFBF, n ? n : 1); }
        }
        ARM();
        G.writer = carquet_writer_create_file(G.sinkf, G.schema, o, &e);
        DISARM();
    } else { puts("create BAD target"); return; }
    if (G.writer) puts("create OK"); else perr("create", &e);
    if (kvi("early_free", 2, 0) && G.schema) { carquet_schema_free(G.schema); G.schema = NULL; }
}

/* W <col> <nrows> <defs|-> <reps|-> <nvals> <values>
 *   values: fixed-width types: hex of nvals*width bytes ("-" = none); BYTE_ARRAY: x<hex>,x<hex>,... ("-" = none) */
static void cmd_w(void) {
    if (NT < 7) { puts("write_batch BAD"); return; }
    if (!G.writer) { puts("write_batch SKIP no-writer"); return; }
    int col = atoi(T[1]);
    long long nrows = strtoll(T[2], NULL, 10);
    size_t nd, nr;
    int16_t* defs = parse_levels(T[3], &nd);
    int16_t* reps = parse_levels(T[4], &nr);
    long long nvals = strtoll(T[5], NULL, 10);
    int type = (col >= 0 && col < G.ncols) ? G.cols[col].type : CARQUET_PHYSICAL_INT32;
    void* values = NULL; uint8_t** parts = NULL; size_t nparts = 0;
    if (type == CARQUET_PHYSICAL_BYTE_ARRAY) {
        carquet_byte_array_t* a = xmalloc((size_t)(nvals > 0 ? nvals : 0) * sizeof *a);
        parts = xmalloc((size_t)(nvals > 0 ? nvals : 0) * sizeof *parts + 1);
        const char* p = T[6];
        if (!is_dash(p)) {
            while (*p && (long long)nparts < nvals) {
                if (*p == 'x') p++;
                const char* q = p; while (*q && *q != ',') q++;
                size_t n; uint8_t* b = unhexn(p, (size_t)(q - p), &n);
                a[nparts].data = b; a[nparts].length = (int32_t)n; parts[nparts] = b; nparts++;
                p = *q ? q + 1 : q;
            }
        }
        for (long long i = (long long)nparts; i < nvals; i++) {   /* fewer items than announced: empty values */
            uint8_t* b = xmalloc(0); a[i].data = b; a[i].length = 0; parts[i] = b; nparts++;
        }
        values = a;
    } else {
        size_t n; values = unhex(T[6], &n);
    }
    ARM();
    carquet_status_t st = carquet_writer_write_batch(G.writer, col, values, nrows, defs, reps);
    DISARM();
    pst("write_batch", st);
    for (size_t i = 0; i < nparts; i++) free(parts[i]);
    free(parts); free(values); free(defs); free(reps);
}

static void sink_report(const char* when) {
    if (G.sinkf || G.sink.data || G.sink.nwrites)
        printf("sink %s accepted=%zu writes=%ld failed=%d\n", when, G.sink.len, G.sink.nwrites, G.sink.failed);
}
static void finish_sink_stream(void) {
    if (G.sinkf) {
        int r = fclose(G.sinkf);      /* the caller owns the stream: this is what an application does next */
        G.sinkf = NULL;
        printf("fclose ret=%d\n", r);
        sink_report("final");
        free(G.sinkbuf); G.sinkbuf = NULL;
    }
}

static void report_path(void) {
    if (!G.wpath) return;
    struct stat sb;
    if (stat(G.wpath, &sb) == 0) printf("file exists=1 size=%lld\n", (long long)sb.st_size);
    else printf("file exists=0 size=0\n");
}

static void cmd_newrg(void) {
    if (!G.writer) { puts("new_row_group SKIP no-writer"); return; }
    ARM();
    carquet_status_t st = carquet_writer_new_row_group(G.writer);
    DISARM();
    pst("new_row_group", st);
}
static void cmd_close(void) {
    if (!G.writer) { puts("close SKIP no-writer"); return; }
    ARM();
    carquet_status_t st = carquet_writer_close(G.writer);
    DISARM();
    G.writer = NULL;
    pst("close", st);
    if (G.sinkf) { sink_report("at_close"); finish_sink_stream(); }
    else report_path();
    if (G.schema) { carquet_schema_free(G.schema); G.schema = NULL; }
}
static void cmd_abort(void) {
    if (!G.writer) { puts("abort SKIP no-writer"); return; }
    ARM();
    carquet_writer_abort(G.writer);
    DISARM();
    G.writer = NULL;
    puts("abort done");
    if (G.sinkf) { sink_report("at_abort"); finish_sink_stream(); }
    else report_path();
    if (G.schema) { carquet_schema_free(G.schema); G.schema = NULL; }
}

/* ------------------------------------------------------------------ file image */
static int read_file(const char* path, uint8_t** out, size_t* len) {
    FILE* f = fopen(path, "rb");
    if (!f) return 0;
    size_t cap = 1 << 16, n = 0; uint8_t* b = xmalloc(cap);
    for (;;) {
        if (n == cap) { cap *= 2; b = H_REALLOC(b, cap); if (!b) _exit(97); }
        size_t r = fread(b + n, 1, cap - n, f);
        if (r == 0) break;
        n += r;
    }
    fclose(f);
    uint8_t* e = xmalloc(n); memcpy(e, b, n); free(b);   /* exact size */
    *out = e; *len = n;
    return 1;
}
static void img_set(uint8_t* b, size_t n) {
    free(G.img); free(G.img_orig);
    G.img = b; G.img_len = n;
    G.img_orig = xmalloc(n); memcpy(G.img_orig, b, n); G.img_orig_len = n;
}
static void cmd_img(void) {
    if (!strcmp(T[0], "IMG_LOAD") && NT >= 2) {
        uint8_t* b; size_t n;
        if (!read_file(T[1], &b, &n)) { puts("img ERR cannot-read"); return; }
        img_set(b, n); printf("img len=%zu\n", n);
    } else if (!strcmp(T[0], "IMG_HEX") && NT >= 2) {
        size_t n; uint8_t* b = unhex(T[1], &n); img_set(b, n); printf("img len=%zu\n", n);
    } else if (!strcmp(T[0], "IMG_FROM_SINK")) {
        uint8_t* b = xmalloc(G.sink.len); if (G.sink.len) memcpy(b, G.sink.data, G.sink.len);
        img_set(b, G.sink.len); printf("img len=%zu\n", G.sink.len);
    } else if (!strcmp(T[0], "IMG_RESET")) {
        free(G.img); G.img = xmalloc(G.img_orig_len);
        if (G.img_orig_len) memcpy(G.img, G.img_orig, G.img_orig_len);
        G.img_len = G.img_orig_len;
    } else if (!strcmp(T[0], "IMG_XOR") && NT >= 3) {          /* IMG_XOR <byte offset> <hex mask> */
        size_t pos = (size_t)strtoull(T[1], NULL, 0), n; uint8_t* m = unhex(T[2], &n);
        for (size_t i = 0; i < n && pos + i < G.img_len; i++) G.img[pos + i] ^= m[i];
        free(m);
    } else if (!strcmp(T[0], "IMG_SET") && NT >= 3) {          /* IMG_SET <byte offset> <hex bytes> */
        size_t pos = (size_t)strtoull(T[1], NULL, 0), n; uint8_t* m = unhex(T[2], &n);
        for (size_t i = 0; i < n && pos + i < G.img_len; i++) G.img[pos + i] = m[i];
        free(m);
    } else if (!strcmp(T[0], "IMG_FLIP") && NT >= 2) {         /* IMG_FLIP <bit index>  (bit i of byte i/8, LSB first) */
        unsigned long long bit = strtoull(T[1], NULL, 0);
        if (bit / 8 < G.img_len) G.img[bit / 8] ^= (uint8_t)(1u << (bit % 8));
    } else if (!strcmp(T[0], "IMG_TRUNC") && NT >= 2) {
        size_t n = (size_t)strtoull(T[1], NULL, 0);
        if (n < G.img_len) { uint8_t* b = xmalloc(n); memcpy(b, G.img, n); free(G.img); G.img = b; G.img_len = n; }
    } else if (!strcmp(T[0], "IMG_SAVE") && NT >= 2) {
        FILE* f = fopen(T[1], "wb");
        if (!f) { puts("img ERR cannot-write"); return; }
        if (G.img_len) fwrite(G.img, 1, G.img_len, f);
        fclose(f);
    } else if (!strcmp(T[0], "IMG_PRINT")) {
        printf("img hex="); h_puthex(G.img, G.img_len); putchar('\n');
    } else puts("img BAD");
}

/* ------------------------------------------------------------------ read side */
static void cr_forget(crslot_t* s) {
    for (int64_t i = 0; i < s->last_n; i++) free(s->last_copy[i]);
    free(s->last_copy); free(s->last_ba);
    s->last_copy = NULL; s->last_ba = NULL; s->last_n = 0;
}
/* lifetime clause: just before the next call on a column reader, the byte arrays handed out by the
 * previous call must still be readable and unchanged */
static void cr_recheck(crslot_t* s, int slot) {
    for (int64_t i = 0; i < s->last_n; i++) {
        if (s->last_ba[i].length > 0 && memcmp(s->last_ba[i].data, s->last_copy[i], (size_t)s->last_ba[i].length) != 0) {
            printf("LIFETIME-CHANGED slot=%d value=%lld\n", slot, (long long)i);
            break;
        }
    }
    cr_forget(s);
}
static void cr_free_slot(int i) {
    crslot_t* s = &G.cr[i];
    if (s->cr) { cr_recheck(s, i); carquet_column_reader_free(s->cr); s->cr = NULL; }
    cr_forget(s);
}
static void br_free_all(void) {
    for (int i = 0; i < G.nheld; i++) carquet_row_batch_free(G.held[i]);
    G.nheld = 0;
    if (G.br) { carquet_batch_reader_free(G.br); G.br = NULL; }
    free(G.br_idx); G.br_idx = NULL;
    for (int i = 0; i < G.br_nnames; i++) free(G.br_names[i]);
    free(G.br_names); G.br_names = NULL; G.br_nnames = 0;
}
static void reader_close_all(void) {
    for (int i = 0; i < MAXCR; i++) cr_free_slot(i);
    br_free_all();
    if (G.reader) { carquet_reader_close(G.reader); G.reader = NULL; }
    free(G.rbuf); G.rbuf = NULL;
    if (G.rfile) { fclose(G.rfile); G.rfile = NULL; }
}

/* i-th leaf of the reader's schema through the public accessors */
static const carquet_schema_node_t* leaf_node(const carquet_schema_t* sc, int col) {
    int32_t ne = carquet_schema_num_elements(sc);
    int k = 0;
    for (int32_t i = 0; i < ne; i++) {
        const carquet_schema_node_t* nd = carquet_schema_get_element(sc, i);
        if (!nd) continue;
        if (i > 0 && carquet_schema_node_is_leaf(nd)) { if (k == col) return nd; k++; }
    }
    return NULL;
}

/* ROPEN stdio|mmap|fileptr <verify 0|1> <path> [threads=n] [bufsize=n] [NULLOPTS]
 * ROPEN buffer <verify 0|1> [threads=n]                      (reads the current image) */
static void cmd_ropen(void) {
    if (NT < 3) { puts("open BAD"); return; }
    if (G.reader) reader_close_all();
    carquet_reader_options_t ro;
    carquet_reader_options_init(&ro);
    ro.verify_checksums = atoi(T[2]) != 0;
    ro.num_threads = (int32_t)kvi("threads", 3, 1);
    long long bs = kvi("bufsize", 3, -1);
    if (bs >= 0) ro.buffer_size = (size_t)bs;
    int nullopts = 0;
    for (int i = 3; i < NT; i++) if (!strcmp(T[i], "NULLOPTS")) nullopts = 1;
    carquet_error_t e = CARQUET_ERROR_INIT;
    if (!strcmp(T[1], "buffer")) {
        G.rbuf = xmalloc(G.img_len);
        if (G.img_len) memcpy(G.rbuf, G.img, G.img_len);
        ARM();
        G.reader = carquet_reader_open_buffer(G.rbuf, G.img_len, nullopts ? NULL : &ro, &e);
        DISARM();
    } else if (!strcmp(T[1], "fileptr") && NT >= 4) {      /* carquet_reader_open_file on a FILE* the driver owns */
        if (!carquet_reader_open_file) { puts("open SKIP carquet_reader_open_file-is-declared-but-not-defined"); return; }
        G.rfile = fopen(T[3], "rb");
        if (!G.rfile) { puts("open BAD cannot-fopen"); return; }
        ARM();
        G.reader = carquet_reader_open_file(G.rfile, nullopts ? NULL : &ro, &e);
        DISARM();
        if (!G.reader) { fclose(G.rfile); G.rfile = NULL; }
    } else if ((!strcmp(T[1], "stdio") || !strcmp(T[1], "mmap")) && NT >= 4) {
        ro.use_mmap = !strcmp(T[1], "mmap");
        ARM();
        G.reader = carquet_reader_open(T[3], nullopts ? NULL : &ro, &e);
        DISARM();
    } else { puts("open BAD mode"); return; }
    if (G.reader) puts("open OK"); else { perr("open", &e); free(G.rbuf); G.rbuf = NULL; }
}

static void cmd_meta(void) {
    if (!G.reader) { puts("meta SKIP no-reader"); return; }
    int64_t rows = carquet_reader_num_rows(G.reader);
    int32_t nrg = carquet_reader_num_row_groups(G.reader);
    int32_t nc = carquet_reader_num_columns(G.reader);
    const carquet_schema_t* sc = carquet_reader_schema(G.reader);
    printf("meta rows=%lld rgs=%d cols=%d is_mmap=%d elements=%d schema_cols=%d\n", (long long)rows, (int)nrg, (int)nc,
           (int)carquet_reader_is_mmap(G.reader), sc ? (int)carquet_schema_num_elements(sc) : -1,
           sc ? (int)carquet_schema_num_columns(sc) : -1);
    if (sc) {
        int32_t ne = carquet_schema_num_elements(sc);
        int leaf = 0;
        for (int32_t i = 0; i < ne; i++) {
            const carquet_schema_node_t* nd = carquet_schema_get_element(sc, i);
            if (!nd) { printf("elem %d NULL\n", (int)i); continue; }
            const char* nm = carquet_schema_node_name(nd);
            int isleaf = i > 0 && carquet_schema_node_is_leaf(nd);
            printf("elem %d name=", (int)i); h_puthex((const uint8_t*)nm, strlen(nm));
            if (isleaf) {
                printf(" leaf=%d type=%s rep=%s tlen=%d maxdef=%d maxrep=%d\n", leaf++,
                       tyname((int)carquet_schema_node_physical_type(nd)), repname((int)carquet_schema_node_repetition(nd)),
                       (int)carquet_schema_node_type_length(nd), (int)carquet_schema_node_max_def_level(nd),
                       (int)carquet_schema_node_max_rep_level(nd));
            } else {
                printf(" group rep=%s\n", i == 0 ? "ROOT" : repname((int)carquet_schema_node_repetition(nd)));
            }
        }
    }
    for (int32_t r = 0; r < nrg; r++) {
        carquet_row_group_metadata_t m; memset(&m, 0, sizeof m);
        carquet_status_t st = carquet_reader_row_group_metadata(G.reader, r, &m);
        if (st != CARQUET_OK) { printf("rg %d ERR %d %s\n", (int)r, (int)st, stname(st)); continue; }
        printf("rg %d rows=%lld bytes=%lld comp=%lld zc=", (int)r, (long long)m.num_rows, (long long)m.total_byte_size,
               (long long)m.total_compressed_size);
        for (int32_t c = 0; c < nc; c++) putchar(carquet_reader_can_zero_copy(G.reader, r, c) ? '1' : '0');
        if (nc == 0) putchar('-');
        putchar('\n');
    }
}

/* print m delivered values of a column (dense convention) */
static void print_values(int type, int tlen, const void* values, int64_t m) {
    if (m <= 0) { putchar('-'); return; }
    if (type == CARQUET_PHYSICAL_BYTE_ARRAY) {
        const carquet_byte_array_t* a = (const carquet_byte_array_t*)values;
        for (int64_t i = 0; i < m; i++) {
            if (i) putchar(',');
            if (a[i].length < 0 || a[i].length > (1 << 28)) { printf("!len"); continue; }
            if (a[i].length == 0) { putchar('x'); continue; }
            if (!ptr_mapped(a[i].data, (size_t)a[i].length)) { printf("!ptr"); continue; }
            putchar('x');
            static const char d[] = "0123456789abcdef";
            for (int32_t j = 0; j < a[i].length; j++) { uint8_t b = a[i].data[j]; putchar(d[b >> 4]); putchar(d[b & 15]); }
        }
    } else {
        size_t w = slot_size(type, tlen);
        h_puthex((const uint8_t*)values, (size_t)m * w);
    }
}
/* remember the byte arrays just delivered (copy = first touch of every byte) */
static void cr_remember(crslot_t* s, const carquet_byte_array_t* a, int64_t m) {
    cr_forget(s);
    if (m <= 0) return;
    s->last_ba = xmalloc((size_t)m * sizeof *s->last_ba);
    s->last_copy = xmalloc((size_t)m * sizeof *s->last_copy);
    int64_t k = 0;
    for (int64_t i = 0; i < m; i++) {
        if (a[i].length <= 0 || a[i].length > (1 << 28) || !ptr_mapped(a[i].data, (size_t)a[i].length)) continue;
        s->last_ba[k] = a[i];
        s->last_copy[k] = xmalloc((size_t)a[i].length);
        memcpy(s->last_copy[k], a[i].data, (size_t)a[i].length);
        k++;
    }
    s->last_n = k;
}

static int cr_open(int slot, int rg, int col, int maxdef_override) {
    crslot_t* s = &G.cr[slot];
    cr_free_slot(slot);
    carquet_error_t e = CARQUET_ERROR_INIT;
    ARM();
    s->cr = carquet_reader_get_column(G.reader, rg, col, &e);
    DISARM();
    if (!s->cr) { printf("cr_open %d ", slot); perr("", &e); return 0; }
    s->rg = rg; s->col = col;
    const carquet_schema_t* sc = carquet_reader_schema(G.reader);
    const carquet_schema_node_t* nd = sc ? leaf_node(sc, col) : NULL;
    s->type = nd ? (int)carquet_schema_node_physical_type(nd) : CARQUET_PHYSICAL_INT32;
    s->tlen = nd ? (int)carquet_schema_node_type_length(nd) : 0;
    s->maxdef = maxdef_override >= 0 ? maxdef_override : (nd ? (int)carquet_schema_node_max_def_level(nd) : 0);
    return 1;
}

/* one read_batch call on a slot; prints "<prefix>ret=<n> defs=.. reps=.. nvals=<m> vals=.." (no newline).
 * Returns the library's return value. */
static int64_t cr_read(const char* prefix, int slot, int64_t k, int want_def, int want_rep, int raw) {
    crslot_t* s = &G.cr[slot];
    size_t w = slot_size(s->type, s->tlen);
    size_t kk = k > 0 ? (size_t)k : 0;
    uint8_t* values = xmalloc(kk * w);
    memset(values, 0xA5, kk * w);
    if (s->type == CARQUET_PHYSICAL_BYTE_ARRAY) {      /* recognisable "never written" slots */
        carquet_byte_array_t* a = (carquet_byte_array_t*)values;
        for (size_t i = 0; i < kk; i++) { a[i].data = NULL; a[i].length = -7; }
    }
    int16_t* defs = want_def ? xmalloc(kk * sizeof(int16_t)) : NULL;
    int16_t* reps = want_rep ? xmalloc(kk * sizeof(int16_t)) : NULL;
    if (defs) memset(defs, 0x7f, kk * sizeof(int16_t));
    if (reps) memset(reps, 0x7f, kk * sizeof(int16_t));
    cr_recheck(s, slot);
    ARM();
    int64_t n = carquet_column_read_batch(s->cr, values, k, defs, reps);
    DISARM();
    fputs(prefix, stdout);
    int64_t shown = n > 0 ? (n > k ? k : n) : 0;      /* never look beyond what we allocated */
    int64_t m = shown;
    if (defs) { m = 0; for (int64_t i = 0; i < shown; i++) if (defs[i] == s->maxdef) m++; }
    else if (s->maxdef > 0) m = 0;                      /* without levels the dense count is unknown */
    if (raw && s->type != CARQUET_PHYSICAL_BYTE_ARRAY) m = shown;
    printf("ret=%lld defs=", (long long)n);
    if (defs) print_levels(defs, shown); else putchar('N');
    printf(" reps=");
    if (reps) print_levels(reps, shown); else putchar('N');
    printf(" nvals=%lld vals=", (long long)m);
    print_values(s->type, s->tlen, values, m);
    if (s->type == CARQUET_PHYSICAL_BYTE_ARRAY) cr_remember(s, (const carquet_byte_array_t*)values, m);
    free(values); free(defs); free(reps);
    return n;
}

/* DUMP <batch> [rg=<r>] [col=<c>] [maxdef=<d0,d1,...>]    canonical table dump through column readers */
static void cmd_dump(void) {
    if (!G.reader) { puts("dump SKIP no-reader"); return; }
    int64_t batch = NT >= 2 ? strtoll(T[1], NULL, 10) : 1024;
    if (batch < 1) batch = 1;
    int only_rg = (int)kvi("rg", 2, -1), only_col = (int)kvi("col", 2, -1);
    const char* md = kv("maxdef", 2);
    int32_t nrg = carquet_reader_num_row_groups(G.reader);
    int32_t nc = carquet_reader_num_columns(G.reader);
    int slot = MAXCR - 1;
    for (int32_t r = 0; r < nrg; r++) {
        if (only_rg >= 0 && r != only_rg) continue;
        carquet_row_group_metadata_t m; memset(&m, 0, sizeof m);
        int64_t rgrows = 0;
        if (carquet_reader_row_group_metadata(G.reader, r, &m) == CARQUET_OK) rgrows = m.num_rows;
        for (int32_t c = 0; c < nc; c++) {
            if (only_col >= 0 && c != only_col) continue;
            int mdv = -1;
            if (md) { const char* p = md; for (int i = 0; i < c && p; i++) { p = strchr(p, ','); if (p) p++; } if (p && *p) mdv = atoi(p); }
            printf("chunk rg=%d col=%d\n", (int)r, (int)c);
            if (!cr_open(slot, r, c, mdv)) continue;
            int64_t total = 0; long calls = 0;
            const char* end = "OK";
            /* bound for the runaway guard: level entries of the chunk (more than rows for repeated leaves) */
            int64_t rem0 = carquet_column_remaining(G.cr[slot].cr);
            int64_t bound = rem0 > rgrows ? rem0 : rgrows;
            for (;;) {
                /* never ask for more than one row beyond what the reader says is left: keeps the exact-size
                 * buffers small when the caller passes a huge batch ("everything in one call") */
                int64_t rem = carquet_column_remaining(G.cr[slot].cr);
                int64_t k = batch;
                if (rem >= 0 && rem + 1 < k) k = rem + 1;
                int64_t n = cr_read("part ", slot, k, 1, 1, 0);
                putchar('\n');
                calls++;
                if (n < 0) { end = "ERR"; break; }
                if (n == 0) break;
                total += n;
                if (total > bound + 4 * batch + 64) { end = "OVERRUN"; break; }
            }
            printf("chunk_end rg=%d col=%d rows=%lld calls=%ld end=%s\n", (int)r, (int)c, (long long)total, calls, end);
            cr_free_slot(slot);
        }
    }
}

/* column-reader history commands */
static int slot_arg(int i) {
    if (i >= NT) return -1;
    int s = atoi(T[i]);
    return (s >= 0 && s < MAXCR - 1) ? s : -1;
}
static void cmd_cr(void) {
    if (!G.reader) { printf("%s SKIP no-reader\n", T[0]); return; }
    int s = slot_arg(1);
    if (s < 0) { printf("%s BAD slot\n", T[0]); return; }
    if (!strcmp(T[0], "CR_OPEN") && NT >= 4) {      /* CR_OPEN <slot> <rg> <col> [maxdef=<d>] */
        if (cr_open(s, atoi(T[2]), atoi(T[3]), (int)kvi("maxdef", 4, -1))) printf("cr_open %d OK\n", s);
        return;
    }
    if (!G.cr[s].cr) { printf("%s %d SKIP not-open\n", T[0], s); return; }
    if (!strcmp(T[0], "CR_READ") && NT >= 3) {      /* CR_READ <slot> <k> [nodef] [norep] [raw] */
        int wd = 1, wr = 1, raw = 0;
        for (int i = 3; i < NT; i++) { if (!strcmp(T[i], "nodef")) wd = 0; if (!strcmp(T[i], "norep")) wr = 0; if (!strcmp(T[i], "raw")) raw = 1; }
        char pre[32]; snprintf(pre, sizeof pre, "read %d ", s);
        cr_read(pre, s, strtoll(T[2], NULL, 10), wd, wr, raw);
        putchar('\n');
    } else if (!strcmp(T[0], "CR_SKIP") && NT >= 3) {
        cr_recheck(&G.cr[s], s);
        ARM();
        int64_t n = carquet_column_skip(G.cr[s].cr, strtoll(T[2], NULL, 10));
        DISARM();
        printf("skip %d ret=%lld\n", s, (long long)n);
    } else if (!strcmp(T[0], "CR_HASNEXT")) {
        printf("has_next %d %d\n", s, (int)carquet_column_has_next(G.cr[s].cr));
    } else if (!strcmp(T[0], "CR_REMAINING")) {
        printf("remaining %d %lld\n", s, (long long)carquet_column_remaining(G.cr[s].cr));
    } else if (!strcmp(T[0], "CR_FREE")) {
        cr_free_slot(s);
        printf("cr_free %d\n", s);
    } else printf("%s BAD\n", T[0]);
}

/* BR_OPEN batch=<n> [threads=<n>] [idx=i,j,..] [names=<hex>,<hex>,..] [cols=i,j,..] [NULLCFG] [mmapflag=1]
 *   cols= tells the driver which FILE columns the projected columns are (for typing the output) when it
 *   cannot tell from idx= / names= itself. */
static void cmd_br_open(void) {
    if (!G.reader) { puts("br_open SKIP no-reader"); return; }
    br_free_all();
    carquet_batch_reader_config_t cfg;
    carquet_batch_reader_config_init(&cfg);
    cfg.batch_size = (int32_t)kvi("batch", 1, cfg.batch_size);
    cfg.num_threads = (int32_t)kvi("threads", 1, 1);
    cfg.use_mmap = kvi("mmapflag", 1, 0) != 0;
    int nullcfg = 0;
    for (int i = 1; i < NT; i++) if (!strcmp(T[i], "NULLCFG")) nullcfg = 1;
    int32_t nc = carquet_reader_num_columns(G.reader);
    G.br_ncols = 0;
    const char* idx = kv("idx", 1); const char* names = kv("names", 1); const char* cols = kv("cols", 1);
    if (idx) {
        int n = 1; for (const char* p = idx; *p; p++) if (*p == ',') n++;
        G.br_idx = xmalloc((size_t)n * sizeof(int32_t));
        const char* p = idx; int k = 0;
        while (*p && k < n) { G.br_idx[k++] = (int32_t)strtol(p, (char**)&p, 10); if (*p == ',') p++; }
        cfg.column_indices = G.br_idx; cfg.num_columns = k;
        for (int i = 0; i < k && i < MAXCOLS; i++) G.br_cols[G.br_ncols++] = G.br_idx[i];
    } else if (names) {
        int n = 1; for (const char* p = names; *p; p++) if (*p == ',') n++;
        G.br_names = xmalloc((size_t)n * sizeof(char*));
        const char* p = names;
        const carquet_schema_t* sc = carquet_reader_schema(G.reader);
        while (G.br_nnames < n) {
            const char* q = p; while (*q && *q != ',') q++;
            size_t bl; uint8_t* b = unhexn(p, (size_t)(q - p), &bl);
            char* nm = xmalloc(bl + 1); memcpy(nm, b, bl); nm[bl] = 0; free(b);
            G.br_names[G.br_nnames++] = nm;
            /* which file column is that?  (leaf-name comparison, independent of carquet_schema_find_column) */
            int found = -1;
            for (int32_t c = 0; c < nc && sc; c++) {
                const carquet_schema_node_t* nd = leaf_node(sc, c);
                if (nd && !strcmp(carquet_schema_node_name(nd), nm)) { found = c; break; }
            }
            if (G.br_ncols < MAXCOLS) G.br_cols[G.br_ncols++] = found;
            p = *q ? q + 1 : q;
        }
        cfg.column_names = (const char* const*)G.br_names; cfg.num_column_names = G.br_nnames;
    } else {
        for (int32_t c = 0; c < nc && c < MAXCOLS; c++) G.br_cols[G.br_ncols++] = c;
    }
    if (cols) {
        G.br_ncols = 0;
        const char* p = cols;
        while (*p && G.br_ncols < MAXCOLS) { G.br_cols[G.br_ncols++] = (int)strtol(p, (char**)&p, 10); if (*p == ',') p++; }
    }
    carquet_error_t e = CARQUET_ERROR_INIT;
    ARM();
    G.br = carquet_batch_reader_create(G.reader, nullcfg ? NULL : &cfg, &e);
    DISARM();
    if (G.br) puts("br_open OK"); else perr("br_open", &e);
}

static void dump_batch(const carquet_row_batch_t* b, const char* tag, int present_bit) {
    int64_t rows = carquet_row_batch_num_rows(b);
    int32_t ncol = carquet_row_batch_num_columns(b);
    printf("%s rows=%lld ncols=%d\n", tag, (long long)rows, (int)ncol);
    const carquet_schema_t* sc = carquet_reader_schema(G.reader);
    for (int32_t j = 0; j < ncol; j++) {
        const void* data = NULL; const uint8_t* bm = NULL; int64_t nv = -1;
        carquet_status_t st = carquet_row_batch_column(b, j, &data, &bm, &nv);
        if (st != CARQUET_OK) { printf("bcol %d ERR %d %s\n", (int)j, (int)st, stname(st)); continue; }
        int fc = j < G.br_ncols ? G.br_cols[j] : -1;
        const carquet_schema_node_t* nd = (sc && fc >= 0) ? leaf_node(sc, fc) : NULL;
        int type = nd ? (int)carquet_schema_node_physical_type(nd) : -1;
        int tlen = nd ? (int)carquet_schema_node_type_length(nd) : 0;
        printf("bcol %d filecol=%d nv=%lld bitmap=", (int)j, fc, (long long)nv);
        int64_t set = 0;
        if (!bm) putchar('N');
        else if (nv <= 0) putchar('-');
        else for (int64_t i = 0; i < nv; i++) { int bit = (bm[i / 8] >> (i % 8)) & 1; set += bit; putchar('0' + bit); }
        /* dense convention: one value per PRESENT row; which bitmap value means "present" is the caller's
         * choice (present_bit); without a bitmap every row is present */
        int64_t m = nv < 0 ? 0 : (!bm ? nv : (present_bit ? set : nv - set));
        if (!data || type < 0) m = 0;
        printf(" nvals=%lld vals=", (long long)m);
        print_values(type, tlen, data, m);
        putchar('\n');
    }
}

/* BR_NEXT [present=0|1] [hold]     BR_ALL [present=0|1] [max=<n>] [hold] */
static void cmd_br_next(int all) {
    if (!G.br) { puts("batch SKIP no-batch-reader"); return; }
    int present = (int)kvi("present", 1, 0);
    long maxb = (long)kvi("max", 1, 100000);
    int hold = 0;
    for (int i = 1; i < NT; i++) if (!strcmp(T[i], "hold")) hold = 1;
    for (long k = 0; k < maxb; k++) {
        carquet_row_batch_t* b = NULL;
        ARM();
        carquet_status_t st = carquet_batch_reader_next(G.br, &b);
        DISARM();
        if (st != CARQUET_OK) { printf("batch ERR %d %s\n", (int)st, stname(st)); if (b) carquet_row_batch_free(b); break; }
        if (!b) { puts("batch OK NULL"); break; }
        dump_batch(b, "batch OK", present);
        if (hold && G.nheld < MAXHELD) G.held[G.nheld++] = b; else carquet_row_batch_free(b);
        if (!all) break;
    }
}
static void cmd_br_held(void) {      /* BR_HELD [present=0|1] : dump the held batches again (zero-copy lifetime) */
    int present = (int)kvi("present", 1, 0);
    for (int i = 0; i < G.nheld; i++) { char tag[32]; snprintf(tag, sizeof tag, "held %d", i); dump_batch(G.held[i], tag, present); }
}

/* ------------------------------------------------------------------ misc commands */
static void cmd_fsize_limit(void) {   /* FSIZE_LIMIT <bytes> : "disk full" for path-based writers (this case only) */
    struct rlimit rl; rl.rlim_cur = rl.rlim_max = (rlim_t)strtoull(T[1], NULL, 0);
    signal(SIGXFSZ, SIG_IGN);
    printf("fsize_limit %s\n", setrlimit(RLIMIT_FSIZE, &rl) == 0 ? "OK" : "FAILED");
}

static void exec_line(char* line) {
    split(line);
    if (NT == 0) return;
    const char* c = T[0];
    if (c[0] == '#') return;
    if (!strcmp(c, "COL")) cmd_col();
    else if (!strcmp(c, "SCHEMA_RESET")) free_schema_defs();
    else if (!strcmp(c, "OPT")) cmd_opt();
    else if (!strcmp(c, "WOPEN")) cmd_wopen();
    else if (!strcmp(c, "W")) cmd_w();
    else if (!strcmp(c, "NEWRG")) cmd_newrg();
    else if (!strcmp(c, "CLOSE")) cmd_close();
    else if (!strcmp(c, "ABORT")) cmd_abort();
    else if (!strncmp(c, "IMG_", 4)) cmd_img();
    else if (!strcmp(c, "UNLINK") && NT >= 2) { unlink(T[1]); }
    else if (!strcmp(c, "EXISTS") && NT >= 2) { struct stat sb; int r = stat(T[1], &sb); printf("exists %d size=%lld\n", r == 0, r == 0 ? (long long)sb.st_size : 0LL); }
    else if (!strcmp(c, "ROPEN")) cmd_ropen();
    else if (!strcmp(c, "RCLOSE")) { reader_close_all(); puts("rclose done"); }
    else if (!strcmp(c, "META")) cmd_meta();
    else if (!strcmp(c, "DUMP")) cmd_dump();
    else if (!strncmp(c, "CR_", 3)) cmd_cr();
    else if (!strcmp(c, "BR_OPEN")) cmd_br_open();
    else if (!strcmp(c, "BR_NEXT")) cmd_br_next(0);
    else if (!strcmp(c, "BR_ALL")) cmd_br_next(1);
    else if (!strcmp(c, "BR_HELD")) cmd_br_held();
    else if (!strcmp(c, "BR_FREE")) { br_free_all(); puts("br_free done"); }
    else if (!strcmp(c, "FSIZE_LIMIT") && NT >= 2) cmd_fsize_limit();
    else if (!strcmp(c, "ECHO")) { for (int i = 1; i < NT; i++) printf(i > 1 ? " %s" : "%s", T[i]); putchar('\n'); }
    else if (!strcmp(c, "SINK_REPORT")) sink_report("now");
#ifdef HFILE_WRAP_ALLOC
    else if (!strcmp(c, "ALLOC_FAIL") && NT >= 2) { g_alloc_count = 0; g_alloc_fail_at = atol(T[1]); g_alloc_sticky = (int)kvi("sticky", 2, 0); }
    else if (!strcmp(c, "ALLOC_COUNT")) printf("alloc_count %ld\n", g_alloc_count);
#endif
    else if (!strcmp(c, "CRASH")) { volatile int* p = NULL; *p = 1; }                  /* self-test of fault attribution */
    else if (!strcmp(c, "LEAK")) { void* volatile p = xmalloc(77); p = NULL; (void)p; } /* self-test of leak attribution */
    else if (!strcmp(c, "HANG")) { for (;;) pause(); }
    else printf("BAD-COMMAND %s\n", c);
}

/* release everything the driver itself holds, so that LeakSanitizer only reports the library's leaks */
static void cleanup(void) {
    if (G.writer) { carquet_writer_abort(G.writer); G.writer = NULL; }
    if (G.sinkf) { fclose(G.sinkf); G.sinkf = NULL; }
    free(G.sinkbuf); G.sinkbuf = NULL;
    free(G.sink.data); G.sink.data = NULL;
    reader_close_all();
    if (G.schema) { carquet_schema_free(G.schema); G.schema = NULL; }
    free_schema_defs();
    free(G.created_by); G.created_by = NULL;
    free(G.wpath); G.wpath = NULL;
    free(G.img); free(G.img_orig); G.img = G.img_orig = NULL;
}

/* ------------------------------------------------------------------ case isolation */
static int g_timeout = 60;

static void run_case(const char* id, char** lines, size_t n) {
    printf("BEGIN %s\n", id);
    fflush(stdout);
    int ep[2];
    if (pipe(ep) != 0) { printf("FAULT %s driver pipe-failed\n", id); return; }
    pid_t pid = fork();
    if (pid < 0) { printf("FAULT %s driver fork-failed\n", id); close(ep[0]); close(ep[1]); return; }
    if (pid == 0) {
        close(0);                       /* never touch the parent's input position */
        close(ep[0]);
        dup2(ep[1], 2); close(ep[1]);
        alarm((unsigned)g_timeout);
        for (size_t i = 0; i < n; i++) exec_line(lines[i]);
        cleanup();
        fflush(stdout);
        exit(0);                        /* exit(), not _exit(): LeakSanitizer runs at exit */
    }
    close(ep[1]);
    /* collect the child's stderr (sanitizer report) */
    size_t cap = 4096, len = 0; char* err = xmalloc(cap);
    for (;;) {
        if (len + 1024 > cap) { cap *= 2; err = H_REALLOC(err, cap); if (!err) _exit(97); }
        ssize_t r = read(ep[0], err + len, cap - len - 1);
        if (r <= 0) break;
        len += (size_t)r;
    }
    err[len] = 0;
    close(ep[0]);
    int status = 0;
    waitpid(pid, &status, 0);
    if (WIFEXITED(status) && WEXITSTATUS(status) == 0) {
        printf("DONE %s\n", id);
    } else {
        /* one-line summary: the sanitizer's SUMMARY line, else its first "runtime error"/"ERROR" line */
        char sum[400]; sum[0] = 0;
        const char* keys[] = {"SUMMARY: ", "runtime error: ", "ERROR: "};
        for (int k = 0; k < 3 && !sum[0]; k++) {
            char* p = strstr(err, keys[k]);
            if (p) { size_t i = 0; while (p[i] && p[i] != '\n' && i < sizeof sum - 1) { sum[i] = p[i] == ' ' ? '_' : p[i]; i++; } sum[i] = 0; }
        }
        /* the child may have died in the middle of a line */
        printf("\nFAULT %s exit=%d signal=%d summary=%s\n", id, WIFEXITED(status) ? WEXITSTATUS(status) : -1,
               WIFSIGNALED(status) ? WTERMSIG(status) : 0, sum[0] ? sum : "-");
    }
    if (len) { fprintf(stderr, "---- stderr of case %s ----\n%s\n", id, err); }
    free(err);
    fflush(stdout);
}

int main(int argc, char** argv) {
    (void)argc; (void)argv;
    char** lines = NULL; size_t nlines = 0, cap = 0; char* id = NULL;
    while (h_readline()) {
        if (!strncmp(h_line, "CASE ", 5) && !id) { id = xstrdup(h_line + 5); continue; }
        if (!strncmp(h_line, "TIMEOUT ", 8) && !id) { g_timeout = atoi(h_line + 8); continue; }
        if (id && !strcmp(h_line, "END")) {
            run_case(id, lines, nlines);
            for (size_t i = 0; i < nlines; i++) free(lines[i]);
            nlines = 0; free(id); id = NULL;
            continue;
        }
        if (id) {
            if (nlines == cap) { cap = cap ? cap * 2 : 64; lines = H_REALLOC(lines, cap * sizeof *lines); if (!lines) _exit(97); }
            lines[nlines++] = xstrdup(h_line);
        } else {
            exec_line(h_line);          /* outside a case: executed in this process (debugging) */
            fflush(stdout);
        }
    }
    if (id) { printf("FAULT %s driver unterminated-case\n", id); for (size_t i = 0; i < nlines; i++) free(lines[i]); free(id); }
    free(lines);
    cleanup();
    free(h_line);
    return 0;
}
