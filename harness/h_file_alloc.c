/* h_file_alloc.c - the h_file driver with allocation-failure injection (property C19).
 *
 * Build:  vlib.build_driver("h_file_alloc", extra=["-Wl,--wrap=malloc", "-Wl,--wrap=calloc", "-Wl,--wrap=realloc"])
 *         (tools/filecase.driver("h_file_alloc") does exactly that).
 * Every malloc/calloc/realloc call made by the library objects is routed through __wrap_* in h_file.c, which
 * forwards to the real (AddressSanitizer) allocator unless the request is the one chosen to fail:
 *     ALLOC_FAIL <k> [sticky=1]    the k-th request counted from now fails (k = 0: never; the counter restarts)
 *     ALLOC_COUNT                  -> alloc_count <n>    requests counted since the last ALLOC_FAIL
 * Only requests made while a library call is in progress are counted (the driver arms the counter around each
 * API call and uses the real allocator for its own needs).  Allocations made inside libc on the library's
 * behalf (fopen, strdup, getline) are not intercepted. */
#define HFILE_WRAP_ALLOC 1
#include "h_file.c"
