/* Driver for the alloc engine (C19), first flavour: the allocation requests of libcarquet's own objects are
 * interposed at link time (--wrap=malloc,calloc,realloc,strdup,carquet_arena_*).  The code is in
 * h_alloc_impl.h (shared with h_alloc_ext.c, which interposes the whole process). */
#include "h_alloc_impl.h"
