/* Driver for the alloc engine (C19): the k-th allocation request of a scenario fails.
 *
 * Linked with -Wl,--wrap=malloc,--wrap=calloc,--wrap=realloc,--wrap=strdup: every allocation request
 * made by the objects of libcarquet.a (and by this file) goes through the wrappers below, which hand
 * it to the real allocator (ASan's) unless it is request number `fail_at` of the armed region.  The
 * library sources are not changed.  Requests are counted only while the driver is inside a carquet
 * API call (ARM/DISARM).
 *
 * One case per input line, one result line per case:
 *   count <scenario...>              fault-free run in a forked child: K requests and, per request, the
 *                                    return addresses of the call chain (offsets into this executable)
 *   fail  <scenario...> <k1> <k2>    for k in k1..k2: forked child, request k fails; per k one record
 *                                    "k=.. exit=.. sig=.. calls=.. ok=.. eff=.. leak=.. san=.."
 * scenario = schema <ncols>
 *          | write <dir> <codec> <types> <nrg> <npages> <rpp> <after>      after: abort|close (what the driver does after a failed call)
 *          | read  <dir> <codec> <types> <nrg> <npages> <rpp> <mode>       column reader API
 *          | batch <dir> <codec> <types> <nrg> <npages> <rpp> <mode>       batch reader API (num_threads = 1)
 */
#define _GNU_SOURCE
#include "hcommon.h"
#include <carquet/carquet.h>
#include <execinfo.h>
#include <unistd.h>
#include <signal.h>
#include <dlfcn.h>
#include <fcntl.h>
#include <sys/wait.h>
#include <sys/mman.h>
#include <sys/stat.h>
#include <errno.h>

extern int __lsan_do_recoverable_leak_check(void);
#ifdef VERIF_COV
extern void __gcov_dump(void);
#define COV_FLUSH() do { g_armed = 0; __gcov_dump(); } while (0)
#else
#define COV_FLUSH() ((void)0)
#endif

/* ------------------------------------------------------------------------------- interposition */
#ifdef EXT_INTERPOSE
/* second flavour (harness/h_alloc_ext.c): malloc/calloc/realloc are DEFINED here, so every request of the
 * process made while armed - also those inside zlib, libzstd and stdio - goes through tick().  The real
 * allocator is still ASan's (its interceptors are exported as __interceptor_*). */
extern void* __interceptor_malloc(size_t);
extern void* __interceptor_calloc(size_t, size_t);
extern void* __interceptor_realloc(void*, size_t);
#define __real_malloc __interceptor_malloc
#define __real_calloc __interceptor_calloc
#define __real_realloc __interceptor_realloc
#define __wrap_malloc malloc
#define __wrap_calloc calloc
#define __wrap_realloc realloc
#else
void* __real_malloc(size_t);
void* __real_calloc(size_t, size_t);
void* __real_realloc(void*, size_t);
char* __real_strdup(const char*);
#endif

#define NFR 12
#define MAXREQ 60000
typedef struct { long count; long fail_at; int failed_seen; int record; int nfr[MAXREQ]; char rt[MAXREQ]; void* fr[MAXREQ][NFR]; } shared_t;
static shared_t* SH;                 /* MAP_SHARED: the child's counters are visible to the parent */
static volatile int g_armed = 0;

/* (kept out of tick(): in the whole-process flavour malloc is called while ASan is still initialising,
 * when instrumented stack frames cannot be used yet) */
static void* g_exe_base;
static void __attribute__((noinline)) record_request(long k) {
    SH->nfr[k] = backtrace(SH->fr[k], NFR);
    /* a request made by the OpenMP runtime itself (libgomp): it aborts the process when its own
     * allocation fails, which no caller can prevent - marked so that the check does not fail it */
    SH->rt[k] = 0;
#ifdef EXT_INTERPOSE
    /* the request is libgomp's own iff libgomp is the direct caller of malloc: the only frames of this
     * executable below it are record_request, tick and the malloc/calloc/realloc defined here (3).  A
     * request of the library made inside a parallel region has libgomp further up and more frames below. */
    {
        int exe_frames = 0;
        for (int i = 0; i < SH->nfr[k]; i++) {
            Dl_info di;
            if (!dladdr(SH->fr[k][i], &di) || !di.dli_fname) continue;
            if (di.dli_fbase == g_exe_base) { exe_frames++; continue; }
            if (exe_frames == 0) continue;                       /* backtrace's own frames */
            if (strstr(di.dli_fname, "libgomp") && exe_frames <= 3) SH->rt[k] = 1;
            break;
        }
    }
#endif
}
static int __attribute__((noinline, no_sanitize("address", "undefined"))) tick(void) {
    if (!g_armed || !SH) return 0;
    g_armed = 0;
    long k = ++SH->count;
    if (SH->record && k < MAXREQ) record_request(k);
    int f = (k == SH->fail_at);
    if (f) SH->failed_seen = 1;
    g_armed = 1;
    return f;
}
void* __wrap_malloc(size_t n) { if (tick()) { errno = ENOMEM; return NULL; } return __real_malloc(n); }
void* __wrap_calloc(size_t a, size_t b) { if (tick()) { errno = ENOMEM; return NULL; } return __real_calloc(a, b); }
void* __wrap_realloc(void* p, size_t n) { if (tick()) { errno = ENOMEM; return NULL; } return __real_realloc(p, n); }
#ifndef EXT_INTERPOSE
char* __wrap_strdup(const char* s) { if (tick()) { errno = ENOMEM; return NULL; } return __real_strdup(s); }
#endif
/* Requests to the arena allocator (core/arena.c) made from other translation units: an arena request
 * fails exactly when the arena needs a new block and malloc fails, which for any given call site is a
 * matter of how much metadata came before it.  Failing the request itself reaches every arena call
 * site without having to construct a file whose metadata ends at a block boundary just there. */
#include "core/arena.h"
void* __real_carquet_arena_alloc(carquet_arena_t*, size_t);
void* __real_carquet_arena_alloc_aligned(carquet_arena_t*, size_t, size_t);
void* __real_carquet_arena_calloc(carquet_arena_t*, size_t, size_t);
char* __real_carquet_arena_strdup(carquet_arena_t*, const char*);
char* __real_carquet_arena_strndup(carquet_arena_t*, const char*, size_t);
void* __real_carquet_arena_memdup(carquet_arena_t*, const void*, size_t);
void* __wrap_carquet_arena_alloc(carquet_arena_t* a, size_t n) { if (n && tick()) return NULL; return __real_carquet_arena_alloc(a, n); }
void* __wrap_carquet_arena_alloc_aligned(carquet_arena_t* a, size_t n, size_t al) { if (n && tick()) return NULL; return __real_carquet_arena_alloc_aligned(a, n, al); }
void* __wrap_carquet_arena_calloc(carquet_arena_t* a, size_t c, size_t n) { if (c && n && tick()) return NULL; return __real_carquet_arena_calloc(a, c, n); }
char* __wrap_carquet_arena_strdup(carquet_arena_t* a, const char* s) { if (s && tick()) return NULL; return __real_carquet_arena_strdup(a, s); }
char* __wrap_carquet_arena_strndup(carquet_arena_t* a, const char* s, size_t n) { if (s && tick()) return NULL; return __real_carquet_arena_strndup(a, s, n); }
void* __wrap_carquet_arena_memdup(carquet_arena_t* a, const void* s, size_t n) { if (s && n && tick()) return NULL; return __real_carquet_arena_memdup(a, s, n); }
#define ARM() (g_armed = 1)
#define DISARM() (g_armed = 0)

/* ------------------------------------------------------------------------------------ helpers */
static uint64_t splitmix(uint64_t x) {
    x += 0x9E3779B97F4A7C15ull; x = (x ^ (x >> 30)) * 0xBF58476D1CE4E5B9ull;
    x = (x ^ (x >> 27)) * 0x94D049BB133111EBull; return x ^ (x >> 31);
}
static uint64_t fnv(uint64_t h, const void* p, size_t n) {
    const uint8_t* b = (const uint8_t*)p; for (size_t i = 0; i < n; i++) { h ^= b[i]; h *= 0x100000001B3ull; } return h;
}
#define FNV0 0xCBF29CE484222325ull

static int g_readback = -1;     /* fault-free write: does the file read back to the intended table? */
static char g_calls[8192]; static size_t g_ncalls; static int g_allok; static int g_nfailed;
static void rec(const char* api, long st, int ok) {
    if (!ok) { g_allok = 0; g_nfailed++; }
    if (g_ncalls + 40 < sizeof g_calls) g_ncalls += (size_t)snprintf(g_calls + g_ncalls, sizeof g_calls - g_ncalls, "%s%s:%ld", g_ncalls ? "," : "", api, st);
}

/* 'n' / 'm': INT32 / DOUBLE OPTIONAL columns written with def_levels == NULL (legal: every value present) */
static int type_nolevels(char t) { return t == 'n' || t == 'm'; }
static int type_optional(char t) { return (t >= 'A' && t <= 'Z') || type_nolevels(t); }
static int type_repeated(char t) { return t == 'r' || t == 'q'; }   /* INT32 REPEATED: 'r' written with repetition levels, 'q' with rep_levels == NULL */
static char type_base(char t) { return t == 'n' ? 'i' : t == 'm' ? 'd' : (t == 'r' || t == 'q') ? 'i' : (char)(t | 0x20); }
static carquet_physical_type_t type_phys(char t) {
    switch (type_base(t)) {
        case 'i': return CARQUET_PHYSICAL_INT32; case 'l': return CARQUET_PHYSICAL_INT64;
        case 'd': return CARQUET_PHYSICAL_DOUBLE; case 'f': return CARQUET_PHYSICAL_FLOAT;
        case 'b': return CARQUET_PHYSICAL_BYTE_ARRAY; case 'o': return CARQUET_PHYSICAL_BOOLEAN;
        case 'x': return CARQUET_PHYSICAL_FIXED_LEN_BYTE_ARRAY;
        default: return CARQUET_PHYSICAL_INT32;
    }
}
static size_t type_size(char t) {
    switch (type_base(t)) { case 'i': case 'f': return 4; case 'l': case 'd': return 8; case 'b': return sizeof(carquet_byte_array_t);
                        case 'o': return 1; case 'x': return 8; default: return 4; }
}

typedef struct { const char* dir; int codec; const char* types; int nrg, npages, rpp; int ncols; char path[700]; } tspec_t;
static int parse_tspec(tspec_t* f, int t0, const char* tag) {
    if (h_ntok < t0 + 6) return -1;
    f->dir = h_tok[t0]; f->codec = atoi(h_tok[t0+1]); f->types = h_tok[t0+2];
    f->nrg = atoi(h_tok[t0+3]); f->npages = atoi(h_tok[t0+4]); f->rpp = atoi(h_tok[t0+5]);
    f->ncols = (int)strlen(f->types);
    snprintf(f->path, sizeof f->path, "%s/%s_c%d_%s_%d_%d_%d_%d.parquet", f->dir, tag, f->codec, f->types, f->nrg, f->npages, f->rpp, (int)getpid());
    return t0 + 6;
}

/* the intended table: values (dense) and definition levels of page p of row group g of column c */
static int gen_page(const tspec_t* f, int g, int p, int c, uint8_t* vals, int16_t* def, char* strs) {
    int rpp = f->rpp;
    char t = f->types[c]; int opt = type_optional(t); size_t vs = type_size(t); int nv = 0;
                for (int r = 0; r < rpp; r++) {
                    uint64_t row = ((uint64_t)g * (uint64_t)f->npages + (uint64_t)p) * (uint64_t)rpp + (uint64_t)r;
                    uint64_t x = splitmix(77ull * 1000003ull + (uint64_t)c * 7919ull + row * 31ull);
                    int present = !opt || type_nolevels(t) || (x % 4) != 0;
                    def[r] = present ? 1 : 0;
                    if (!present) continue;
                    uint64_t v = splitmix(x);
                    switch (type_base(t)) {
                        case 'i': { int32_t y = (int32_t)(v % 1000u) + c * 100000; memcpy(vals + vs * nv, &y, 4); break; }
                        case 'f': { float y = (float)(v % 4096u) + (float)c * 0.5f; memcpy(vals + vs * nv, &y, 4); break; }
                        case 'l': { int64_t y = (int64_t)(v % 100000u) + (int64_t)c * 1000000000ll; memcpy(vals + vs * nv, &y, 8); break; }
                        case 'd': { double y = (double)(v % 65536u) / 4.0 + (double)c; memcpy(vals + vs * nv, &y, 8); break; }
                        case 'o': { vals[nv] = (uint8_t)(v & 1); break; }
                        case 'x': { memcpy(vals + vs * nv, &v, 8); break; }
                        case 'b': { carquet_byte_array_t ba; char* s = strs + 24 * nv;
                                    int L = snprintf(s, 24, "c%d-%llu", c, (unsigned long long)(v % 100000u));
                                    ba.data = (uint8_t*)s; ba.length = L; memcpy(vals + vs * nv, &ba, sizeof ba); break; }
                    }
                    nv++;
                }
    return nv;
}

/* Build the schema and write the table.  armed: count/fail allocation requests inside API calls.
 * after_close: what to do with the writer after a failed call (0 abort, 1 close).  Returns 0 when
 * every call reported success. */
static int g_cont_retry = 0, g_cont_rgs = 0, g_cont_used = 0, g_cont_result = -1;   /* continuation after a failed new_row_group */
static int g_big_pages = 0;   /* write variants ending in 'P': default page size, pages are closed by the row-group finalize */
static int g_use_file = 0;   /* writef: carquet_writer_create_file on a FILE* of the caller, default options */
static int do_write(const tspec_t* f, int armed, int after_close) {
    carquet_error_t err = CARQUET_ERROR_INIT;
    if (armed) ARM();
    carquet_schema_t* sc = carquet_schema_create(&err);
    DISARM();
    rec("sc", sc ? 0 : (long)err.code, sc != NULL);
    if (!sc) return 1;
    for (int c = 0; c < f->ncols; c++) {
        char name[16]; snprintf(name, sizeof name, "c%d", c);
        if (armed) ARM();
        carquet_logical_type_t lts; memset(&lts, 0, sizeof lts); lts.id = CARQUET_LOGICAL_STRING;
        carquet_status_t st = carquet_schema_add_column(sc, name, type_phys(f->types[c]), type_base(f->types[c]) == 'b' ? &lts : NULL,
            type_repeated(f->types[c]) ? CARQUET_REPETITION_REPEATED :
            type_optional(f->types[c]) ? CARQUET_REPETITION_OPTIONAL : CARQUET_REPETITION_REQUIRED, type_base(f->types[c]) == 'x' ? 8 : 0);
        DISARM();
        rec("ac", st, st == CARQUET_OK);
        if (st != CARQUET_OK) { if (armed) ARM(); carquet_schema_free(sc); DISARM(); return 1; }
    }
    carquet_writer_options_t wo; carquet_writer_options_init(&wo);
    wo.compression = (carquet_compression_t)f->codec; wo.page_size = g_big_pages ? (1 << 20) : 1;   /* 1: every write_batch closes a page */
    FILE* ownfile = NULL;
    carquet_writer_t* w;
    if (g_use_file) {
        ownfile = fopen(f->path, "wb");
        if (armed) ARM();
        w = ownfile ? carquet_writer_create_file(ownfile, sc, NULL, &err) : NULL;   /* NULL options: defaults */
        DISARM();
        if (!w && ownfile) { fclose(ownfile); ownfile = NULL; }
    } else {
        if (armed) ARM();
        w = carquet_writer_create(f->path, sc, &wo, &err);
        DISARM();
    }
    rec("wc", w ? 0 : (long)err.code, w != NULL);
    if (!w) { if (armed) ARM(); carquet_schema_free(sc); DISARM(); return 1; }
    int rpp = f->rpp;
    int16_t* def = __real_malloc(sizeof(int16_t) * (size_t)rpp);
    int16_t* rep = __real_malloc(sizeof(int16_t) * (size_t)rpp);
    for (int r = 0; r < rpp; r++) rep[r] = (int16_t)((r % 3) != 0);   /* lists of three */
    uint8_t* vals = __real_malloc(16 * (size_t)rpp);
    char* strs = __real_malloc(24 * (size_t)rpp);
    int bad = 0;
    for (int g = 0; g < f->nrg && !bad; g++) {
        for (int p = 0; p < f->npages && !bad; p++) {
            for (int c = 0; c < f->ncols && !bad; c++) {
                char t = f->types[c]; int opt = type_optional(t);
                (void)gen_page(f, g, p, c, vals, def, strs);
                if (armed) ARM();
                carquet_status_t st = carquet_writer_write_batch(w, c, vals, rpp, (opt && !type_nolevels(t)) ? def : NULL, t == 'r' ? rep : NULL);
                DISARM();
                rec("wb", st, st == CARQUET_OK);
                if (st != CARQUET_OK) bad = 1;
            }
        }
        if (!bad && g + 1 < f->nrg) {
            if (armed) ARM();
            carquet_status_t st = carquet_writer_new_row_group(w);
            DISARM();
            rec("rg", st, st == CARQUET_OK);
            if (st != CARQUET_OK) {
                /* a failed carquet_writer_new_row_group: the rows of this row group were all handed over by calls
                 * that succeeded.  "retry": call it again and go on writing; otherwise close (or abort).  When the
                 * calls AFTER the failed one all report success, the file must hold exactly the rows written. */
                g_cont_rgs = g + 1;
                if (g_cont_retry) {
                    if (armed) ARM();
                    carquet_status_t st2 = carquet_writer_new_row_group(w);
                    DISARM();
                    rec("rg_retry", st2, 1);
                    if (st2 == CARQUET_OK) { g_cont_rgs = f->nrg; g_cont_used = 1; }
                    else bad = 1;
                } else bad = 1;
            }
        }
    }
    free(def); free(rep); free(vals); free(strs);
    if (bad && !after_close) {
        if (armed) ARM();
        carquet_writer_abort(w);
        DISARM();
        rec("ab", 0, 1);
    } else {
        if (armed) ARM();
        carquet_status_t st = carquet_writer_close(w);
        DISARM();
        if (bad) { rec("cl_after_error", st, 1); if (st == CARQUET_OK && g_cont_rgs > 0) g_cont_used = 2; }
        else { rec("cl", st, st == CARQUET_OK); if (st != CARQUET_OK) { bad = 1; g_cont_used = 0; } }
    }
    if (ownfile) { fclose(ownfile); if (bad) remove(f->path); }
    if (armed) ARM();
    carquet_schema_free(sc);
    DISARM();
    return bad;
}

static uint64_t file_hash(const char* path, long* size) {
    FILE* fp = fopen(path, "rb"); *size = -1;
    if (!fp) return 0;
    uint64_t h = FNV0; uint8_t buf[4096]; size_t n; long tot = 0;
    while ((n = fread(buf, 1, sizeof buf, fp)) > 0) { h = fnv(h, buf, n); tot += (long)n; }
    fclose(fp); *size = tot; return h;
}

typedef struct { carquet_reader_t* r; uint8_t* buf; size_t len; } opened_t;
static int open_mode(const char* path, const char* mode, opened_t* o, int armed) {
    carquet_error_t err = CARQUET_ERROR_INIT; memset(o, 0, sizeof *o);
    carquet_reader_options_t ro; carquet_reader_options_init(&ro);
    if (!strcmp(mode, "buffer")) {
        FILE* fp = fopen(path, "rb"); if (!fp) return -1;
        fseek(fp, 0, SEEK_END); long n = ftell(fp); fseek(fp, 0, SEEK_SET);
        o->buf = __real_malloc((size_t)n); o->len = (size_t)n;
        if (fread(o->buf, 1, o->len, fp) != o->len) { fclose(fp); return -1; }
        fclose(fp);
        if (armed) ARM();
        o->r = carquet_reader_open_buffer(o->buf, o->len, &ro, &err);
        DISARM();
    } else {
        ro.use_mmap = !strcmp(mode, "mmap");
        if (armed) ARM();
        o->r = carquet_reader_open(path, &ro, &err);
        DISARM();
    }
    rec("op", o->r ? 0 : (long)err.code, o->r != NULL);
    if (!o->r) { free(o->buf); o->buf = NULL; return 1; }
    return 0;
}
static void close_mode(opened_t* o, int armed) {
    if (armed) ARM();
    if (o->r) carquet_reader_close(o->r);
    DISARM();
    free(o->buf); memset(o, 0, sizeof *o);
}

static uint64_t hash_page(uint64_t h, char t, const void* values, const int16_t* def, int64_t n) {
    int64_t nn = n;
    if (type_optional(t) && def) { nn = 0; for (int64_t i = 0; i < n; i++) if (def[i] == 1) nn++; h = fnv(h, def, (size_t)n * 2); }
    h = fnv(h, &n, sizeof n);
    if (type_base(t) == 'b') {
        const carquet_byte_array_t* ba = (const carquet_byte_array_t*)values;
        for (int64_t i = 0; i < nn; i++) { h = fnv(h, &ba[i].length, 4); if (ba[i].length > 0 && ba[i].data) h = fnv(h, ba[i].data, (size_t)ba[i].length); }
    } else h = fnv(h, values, (size_t)nn * type_size(t));
    return h;
}

/* column reader API, one page per call.  returns 0 when all calls succeeded; *eff = hash of what was read */
static int do_read(const tspec_t* f, const char* path, const char* mode, int armed, uint64_t* eff) {
    opened_t o; *eff = FNV0;
    int rc = open_mode(path, mode, &o, armed);
    if (rc) return 1;
    int bad = 0;
    int rpp = f->rpp;
    uint8_t* vals = __real_malloc(16 * (size_t)rpp); int16_t* def = __real_malloc(2 * (size_t)rpp);
    for (int g = 0; g < f->nrg; g++) {
        for (int c = 0; c < f->ncols; c++) {
            carquet_error_t err = CARQUET_ERROR_INIT;
            if (armed) ARM();
            carquet_column_reader_t* cr = carquet_reader_get_column(o.r, g, c, &err);
            DISARM();
            rec(bad ? "gc_after_error" : "gc", cr ? 0 : (long)err.code, bad || cr != NULL);
            if (!cr) { bad = 1; continue; }
            for (int p = 0; p < f->npages + 1; p++) {
                if (armed) ARM();
                int64_t n = carquet_column_read_batch(cr, vals, rpp, type_optional(f->types[c]) ? def : NULL, NULL);
                DISARM();
                int expect = p < f->npages ? rpp : 0;
                rec("rb", (long)n, n == expect);
                if (n != expect) {
                    /* the handle stays in use after a failed call: ask again (twice), then go on with the
                     * next column; nothing is judged about the values any more, only crash / leak */
                    bad = 1;
                    for (int again = 0; again < 2; again++) {
                        if (armed) ARM();
                        int64_t n2 = carquet_column_read_batch(cr, vals, rpp, type_optional(f->types[c]) ? def : NULL, NULL);
                        DISARM();
                        rec("rb_again", (long)n2, 1);
                    }
                    break;
                }
                if (n > 0) *eff = hash_page(*eff, f->types[c], vals, def, n);
            }
            if (armed) ARM();
            carquet_column_reader_free(cr);
            DISARM();
        }
    }
    free(vals); free(def);
    close_mode(&o, armed);
    return bad;
}

static int g_intended_ok = -1;   /* fault-free batch run: every batch equals the intended page (1), a difference (0) */
static int g_proj = 0;  /* batchidx / batchname: column projection by index / by name */
static int g_big = 0;   /* readbig / batchbig: one call (one batch) spans all pages of a row group */
/* column reader API, ONE read call for all pages of a column chunk.  Every returned value - in particular every
 * byte-array pointer - is dereferenced AFTER the call has returned (hash_page), which is what the caller does. */
static int do_readbig(const tspec_t* f, const char* path, const char* mode, int armed, uint64_t* eff) {
    opened_t o; *eff = FNV0;
    int rc = open_mode(path, mode, &o, armed);
    if (rc) return 1;
    int bad = 0;
    size_t cap = (size_t)f->rpp * (size_t)f->npages;
    uint8_t* vals = __real_malloc(16 * cap + 16); int16_t* def = __real_malloc(2 * cap + 2);
    uint8_t* avals = __real_malloc(16 * cap + 16); int16_t* adef = __real_malloc(2 * cap + 2); char* astrs = __real_malloc(24 * cap + 24);
    for (int g = 0; g < f->nrg; g++) {
        for (int c = 0; c < f->ncols; c++) {
            carquet_error_t err = CARQUET_ERROR_INIT;
            if (armed) ARM();
            carquet_column_reader_t* cr = carquet_reader_get_column(o.r, g, c, &err);
            DISARM();
            rec(bad ? "gc_after_error" : "gc", cr ? 0 : (long)err.code, bad || cr != NULL);
            if (!cr) { bad = 1; continue; }
            /* A read call may deliver fewer rows than asked for (like read(2)); the caller calls again.  What counts is
             * that no call reports more than it delivers: the rows of all calls together, each dereferenced right
             * after its call returned, must be the column - or some call must report an error (negative count). */
            char t = f->types[c]; size_t vs = type_size(t); int opt = type_optional(t);
            size_t total = 0, nn_total = 0; int err_seen = 0;
            for (int calls = 0; calls < 10 && total < cap; calls++) {
                memset(vals, 0, 16 * cap); memset(def, 0, 2 * cap);
                if (armed) ARM();
                int64_t n = carquet_column_read_batch(cr, vals, (int64_t)(cap - total), opt ? def : NULL, NULL);
                DISARM();
                rec("rB", (long)n, n >= 0);
                if (n < 0) { err_seen = 1; break; }
                if (n == 0) break;
                size_t nn = (size_t)n;
                if (opt) { nn = 0; for (int64_t i = 0; i < n; i++) if (def[i] == 1) nn++; }
                for (int64_t i = 0; i < n; i++) adef[total + (size_t)i] = opt ? def[i] : 1;
                for (size_t i = 0; i < nn; i++) {
                    if (type_base(t) == 'b') {
                        carquet_byte_array_t ba; memcpy(&ba, vals + vs * i, sizeof ba);
                        char* dst = astrs + 24 * (nn_total + i);
                        int32_t L = ba.length < 0 ? 0 : ba.length > 24 ? 24 : ba.length;
                        if (L > 0 && ba.data) memcpy(dst, ba.data, (size_t)L);      /* the dereference */
                        ba.data = (uint8_t*)dst; memcpy(avals + vs * (nn_total + i), &ba, sizeof ba);
                    } else memcpy(avals + vs * (nn_total + i), vals + vs * i, vs);
                }
                total += (size_t)n; nn_total += nn;
            }
            if (err_seen) {
                bad = 1;
                if (armed) ARM();
                int64_t n2 = carquet_column_read_batch(cr, vals, (int64_t)cap, opt ? def : NULL, NULL);
                DISARM();
                rec("rB_again", (long)n2, 1);
                if (n2 > 0) (void)hash_page(FNV0, t, vals, def, n2);
            } else {
                *eff = hash_page(*eff, t, avals, adef, (int64_t)total);
                if (total == cap) {
                    if (armed) ARM();
                    int64_t n2 = carquet_column_read_batch(cr, vals, (int64_t)cap, opt ? def : NULL, NULL);
                    DISARM();
                    rec("rB_end", (long)n2, n2 == 0);
                    if (n2 != 0) bad = 1;
                }
            }
            if (armed) ARM();
            carquet_column_reader_free(cr);
            DISARM();
        }
    }
    free(vals); free(def); free(avals); free(adef); free(astrs);
    close_mode(&o, armed);
    return bad;
}
/* the intended content in the order do_readbig hashes it */
static uint64_t intended_big_hash(const tspec_t* f) {
    uint64_t h = FNV0;
    size_t cap = (size_t)f->rpp * (size_t)f->npages;
    int16_t* def = __real_malloc(2 * cap + 2); uint8_t* vals = __real_malloc(16 * cap + 16); char* strs = __real_malloc(24 * cap + 24);
    int16_t* pdef = __real_malloc(2 * (size_t)f->rpp); uint8_t* pvals = __real_malloc(16 * (size_t)f->rpp); char* pstrs = __real_malloc(24 * (size_t)f->rpp);
    for (int g = 0; g < f->nrg; g++) for (int c = 0; c < f->ncols; c++) {
        size_t nn = 0, nr = 0; char t = f->types[c]; size_t vs = type_size(t);
        for (int p = 0; p < f->npages; p++) {
            int nv = gen_page(f, g, p, c, pvals, pdef, pstrs);
            for (int i = 0; i < f->rpp; i++) def[nr++] = pdef[i];
            for (int i = 0; i < nv; i++) {
                if (type_base(t) == 'b') {
                    carquet_byte_array_t ba; memcpy(&ba, pvals + vs * (size_t)i, sizeof ba);
                    char* dst = strs + 24 * nn; memcpy(dst, ba.data, (size_t)ba.length); ba.data = (uint8_t*)dst;
                    memcpy(vals + vs * nn, &ba, sizeof ba);
                } else memcpy(vals + vs * nn, pvals + vs * (size_t)i, vs);
                nn++;
            }
        }
        h = hash_page(h, t, vals, def, (int64_t)cap);
    }
    free(def); free(vals); free(strs); free(pdef); free(pvals); free(pstrs);
    return h;
}

static int do_batch(const tspec_t* f, const char* path, const char* mode, int armed, uint64_t* eff) {
    opened_t o; *eff = FNV0;
    int rc = open_mode(path, mode, &o, armed);
    if (rc) return 1;
    int bad = 0;
    carquet_batch_reader_config_t cfg; carquet_batch_reader_config_init(&cfg);
    cfg.batch_size = g_big ? f->rpp * f->npages : f->rpp; cfg.num_threads = 1;
    /* projections: by index (last column, first column) or by name ("c<last>", "c0") */
    int32_t pidx[2] = { f->ncols - 1, 0 }; char pn0[16], pn1[16]; const char* pnames[2] = { pn0, pn1 };
    snprintf(pn0, sizeof pn0, "c%d", f->ncols - 1); snprintf(pn1, sizeof pn1, "c0");
    int nproj = f->ncols; int proj[64]; for (int c = 0; c < f->ncols && c < 64; c++) proj[c] = c;
    if (g_proj == 1) { cfg.column_indices = pidx; cfg.num_columns = 2; }
    if (g_proj == 2) { cfg.column_names = pnames; cfg.num_column_names = 2; }
    if (g_proj) { nproj = 2; proj[0] = f->ncols - 1; proj[1] = 0; }
    carquet_error_t err = CARQUET_ERROR_INIT;
    if (armed) ARM();
    carquet_batch_reader_t* br = carquet_batch_reader_create(o.r, &cfg, &err);
    DISARM();
    rec("bc", br ? 0 : (long)err.code, br != NULL);
    if (!br) { close_mode(&o, armed); return 1; }
    int total = g_big ? f->nrg : f->nrg * f->npages;
    for (int i = 0; i <= total && !bad; i++) {
        carquet_row_batch_t* b = NULL;
        if (armed) ARM();
        carquet_status_t st = carquet_batch_reader_next(br, &b);
        DISARM();
        int expect_end = (i == total);
        int ok = expect_end ? (st == CARQUET_ERROR_END_OF_DATA) : (st == CARQUET_OK && b != NULL);
        rec("bn", st, ok);
        if (!ok) {
            /* keep using the batch reader after a failed call: further batches until it ends or 4 more calls */
            bad = 1; if (b) { if (armed) ARM(); carquet_row_batch_free(b); DISARM(); }
            for (int again = 0; again < 4 && st != CARQUET_ERROR_END_OF_DATA; again++) {
                b = NULL;
                if (armed) ARM();
                st = carquet_batch_reader_next(br, &b);
                DISARM();
                rec("bn_again", st, 1);
                if (b) {
                    /* touch what an OK batch hands out */
                    int64_t rows = carquet_row_batch_num_rows(b); uint64_t hh = FNV0;
                    for (int c = 0; c < nproj && st == CARQUET_OK; c++) {
                        const void* data; const uint8_t* nb; int64_t nv;
                        if (carquet_row_batch_column(b, c, &data, &nb, &nv) == CARQUET_OK && data && nv > 0 && type_base(f->types[proj[c]]) != 'b' && !type_optional(f->types[proj[c]]))
                            hh = fnv(hh, data, (size_t)nv * type_size(f->types[proj[c]]));
                        if (nb && nv > 0) hh = fnv(hh, nb, (size_t)((nv + 7) / 8));
                    }
                    (void)rows; (void)hh;
                    if (armed) ARM(); carquet_row_batch_free(b); DISARM();
                }
            }
            break;
        }
        if (b) {
            int64_t rows = carquet_row_batch_num_rows(b);
            *eff = fnv(*eff, &rows, sizeof rows);
            for (int c = 0; c < nproj; c++) {
                const void* data; const uint8_t* nb; int64_t nv;
                if (carquet_row_batch_column(b, c, &data, &nb, &nv) != CARQUET_OK) { bad = 1; break; }
                char t = f->types[proj[c]];
                *eff = fnv(*eff, &nv, sizeof nv);
                if (nv > 0 && !nb) { /* a batch reported OK must carry its null bitmap */ *eff = fnv(*eff, "nobitmap", 8); }
                int64_t nn = nv;
                if (nb && nv > 0) { *eff = fnv(*eff, nb, (size_t)((nv + 7) / 8));
                                    if (type_optional(t)) { nn = 0; for (int64_t j = 0; j < nv; j++) if (!((nb[j / 8] >> (j % 8)) & 1)) nn++; } }
                if (data && nv > 0) {
                    if (type_base(t) == 'b') { const carquet_byte_array_t* ba = data;
                        for (int64_t j = 0; j < nn; j++) { *eff = fnv(*eff, &ba[j].length, 4); if (ba[j].length > 0 && ba[j].data) *eff = fnv(*eff, ba[j].data, (size_t)ba[j].length); } }
                    else *eff = fnv(*eff, data, (size_t)nn * type_size(t));
                } else if (nv > 0) *eff = fnv(*eff, "nodata", 6);
                /* fault-free run, one page per batch: the batch must be the intended page - null bitmap bit for bit (a
                 * set bit marks a null) and the non-null values in order */
                if (SH->fail_at == 0 && !g_big && g_intended_ok != 0) {
                    int g = i / f->npages, pg = i % f->npages;
                    int16_t* idef = __real_malloc(2 * (size_t)f->rpp); uint8_t* ivals = __real_malloc(16 * (size_t)f->rpp); char* istrs = __real_malloc(24 * (size_t)f->rpp);
                    int inv = gen_page(f, g, pg, proj[c], ivals, idef, istrs);
                    int good = (nv == f->rpp) && nb && data;
                    for (int j = 0; good && j < f->rpp; j++) {
                        int isnull = type_optional(t) ? (idef[j] == 0) : 0;
                        if (((nb[j / 8] >> (j % 8)) & 1) != isnull) good = 0;
                    }
                    if (good && (int64_t)inv != nn) good = 0;
                    if (good) {
                        if (type_base(t) == 'b') { const carquet_byte_array_t* ba = data; const carquet_byte_array_t* ib = (const carquet_byte_array_t*)ivals;
                            for (int j = 0; good && j < inv; j++) if (ba[j].length != ib[j].length || memcmp(ba[j].data, ib[j].data, (size_t)ib[j].length)) good = 0; }
                        else if (memcmp(data, ivals, (size_t)inv * type_size(t))) good = 0;
                    }
                    g_intended_ok = good ? 1 : 0;
                    free(idef); free(ivals); free(istrs);
                }
            }
            if (armed) ARM();
            carquet_row_batch_free(b);
            DISARM();
        }
    }
    if (SH->fail_at == 0 && !g_big && !bad) g_readback = g_intended_ok;
    if (armed) ARM();
    carquet_batch_reader_free(br);
    DISARM();
    close_mode(&o, armed);
    return bad;
}

/* ------------------------------------------------------------------------------- foreign files
 *   foreign <path> <mode> <col|batch>
 * A file produced by the independent writer tools/pq.py (dictionary pages, key/value metadata, statistics,
 * encoding stats, ...): schema and sizes are taken from the reader.  Flat schemas only. */
#include "reader/reader_internal.h"
static size_t phys_size(carquet_physical_type_t t, int32_t tl) {
    switch (t) { case CARQUET_PHYSICAL_BOOLEAN: return 1; case CARQUET_PHYSICAL_INT32: case CARQUET_PHYSICAL_FLOAT: return 4;
                 case CARQUET_PHYSICAL_INT64: case CARQUET_PHYSICAL_DOUBLE: return 8; case CARQUET_PHYSICAL_INT96: return 12;
                 case CARQUET_PHYSICAL_FIXED_LEN_BYTE_ARRAY: return tl > 0 ? (size_t)tl : 1; case CARQUET_PHYSICAL_BYTE_ARRAY: return sizeof(carquet_byte_array_t);
                 default: return 8; }
}
static uint64_t hash_dense(uint64_t h, carquet_physical_type_t t, size_t vs, const uint8_t* vals, size_t nn) {
    if (t == CARQUET_PHYSICAL_BYTE_ARRAY) {
        for (size_t i = 0; i < nn; i++) { carquet_byte_array_t ba; memcpy(&ba, vals + vs * i, sizeof ba);
            h = fnv(h, &ba.length, 4); if (ba.length > 0 && ba.data) h = fnv(h, ba.data, (size_t)ba.length); }
        return h;
    }
    return fnv(h, vals, nn * vs);
}
static int do_foreign(const char* path, const char* mode, int batch_api, int armed, uint64_t* eff) {
    opened_t o; *eff = FNV0;
    if (open_mode(path, mode, &o, armed)) return 1;
    int bad = 0;
    const carquet_schema_t* sc = carquet_reader_schema(o.r);
    int ncols = carquet_reader_num_columns(o.r), nrg = carquet_reader_num_row_groups(o.r);
    if (!batch_api) {
        size_t cap = 512;
        for (int g = 0; g < nrg; g++) for (int c = 0; c < ncols; c++) {
            const parquet_schema_element_t* el = &sc->elements[sc->leaf_indices[c]];
            size_t vs = phys_size(el->type, el->type_length); int16_t maxd = sc->max_def_levels[c];
            carquet_error_t err = CARQUET_ERROR_INIT;
            if (armed) ARM();
            carquet_column_reader_t* cr = carquet_reader_get_column(o.r, g, c, &err);
            DISARM();
            rec(bad ? "gc_after_error" : "gc", cr ? 0 : (long)err.code, bad || cr != NULL);
            if (!cr) { bad = 1; continue; }
            uint8_t* vals = __real_malloc(vs * cap + 16); int16_t* def = __real_malloc(2 * cap + 2);
            uint64_t hdef = FNV0, hval = FNV0; int64_t total = 0;
            for (int calls = 0; calls < 64; calls++) {
                if (armed) ARM();
                int64_t n = carquet_column_read_batch(cr, vals, (int64_t)cap, maxd > 0 ? def : NULL, NULL);
                DISARM();
                rec("rb", (long)n, n >= 0);
                if (n < 0) { bad = 1;
                    if (armed) ARM(); int64_t n2 = carquet_column_read_batch(cr, vals, (int64_t)cap, maxd > 0 ? def : NULL, NULL); DISARM();
                    rec("rb_again", (long)n2, 1); break; }
                if (n == 0) break;
                /* running hashes that do not depend on how the rows are split over calls (a call may deliver fewer
                 * rows than asked for); every value is dereferenced right after the call that delivered it */
                size_t nn = (size_t)n;
                if (maxd > 0) { nn = 0; for (int64_t i = 0; i < n; i++) if (def[i] == maxd) nn++; hdef = fnv(hdef, def, (size_t)n * 2); }
                total += n;
                hval = hash_dense(hval, el->type, vs, vals, nn);
            }
            if (!bad) { *eff = fnv(*eff, &total, sizeof total); *eff = fnv(*eff, &hdef, sizeof hdef); *eff = fnv(*eff, &hval, sizeof hval); }
            free(vals); free(def);
            if (armed) ARM();
            carquet_column_reader_free(cr);
            DISARM();
        }
    } else {
        carquet_batch_reader_config_t cfg; carquet_batch_reader_config_init(&cfg);
        cfg.batch_size = 64; cfg.num_threads = 1;
        carquet_error_t err = CARQUET_ERROR_INIT;
        if (armed) ARM();
        carquet_batch_reader_t* br = carquet_batch_reader_create(o.r, &cfg, &err);
        DISARM();
        rec("bc", br ? 0 : (long)err.code, br != NULL);
        if (!br) { close_mode(&o, armed); return 1; }
        for (int i = 0; i < 200; i++) {
            carquet_row_batch_t* b = NULL;
            if (armed) ARM();
            carquet_status_t st = carquet_batch_reader_next(br, &b);
            DISARM();
            if (st == CARQUET_ERROR_END_OF_DATA) { rec("bn", st, 1); break; }
            rec("bn", st, st == CARQUET_OK && b);
            if (st != CARQUET_OK || !b) { bad = 1; if (b) { if (armed) ARM(); carquet_row_batch_free(b); DISARM(); }
                if (armed) ARM(); b = NULL; st = carquet_batch_reader_next(br, &b); DISARM(); rec("bn_again", st, 1);
                if (b) { if (armed) ARM(); carquet_row_batch_free(b); DISARM(); }
                break; }
            int64_t rows = carquet_row_batch_num_rows(b); *eff = fnv(*eff, &rows, sizeof rows);
            for (int c = 0; c < ncols; c++) {
                const parquet_schema_element_t* el = &sc->elements[sc->leaf_indices[c]];
                size_t vs = phys_size(el->type, el->type_length);
                const void* data; const uint8_t* nb; int64_t nv;
                if (carquet_row_batch_column(b, c, &data, &nb, &nv) != CARQUET_OK) { bad = 1; break; }
                *eff = fnv(*eff, &nv, sizeof nv);
                size_t nn = (size_t)(nv > 0 ? nv : 0);
                if (nb && nv > 0) { *eff = fnv(*eff, nb, (size_t)((nv + 7) / 8));
                    if (sc->max_def_levels[c] > 0) { nn = 0; for (int64_t j = 0; j < nv; j++) if (!((nb[j / 8] >> (j % 8)) & 1)) nn++; } }
                if (data && nv > 0) *eff = hash_dense(*eff, el->type, vs, (const uint8_t*)data, nn);
            }
            if (armed) ARM();
            carquet_row_batch_free(b);
            DISARM();
        }
        if (armed) ARM();
        carquet_batch_reader_free(br);
        DISARM();
    }
    close_mode(&o, armed);
    return bad;
}

/* ------------------------------------------------------------------------------- core API
 *   coreapi
 * The public functions of core/buffer.c and core/arena.c that the file scenarios do not call (or call only on
 * their success path): capacity / copy initialisers, resize, fill, typed appends, advance, shrink, detach;
 * arena string / memory copies, save / restore / reset, allocation from a later block of the chain. */
#include "core/buffer.h"
static int do_coreapi(int armed, uint64_t* eff) {
    *eff = FNV0; int bad = 0;
    carquet_buffer_t b, b2, w; uint8_t src[5000]; for (size_t i = 0; i < sizeof src; i++) src[i] = (uint8_t)(i * 7);
    carquet_status_t st;
#define BCALL(tag, expr) do { if (!bad) { if (armed) ARM(); st = (expr); DISARM(); rec(tag, st, st == CARQUET_OK); if (st != CARQUET_OK) bad = 1; } } while (0)
    carquet_buffer_init(&b); carquet_buffer_init(&b2);
    BCALL("b_cap", carquet_buffer_init_capacity(&b, 100));
    BCALL("b_copy", carquet_buffer_init_copy(&b2, src, sizeof src));
    BCALL("b_resize", carquet_buffer_resize(&b, 9000));
    BCALL("b_fill", carquet_buffer_append_fill(&b, 7, 300));
    BCALL("b_u16", carquet_buffer_append_u16_le(&b, 0x1234));
    BCALL("b_u32", carquet_buffer_append_u32_le(&b, 0x12345678u));
    BCALL("b_u64", carquet_buffer_append_u64_le(&b, 0x123456789abcdef0ull));
    BCALL("b_f32", carquet_buffer_append_f32_le(&b, 1.5f));
    BCALL("b_f64", carquet_buffer_append_f64_le(&b, 2.25));
    BCALL("b_reserve", carquet_buffer_reserve(&b, 40000));
    if (!bad) { if (armed) ARM(); uint8_t* p = carquet_buffer_advance(&b, 30000); DISARM(); rec("b_adv", p ? 0 : 2, p != NULL); if (!p) bad = 1; else memset(p, 9, 30000); }
    if (!bad) { if (armed) ARM(); uint8_t* p = carquet_buffer_advance(&b, 0); DISARM(); rec("b_adv0", p ? 1 : 0, 1); }
    BCALL("b_shrink", carquet_buffer_shrink_to_fit(&b));
    BCALL("b_append_after_shrink", carquet_buffer_append(&b, src, 100));
    carquet_buffer_init_wrap(&w, src, 64);
    if (!bad) { if (armed) ARM(); st = carquet_buffer_append(&w, src, 8); DISARM(); rec("w_append", st, st != CARQUET_OK); }   /* must refuse to grow */
    if (!bad) { *eff = fnv(*eff, b.data, b.size); *eff = fnv(*eff, b2.data, b2.size); }
    { size_t n = 0; uint8_t* d = NULL; if (armed) ARM(); d = carquet_buffer_detach(&b2, &n); DISARM(); if (!bad) *eff = fnv(*eff, &n, sizeof n); free(d); }
    carquet_buffer_swap(&b, &b2);
    if (armed) ARM(); carquet_buffer_shrink_to_fit(&b); DISARM();   /* b is empty now: frees */
    carquet_buffer_destroy(&b); carquet_buffer_destroy(&b2);
    /* arena */
    carquet_arena_t a; int have = 0;
    if (!bad) { if (armed) ARM(); st = carquet_arena_init_size(&a, 4096); DISARM(); rec("a_init", st, st == CARQUET_OK); if (st != CARQUET_OK) bad = 1; else have = 1; }
#define ACALL(tag, var, expr) do { if (!bad) { if (armed) ARM(); var = (expr); DISARM(); rec(tag, var ? 0 : 2, var != NULL); if (!var) bad = 1; } } while (0)
    char* s1 = NULL; char* s2 = NULL; void* m1 = NULL; void* p1 = NULL; void* big = NULL; void* z = NULL; void* later = NULL; void* q = NULL;
    ACALL("a_alloc", p1, carquet_arena_alloc(&a, 100));
    ACALL("a_calloc", z, carquet_arena_calloc(&a, 10, 12));
    ACALL("a_strdup", s1, carquet_arena_strdup(&a, "hello arena"));
    ACALL("a_strndup", s2, carquet_arena_strndup(&a, "truncated-here", 9));
    ACALL("a_memdup", m1, carquet_arena_memdup(&a, src, 777));
    if (!bad) { if (armed) ARM(); void* ov = carquet_arena_calloc(&a, (size_t)-1 / 2, 4); DISARM(); rec("a_overflow", ov ? 1 : 0, ov == NULL); }
    if (!bad) {
        carquet_arena_mark_t mk = carquet_arena_save(&a);
        ACALL("a_big", big, carquet_arena_alloc(&a, 70000));           /* second block */
        if (!bad) { memset(big, 3, 70000); carquet_arena_restore(&a, mk); }
        ACALL("a_fill_first", q, carquet_arena_alloc(&a, 65000));        /* does not fit the rest of block 1 ... */
        ACALL("a_later_block", later, carquet_arena_alloc(&a, 66000));   /* ... found in the existing later block or a new one */
    }
    if (!bad) { *eff = fnv(*eff, s1, strlen(s1)); *eff = fnv(*eff, s2, strlen(s2)); *eff = fnv(*eff, m1, 777); *eff = fnv(*eff, z, 120); }
    if (have) {
        carquet_arena_reset(&a);
        if (!bad) { ACALL("a_after_reset", p1, carquet_arena_alloc(&a, 64)); }
        carquet_arena_destroy(&a);
    }
    (void)later; (void)q;
    return bad;
}

static int do_schema(int ncols, int armed, uint64_t* eff) {
    carquet_error_t err = CARQUET_ERROR_INIT; *eff = FNV0;
    if (armed) ARM();
    carquet_schema_t* sc = carquet_schema_create(&err);
    DISARM();
    rec("sc", sc ? 0 : (long)err.code, sc != NULL);
    if (!sc) return 1;
    int bad = 0; int32_t parent = 0;
    for (int c = 0; c < ncols && !bad; c++) {
        char name[24]; snprintf(name, sizeof name, "col_%d", c);
        if (c % 9 == 8) {
            if (armed) ARM();
            int32_t g = carquet_schema_add_group(sc, name, CARQUET_REPETITION_OPTIONAL, 0);
            DISARM();
            rec("ag", g, g >= 0);
            if (g < 0) bad = 1; else parent = g;
            continue;
        }
        (void)parent;
        static const char tt[] = "iLdFbOx";
        char t = tt[c % 7];
        if (armed) ARM();
        carquet_status_t st = carquet_schema_add_column(sc, name, type_phys(t), NULL,
            type_optional(t) ? CARQUET_REPETITION_OPTIONAL : CARQUET_REPETITION_REQUIRED, (t | 0x20) == 'x' ? 8 : 0);
        DISARM();
        rec("ac", st, st == CARQUET_OK);
        if (st != CARQUET_OK) bad = 1;
    }
    if (!bad) {
        /* effect: what the schema reports about itself */
        int32_t nc = carquet_schema_num_columns(sc), ne = carquet_schema_num_elements(sc);
        *eff = fnv(*eff, &nc, 4); *eff = fnv(*eff, &ne, 4);
        for (int32_t i = 0; i < ne; i++) {
            const carquet_schema_node_t* n = carquet_schema_get_element(sc, i);
            if (!n) { *eff = fnv(*eff, "null", 4); continue; }
            const char* nm = carquet_schema_node_name(n);
            if (nm) *eff = fnv(*eff, nm, strlen(nm)); else *eff = fnv(*eff, "noname", 6);
            int leaf = carquet_schema_node_is_leaf(n); *eff = fnv(*eff, &leaf, sizeof leaf);
        }
        char look[24]; snprintf(look, sizeof look, "col_%d", ncols > 1 ? ncols - 2 : 0);
        int32_t idx = carquet_schema_find_column(sc, look); *eff = fnv(*eff, &idx, 4);
    }
    if (armed) ARM();
    carquet_schema_free(sc);
    DISARM();
    return bad;
}

/* ------------------------------------------------------------------------------ one forked run */
typedef struct { int exit_code, sig; char out[12000]; char san[700]; } child_res;

static void summarise_san(const char* err, char* dst, size_t cap) {
    /* first sanitizer headline + first frames inside the library, blanks -> '_' */
    dst[0] = 0;
    const char* p = strstr(err, "ERROR: AddressSanitizer");
    if (!p) p = strstr(err, "runtime error:");
    if (!p) p = strstr(err, "ERROR: LeakSanitizer");
    if (!p) p = strstr(err, "Direct leak");
    if (!p) { if (*err) { snprintf(dst, cap, "%.200s", err); } else return; }
    else {
        size_t n = 0;
        const char* e = strchr(p, '\n'); size_t l = e ? (size_t)(e - p) : strlen(p); if (l > 160) l = 160;
        memcpy(dst, p, l); n = l; dst[n] = 0;
        const char* q = p; int frames = 0;
        while ((q = strstr(q, " in ")) && frames < 4) {
            const char* ln = q + 4; const char* eol = strchr(ln, '\n'); if (!eol) break;
            const char* src = strstr(ln, "/src/");
            if (src && src < eol) {
                const char* sp = memchr(ln, ' ', (size_t)(eol - ln));
                size_t fl = sp ? (size_t)(sp - ln) : 0;
                const char* base = src; for (const char* z = src; z < eol; z++) if (*z == '/') base = z + 1;
                if (n + fl + (size_t)(eol - base) + 8 < cap) {
                    memcpy(dst + n, " <- ", 4); n += 4; memcpy(dst + n, ln, fl); n += fl; dst[n++] = '@';
                    memcpy(dst + n, base, (size_t)(eol - base)); n += (size_t)(eol - base); dst[n] = 0; frames++;
                }
            }
            q = eol;
        }
    }
    for (char* c = dst; *c; c++) if (*c == ' ' || *c == '\n' || *c == '\t' || *c == '|') *c = '_';
}

static int run_scenario(int t0, int armed, uint64_t* eff, long* fsize);

static void run_child(int t0, long fail_at, int record, child_res* res) {
    int po[2], pe[2];
    memset(res, 0, sizeof *res);
    if (pipe(po) || pipe(pe)) { res->exit_code = -1; return; }
    fflush(stdout); fflush(stderr);
    SH->count = 0; SH->fail_at = fail_at; SH->failed_seen = 0; SH->record = record;
    pid_t pid = fork();
    if (pid == 0) {
        close(po[0]); close(pe[0]);
        dup2(po[1], 1); dup2(pe[1], 2);
        alarm(60);
        g_ncalls = 0; g_calls[0] = 0; g_allok = 1; g_nfailed = 0;
        uint64_t eff = 0; long fsize = -1;
        int bad = run_scenario(t0, 1, &eff, &fsize);
        int leak = __lsan_do_recoverable_leak_check();
        printf("calls=%s ok=%d eff=%016llx fsize=%ld leak=%d reqs=%ld hit=%d rb=%d rbc=%d", g_calls[0] ? g_calls : "-", (!bad && g_allok) ? 1 : 0,
               (unsigned long long)eff, fsize, leak ? 1 : 0, SH->count, SH->failed_seen, g_readback, g_cont_result);
        fflush(stdout);
        COV_FLUSH();
        _exit(0);
    }
    close(po[1]); close(pe[1]);
    /* drain both pipes */
    size_t no = 0; char errbuf[60000]; size_t ne = 0;
    int fds[2] = { po[0], pe[0] }; int open_n = 2;
    fcntl(po[0], F_SETFL, O_NONBLOCK); fcntl(pe[0], F_SETFL, O_NONBLOCK);
    while (open_n > 0) {
        fd_set rs; FD_ZERO(&rs); int mx = -1;
        for (int i = 0; i < 2; i++) if (fds[i] >= 0) { FD_SET(fds[i], &rs); if (fds[i] > mx) mx = fds[i]; }
        if (select(mx + 1, &rs, NULL, NULL, NULL) < 0) { if (errno == EINTR) continue; break; }
        for (int i = 0; i < 2; i++) if (fds[i] >= 0 && FD_ISSET(fds[i], &rs)) {
            char tmp[4096]; ssize_t n = read(fds[i], tmp, sizeof tmp);
            if (n <= 0) { if (n < 0 && (errno == EAGAIN || errno == EINTR)) continue; close(fds[i]); fds[i] = -1; open_n--; continue; }
            if (i == 0) { size_t c = (size_t)n; if (no + c >= sizeof res->out) c = sizeof res->out - 1 - no; memcpy(res->out + no, tmp, c); no += c; }
            else { size_t c = (size_t)n; if (ne + c >= sizeof errbuf) c = sizeof errbuf - 1 - ne; memcpy(errbuf + ne, tmp, c); ne += c; }
        }
    }
    res->out[no] = 0; errbuf[ne] = 0;
    int st = 0; waitpid(pid, &st, 0);
    res->exit_code = WIFEXITED(st) ? WEXITSTATUS(st) : -1;
    res->sig = WIFSIGNALED(st) ? WTERMSIG(st) : 0;
    summarise_san(errbuf, res->san, sizeof res->san);
    for (char* c = res->out; *c; c++) if (*c == '\n' || *c == '|') *c = ' ';
}

static int do_read(const tspec_t* f, const char* path, const char* mode, int armed, uint64_t* eff);
static uint64_t hash_page(uint64_t h, char t, const void* values, const int16_t* def, int64_t n);
/* hash of the intended table in the order do_read visits it */
static uint64_t intended_hash(const tspec_t* f) {
    uint64_t h = FNV0;
    int16_t* def = __real_malloc(sizeof(int16_t) * (size_t)f->rpp);
    uint8_t* vals = __real_malloc(16 * (size_t)f->rpp); char* strs = __real_malloc(24 * (size_t)f->rpp);
    for (int g = 0; g < f->nrg; g++) for (int c = 0; c < f->ncols; c++) for (int p = 0; p < f->npages; p++) {
        gen_page(f, g, p, c, vals, def, strs);
        h = hash_page(h, f->types[c], vals, def, f->rpp);
    }
    free(def); free(vals); free(strs);
    return h;
}
static char g_scen_path[700];
static int run_scenario(int t0, int armed, uint64_t* eff, long* fsize) {
    const char* kind = h_tok[t0];
    *eff = 0; *fsize = -1;
    if (!strcmp(kind, "schema")) return do_schema(atoi(h_tok[t0 + 1]), armed, eff);
    if (!strcmp(kind, "coreapi")) return do_coreapi(armed, eff);
    if (!strcmp(kind, "foreign")) return do_foreign(h_tok[t0 + 1], h_tok[t0 + 2], !strcmp(h_tok[t0 + 3], "batch"), armed, eff);
    tspec_t f;
    if (!strcmp(kind, "writef")) { g_use_file = 1; kind = "write"; }
    if (!strcmp(kind, "write")) {
        if (parse_tspec(&f, t0 + 1, "w") < 0) return 1;
        const char* after = h_ntok > t0 + 7 ? h_tok[t0 + 7] : "abort";
        int after_close = !strncmp(after, "close", 5) || !strncmp(after, "retry", 5);
        g_cont_retry = !strncmp(after, "retry", 5);
        g_big_pages = after[0] && after[strlen(after) - 1] == 'P';
        remove(f.path);
        int bad = do_write(&f, armed, after_close);
        *eff = file_hash(f.path, fsize);
        if (g_cont_used && SH->fail_at != 0 && !strchr(f.types, 'r') && !strchr(f.types, 'q')) {
            /* every call after the failed new_row_group reported success (retry + the rest + close, or close alone):
             * the file must read back to the row groups that were written */
            tspec_t part = f; part.nrg = g_cont_rgs;
            uint64_t got = 0; size_t keep = g_ncalls; int ok = g_allok;
            int rb = do_read(&part, f.path, "fread", 0, &got);
            g_ncalls = keep; g_calls[keep] = 0; g_allok = ok;
            g_cont_result = (!rb && got == intended_hash(&part)) ? 1 : 0;
        }
        if (!bad && SH->fail_at == 0 && !strchr(f.types, 'r') && !strchr(f.types, 'q')) {
            /* fault-free run: the file must read back (no faults injected) to the intended table; the runs
             * with a failing request are then compared with this file byte for byte */
            uint64_t got = 0; size_t keep = g_ncalls; int ok = g_allok;
            int rb = do_read(&f, f.path, "fread", 0, &got);
            g_ncalls = keep; g_calls[keep] = 0; g_allok = ok;
            g_readback = (!rb && got == intended_hash(&f)) ? 1 : 0;
        }
        remove(f.path);
        return bad;
    }
    if (parse_tspec(&f, t0 + 1, "r") < 0) return 1;
    const char* mode = h_ntok > t0 + 7 ? h_tok[t0 + 7] : "fread";
    if (!strcmp(kind, "readbig")) {
        int bad = do_readbig(&f, g_scen_path, mode, armed, eff);
        if (!bad && SH->fail_at == 0) g_readback = (*eff == intended_big_hash(&f)) ? 1 : 0;
        return bad;
    }
    if (!strcmp(kind, "batchbig")) { g_big = 1; return do_batch(&f, g_scen_path, mode, armed, eff); }
    if (!strcmp(kind, "batchidx")) { g_proj = 1; return do_batch(&f, g_scen_path, mode, armed, eff); }
    if (!strcmp(kind, "batchname")) { g_proj = 2; return do_batch(&f, g_scen_path, mode, armed, eff); }
    if (!strcmp(kind, "read")) return do_read(&f, g_scen_path, mode, armed, eff);
    if (!strcmp(kind, "batch")) return do_batch(&f, g_scen_path, mode, armed, eff);
    return 1;
}

/* read/batch scenarios need their input file: written once (unarmed) by the parent */
static int prepare(int t0) {
    const char* kind = h_tok[t0];
    if (strcmp(kind, "read") && strcmp(kind, "batch") && strcmp(kind, "readbig") && strcmp(kind, "batchbig") &&
        strcmp(kind, "batchidx") && strcmp(kind, "batchname")) return 0;
    tspec_t f; if (parse_tspec(&f, t0 + 1, "in") < 0) return -1;
    snprintf(g_scen_path, sizeof g_scen_path, "%s/in_c%d_%s_%d_%d_%d.parquet", f.dir, f.codec, f.types, f.nrg, f.npages, f.rpp);
    struct stat sb;
    if (stat(g_scen_path, &sb) == 0 && sb.st_size > 12) return 0;
    char tmp[800]; snprintf(tmp, sizeof tmp, "%s.tmp%d", g_scen_path, (int)getpid());
    tspec_t w = f; snprintf(w.path, sizeof w.path, "%s", tmp);
    /* in a child, so that the parent never initialises the library */
    fflush(stdout);
    pid_t pid = fork();
    if (pid == 0) { g_allok = 1; int bad = do_write(&w, 0, 0); COV_FLUSH(); _exit(bad ? 3 : 0); }
    int st = 0; waitpid(pid, &st, 0);
    if (!WIFEXITED(st) || WEXITSTATUS(st) != 0) { remove(tmp); return -2; }
    if (rename(tmp, g_scen_path) != 0) { remove(tmp); return -3; }
    return 0;
}

/* model tie for Alloc/BufferModel.v and Alloc/ArenaModel.v: the real buffer / arena with request k denied */
#include "core/buffer.h"
static void op_mbuf(void) {
    long k = atol(h_tok[1]);
    SH->count = 0; SH->fail_at = k; SH->failed_seen = 0; SH->record = 0;
    carquet_buffer_t b; carquet_buffer_init(&b);
    printf("OK ");
    char* p = h_tok[2]; int first = 1;
    while (*p && strcmp(h_tok[2], "-")) {
        long sz = strtol(p, &p, 10); if (*p == ',') p++;
        uint8_t* chunk = __real_calloc(1, (size_t)sz + 1);
        ARM();
        carquet_status_t st = carquet_buffer_append(&b, chunk, (size_t)sz);
        DISARM();
        free(chunk);
        printf("%s%d", first ? "" : ",", (int)st); first = 0;
    }
    printf(" %zu %zu\n", b.size, b.capacity);
    carquet_buffer_destroy(&b);
}
static void op_marena(void) {
    long k = atol(h_tok[1]); size_t dflt = (size_t)atol(h_tok[2]);
    SH->count = 0; SH->fail_at = k; SH->failed_seen = 0; SH->record = 0;
    carquet_arena_t a;
    ARM();
    carquet_status_t st = carquet_arena_init_size(&a, dflt);
    DISARM();
    printf("OK ");
    if (st != CARQUET_OK) { printf("-\n"); return; }
    char* p = h_tok[3]; int first = 1;
    while (*p && strcmp(h_tok[3], "-")) {
        long n = strtol(p, &p, 10); long al = 1; if (*p == ':') { p++; al = strtol(p, &p, 10); } if (*p == ',') p++;
        ARM();
        uint8_t* q = __real_carquet_arena_alloc_aligned(&a, (size_t)n, (size_t)al);
        DISARM();
        if (!q) printf("%snull", first ? "" : ",");
        else {
            int idx = 0; long off = -1;
            for (carquet_arena_block_t* blk = a.head; blk; blk = blk->next, idx++) {
                uint8_t* base = CARQUET_ARENA_BLOCK_DATA(blk);
                if (q >= base && q < base + blk->size) { off = (long)(q - base); break; }
            }
            printf("%s%d:%ld", first ? "" : ",", idx, off);
        }
        first = 0;
    }
    if (first) printf("-");
    printf("\n");
    carquet_arena_destroy(&a);
}

int main(void) {
    SH = mmap(NULL, sizeof(shared_t), PROT_READ | PROT_WRITE, MAP_SHARED | MAP_ANONYMOUS, -1, 0);
    if (SH == MAP_FAILED) { puts("ERR mmap"); return 1; }
    { void* tmp[4]; (void)backtrace(tmp, 4); }   /* let libgcc load its unwinder now */
    Dl_info di; uintptr_t base = 0;
    if (dladdr((void*)&main, &di)) base = (uintptr_t)di.dli_fbase;
    g_exe_base = (void*)base;
    while (h_readline()) {
        h_split();
        if (h_ntok < 2) { puts("ERR empty"); fflush(stdout); continue; }
        if (!strcmp(h_tok[0], "mbuf") && h_ntok == 3) { op_mbuf(); fflush(stdout); continue; }
        if (!strcmp(h_tok[0], "marena") && h_ntok == 4) { op_marena(); fflush(stdout); continue; }
        int is_count = !strcmp(h_tok[0], "count");
        int is_fail = !strcmp(h_tok[0], "fail");
        if (!is_count && !is_fail) { puts("ERR unknown-op"); fflush(stdout); continue; }
        int pr = prepare(1);
        if (pr) { printf("ERR prepare %d\n", pr); fflush(stdout); continue; }
        child_res* res = __real_malloc(sizeof *res);
        if (is_count) {
            run_child(1, 0, 1, res);
            long K = SH->count;
            printf("OK K=%ld exit=%d sig=%d %s san=%s sites=", K, res->exit_code, res->sig, res->out[0] ? res->out : "-", res->san[0] ? res->san : "-");
            for (long k = 1; k <= K && k < MAXREQ; k++) {
                if (k > 1) putchar(',');
                for (int i = 0; i < SH->nfr[k]; i++) printf("%s%lx", i ? "/" : "", (unsigned long)((uintptr_t)SH->fr[k][i] - base - 1));
                if (SH->rt[k]) printf("/!gomp");
            }
            if (K == 0) putchar('-');
            putchar('\n');
        } else {
            /* the k range is the last two tokens */
            long k1 = atol(h_tok[h_ntok - 2]), k2 = atol(h_tok[h_ntok - 1]);
            h_ntok -= 2;
            printf("OK");
            for (long k = k1; k <= k2; k++) {
                run_child(1, k, 0, res);
                printf(" | k=%ld exit=%d sig=%d %s san=%s", k, res->exit_code, res->sig, res->out[0] ? res->out : "died", res->san[0] ? res->san : "-");
            }
            putchar('\n');
        }
        free(res);
        fflush(stdout);
    }
    free(h_line);
    return 0;
}
