/* Second flavour of the C19 driver: malloc/calloc/realloc of the whole process are interposed (see
 * EXT_INTERPOSE in h_alloc_impl.h), so that allocation requests made inside zlib, libzstd and stdio on
 * behalf of the library fail too.  Linked with --wrap only for the arena interface. */
#define EXT_INTERPOSE 1
#include "h_alloc_impl.h"
