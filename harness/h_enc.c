/* Driver for the enc engine: carquet's bit packing and RLE/bit-packed hybrid entry points.
 * Exact-size heap buffers for every input so that over-reads are ASan reports. */
#include "hcommon.h"
#include "core/bitpack.h"
#include "core/buffer.h"
#include "encoding/rle.h"

static void put_vals_u32(const uint32_t* v, int64_t n) {
    if (n <= 0) { putchar('-'); return; }
    for (int64_t i = 0; i < n; i++) printf(i ? ",%u" : "%u", v[i]);
}

int main(void) {
    while (h_readline()) {
        h_split();
        if (h_ntok == 0) { puts("ERR empty"); continue; }
        const char* op = h_tok[0];
        if (!strcmp(op, "pack8") && h_ntok == 10) {
            int w = atoi(h_tok[1]);
            uint32_t* v = malloc(8 * sizeof(uint32_t));
            for (int i = 0; i < 8; i++) v[i] = (uint32_t)strtoul(h_tok[2 + i], NULL, 10);
            uint8_t* out = malloc(w ? w : 1);
            carquet_bitpack8_32(v, w, out);
            printf("OK "); h_puthex(out, (size_t)w); putchar('\n');
            free(v); free(out);
        } else if (!strcmp(op, "unpack8") && h_ntok == 3) {
            int w = atoi(h_tok[1]); size_t n; void* base;
            uint8_t* in = h_unhex(h_tok[2], &n, 0, &base);
            if (n < (size_t)w) { puts("FAULT"); free(base); continue; }  /* caller contract: w bytes */
            uint32_t* v = malloc(8 * sizeof(uint32_t));
            carquet_bitunpack8_32(in, w, v);
            printf("OK "); put_vals_u32(v, 8); putchar('\n');
            free(v); free(base);
        } else if (!strcmp(op, "bitpack") && h_ntok >= 2) {
            int w = atoi(h_tok[1]); size_t count = (size_t)(h_ntok - 2);
            uint32_t* v = malloc((count ? count : 1) * sizeof(uint32_t));
            for (size_t i = 0; i < count; i++) v[i] = (uint32_t)strtoul(h_tok[2 + i], NULL, 10);
            size_t cap = carquet_packed_size(count, w);
            /* the tail group is written in full (w bytes) before being truncated: give it room as the
               library's own callers do */
            uint8_t* out = malloc(cap + 32);
            size_t wr = carquet_bitpack_32(v, count, w, out);
            printf("OK "); h_puthex(out, wr); putchar('\n');
            free(v); free(out);
        } else if (!strcmp(op, "bitunpack") && h_ntok == 4) {
            /* carquet_bitunpack_32 on an input of exactly the given bytes; the caller contract is
               that the input holds packed_size(count, w) bytes: shorter inputs are reported as FAULT
               by the driver without calling (the model says Fault OobRead there) */
            int w = atoi(h_tok[1]); size_t count = (size_t)atoll(h_tok[2]); size_t n; void* base;
            uint8_t* in = h_unhex(h_tok[3], &n, 0, &base);
            size_t need = (w == 0) ? 0 : (count / 8) * (size_t)w + carquet_packed_size(count % 8, w);
            if (n < need) { puts("FAULT"); free(base); }
            else {
                uint32_t* v = malloc((count ? count : 1) * sizeof(uint32_t));
                size_t used = carquet_bitunpack_32(in, count, w, v);
                printf("OK "); put_vals_u32(v, (int64_t)count); printf(" %zu\n", used);
                free(v); free(base);
            }
        } else if (!strcmp(op, "rle_enc") && h_ntok >= 2) {
            int w = atoi(h_tok[1]); int64_t count = h_ntok - 2;
            uint32_t* v = malloc((count ? count : 1) * sizeof(uint32_t));
            for (int64_t i = 0; i < count; i++) v[i] = (uint32_t)strtoul(h_tok[2 + i], NULL, 10);
            carquet_buffer_t b; carquet_buffer_init(&b);
            carquet_status_t st = carquet_rle_encode_all(v, count, w, &b);
            if (st != CARQUET_OK) printf("ERR %d\n", (int)st);
            else { printf("OK "); h_puthex(b.data, b.size); putchar('\n'); }
            carquet_buffer_destroy(&b); free(v);
        } else if (!strcmp(op, "rle_rt") && h_ntok >= 2) {
            /* encode_all then decode_all of exactly the encoded bytes, asking for count values */
            int w = atoi(h_tok[1]); int64_t count = h_ntok - 2;
            uint32_t* v = malloc((count ? count : 1) * sizeof(uint32_t));
            for (int64_t i = 0; i < count; i++) v[i] = (uint32_t)strtoul(h_tok[2 + i], NULL, 10);
            carquet_buffer_t b; carquet_buffer_init(&b);
            carquet_status_t st = carquet_rle_encode_all(v, count, w, &b);
            if (st != CARQUET_OK) { printf("ERR %d\n", (int)st); }
            else {
                uint8_t* exact = malloc(b.size ? b.size : 1);
                if (b.size) memcpy(exact, b.data, b.size);
                uint32_t* out = malloc((count ? count : 1) * sizeof(uint32_t));
                int64_t got = carquet_rle_decode_all(exact, b.size, w, out, count);
                printf("OK "); h_puthex(exact, b.size); putchar(' '); put_vals_u32(out, got); putchar('\n');
                free(out); free(exact);
            }
            carquet_buffer_destroy(&b); free(v);
        } else if (!strcmp(op, "rle_encops") && h_ntok >= 2) {
            /* rle_encops <w> <seg>...: the STREAMING encoder API. seg = p<v> (put) | r<v>x<count> (put_repeat,
               count may be 0) ; a final flush.  Prints the bytes, the bytes carquet_rle_encode_all gives for the
               flattened sequence, and what decode_all returns for the flattened count (exact-size input). */
            int w = atoi(h_tok[1]);
            carquet_buffer_t b; carquet_buffer_init(&b);
            carquet_rle_encoder_t enc; carquet_rle_encoder_init(&enc, &b, w);
            size_t cap = 16, n = 0; uint32_t* flat = malloc(cap * sizeof(uint32_t));
            carquet_status_t st = CARQUET_OK;
            for (int i = 2; i < h_ntok && st == CARQUET_OK; i++) {
                const char* t = h_tok[i];
                uint32_t v = (uint32_t)strtoul(t + 1, NULL, 10); int64_t c = 1;
                if (t[0] == 'r') { const char* x = strchr(t, 'x'); c = x ? atoll(x + 1) : 0; st = carquet_rle_encoder_put_repeat(&enc, v, c); }
                else st = carquet_rle_encoder_put(&enc, v);
                while (n + (size_t)c > cap) { cap *= 2; flat = realloc(flat, cap * sizeof(uint32_t)); }
                for (int64_t k = 0; k < c; k++) flat[n++] = v;
            }
            if (st == CARQUET_OK) st = carquet_rle_encoder_flush(&enc);
            if (st != CARQUET_OK) printf("ERR %d\n", (int)st);
            else {
                carquet_buffer_t b2; carquet_buffer_init(&b2);
                carquet_status_t st2 = carquet_rle_encode_all(flat, (int64_t)n, w, &b2);
                uint8_t* exact = malloc(b.size ? b.size : 1); if (b.size) memcpy(exact, b.data, b.size);
                uint32_t* out = malloc((n ? n : 1) * sizeof(uint32_t));
                int64_t got = carquet_rle_decode_all(exact, b.size, w, out, (int64_t)n);
                int64_t bad = -1;
                if (got != (int64_t)n) bad = got < 0 ? 0 : got; else for (size_t k = 0; k < n; k++) if (out[k] != flat[k]) { bad = (int64_t)k; break; }
                printf("OK "); h_puthex(b.data, b.size); putchar(' ');
                if (st2 == CARQUET_OK) h_puthex(b2.data, b2.size); else printf("ERR%d", (int)st2);
                printf(" n=%zu firstdiff=%lld\n", n, (long long)bad);
                free(out); free(exact); carquet_buffer_destroy(&b2);
            }
            carquet_buffer_destroy(&b); free(flat);
        } else if (!strcmp(op, "bitrw") && h_ntok >= 1) {
            /* bitrw <seg>...: the raw bit writer / bit reader pair of core/bitpack.c.  seg = b<0|1> (write_bit) |
               w<value>:<nbits 0..32> (write_bits) | q<value hex>:<nbits 0..64> (write_bits64); flush; then the same
               sequence is read back (read_bit / read_bits / read_bits64) from an exact-size copy of the bytes.
               Prints the bytes written, the values read back (hex), and remaining_bits / has_more after the last read. */
            size_t total = 0;
            for (int i = 1; i < h_ntok; i++) { const char* t = h_tok[i]; const char* c = strchr(t, ':'); total += t[0] == 'b' ? 1 : (size_t)atoi(c ? c + 1 : "0"); }
            size_t cap = (total + 7) / 8;
            uint8_t* buf = malloc(cap ? cap : 1); memset(buf, 0, cap ? cap : 1);
            carquet_bit_writer_t bw; carquet_bit_writer_init(&bw, buf, cap);
            for (int i = 1; i < h_ntok; i++) {
                const char* t = h_tok[i]; const char* c = strchr(t, ':');
                if (t[0] == 'b') carquet_bit_writer_write_bit(&bw, atoi(t + 1));
                else if (t[0] == 'w') carquet_bit_writer_write_bits(&bw, (uint32_t)strtoul(t + 1, NULL, 10), atoi(c + 1));
                else carquet_bit_writer_write_bits64(&bw, strtoull(t + 1, NULL, 16), atoi(c + 1));
            }
            carquet_bit_writer_flush(&bw);
            size_t n = carquet_bit_writer_bytes_written(&bw);
            uint8_t* exact = malloc(n ? n : 1); if (n) memcpy(exact, buf, n);
            printf("OK "); h_puthex(exact, n); putchar(' ');
            carquet_bit_reader_t br; carquet_bit_reader_init(&br, exact, n);
            if (h_ntok == 1) putchar('-');
            for (int i = 1; i < h_ntok; i++) {
                const char* t = h_tok[i]; const char* c = strchr(t, ':');
                unsigned long long g;
                if (t[0] == 'b') g = (unsigned long long)carquet_bit_reader_read_bit(&br);
                else if (t[0] == 'w') g = carquet_bit_reader_read_bits(&br, atoi(c + 1));
                else g = carquet_bit_reader_read_bits64(&br, atoi(c + 1));
                printf("%s%llx", i > 1 ? "," : "", g);
            }
            printf(" rem=%zu more=%d\n", carquet_bit_reader_remaining_bits(&br), (int)carquet_bit_reader_has_more(&br));
            free(exact); free(buf);
        } else if (!strcmp(op, "rle_enclvl") && h_ntok >= 2) {
            /* rle_enclvl <w> <levels>...: carquet_rle_encode_levels (int16 input), then decode_levels and
               decode_levels_prefixed (4-byte length in front) of exactly the encoded bytes */
            int w = atoi(h_tok[1]); int64_t count = h_ntok - 2;
            int16_t* v = malloc((count ? count : 1) * sizeof(int16_t));
            for (int64_t i = 0; i < count; i++) v[i] = (int16_t)atoi(h_tok[2 + i]);
            carquet_buffer_t b; carquet_buffer_init(&b);
            carquet_status_t st = carquet_rle_encode_levels(v, count, w, &b);
            if (st != CARQUET_OK) printf("ERR %d\n", (int)st);
            else {
                uint8_t* exact = malloc(b.size + 4); uint32_t len = (uint32_t)b.size; memcpy(exact, &len, 4); if (b.size) memcpy(exact + 4, b.data, b.size);
                int16_t* o1 = malloc((count ? count : 1) * sizeof(int16_t)); int16_t* o2 = malloc((count ? count : 1) * sizeof(int16_t));
                size_t consumed = 0;
                int64_t g1 = carquet_rle_decode_levels(exact + 4, b.size, w, o1, count);
                int64_t g2 = carquet_rle_decode_levels_prefixed(exact, b.size + 4, w, o2, count, &consumed);
                printf("OK "); h_puthex(b.data, b.size); printf(" %lld:", (long long)g1);
                for (int64_t i = 0; i < g1; i++) printf("%s%d", i ? "," : "", (int)o1[i]);
                printf(" %lld/%zu:", (long long)g2, consumed);
                for (int64_t i = 0; i < g2; i++) printf("%s%d", i ? "," : "", (int)o2[i]);
                putchar('\n');
                free(o1); free(o2); free(exact);
            }
            carquet_buffer_destroy(&b); free(v);
        } else if (!strcmp(op, "getfn") && h_ntok == 3) {
            /* getfn <w> <hex bytes>: the unpack function table accessor */
            int w = atoi(h_tok[1]); size_t n; void* base;
            uint8_t* in = h_unhex(h_tok[2], &n, 0, &base);
            carquet_bitunpack8_fn f = carquet_get_bitunpack8_fn(w);
            if (!f) printf("OK NULL\n");
            else { uint32_t v[8]; f(in, v); printf("OK "); put_vals_u32(v, 8); putchar('\n'); }
            free(base);
        } else if (!strcmp(op, "rle_rtrun") && h_ntok == 5) {
            /* rle_rtrun <w> <k> <v> <count>: the sequence  k alternating literals, count x v, one other value
               is encoded with carquet_rle_encode_all and decoded with decode_all, decode_levels and
               decode_levels_prefixed; prints the first index at which each decoder differs from the input
               (-1 = equal) - long runs whose header needs 4 varint bytes cannot travel as tokens */
            int w = atoi(h_tok[1]); int64_t k = atoll(h_tok[2]); uint32_t v = (uint32_t)strtoul(h_tok[3], NULL, 10);
            int64_t cnt = atoll(h_tok[4]); int64_t n = k + cnt + 1;
            uint32_t top = w >= 32 ? 0xFFFFFFFFu : ((1u << w) - 1);
            uint32_t* in = malloc((size_t)n * sizeof(uint32_t));
            for (int64_t i = 0; i < k; i++) in[i] = (uint32_t)((i & 1) ? (v ^ 1) & top : (v ^ 2) & top);
            for (int64_t i = 0; i < cnt; i++) in[k + i] = v & top;
            in[n - 1] = (v ^ 1) & top;
            carquet_buffer_t b; carquet_buffer_init(&b);
            carquet_status_t st = carquet_rle_encode_all(in, n, w, &b);
            if (st != CARQUET_OK) { printf("ERR %d\n", (int)st); }
            else {
                uint8_t* exact = malloc(b.size + 4);
                uint32_t len = (uint32_t)b.size; memcpy(exact, &len, 4); memcpy(exact + 4, b.data, b.size);
                uint32_t* o32 = malloc((size_t)n * sizeof(uint32_t)); int16_t* o16 = malloc((size_t)n * sizeof(int16_t));
                int64_t bad_all = -1, bad_lvl = -1, bad_pre = -1; size_t consumed = 0;
                int64_t g = carquet_rle_decode_all(exact + 4, b.size, w, o32, n);
                if (g != n) bad_all = g < 0 ? 0 : g; else for (int64_t i = 0; i < n; i++) if (o32[i] != in[i]) { bad_all = i; break; }
                if (w <= 15) {
                    g = carquet_rle_decode_levels(exact + 4, b.size, w, o16, n);
                    if (g != n) bad_lvl = g < 0 ? 0 : g; else for (int64_t i = 0; i < n; i++) if ((uint32_t)(uint16_t)o16[i] != in[i]) { bad_lvl = i; break; }
                    g = carquet_rle_decode_levels_prefixed(exact, b.size + 4, w, o16, n, &consumed);
                    if (g != n || consumed != b.size + 4) bad_pre = g < 0 ? 0 : g; else for (int64_t i = 0; i < n; i++) if ((uint32_t)(uint16_t)o16[i] != in[i]) { bad_pre = i; break; }
                }
                printf("OK n=%lld bytes=%zu all=%lld levels=%lld prefixed=%lld\n", (long long)n, b.size, (long long)bad_all, (long long)bad_lvl, (long long)bad_pre);
                free(o32); free(o16); free(exact);
            }
            carquet_buffer_destroy(&b); free(in);
        } else if (!strcmp(op, "rle_dec") && h_ntok == 4) {
            int w = atoi(h_tok[1]); int64_t want = atoll(h_tok[2]); size_t n; void* base;
            uint8_t* in = h_unhex(h_tok[3], &n, 0, &base);
            uint32_t* out = malloc((want ? want : 1) * sizeof(uint32_t));
            int64_t got = carquet_rle_decode_all(in, n, w, out, want);
            printf("OK "); put_vals_u32(out, got); putchar('\n');
            free(out); free(base);
        } else if (!strcmp(op, "rle_lvl") && h_ntok == 4) {
            /* carquet_rle_decode_levels: the separate int16 fast path */
            int w = atoi(h_tok[1]); int64_t want = atoll(h_tok[2]); size_t n; void* base;
            uint8_t* in = h_unhex(h_tok[3], &n, 0, &base);
            int16_t* out = malloc((want ? want : 1) * sizeof(int16_t));
            int64_t got = carquet_rle_decode_levels(in, n, w, out, want);
            printf("OK ");
            if (got <= 0) putchar('-');
            for (int64_t i = 0; i < got; i++) printf(i ? ",%u" : "%u", (unsigned)(uint16_t)out[i]);
            putchar('\n');
            free(out); free(base);
        } else if (!strcmp(op, "rle_lvlp") && h_ntok == 4) {
            int w = atoi(h_tok[1]); int64_t want = atoll(h_tok[2]); size_t n; void* base;
            uint8_t* in = h_unhex(h_tok[3], &n, 0, &base);
            int16_t* out = malloc((want ? want : 1) * sizeof(int16_t));
            size_t consumed = 77777;
            int64_t got = carquet_rle_decode_levels_prefixed(in, n, w, out, want, &consumed);
            if (got < 0) { printf("ERR %zu\n", consumed); }
            else {
                printf("OK ");
                if (got == 0) putchar('-');
                for (int64_t i = 0; i < got; i++) printf(i ? ",%u" : "%u", (unsigned)(uint16_t)out[i]);
                printf(" %zu\n", consumed);
            }
            free(out); free(base);
        } else if (!strcmp(op, "rle_ops") && h_ntok >= 3) {
            int w = atoi(h_tok[1]); size_t n; void* base;
            uint8_t* in = h_unhex(h_tok[2], &n, 0, &base);
            carquet_rle_decoder_t dec; carquet_rle_decoder_init(&dec, in, n, w);
            printf("OK");
            for (int t = 3; t < h_ntok; t++) {
                char c = h_tok[t][0]; int64_t k = h_tok[t][1] ? atoll(h_tok[t] + 1) : 0;
                if (c == 'g') printf(" g=%u", carquet_rle_decoder_get(&dec));
                else if (c == 'b') {
                    uint32_t* out = malloc((k ? k : 1) * sizeof(uint32_t));
                    int64_t got = carquet_rle_decoder_get_batch(&dec, out, k);
                    printf(" b="); put_vals_u32(out, got); free(out);
                } else if (c == 's') printf(" s=%lld", (long long)carquet_rle_decoder_skip(&dec, k));
                else if (c == 'h') printf(" h=%d", carquet_rle_decoder_has_next(&dec) ? 1 : 0);
            }
            putchar('\n');
            free(base);
        } else {
            puts("ERR unknown-op");
        }
        fflush(stdout);
    }
    free(h_line);
    return 0;
}
