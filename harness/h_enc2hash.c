/* Hash-collision finder for the dictionary builder of src/encoding/dictionary.c (enc2 engine).
 *
 * The builder's hash table is an implementation detail, but a change that lets the hash (or the bucket) stand in for
 * the byte comparison only shows on values whose hashes collide.  This driver includes dictionary.c to reach the
 * builder's OWN static hash function, scans many 4-byte / 8-byte values and prints pairs with equal 32-bit hashes.
 * (If this file stops compiling because the hash function was renamed, checks/c11_enc2.py falls back to FNV-1a pairs
 * computed in Python.)
 *
 *   scan <width 4|8> <n> <seed> <maxpairs>   ->  OK a:b,c:d,...   (values as hex, little-endian byte image = the number)
 */
#include "hcommon.h"
#include "encoding/dictionary.c"

typedef struct { uint32_t h; uint64_t v; } hv_t;
static int cmp_hv(const void* a, const void* b) {
    const hv_t* x = (const hv_t*)a; const hv_t* y = (const hv_t*)b;
    if (x->h != y->h) return x->h < y->h ? -1 : 1;
    return x->v < y->v ? -1 : (x->v > y->v ? 1 : 0);
}
static uint64_t xs(uint64_t* s) { uint64_t x = *s; x ^= x << 13; x ^= x >> 7; x ^= x << 17; return *s = x; }

int main(void) {
    while (h_readline()) {
        h_split();
        if (h_ntok == 5 && !strcmp(h_tok[0], "scan")) {
            int w = atoi(h_tok[1]); size_t n = (size_t)strtoull(h_tok[2], NULL, 10);
            uint64_t seed = strtoull(h_tok[3], NULL, 10) * 0x9E3779B97F4A7C15ull + 1; int maxp = atoi(h_tok[4]);
            hv_t* a = malloc(n * sizeof(hv_t) + 1);
            uint64_t base = xs(&seed);
            for (size_t i = 0; i < n; i++) {
                /* half sequential from a random base, half random */
                uint64_t v = (i & 1) ? base + i / 2 : xs(&seed);
                if (w == 4) v &= 0xFFFFFFFFu;
                uint8_t le[8]; for (int k = 0; k < 8; k++) le[k] = (uint8_t)(v >> (8 * k));
                a[i].v = v; a[i].h = dict_hash(le, (size_t)w);
            }
            qsort(a, n, sizeof(hv_t), cmp_hv);
            printf("OK "); int np = 0;
            for (size_t i = 0; i + 1 < n && np < maxp; i++)
                if (a[i].h == a[i + 1].h && a[i].v != a[i + 1].v) { printf(np ? ",%" PRIx64 ":%" PRIx64 : "%" PRIx64 ":%" PRIx64, a[i].v, a[i + 1].v); np++; }
            if (!np) putchar('-');
            putchar('\n'); free(a);
        } else puts("ERR -99");
        fflush(stdout);
    }
    free(h_line);
    return 0;
}
