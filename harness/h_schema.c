/* Driver for the schema engine (property C17).
 *
 *   schema <file-hex> <elems> <find-ids> <rg> <tree>
 *                                            open the bytes with carquet_reader_open_buffer and print what the
 *                                            reader exposes: counts, per-column internal arrays, per-element public
 *                                            accessors, column-reader levels (when the file has a row group),
 *                                            carquet_schema_find_column for each requested name
 *   builder <ops> <find-ids> <tree>          drive carquet_schema_create / add_column / add_group
 *
 * Names travel as identifiers: the string "n<id>" <-> id ; the builder's root name "schema" is id 0 ; a NULL
 * name is "-".  A logical type is the number  field_id*10000 + a*100 + b  (parquet.thrift LogicalType union
 * field id and up to two parameters), "-" when absent.  <elems>, <rg>, <tree> are consumed by the model runner only. */
#include "hcommon.h"
#include <unistd.h>
#include <signal.h>
#include <carquet/carquet.h>
#include "reader/reader_internal.h"

static void on_alarm(int sig) {
    (void)sig;
    static const char m[] = "FAULT timeout\n";
    fflush(stdout);
    if (write(1, m, sizeof m - 1) < 0) _exit(97);
    _exit(97);
}

/* names with dots, spaces, non-ASCII bytes, the empty name: ids 19001.. */
static const char* const special_names[] = {
    "a.b.c", "ratio.", ".hidden", "stats.v", "v", "hidden", "c", "nosuch.v", "with space", "na\xc3\xafve.\xc3\xa9", "", ".", "..", "b.c",
    /* pairs that collide under common 32-bit string hashes (FNV-1a x4, FNV-1, djb2 x2, djb2-xor, sdbm, murmur3/0, xxh32/0, crc32) */
    "costarring", "liquid", "declinate", "macallums", "altarage", "zinke", "k_4e62", "col48001", "col7659", "k_3e4c", "hetairas", "mentioner", "mmozp", "nfzsxz", "k_7ff0", "k_8690", "dgdbqrvhx", "mjputv", "col34941", "k_19c7c", "k_1b19e", "col141341", "gpfazyks", "mxxbif", NULL };

static int all_digits(const char* s) { if (!*s) return 0; for (; *s; s++) if (*s < '0' || *s > '9') return 0; return 1; }

/* id -> name:  other "n<id>" ; 19001.. the table ; 20000+k "ghost.n<k>" ; 30000+k "n<k>." ; 40000+k ".n<k>" ; 0 "schema" */
static void name_of_id(long id, char* out, size_t cap) {
    if (id == 0) snprintf(out, cap, "schema");
    else if (id >= 40000) snprintf(out, cap, ".n%ld", id - 40000);
    else if (id >= 30000) snprintf(out, cap, "n%ld.", id - 30000);
    else if (id >= 20000) snprintf(out, cap, "ghost.n%ld", id - 20000);
    else if (id > 19000 && id - 19001 < (long)(sizeof special_names / sizeof special_names[0]) - 1) snprintf(out, cap, "%s", special_names[id - 19001]);
    else snprintf(out, cap, "n%ld", id);
}

static void put_name(const char* s) {
    if (!s) { putchar('-'); return; }
    if (!strcmp(s, "schema")) { putchar('0'); return; }
    for (int k = 0; special_names[k]; k++) if (!strcmp(s, special_names[k])) { printf("%d", 19001 + k); return; }
    size_t n = strlen(s);
    if (s[0] == 'n' && all_digits(s + 1)) { fputs(s + 1, stdout); return; }
    if (!strncmp(s, "ghost.n", 7) && all_digits(s + 7)) { printf("%ld", 20000 + atol(s + 7)); return; }
    if (s[0] == '.' && s[1] == 'n' && all_digits(s + 2)) { printf("%ld", 40000 + atol(s + 2)); return; }
    if (s[0] == 'n' && n > 2 && s[n - 1] == '.') {
        char tmp[64]; snprintf(tmp, sizeof tmp, "%.*s", (int)(n - 2), s + 1);
        if (all_digits(tmp)) { printf("%ld", 30000 + atol(tmp)); return; }
    }
    /* a name outside the scheme (only a misparsed file gives one): hex, so that it cannot contain a separator */
    putchar('?');
    for (const unsigned char* q = (const unsigned char*)s; *q && q - (const unsigned char*)s < 40; q++) printf("%02x", *q);
}

static long logical_code(const carquet_logical_type_t* lt) {
    if (!lt) return -1;
    int id = (int)lt->id;
    int fid = id <= 8 ? id : id + 1;          /* carquet ids 9.. are parquet.thrift fields 10.. */
    long a = 0, b = 0;
    switch (lt->id) {
        case CARQUET_LOGICAL_DECIMAL: a = lt->params.decimal.scale; b = lt->params.decimal.precision; break;
        case CARQUET_LOGICAL_INTEGER: a = lt->params.integer.bit_width; b = lt->params.integer.is_signed ? 1 : 0; break;
        case CARQUET_LOGICAL_TIME: a = lt->params.time.is_adjusted_to_utc ? 1 : 0; b = (long)lt->params.time.unit + 1; break;
        case CARQUET_LOGICAL_TIMESTAMP: a = lt->params.timestamp.is_adjusted_to_utc ? 1 : 0; b = (long)lt->params.timestamp.unit + 1; break;
        default: break;
    }
    return fid * 10000L + a * 100 + b;
}

static void put_logical(const carquet_logical_type_t* lt) {
    if (!lt) putchar('-'); else printf("%ld", logical_code(lt));
}

static void put_elements(const carquet_schema_t* s) {
    int32_t n = carquet_schema_num_elements(s);
    fputs(" E=", stdout);
    if (n <= 0) putchar('-');
    for (int32_t i = 0; i < n; i++) {
        const carquet_schema_node_t* nd = carquet_schema_get_element(s, i);
        if (i) putchar(',');
        if (!nd) { fputs("NULL", stdout); continue; }
        put_name(carquet_schema_node_name(nd));
        printf("/%d/%d/%d/", carquet_schema_node_is_leaf(nd) ? 1 : 0, (int)carquet_schema_node_physical_type(nd),
               (int)carquet_schema_node_type_length(nd));
        put_logical(carquet_schema_node_logical_type(nd));
        printf("/%d/%d/%d", (int)carquet_schema_node_repetition(nd), (int)carquet_schema_node_max_def_level(nd),
               (int)carquet_schema_node_max_rep_level(nd));
    }
    /* out-of-range indices must give NULL */
    printf(" X=%d%d", carquet_schema_get_element(s, -1) ? 1 : 0, carquet_schema_get_element(s, n) ? 1 : 0);
}

static void put_leaves(const carquet_schema_t* s) {
    fputs(" L=", stdout);
    if (s->num_leaves <= 0) putchar('-');
    for (int32_t i = 0; i < s->num_leaves; i++)
        printf("%s%d/%d/%d", i ? "," : "", s->leaf_indices[i], (int)s->max_def_levels[i], (int)s->max_rep_levels[i]);
}

static void put_finds(const carquet_schema_t* s, const char* ids) {
    fputs(" F=", stdout);
    if (!strcmp(ids, "-")) { putchar('-'); return; }
    char* dup = strdup(ids);
    int first = 1;
    for (char* t = strtok(dup, ","); t; t = strtok(NULL, ",")) {
        char nm[64];
        name_of_id(atol(t), nm, sizeof nm);
        /* exact-size heap copy so that an over-read of the name is an ASan report */
        char* h = strdup(nm);
        printf("%s%d", first ? "" : ",", carquet_schema_find_column(s, h));
        free(h);
        first = 0;
    }
    free(dup);
}

static void do_schema(void) {
    size_t n; void* base;
    uint8_t* p = h_unhex(h_tok[1], &n, 0, &base);
    carquet_error_t err = CARQUET_ERROR_INIT;
    alarm(20);
    carquet_reader_t* r = carquet_reader_open_buffer(p, n, NULL, &err);
    alarm(0);
    if (!r) { printf("ERR %d\n", (int)err.code); free(base); return; }
    const carquet_schema_t* s = carquet_reader_schema(r);
    printf("OK n=%d k=%d kr=%d", carquet_schema_num_elements(s), carquet_schema_num_columns(s), carquet_reader_num_columns(r));
    put_leaves(s);
    put_elements(s);
    put_finds(s, h_tok[3]);
    /* levels the column readers take */
    fputs(" R=", stdout);
    if (carquet_reader_num_row_groups(r) <= 0) putchar('-');
    else for (int32_t i = 0; i < carquet_reader_num_columns(r); i++) {
        carquet_error_t e2 = CARQUET_ERROR_INIT;
        carquet_column_reader_t* c = carquet_reader_get_column(r, 0, i, &e2);
        if (i) putchar(',');
        if (!c) { printf("E%d", (int)e2.code); continue; }
        printf("%d/%d/%d", (int)c->max_def_level, (int)c->max_rep_level, (int)c->type_length);
        carquet_column_reader_free(c);
    }
    putchar('\n');
    carquet_reader_close(r);
    free(base);
}

static void logical_of_code(long code, carquet_logical_type_t* lt) {
    memset(lt, 0, sizeof *lt);
    int fid = (int)(code / 10000); long a = (code / 100) % 100, b = code % 100;
    lt->id = (carquet_logical_type_id_t)(fid <= 8 ? fid : fid - 1);
    switch (lt->id) {
        case CARQUET_LOGICAL_DECIMAL: lt->params.decimal.scale = (int32_t)a; lt->params.decimal.precision = (int32_t)b; break;
        case CARQUET_LOGICAL_INTEGER: lt->params.integer.bit_width = (int8_t)a; lt->params.integer.is_signed = b != 0; break;
        case CARQUET_LOGICAL_TIME: lt->params.time.is_adjusted_to_utc = a != 0; lt->params.time.unit = (carquet_time_unit_t)(b - 1); break;
        case CARQUET_LOGICAL_TIMESTAMP: lt->params.timestamp.is_adjusted_to_utc = a != 0; lt->params.timestamp.unit = (carquet_time_unit_t)(b - 1); break;
        default: break;
    }
}

static void do_builder(void) {
    carquet_error_t err = CARQUET_ERROR_INIT;
    carquet_schema_t* s = carquet_schema_create(&err);
    if (!s) { printf("ERR %d\n", (int)err.code); return; }
    fputs("OK rets=", stdout);
    int first = 1;
    if (!strcmp(h_tok[1], "-")) putchar('-');
    else {
        char* save = NULL;
        for (char* op = strtok_r(h_tok[1], ",", &save); op; op = strtok_r(NULL, ",", &save)) {
            /* c:name:type:logical:rep:tlen   |   g:name:rep:parent */
            char* f[8]; int nf = 0; char* sv2 = NULL;
            for (char* x = strtok_r(op, ":", &sv2); x && nf < 8; x = strtok_r(NULL, ":", &sv2)) f[nf++] = x;
            char nm[64]; name_of_id(atol(f[1]), nm, sizeof nm);
            char* hn = strdup(nm);
            int ret;
            if (f[0][0] == 'c' && nf == 6) {
                carquet_logical_type_t lt; int has = strcmp(f[3], "-") != 0;
                if (has) logical_of_code(atol(f[3]), &lt);
                ret = (int)carquet_schema_add_column(s, hn, (carquet_physical_type_t)atoi(f[2]), has ? &lt : NULL,
                                                     (carquet_field_repetition_t)atoi(f[4]), atoi(f[5]));
            } else if (f[0][0] == 'g' && nf == 4) {
                ret = carquet_schema_add_group(s, hn, (carquet_field_repetition_t)atoi(f[2]), atoi(f[3]));
            } else ret = -999;
            free(hn);
            printf("%s%d", first ? "" : ",", ret);
            first = 0;
        }
    }
    printf(" n=%d k=%d cap=%d", carquet_schema_num_elements(s), carquet_schema_num_columns(s), s->capacity);
    put_leaves(s);
    put_elements(s);
    /* the root's child count is not reachable through an accessor */
    printf(" rootnc=%d", s->elements[0].num_children);
    put_finds(s, h_tok[2]);
    /* pure add_column sequences: write a file with this schema (no rows) and read it back; the reader must report
     * the same count, names, physical types, type lengths, repetitions and levels as the builder */
    if (strcmp(h_tok[3], "-") && s->num_leaves > 0) {
        char* mem = NULL; size_t msz = 0;
        FILE* f = open_memstream(&mem, &msz);
        carquet_writer_options_t wo; carquet_writer_options_init(&wo);
        carquet_error_t e1 = CARQUET_ERROR_INIT;
        carquet_writer_t* w = f ? carquet_writer_create_file(f, s, &wo, &e1) : NULL;
        carquet_status_t cst = w ? carquet_writer_close(w) : CARQUET_ERROR_INTERNAL;
        if (f) fclose(f);
        if (!w || cst != CARQUET_OK) printf(" RT=write-failed:%d:%d", (int)e1.code, (int)cst);
        else {
            uint8_t* exact = malloc(msz ? msz : 1);
            memcpy(exact, mem, msz);
            carquet_error_t e2 = CARQUET_ERROR_INIT;
            carquet_reader_t* r = carquet_reader_open_buffer(exact, msz, NULL, &e2);
            if (!r) printf(" RT=open-failed:%d", (int)e2.code);
            else {
                const carquet_schema_t* rs = carquet_reader_schema(r);
                int bad = -2;
                if (rs->num_leaves != s->num_leaves || rs->num_elements != s->num_elements) bad = -1;
                for (int32_t i = 0; bad == -2 && i < s->num_leaves; i++) {
                    const parquet_schema_element_t* a = &s->elements[s->leaf_indices[i]];
                    const parquet_schema_element_t* b = &rs->elements[rs->leaf_indices[i]];
                    if (s->leaf_indices[i] != rs->leaf_indices[i] || strcmp(a->name, b->name) || a->type != b->type ||
                        a->type_length != b->type_length || a->repetition_type != b->repetition_type ||
                        s->max_def_levels[i] != rs->max_def_levels[i] || s->max_rep_levels[i] != rs->max_rep_levels[i] ||
                        a->max_def_level != b->max_def_level || a->max_rep_level != b->max_rep_level ||
                        /* the logical type given to add_column must come back from the file (same union member and parameters) */
                        a->has_logical_type != b->has_logical_type ||
                        (a->has_logical_type && logical_code(&a->logical_type) != logical_code(&b->logical_type))) bad = i;
                }
                if (bad == -2) fputs(" RT=same", stdout);
                else if (bad == -1) printf(" RT=counts:%d/%d:%d/%d", s->num_leaves, rs->num_leaves, s->num_elements, rs->num_elements);
                else printf(" RT=column:%d:builder-def/rep/logical=%d/%d/%ld:reader-def/rep/logical=%d/%d/%ld", bad, (int)s->max_def_levels[bad],
                            (int)s->max_rep_levels[bad],
                            s->elements[s->leaf_indices[bad]].has_logical_type ? logical_code(&s->elements[s->leaf_indices[bad]].logical_type) : -1L,
                            (int)rs->max_def_levels[bad], (int)rs->max_rep_levels[bad],
                            rs->elements[rs->leaf_indices[bad]].has_logical_type ? logical_code(&rs->elements[rs->leaf_indices[bad]].logical_type) : -1L);
                carquet_reader_close(r);
            }
            free(exact);
        }
        free(mem);
    }
    putchar('\n');
    carquet_schema_free(s);
}

int main(void) {
    signal(SIGALRM, on_alarm);
    while (h_readline()) {
        h_split();
        if (h_ntok == 0) { puts("ERR empty"); continue; }
        if (!strcmp(h_tok[0], "schema") && h_ntok == 6) do_schema();
        else if (!strcmp(h_tok[0], "builder") && h_ntok == 4) do_builder();
        else puts("ERR unknown-op");
        fflush(stdout);
    }
    free(h_line);
    return 0;
}
