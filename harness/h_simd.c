/* Driver for the simd engine (property C15).
 *
 * One case per input line:   <op> <variants> <aligns> <params...>
 *   variants  comma list of ref,scalar,sse,avx2,avx512,dispatch  (or "all")
 *   aligns    "all"          every legal (source, destination) misalignment pair 0..63 x 0..63
 *             "s<k>:<seed>"  (0,0), the largest pair and k pseudo-random pairs
 *             "<sa>:<da>"    one pair
 * For every variant and alignment pair the kernel is called on EXACT-SIZE heap buffers whose end coincides with
 * the end of the allocation (an over-read/over-write of one byte is an ASan report; the slack in front of a
 * misaligned buffer is poisoned in 8-byte granules and carries a canary).  The result (output bytes and return
 * value) is compared with an independent re-implementation written here (ref_*); the `scalar` variant is the
 * scalar definition of dispatch.c itself (this file #includes dispatch.c, which also gives access to the static
 * table g_dispatch; the library's own dispatch.o is then not linked).  `dispatch` goes through the
 * carquet_dispatch_* entry points, i.e. whatever the dispatcher selected under CARQUET_VERIF_CPU_CAP.
 * Output: "OK <result hex> <ret hex> calls=<n>"   or   "DIFF variant=<v> sa=<n> da=<n> got=<hex>/<ret> want=<hex>/<ret>"
 * A sanitizer report prints "FAULT asan variant=<v> sa=<n> da=<n>" first (callback __asan_on_error). */
#include "hcommon.h"
/* dispatch.c is #included for its static scalar definitions and for a PRIVATE copy of the table (g_dispatch, read by the
 * `dispatch` case); its public symbols are renamed so that the library's own dispatch.o stays linked and is what the
 * `dispatch` variant calls. */
#define carquet_simd_dispatch_init h_priv_simd_dispatch_init
#define carquet_dispatch_prefix_sum_i32 h_priv_dispatch_prefix_sum_i32
#define carquet_dispatch_prefix_sum_i64 h_priv_dispatch_prefix_sum_i64
#define carquet_dispatch_gather_i32 h_priv_dispatch_gather_i32
#define carquet_dispatch_gather_i64 h_priv_dispatch_gather_i64
#define carquet_dispatch_gather_float h_priv_dispatch_gather_float
#define carquet_dispatch_gather_double h_priv_dispatch_gather_double
#define carquet_dispatch_byte_split_encode_float h_priv_dispatch_byte_split_encode_float
#define carquet_dispatch_byte_split_decode_float h_priv_dispatch_byte_split_decode_float
#define carquet_dispatch_byte_split_encode_double h_priv_dispatch_byte_split_encode_double
#define carquet_dispatch_byte_split_decode_double h_priv_dispatch_byte_split_decode_double
#define carquet_dispatch_unpack_bools h_priv_dispatch_unpack_bools
#define carquet_dispatch_pack_bools h_priv_dispatch_pack_bools
#define carquet_dispatch_find_run_length_i32 h_priv_dispatch_find_run_length_i32
#define carquet_dispatch_crc32c h_priv_dispatch_crc32c
#define carquet_dispatch_match_copy h_priv_dispatch_match_copy
#define carquet_dispatch_match_length h_priv_dispatch_match_length
#define carquet_dispatch_count_non_nulls h_priv_dispatch_count_non_nulls
#define carquet_dispatch_build_null_bitmap h_priv_dispatch_build_null_bitmap
#define carquet_dispatch_fill_def_levels h_priv_dispatch_fill_def_levels
#include "simd/dispatch.c"
#undef carquet_simd_dispatch_init
#undef carquet_dispatch_prefix_sum_i32
#undef carquet_dispatch_prefix_sum_i64
#undef carquet_dispatch_gather_i32
#undef carquet_dispatch_gather_i64
#undef carquet_dispatch_gather_float
#undef carquet_dispatch_gather_double
#undef carquet_dispatch_byte_split_encode_float
#undef carquet_dispatch_byte_split_decode_float
#undef carquet_dispatch_byte_split_encode_double
#undef carquet_dispatch_byte_split_decode_double
#undef carquet_dispatch_unpack_bools
#undef carquet_dispatch_pack_bools
#undef carquet_dispatch_find_run_length_i32
#undef carquet_dispatch_crc32c
#undef carquet_dispatch_match_copy
#undef carquet_dispatch_match_length
#undef carquet_dispatch_count_non_nulls
#undef carquet_dispatch_build_null_bitmap
#undef carquet_dispatch_fill_def_levels
/* the library's own dispatcher entry points (dispatch.o of the build under test) */
extern void carquet_simd_dispatch_init(void);
extern void carquet_dispatch_prefix_sum_i32(int32_t*, int64_t, int32_t);
extern void carquet_dispatch_prefix_sum_i64(int64_t*, int64_t, int64_t);
extern void carquet_dispatch_gather_i32(const int32_t*, const uint32_t*, int64_t, int32_t*);
extern void carquet_dispatch_gather_i64(const int64_t*, const uint32_t*, int64_t, int64_t*);
extern void carquet_dispatch_gather_float(const float*, const uint32_t*, int64_t, float*);
extern void carquet_dispatch_gather_double(const double*, const uint32_t*, int64_t, double*);
extern void carquet_dispatch_byte_split_encode_float(const float*, int64_t, uint8_t*);
extern void carquet_dispatch_byte_split_decode_float(const uint8_t*, int64_t, float*);
extern void carquet_dispatch_byte_split_encode_double(const double*, int64_t, uint8_t*);
extern void carquet_dispatch_byte_split_decode_double(const uint8_t*, int64_t, double*);
extern void carquet_dispatch_unpack_bools(const uint8_t*, uint8_t*, int64_t);
extern void carquet_dispatch_pack_bools(const uint8_t*, uint8_t*, int64_t);
extern int64_t carquet_dispatch_find_run_length_i32(const int32_t*, int64_t);
extern uint32_t carquet_dispatch_crc32c(uint32_t, const uint8_t*, size_t);
extern void carquet_dispatch_match_copy(uint8_t*, const uint8_t*, size_t, size_t);
extern size_t carquet_dispatch_match_length(const uint8_t*, const uint8_t*, const uint8_t*);
extern int64_t carquet_dispatch_count_non_nulls(const int16_t*, int64_t, int16_t);
extern void carquet_dispatch_build_null_bitmap(const int16_t*, int64_t, int16_t, uint8_t*);
extern void carquet_dispatch_fill_def_levels(int16_t*, int64_t, int16_t);
/* the encoding layer's entry points above the dispatcher (src/encoding/byte_stream_split.c) */
extern carquet_status_t carquet_byte_stream_split_encode_float(const float*, int64_t, uint8_t*, size_t, size_t*);
extern carquet_status_t carquet_byte_stream_split_decode_float(const uint8_t*, size_t, float*, int64_t);
extern carquet_status_t carquet_byte_stream_split_encode_double(const double*, int64_t, uint8_t*, size_t, size_t*);
extern carquet_status_t carquet_byte_stream_split_decode_double(const uint8_t*, size_t, double*, int64_t);
extern carquet_status_t carquet_byte_stream_split_encode(const uint8_t*, int64_t, int32_t, uint8_t*, size_t, size_t*);
extern carquet_status_t carquet_byte_stream_split_decode(const uint8_t*, size_t, int32_t, uint8_t*, int64_t);
#include <immintrin.h>

#if defined(__SANITIZE_ADDRESS__)
#include <sanitizer/asan_interface.h>
#define H_ASAN 1
#else
#define H_ASAN 0
#endif

/* kernels that are not in the dispatch table */
extern void carquet_sse_bitunpack32_1bit(const uint8_t*, uint32_t*);
extern void carquet_sse_bitunpack8_4bit(const uint8_t*, uint32_t*);
extern void carquet_sse_bitunpack8_8bit(const uint8_t*, uint32_t*);
extern void carquet_avx2_bitunpack64_1bit(const uint8_t*, uint32_t*);
extern void carquet_avx2_bitunpack16_4bit(const uint8_t*, uint32_t*);
extern void carquet_avx2_bitunpack16_8bit(const uint8_t*, uint32_t*);
extern void carquet_avx2_bitunpack8_16bit(const uint8_t*, uint32_t*);
extern void carquet_avx512_bitunpack32_8bit(const uint8_t*, uint32_t*);
extern void carquet_avx512_bitunpack16_16bit(const uint8_t*, uint32_t*);
extern void carquet_avx512_bitunpack32_4bit(const uint8_t*, uint32_t*);
extern void carquet_avx2_byte_stream_split_encode_double(const double*, int64_t, uint8_t*);
extern void carquet_avx2_byte_stream_split_decode_double(const uint8_t*, int64_t, double*);
extern void carquet_sse_memset_small(void*, uint8_t, size_t);
extern void carquet_sse_memcpy_small(void*, const void*, size_t);
extern void carquet_avx2_memset(void*, uint8_t, size_t);
extern void carquet_avx2_memcpy(void*, const void*, size_t);
extern void carquet_avx512_memset(void*, uint8_t, size_t);
extern void carquet_avx512_memcpy(void*, const void*, size_t);
extern void carquet_bitunpack8_32(const uint8_t* input, int bit_width, uint32_t* values);

enum { V_REF = 0, V_SCALAR, V_SSE, V_AVX2, V_AVX512, V_DISPATCH, V_N };
static const char* const vname[V_N] = {"ref", "scalar", "sse", "avx2", "avx512", "dispatch"};

/* ------------------------------------------------------------------------------------------------ buffers */

static const char* cur_variant = "-";
static int cur_sa = -1, cur_da = -1;
void __asan_on_error(void);
void __asan_on_error(void) {
    printf("FAULT asan variant=%s sa=%d da=%d\n", cur_variant, cur_sa, cur_da);
    fflush(stdout);
}

#define TAILCAN (H_ASAN ? 0 : 64)
typedef struct { uint8_t* base; uint8_t* p; size_t size, align; } hbuf;

static hbuf hb_new(size_t size, size_t align, const uint8_t* init, int fill) {
    hbuf b; void* base = NULL;
    size_t total = align + size;
    size_t front = align;
    if (total == 0) { front = 64; total = 64; }            /* zero-size buffer: pointer one past an allocation */
    if (posix_memalign(&base, 64, total + TAILCAN) != 0 || !base) abort();
    b.base = (uint8_t*)base; b.p = b.base + front; b.size = size; b.align = front;
    memset(b.base, 0xC3, front);
    if (init) memcpy(b.p, init, size); else memset(b.p, fill, size);
    if (TAILCAN) memset(b.p + size, 0xC3, TAILCAN);
#if H_ASAN
    if (front >= 8) ASAN_POISON_MEMORY_REGION(b.base, front & ~(size_t)7);
#endif
    return b;
}
/* returns 0 when the canaries are intact */
static int hb_done(hbuf* b) {
    int bad = 0;
#if H_ASAN
    if (b->align >= 8) ASAN_UNPOISON_MEMORY_REGION(b->base, b->align & ~(size_t)7);
#endif
    for (size_t i = 0; i < b->align; i++) if (b->base[i] != 0xC3) bad = 1;
    for (size_t i = 0; i < (size_t)TAILCAN; i++) if (b->p[b->size + i] != 0xC3) bad = 1;
    free(b->base);
    return bad;
}

/* ------------------------------------------------------------------------------------------------ case state */

typedef struct { uint8_t* out; size_t cap; size_t len; uint64_t ret; int na; int canary; } result;

static const char* P_op;
static int64_t P_count;
static uint64_t P_a, P_b;            /* scalar parameters (initial value, crc, max level, offset, ...) */
static uint8_t *P_d0, *P_d1;         /* data buffers (plain heap copies of the hex parameters) */
static size_t P_n0, P_n1;

static void res_put(result* r, const void* p, size_t n) {
    if (n > r->cap) { free(r->out); r->cap = n + 64; r->out = malloc(r->cap); if (!r->out) abort(); }
    if (n) memcpy(r->out, p, n);
    r->len = n;
}

/* ------------------------------------------------------------------------------------------------ references
 * Independent re-implementations (written from the meaning of the operation, not copied from dispatch.c). */

static void ref_psum(uint8_t* v, int64_t n, uint64_t init, int w) {
    uint64_t acc = init;
    for (int64_t i = 0; i < n; i++) {
        uint64_t x = 0; memcpy(&x, v + i * w, w);
        acc += x; if (w == 4) acc &= 0xFFFFFFFFu;
        memcpy(v + i * w, &acc, w);
    }
}
static void ref_bss_encode(const uint8_t* src, int64_t n, int w, uint8_t* out) {
    for (int k = 0; k < w; k++) for (int64_t i = 0; i < n; i++) out[k * n + i] = src[i * w + k];
}
static void ref_bss_decode(const uint8_t* src, int64_t n, int w, uint8_t* out) {
    for (int64_t i = 0; i < n; i++) for (int k = 0; k < w; k++) out[i * w + k] = src[k * n + i];
}
static uint32_t ref_crc32c(uint32_t crc, const uint8_t* d, size_t n) {   /* bit-serial Castagnoli, reflected */
    crc = ~crc;
    for (size_t i = 0; i < n; i++) {
        crc ^= d[i];
        for (int k = 0; k < 8; k++) crc = (crc >> 1) ^ (0x82F63B78u & (0u - (crc & 1u)));
    }
    return ~crc;
}
static void ref_unpack_bits(const uint8_t* in, int width, int nvals, uint32_t* out) {
    for (int i = 0; i < nvals; i++) {
        uint32_t v = 0;
        for (int k = 0; k < width; k++) {
            int bit = i * width + k;
            v |= (uint32_t)((in[bit >> 3] >> (bit & 7)) & 1) << k;
        }
        out[i] = v;
    }
}

/* ------------------------------------------------------------------------------------------------ operations
 * Each op_* runs ONE variant at ONE alignment pair and fills r.  r->na = 1 when the variant does not exist. */

#define CALLV(v) do { cur_variant = vname[v]; } while (0)

static void op_psum(int v, size_t sa, size_t da, result* r, int w) {
    (void)da;
    size_t n = (size_t)P_count * w;
    if (v == V_REF) { uint8_t* t = malloc(n + 1); memcpy(t, P_d0, n); ref_psum(t, P_count, P_a, w); res_put(r, t, n); free(t); return; }
    hbuf b = hb_new(n, sa, P_d0, 0);
    if (w == 4) {
        int32_t* p = (int32_t*)b.p; int32_t init = (int32_t)(uint32_t)P_a;
        switch (v) {
        case V_SCALAR: scalar_prefix_sum_i32(p, P_count, init); break;
        case V_SSE: carquet_sse_prefix_sum_i32(p, P_count, init); break;
        case V_AVX2: carquet_avx2_prefix_sum_i32(p, P_count, init); break;
        case V_AVX512: carquet_avx512_prefix_sum_i32(p, P_count, init); break;
        case V_DISPATCH: carquet_dispatch_prefix_sum_i32(p, P_count, init); break;
        }
    } else {
        int64_t* p = (int64_t*)b.p; int64_t init = (int64_t)P_a;
        switch (v) {
        case V_SCALAR: scalar_prefix_sum_i64(p, P_count, init); break;
        case V_SSE: carquet_sse_prefix_sum_i64(p, P_count, init); break;
        case V_AVX2: carquet_avx2_prefix_sum_i64(p, P_count, init); break;
        case V_AVX512: carquet_avx512_prefix_sum_i64(p, P_count, init); break;
        case V_DISPATCH: carquet_dispatch_prefix_sum_i64(p, P_count, init); break;
        }
    }
    res_put(r, b.p, n);
    r->canary = hb_done(&b);
}

/* gather: P_d0 = dictionary (P_a entries), P_d1 = indices; kind: 0 i32, 1 float, 2 i64, 3 double */
static void op_gather(int v, size_t sa, size_t da, result* r, int kind) {
    int w = kind < 2 ? 4 : 8;
    size_t n = (size_t)P_count * w;
    if (v == V_REF) {
        uint8_t* t = malloc(n + 1);
        for (int64_t i = 0; i < P_count; i++) { uint32_t ix; memcpy(&ix, P_d1 + 4 * i, 4); memcpy(t + i * w, P_d0 + (size_t)ix * w, w); }
        res_put(r, t, n); free(t); return;
    }
    size_t dal = ((sa * 7 + da * 3) % 64) / w * w;
    hbuf d = hb_new(P_n0, dal, P_d0, 0), ix = hb_new(P_n1, sa, P_d1, 0), o = hb_new(n, da, NULL, 0xEE);
    const uint32_t* I = (const uint32_t*)ix.p;
    if (kind == 0) {
        const int32_t* D = (const int32_t*)d.p; int32_t* O = (int32_t*)o.p;
        switch (v) {
        case V_SCALAR: scalar_gather_i32(D, I, P_count, O); break;
        case V_SSE: carquet_sse_gather_i32(D, I, P_count, O); break;
        case V_AVX2: carquet_avx2_gather_i32(D, I, P_count, O); break;
        case V_AVX512: carquet_avx512_gather_i32(D, I, P_count, O); break;
        case V_DISPATCH: carquet_dispatch_gather_i32(D, I, P_count, O); break;
        }
    } else if (kind == 1) {
        const float* D = (const float*)d.p; float* O = (float*)o.p;
        switch (v) {
        case V_SCALAR: scalar_gather_float(D, I, P_count, O); break;
        case V_SSE: carquet_sse_gather_float(D, I, P_count, O); break;
        case V_AVX2: carquet_avx2_gather_float(D, I, P_count, O); break;
        case V_AVX512: carquet_avx512_gather_float(D, I, P_count, O); break;
        case V_DISPATCH: carquet_dispatch_gather_float(D, I, P_count, O); break;
        }
    } else if (kind == 2) {
        const int64_t* D = (const int64_t*)d.p; int64_t* O = (int64_t*)o.p;
        switch (v) {
        case V_SCALAR: scalar_gather_i64(D, I, P_count, O); break;
        case V_SSE: carquet_sse_gather_i64(D, I, P_count, O); break;
        case V_AVX2: carquet_avx2_gather_i64(D, I, P_count, O); break;
        case V_AVX512: carquet_avx512_gather_i64(D, I, P_count, O); break;
        case V_DISPATCH: carquet_dispatch_gather_i64(D, I, P_count, O); break;
        }
    } else {
        const double* D = (const double*)d.p; double* O = (double*)o.p;
        switch (v) {
        case V_SCALAR: scalar_gather_double(D, I, P_count, O); break;
        case V_SSE: carquet_sse_gather_double(D, I, P_count, O); break;
        case V_AVX2: carquet_avx2_gather_double(D, I, P_count, O); break;
        case V_AVX512: carquet_avx512_gather_double(D, I, P_count, O); break;
        case V_DISPATCH: carquet_dispatch_gather_double(D, I, P_count, O); break;
        }
    }
    res_put(r, o.p, n);
    r->canary = hb_done(&d) | hb_done(&ix) | hb_done(&o);
}

/* byte stream split: kind 0 encode float, 1 decode float, 2 encode double, 3 decode double */
static void op_bss(int v, size_t sa, size_t da, result* r, int kind) {
    int w = kind < 2 ? 4 : 8, enc = !(kind & 1);
    size_t n = (size_t)P_count * w;
    if (v == V_REF) {
        uint8_t* t = malloc(n + 1);
        if (enc) ref_bss_encode(P_d0, P_count, w, t); else ref_bss_decode(P_d0, P_count, w, t);
        res_put(r, t, n); free(t); return;
    }
    if (v == V_AVX512 && w == 8) { r->na = 1; return; }
    hbuf s = hb_new(n, sa, P_d0, 0), o = hb_new(n, da, NULL, 0xEE);
    switch (kind * 8 + v) {
    case 0 + V_SCALAR: scalar_byte_split_encode_float((const float*)s.p, P_count, o.p); break;
    case 0 + V_SSE: carquet_sse_byte_stream_split_encode_float((const float*)s.p, P_count, o.p); break;
    case 0 + V_AVX2: carquet_avx2_byte_stream_split_encode_float((const float*)s.p, P_count, o.p); break;
    case 0 + V_AVX512: carquet_avx512_byte_stream_split_encode_float((const float*)s.p, P_count, o.p); break;
    case 0 + V_DISPATCH: carquet_dispatch_byte_split_encode_float((const float*)s.p, P_count, o.p); break;
    case 8 + V_SCALAR: scalar_byte_split_decode_float(s.p, P_count, (float*)o.p); break;
    case 8 + V_SSE: carquet_sse_byte_stream_split_decode_float(s.p, P_count, (float*)o.p); break;
    case 8 + V_AVX2: carquet_avx2_byte_stream_split_decode_float(s.p, P_count, (float*)o.p); break;
    case 8 + V_AVX512: carquet_avx512_byte_stream_split_decode_float(s.p, P_count, (float*)o.p); break;
    case 8 + V_DISPATCH: carquet_dispatch_byte_split_decode_float(s.p, P_count, (float*)o.p); break;
    case 16 + V_SCALAR: scalar_byte_split_encode_double((const double*)s.p, P_count, o.p); break;
    case 16 + V_SSE: carquet_sse_byte_stream_split_encode_double((const double*)s.p, P_count, o.p); break;
    case 16 + V_AVX2: carquet_avx2_byte_stream_split_encode_double((const double*)s.p, P_count, o.p); break;
    case 16 + V_DISPATCH: carquet_dispatch_byte_split_encode_double((const double*)s.p, P_count, o.p); break;
    case 24 + V_SCALAR: scalar_byte_split_decode_double(s.p, P_count, (double*)o.p); break;
    case 24 + V_SSE: carquet_sse_byte_stream_split_decode_double(s.p, P_count, (double*)o.p); break;
    case 24 + V_AVX2: carquet_avx2_byte_stream_split_decode_double(s.p, P_count, (double*)o.p); break;
    case 24 + V_DISPATCH: carquet_dispatch_byte_split_decode_double(s.p, P_count, (double*)o.p); break;
    }
    res_put(r, o.p, n);
    r->canary = hb_done(&s) | hb_done(&o);
}

static void op_unpackb(int v, size_t sa, size_t da, result* r) {
    size_t n = (size_t)P_count, nb = (n + 7) / 8;
    if (v == V_REF) {
        uint8_t* t = malloc(n + 1);
        for (size_t i = 0; i < n; i++) t[i] = (P_d0[i >> 3] >> (i & 7)) & 1;
        res_put(r, t, n); free(t); return;
    }
    hbuf s = hb_new(nb, sa, P_d0, 0), o = hb_new(n, da, NULL, 0xEE);
    switch (v) {
    case V_SCALAR: scalar_unpack_bools(s.p, o.p, P_count); break;
    case V_SSE: carquet_sse_unpack_bools(s.p, o.p, P_count); break;
    case V_AVX2: carquet_avx2_unpack_bools(s.p, o.p, P_count); break;
    case V_AVX512: carquet_avx512_unpack_bools(s.p, o.p, P_count); break;
    case V_DISPATCH: carquet_dispatch_unpack_bools(s.p, o.p, P_count); break;
    }
    res_put(r, o.p, n);
    r->canary = hb_done(&s) | hb_done(&o);
}

static void op_packb(int v, size_t sa, size_t da, result* r) {
    size_t n = (size_t)P_count, nb = (n + 7) / 8;
    if (v == V_REF) {
        uint8_t* t = calloc(nb + 1, 1);
        for (size_t i = 0; i < n; i++) if (P_d0[i]) t[i >> 3] |= (uint8_t)(1u << (i & 7));
        res_put(r, t, nb); free(t); return;
    }
    hbuf s = hb_new(n, sa, P_d0, 0), o = hb_new(nb, da, NULL, 0xEE);
    switch (v) {
    case V_SCALAR: scalar_pack_bools(s.p, o.p, P_count); break;
    case V_SSE: carquet_sse_pack_bools(s.p, o.p, P_count); break;
    case V_AVX2: carquet_avx2_pack_bools(s.p, o.p, P_count); break;
    case V_AVX512: carquet_avx512_pack_bools(s.p, o.p, P_count); break;
    case V_DISPATCH: carquet_dispatch_pack_bools(s.p, o.p, P_count); break;
    }
    res_put(r, o.p, nb);
    r->canary = hb_done(&s) | hb_done(&o);
}

static void op_runlen(int v, size_t sa, size_t da, result* r) {
    (void)da;
    size_t n = (size_t)P_count * 4;
    r->len = 0;
    if (v == V_REF) {
        int64_t k = 0;
        if (P_count > 0) { k = 1; while (k < P_count && memcmp(P_d0 + 4 * k, P_d0, 4) == 0) k++; }
        r->ret = (uint64_t)k; return;
    }
    hbuf s = hb_new(n, sa, P_d0, 0);
    const int32_t* p = (const int32_t*)s.p;
    switch (v) {
    case V_SCALAR: r->ret = (uint64_t)scalar_find_run_length_i32(p, P_count); break;
    case V_SSE: r->ret = (uint64_t)carquet_sse_find_run_length_i32(p, P_count); break;
    case V_AVX2: r->ret = (uint64_t)carquet_avx2_find_run_length_i32(p, P_count); break;
    case V_AVX512: r->ret = (uint64_t)carquet_avx512_find_run_length_i32(p, P_count); break;
    case V_DISPATCH: r->ret = (uint64_t)carquet_dispatch_find_run_length_i32(p, P_count); break;
    }
    r->canary = hb_done(&s);
}

static void op_crc32c(int v, size_t sa, size_t da, result* r) {
    (void)da;
    r->len = 0;
    if (v == V_REF) { r->ret = ref_crc32c((uint32_t)P_a, P_d0, P_n0); return; }
    if (v == V_AVX2 || v == V_AVX512) { r->na = 1; return; }
    hbuf s = hb_new(P_n0, sa, P_d0, 0);
    switch (v) {
    case V_SCALAR: r->ret = scalar_crc32c((uint32_t)P_a, s.p, P_n0); break;
    case V_SSE: r->ret = carquet_sse_crc32c((uint32_t)P_a, s.p, P_n0); break;
    case V_DISPATCH: r->ret = carquet_dispatch_crc32c((uint32_t)P_a, s.p, P_n0); break;
    }
    r->canary = hb_done(&s);
}

/* match copy: one buffer = history (P_n0 bytes, P_n0 >= offset) followed by P_count bytes to produce */
static void op_mcopy(int v, size_t sa, size_t da, result* r) {
    (void)da;
    size_t len = (size_t)P_count, off = (size_t)P_a, h = P_n0;
    if (v == V_REF) {
        uint8_t* t = malloc(h + len + 1); memcpy(t, P_d0, h);
        for (size_t i = 0; i < len; i++) t[h + i] = t[h + i - off];
        res_put(r, t + h, len); free(t); return;
    }
    if (v == V_AVX2 || v == V_AVX512) { r->na = 1; return; }
    hbuf b = hb_new(h + len, sa, NULL, 0xEE);
    memcpy(b.p, P_d0, h);
    switch (v) {
    case V_SCALAR: scalar_match_copy(b.p + h, b.p + h - off, len, off); break;
    case V_SSE: carquet_sse_match_copy(b.p + h, b.p + h - off, len, off); break;
    case V_DISPATCH: carquet_dispatch_match_copy(b.p + h, b.p + h - off, len, off); break;
    }
    if (memcmp(b.p, P_d0, h) != 0) r->canary = 1;       /* the history must not change */
    res_put(r, b.p + h, len);
    r->canary |= hb_done(&b);
}

/* match length: two buffers of equal length */
static void op_mlen(int v, size_t sa, size_t da, result* r) {
    size_t n = P_n0;
    r->len = 0;
    if (v == V_REF) { size_t k = 0; while (k < n && P_d0[k] == P_d1[k]) k++; r->ret = k; return; }
    if (v == V_AVX2 || v == V_AVX512) { r->na = 1; return; }
    hbuf p = hb_new(n, sa, P_d0, 0), m = hb_new(n, da, P_d1, 0);
    switch (v) {
    case V_SCALAR: r->ret = scalar_match_length(p.p, m.p, p.p + n); break;
    case V_SSE: r->ret = carquet_sse_match_length(p.p, m.p, p.p + n); break;
    case V_DISPATCH: r->ret = carquet_dispatch_match_length(p.p, m.p, p.p + n); break;
    }
    r->canary = hb_done(&p) | hb_done(&m);
}

static void op_nonnull(int v, size_t sa, size_t da, result* r) {
    (void)da;
    size_t n = (size_t)P_count * 2; int16_t mx = (int16_t)(uint16_t)P_a;
    r->len = 0;
    if (v == V_REF) {
        uint64_t k = 0;
        for (int64_t i = 0; i < P_count; i++) { int16_t x; memcpy(&x, P_d0 + 2 * i, 2); k += (x == mx); }
        r->ret = k; return;
    }
    if (v == V_AVX2 || v == V_AVX512) { r->na = 1; return; }
    hbuf s = hb_new(n, sa, P_d0, 0);
    const int16_t* p = (const int16_t*)s.p;
    switch (v) {
    case V_SCALAR: r->ret = (uint64_t)scalar_count_non_nulls(p, P_count, mx); break;
    case V_SSE: r->ret = (uint64_t)carquet_sse_count_non_nulls(p, P_count, mx); break;
    case V_DISPATCH: r->ret = (uint64_t)carquet_dispatch_count_non_nulls(p, P_count, mx); break;
    }
    r->canary = hb_done(&s);
}

/* null bitmap: P_b = initial content of every bitmap byte */
static void op_nullbm(int v, size_t sa, size_t da, result* r) {
    size_t n = (size_t)P_count * 2, nb = ((size_t)P_count + 7) / 8; int16_t mx = (int16_t)(uint16_t)P_a;
    if (v == V_REF) {
        uint8_t* t = calloc(nb + 1, 1);
        for (int64_t i = 0; i < P_count; i++) { int16_t x; memcpy(&x, P_d0 + 2 * i, 2); if (x < mx) t[i >> 3] |= (uint8_t)(1u << (i & 7)); }
        res_put(r, t, nb); free(t); return;
    }
    if (v == V_AVX2 || v == V_AVX512) { r->na = 1; return; }
    hbuf s = hb_new(n, sa, P_d0, 0), o = hb_new(nb, da, NULL, (int)P_b);
    const int16_t* p = (const int16_t*)s.p;
    switch (v) {
    case V_SCALAR: scalar_build_null_bitmap(p, P_count, mx, o.p); break;
    case V_SSE: carquet_sse_build_null_bitmap(p, P_count, mx, o.p); break;
    case V_DISPATCH: carquet_dispatch_build_null_bitmap(p, P_count, mx, o.p); break;
    }
    res_put(r, o.p, nb);
    r->canary = hb_done(&s) | hb_done(&o);
}

static void op_filldef(int v, size_t sa, size_t da, result* r) {
    (void)da;
    size_t n = (size_t)P_count * 2; int16_t val = (int16_t)(uint16_t)P_a;
    if (v == V_REF) {
        uint8_t* t = malloc(n + 1);
        for (int64_t i = 0; i < P_count; i++) memcpy(t + 2 * i, &val, 2);
        res_put(r, t, n); free(t); return;
    }
    if (v == V_AVX2 || v == V_AVX512) { r->na = 1; return; }
    hbuf o = hb_new(n, sa, NULL, 0xEE);
    int16_t* p = (int16_t*)o.p;
    switch (v) {
    case V_SCALAR: scalar_fill_def_levels(p, P_count, val); break;
    case V_SSE: carquet_sse_fill_def_levels(p, P_count, val); break;
    case V_DISPATCH: carquet_dispatch_fill_def_levels(p, P_count, val); break;
    }
    res_put(r, o.p, n);
    r->canary = hb_done(&o);
}

/* fixed-width bit unpackers: name selects the kernel; "scalar" = carquet_bitunpack8_32 of core/bitpack.c */
typedef struct { const char* name; int isa; void (*fn)(const uint8_t*, uint32_t*); int width, nvals; } bu_t;
static const bu_t bu_tab[] = {
    {"sse_32_1", V_SSE, carquet_sse_bitunpack32_1bit, 1, 32}, {"sse_8_4", V_SSE, carquet_sse_bitunpack8_4bit, 4, 8},
    {"sse_8_8", V_SSE, carquet_sse_bitunpack8_8bit, 8, 8}, {"avx2_64_1", V_AVX2, carquet_avx2_bitunpack64_1bit, 1, 64},
    {"avx2_16_4", V_AVX2, carquet_avx2_bitunpack16_4bit, 4, 16}, {"avx2_16_8", V_AVX2, carquet_avx2_bitunpack16_8bit, 8, 16},
    {"avx2_8_16", V_AVX2, carquet_avx2_bitunpack8_16bit, 16, 8}, {"avx512_32_8", V_AVX512, carquet_avx512_bitunpack32_8bit, 8, 32},
    {"avx512_16_16", V_AVX512, carquet_avx512_bitunpack16_16bit, 16, 16}, {"avx512_32_4", V_AVX512, carquet_avx512_bitunpack32_4bit, 4, 32},
};
static const bu_t* P_bu;
static void op_bu(int v, size_t sa, size_t da, result* r) {
    size_t nin = (size_t)P_bu->width * P_bu->nvals / 8, nout = (size_t)P_bu->nvals * 4;
    if (P_n0 != nin) { fprintf(stderr, "bu: need %zu input bytes\n", nin); exit(3); }
    if (v == V_REF) { uint32_t t[64]; ref_unpack_bits(P_d0, P_bu->width, P_bu->nvals, t); res_put(r, t, nout); return; }
    if (v != V_SCALAR && v != P_bu->isa) { r->na = 1; return; }
    hbuf s = hb_new(nin, sa, P_d0, 0), o = hb_new(nout, da, NULL, 0xEE);
    if (v == V_SCALAR) {
        for (int g = 0; g < P_bu->nvals / 8; g++)
            carquet_bitunpack8_32(s.p + g * P_bu->width, P_bu->width, (uint32_t*)o.p + 8 * g);
    } else P_bu->fn(s.p, (uint32_t*)o.p);
    res_put(r, o.p, nout);
    r->canary = hb_done(&s) | hb_done(&o);
}

static void op_mset(int v, size_t sa, size_t da, result* r) {
    (void)da;
    size_t n = (size_t)P_count; uint8_t val = (uint8_t)P_a;
    if (v == V_REF) { uint8_t* t = malloc(n + 1); for (size_t i = 0; i < n; i++) t[i] = val; res_put(r, t, n); free(t); return; }
    if (v == V_DISPATCH) { r->na = 1; return; }
    hbuf o = hb_new(n, sa, NULL, 0xEE);
    switch (v) {
    case V_SCALAR: memset(o.p, val, n); break;
    case V_SSE: carquet_sse_memset_small(o.p, val, n); break;
    case V_AVX2: carquet_avx2_memset(o.p, val, n); break;
    case V_AVX512: carquet_avx512_memset(o.p, val, n); break;
    }
    res_put(r, o.p, n);
    r->canary = hb_done(&o);
}

static void op_mcpy(int v, size_t sa, size_t da, result* r) {
    size_t n = P_n0;
    if (v == V_REF) { res_put(r, P_d0, n); return; }
    if (v == V_DISPATCH) { r->na = 1; return; }
    hbuf s = hb_new(n, sa, P_d0, 0), o = hb_new(n, da, NULL, 0xEE);
    switch (v) {
    case V_SCALAR: memcpy(o.p, s.p, n); break;
    case V_SSE: carquet_sse_memcpy_small(o.p, s.p, n); break;
    case V_AVX2: carquet_avx2_memcpy(o.p, s.p, n); break;
    case V_AVX512: carquet_avx512_memcpy(o.p, s.p, n); break;
    }
    res_put(r, o.p, n);
    r->canary = hb_done(&s) | hb_done(&o);
}


/* encoding-layer entry points above the dispatcher: P_op = bapi_<kind>, kind = ef df ed dd (float/double wrappers) or
 * e<k> / d<k> (generic FLBA of k bytes).  P_b = capacity mode: 0 exact, 1 one byte short, 2 NULL output, 3 negative count
 * (generic decode).  Result = status code, output bytes when OK (and bytes_written for encoders). */
static void op_bapi(int v, size_t sa, size_t da, result* r) {
    const char* k = P_op + 5; int enc = k[0] == 'e';
    int w = k[1] == 'f' ? 4 : k[1] == 'd' ? 8 : atoi(k + 1), generic = !(k[1] == 'f' || k[1] == 'd');
    size_t n = (size_t)P_count * (size_t)(w > 0 ? w : 0);
    int mode = (int)P_b;
    if (v == V_REF) {
        if (mode == 2 || (generic && w <= 0)) { r->ret = CARQUET_ERROR_INVALID_ARGUMENT; r->len = 0; return; }
        if (mode == 3) { r->ret = CARQUET_ERROR_DECODE; r->len = 0; return; }
        if (mode == 1) { r->ret = enc ? CARQUET_ERROR_ENCODE : CARQUET_ERROR_DECODE; r->len = 0; return; }
        uint8_t* t = malloc(n + 9);
        if (enc) ref_bss_encode(P_d0, P_count, w, t); else ref_bss_decode(P_d0, P_count, w, t);
        if (enc) { uint64_t bw = n; memcpy(t + n, &bw, 8); }
        res_put(r, t, n + (enc ? 8 : 0)); free(t); r->ret = CARQUET_OK; return;
    }
    if (v != V_DISPATCH) { r->na = 1; return; }
    hbuf s = hb_new(n, sa, P_d0, 0), o = hb_new(n, da, NULL, 0xEE);
    size_t cap = mode == 1 ? (n ? n - 1 : 0) : n; size_t written = 0xDEADBEEF; carquet_status_t st;
    uint8_t* op = mode == 2 ? NULL : o.p; int64_t cnt = mode == 3 ? -1 : P_count;
    if (mode == 1 && n == 0) { r->na = 1; hb_done(&s); hb_done(&o); return; }
    if (!generic && w == 4) st = enc ? carquet_byte_stream_split_encode_float((const float*)s.p, cnt, op, cap, &written)
                                     : carquet_byte_stream_split_decode_float(s.p, cap, (float*)op, cnt);
    else if (!generic)      st = enc ? carquet_byte_stream_split_encode_double((const double*)s.p, cnt, op, cap, &written)
                                     : carquet_byte_stream_split_decode_double(s.p, cap, (double*)op, cnt);
    else                    st = enc ? carquet_byte_stream_split_encode(s.p, cnt, w, op, cap, &written)
                                     : carquet_byte_stream_split_decode(s.p, cap, w, op, cnt);
    r->ret = (uint64_t)st;
    if (st == CARQUET_OK) {
        uint8_t* t = malloc(n + 9); memcpy(t, o.p, n);
        if (enc) { uint64_t bw = written; memcpy(t + n, &bw, 8); }
        res_put(r, t, n + (enc ? 8 : 0)); free(t);
    } else {
        for (size_t i = 0; i < n; i++) if (o.p[i] != 0xEE) r->canary = 1;      /* nothing written on an error */
    }
    r->canary |= hb_done(&s) | hb_done(&o);
}

/* ------------------------------------------------------------------------------------------------ dispatch table */

#define SYM(f) {#f, (void (*)(void))f}
static const struct { const char* n; void (*f)(void); } symtab[] = {
    SYM(scalar_prefix_sum_i32), SYM(scalar_prefix_sum_i64), SYM(scalar_gather_i32), SYM(scalar_gather_i64),
    SYM(scalar_gather_float), SYM(scalar_gather_double), SYM(scalar_byte_split_encode_float),
    SYM(scalar_byte_split_decode_float), SYM(scalar_byte_split_encode_double), SYM(scalar_byte_split_decode_double),
    SYM(scalar_unpack_bools), SYM(scalar_pack_bools), SYM(scalar_find_run_length_i32), SYM(scalar_crc32c),
    SYM(scalar_match_copy), SYM(scalar_match_length), SYM(scalar_count_non_nulls), SYM(scalar_build_null_bitmap),
    SYM(scalar_fill_def_levels),
    SYM(carquet_sse_prefix_sum_i32), SYM(carquet_sse_prefix_sum_i64), SYM(carquet_sse_gather_i32), SYM(carquet_sse_gather_i64),
    SYM(carquet_sse_gather_float), SYM(carquet_sse_gather_double), SYM(carquet_sse_byte_stream_split_encode_float),
    SYM(carquet_sse_byte_stream_split_decode_float), SYM(carquet_sse_byte_stream_split_encode_double),
    SYM(carquet_sse_byte_stream_split_decode_double), SYM(carquet_sse_unpack_bools), SYM(carquet_sse_pack_bools),
    SYM(carquet_sse_crc32c), SYM(carquet_sse_match_copy), SYM(carquet_sse_match_length), SYM(carquet_sse_count_non_nulls),
    SYM(carquet_sse_build_null_bitmap), SYM(carquet_sse_fill_def_levels), SYM(carquet_sse_find_run_length_i32),
    SYM(carquet_avx2_prefix_sum_i32), SYM(carquet_avx2_prefix_sum_i64), SYM(carquet_avx2_gather_i32), SYM(carquet_avx2_gather_i64),
    SYM(carquet_avx2_gather_float), SYM(carquet_avx2_gather_double), SYM(carquet_avx2_byte_stream_split_encode_float),
    SYM(carquet_avx2_byte_stream_split_decode_float), SYM(carquet_avx2_byte_stream_split_encode_double),
    SYM(carquet_avx2_byte_stream_split_decode_double), SYM(carquet_avx2_unpack_bools), SYM(carquet_avx2_pack_bools),
    SYM(carquet_avx2_find_run_length_i32),
    SYM(carquet_avx512_prefix_sum_i32), SYM(carquet_avx512_prefix_sum_i64), SYM(carquet_avx512_gather_i32),
    SYM(carquet_avx512_gather_i64), SYM(carquet_avx512_gather_float), SYM(carquet_avx512_gather_double),
    SYM(carquet_avx512_byte_stream_split_encode_float), SYM(carquet_avx512_byte_stream_split_decode_float),
    SYM(carquet_avx512_unpack_bools), SYM(carquet_avx512_pack_bools), SYM(carquet_avx512_find_run_length_i32),
};
static const char* symname(void (*f)(void)) {
    for (size_t i = 0; i < sizeof symtab / sizeof symtab[0]; i++) if (symtab[i].f == f) return symtab[i].n;
    return "unknown-symbol";
}
#define SLOT(s) printf(" %s=%s", #s, symname((void (*)(void))g_dispatch.s))
static void print_dispatch(void) {
    h_priv_simd_dispatch_init();
    const carquet_cpu_info_t* c = carquet_get_cpu_info();
    printf("OK caps=%d%d%d%d%d%d%d%d%d", c->has_sse2, c->has_sse41, c->has_sse42, c->has_avx, c->has_avx2,
           c->has_avx512f, c->has_avx512bw, c->has_avx512vl, c->has_avx512vbmi);
    /* an independent reading of the same nine features (libgcc's CPU model, which also honours OS support) */
    __builtin_cpu_init();
    printf(" indep=%d%d%d%d%d%d%d%d%d", !!__builtin_cpu_supports("sse2"), !!__builtin_cpu_supports("sse4.1"),
           !!__builtin_cpu_supports("sse4.2"), !!__builtin_cpu_supports("avx"), !!__builtin_cpu_supports("avx2"),
           !!__builtin_cpu_supports("avx512f"), !!__builtin_cpu_supports("avx512bw"), !!__builtin_cpu_supports("avx512vl"),
           !!__builtin_cpu_supports("avx512vbmi"));
    SLOT(prefix_sum_i32); SLOT(prefix_sum_i64); SLOT(gather_i32); SLOT(gather_i64); SLOT(gather_float);
    SLOT(gather_double); SLOT(byte_split_encode_float); SLOT(byte_split_decode_float);
    SLOT(byte_split_encode_double); SLOT(byte_split_decode_double); SLOT(unpack_bools); SLOT(pack_bools);
    SLOT(find_run_length_i32); SLOT(crc32c); SLOT(match_copy); SLOT(match_length); SLOT(count_non_nulls);
    SLOT(build_null_bitmap); SLOT(fill_def_levels);
    printf("\n");
}

/* ------------------------------------------------------------------------------------------------ intrinsics
 * intr <name> <a hex> <b hex> <imm>: execute one intrinsic on the hardware (operands are byte images of the
 * vector registers, little-endian lanes) and print the byte image of the result. */
#define TGT __attribute__((target("sse4.2,avx,avx2,avx512f,avx512bw,avx512vl")))
static uint64_t le64(const uint8_t* p) { uint64_t x; memcpy(&x, p, 8); return x; }
TGT static int run_intrinsic(const char* n, const uint8_t* a, size_t na, const uint8_t* b, size_t nb, long imm,
                             uint8_t* out, size_t* nout) {
    __m128i xa = _mm_setzero_si128(), xb = xa, xr; __m256i ya = _mm256_setzero_si256(), yb = ya, yr;
    __m512i za = _mm512_setzero_si512(), zb = za, zr;
    uint8_t ta[64] = {0}, tb[64] = {0};
    memcpy(ta, a, na > 64 ? 64 : na); memcpy(tb, b, nb > 64 ? 64 : nb);
    xa = _mm_loadu_si128((const __m128i*)ta); xb = _mm_loadu_si128((const __m128i*)tb);
    ya = _mm256_loadu_si256((const __m256i*)ta); yb = _mm256_loadu_si256((const __m256i*)tb);
    za = _mm512_loadu_si512(ta); zb = _mm512_loadu_si512(tb);
#define X(name, expr) if (!strcmp(n, name)) { xr = (expr); _mm_storeu_si128((__m128i*)out, xr); *nout = 16; return 1; }
#define Y(name, expr) if (!strcmp(n, name)) { yr = (expr); _mm256_storeu_si256((__m256i*)out, yr); *nout = 32; return 1; }
#define Z(name, expr) if (!strcmp(n, name)) { zr = (expr); _mm512_storeu_si512(out, zr); *nout = 64; return 1; }
#define S(name, expr) if (!strcmp(n, name)) { uint64_t s_ = (uint64_t)(expr); memcpy(out, &s_, 8); *nout = 8; return 1; }
    X("_mm_shuffle_epi8", _mm_shuffle_epi8(xa, xb))
    X("_mm_unpacklo_epi8", _mm_unpacklo_epi8(xa, xb)) X("_mm_unpackhi_epi8", _mm_unpackhi_epi8(xa, xb))
    X("_mm_unpacklo_epi16", _mm_unpacklo_epi16(xa, xb)) X("_mm_unpackhi_epi16", _mm_unpackhi_epi16(xa, xb))
    X("_mm_unpackhi_epi64", _mm_unpackhi_epi64(xa, xb))
    X("_mm_and_si128", _mm_and_si128(xa, xb)) X("_mm_min_epu8", _mm_min_epu8(xa, xb))
    X("_mm_add_epi16", _mm_add_epi16(xa, xb)) X("_mm_add_epi32", _mm_add_epi32(xa, xb)) X("_mm_add_epi64", _mm_add_epi64(xa, xb))
    X("_mm_cmpeq_epi8", _mm_cmpeq_epi8(xa, xb)) X("_mm_cmpeq_epi16", _mm_cmpeq_epi16(xa, xb))
    X("_mm_cmpeq_epi32", _mm_cmpeq_epi32(xa, xb)) X("_mm_cmplt_epi16", _mm_cmplt_epi16(xa, xb))
    X("_mm_mullo_epi16", _mm_mullo_epi16(xa, xb)) X("_mm_packs_epi16", _mm_packs_epi16(xa, xb))
    X("_mm_slli_si128_4", _mm_slli_si128(xa, 4)) X("_mm_slli_si128_8", _mm_slli_si128(xa, 8))
    X("_mm_srli_si128_2", _mm_srli_si128(xa, 2)) X("_mm_srli_si128_4", _mm_srli_si128(xa, 4)) X("_mm_srli_si128_8", _mm_srli_si128(xa, 8))
    X("_mm_slli_epi32_7", _mm_slli_epi32(xa, 7)) X("_mm_srli_epi16_4", _mm_srli_epi16(xa, 4))
    X("_mm_set1_epi8", _mm_set1_epi8((char)ta[0])) X("_mm_set1_epi16", _mm_set1_epi16((short)(ta[0] | ta[1] << 8)))
    X("_mm_set1_epi32", _mm_set1_epi32((int)le64(ta))) X("_mm_set1_epi64x", _mm_set1_epi64x((long long)le64(ta)))
    X("_mm_cvtsi32_si128", _mm_cvtsi32_si128((int)le64(ta))) X("_mm_cvtsi64_si128", _mm_cvtsi64_si128((long long)le64(ta)))
    X("_mm_loadl_epi64", _mm_loadl_epi64((const __m128i*)ta))
    S("_mm_movemask_epi8", (uint32_t)_mm_movemask_epi8(xa)) S("_mm_cvtsi128_si32", (uint32_t)_mm_cvtsi128_si32(xa))
    S("_mm_extract_epi32_3", (uint32_t)_mm_extract_epi32(xa, 3)) S("_mm_extract_epi16_0", (uint32_t)_mm_extract_epi16(xa, 0))
    S("_mm_crc32_u8", _mm_crc32_u8((uint32_t)le64(ta), tb[0])) S("_mm_crc32_u16", _mm_crc32_u16((uint32_t)le64(ta), (uint16_t)le64(tb)))
    S("_mm_crc32_u32", _mm_crc32_u32((uint32_t)le64(ta), (uint32_t)le64(tb))) S("_mm_crc32_u64", (uint32_t)_mm_crc32_u64((uint32_t)le64(ta), le64(tb)))
    Y("_mm256_shuffle_epi8", _mm256_shuffle_epi8(ya, yb)) Y("_mm256_and_si256", _mm256_and_si256(ya, yb))
    Y("_mm256_min_epu8", _mm256_min_epu8(ya, yb)) Y("_mm256_add_epi32", _mm256_add_epi32(ya, yb))
    Y("_mm256_add_epi64", _mm256_add_epi64(ya, yb)) Y("_mm256_cmpeq_epi32", _mm256_cmpeq_epi32(ya, yb))
    Y("_mm256_slli_si256_4", _mm256_slli_si256(ya, 4)) Y("_mm256_slli_si256_8", _mm256_slli_si256(ya, 8))
    Y("_mm256_set1_epi8", _mm256_set1_epi8((char)ta[0])) Y("_mm256_set1_epi32", _mm256_set1_epi32((int)le64(ta)))
    Y("_mm256_set1_epi64x", _mm256_set1_epi64x((long long)le64(ta)))
    Y("_mm256_cvtepu8_epi32", _mm256_cvtepu8_epi32(xa)) Y("_mm256_cvtepu16_epi32", _mm256_cvtepu16_epi32(xa))
    Y("_mm256_inserti128_si256_1", _mm256_inserti128_si256(ya, xb, 1))
    X("_mm256_extracti128_si256_0", _mm256_extracti128_si256(ya, 0)) X("_mm256_extracti128_si256_1", _mm256_extracti128_si256(ya, 1))
    S("_mm256_movemask_epi8", (uint32_t)_mm256_movemask_epi8(ya))
    S("_mm256_extract_epi32_0", (uint32_t)_mm256_extract_epi32(ya, 0)) S("_mm256_extract_epi32_4", (uint32_t)_mm256_extract_epi32(ya, 4))
    S("_mm256_extract_epi32_7", (uint32_t)_mm256_extract_epi32(ya, 7))
    Z("_mm512_shuffle_epi8", _mm512_shuffle_epi8(za, zb)) Z("_mm512_permutexvar_epi32", _mm512_permutexvar_epi32(za, zb))
    Z("_mm512_add_epi32", _mm512_add_epi32(za, zb)) Z("_mm512_add_epi64", _mm512_add_epi64(za, zb))
    Z("_mm512_set1_epi8", _mm512_set1_epi8((char)ta[0])) Z("_mm512_set1_epi32", _mm512_set1_epi32((int)le64(ta)))
    Z("_mm512_set1_epi64", _mm512_set1_epi64((long long)le64(ta)))
    Z("_mm512_cvtepu8_epi32", _mm512_cvtepu8_epi32(xa)) Z("_mm512_cvtepu16_epi32", _mm512_cvtepu16_epi32(ya))
    Z("_mm512_maskz_set1_epi8_1", _mm512_maskz_set1_epi8((__mmask64)le64(ta), 1))
    Z("_mm512_maskz_alignr_epi32_FFFE_15", _mm512_maskz_alignr_epi32(0xFFFE, za, _mm512_setzero_si512(), 15))
    Z("_mm512_maskz_alignr_epi32_FFFC_14", _mm512_maskz_alignr_epi32(0xFFFC, za, _mm512_setzero_si512(), 14))
    Z("_mm512_maskz_alignr_epi32_FFF0_12", _mm512_maskz_alignr_epi32(0xFFF0, za, _mm512_setzero_si512(), 12))
    Z("_mm512_maskz_alignr_epi32_FF00_8", _mm512_maskz_alignr_epi32(0xFF00, za, _mm512_setzero_si512(), 8))
    Z("_mm512_maskz_alignr_epi64_FE_7", _mm512_maskz_alignr_epi64(0xFE, za, _mm512_setzero_si512(), 7))
    Z("_mm512_maskz_alignr_epi64_FC_6", _mm512_maskz_alignr_epi64(0xFC, za, _mm512_setzero_si512(), 6))
    Z("_mm512_maskz_alignr_epi64_F0_4", _mm512_maskz_alignr_epi64(0xF0, za, _mm512_setzero_si512(), 4))
    Z("_mm512_maskz_loadu_epi8", _mm512_maskz_loadu_epi8((__mmask64)le64(tb), ta))
    X("_mm512_castsi512_si128", _mm512_castsi512_si128(za))
    X("_mm512_extracti32x4_epi32_1", _mm512_extracti32x4_epi32(za, 1)) X("_mm512_extracti32x4_epi32_2", _mm512_extracti32x4_epi32(za, 2))
    X("_mm512_extracti32x4_epi32_3", _mm512_extracti32x4_epi32(za, 3))
    S("_mm512_test_epi8_mask", (uint64_t)_mm512_test_epi8_mask(za, zb)) S("_mm512_cmpeq_epi32_mask", (uint32_t)_mm512_cmpeq_epi32_mask(za, zb))
    (void)imm; (void)xr; (void)yr; (void)zr;
    return 0;
}

/* ------------------------------------------------------------------------------------------------ driver */

static uint64_t hexu(const char* s) { return strtoull(s, NULL, 16); }
static uint32_t lcg(uint32_t* s) { *s = *s * 1664525u + 1013904223u; return *s >> 8; }

static void run_op(int v, size_t sa, size_t da, result* r) {
    r->len = 0; r->ret = 0; r->na = 0; r->canary = 0;
    cur_variant = vname[v]; cur_sa = (int)sa; cur_da = (int)da;
    if (!strcmp(P_op, "psum32")) op_psum(v, sa, da, r, 4);
    else if (!strcmp(P_op, "psum64")) op_psum(v, sa, da, r, 8);
    else if (!strcmp(P_op, "gather32")) op_gather(v, sa, da, r, 0);
    else if (!strcmp(P_op, "gatherf")) op_gather(v, sa, da, r, 1);
    else if (!strcmp(P_op, "gather64")) op_gather(v, sa, da, r, 2);
    else if (!strcmp(P_op, "gatherd")) op_gather(v, sa, da, r, 3);
    else if (!strcmp(P_op, "bssef")) op_bss(v, sa, da, r, 0);
    else if (!strcmp(P_op, "bssdf")) op_bss(v, sa, da, r, 1);
    else if (!strcmp(P_op, "bssed")) op_bss(v, sa, da, r, 2);
    else if (!strcmp(P_op, "bssdd")) op_bss(v, sa, da, r, 3);
    else if (!strcmp(P_op, "unpackb")) op_unpackb(v, sa, da, r);
    else if (!strcmp(P_op, "packb")) op_packb(v, sa, da, r);
    else if (!strcmp(P_op, "runlen")) op_runlen(v, sa, da, r);
    else if (!strcmp(P_op, "crc32c")) op_crc32c(v, sa, da, r);
    else if (!strcmp(P_op, "mcopy")) op_mcopy(v, sa, da, r);
    else if (!strcmp(P_op, "mlen")) op_mlen(v, sa, da, r);
    else if (!strcmp(P_op, "nonnull")) op_nonnull(v, sa, da, r);
    else if (!strcmp(P_op, "nullbm")) op_nullbm(v, sa, da, r);
    else if (!strcmp(P_op, "filldef")) op_filldef(v, sa, da, r);
    else if (!strcmp(P_op, "bu")) op_bu(v, sa, da, r);
    else if (!strcmp(P_op, "mset")) op_mset(v, sa, da, r);
    else if (!strcmp(P_op, "mcpy")) op_mcpy(v, sa, da, r);
    else if (!strncmp(P_op, "bapi_", 5)) op_bapi(v, sa, da, r);
    else r->na = 2;
    cur_variant = "-";
}

/* element sizes of the source-side and destination-side buffers (legal misalignments are their multiples) */
static void op_elems(size_t* es, size_t* ed) {
    *es = 1; *ed = 1;
    if (!strcmp(P_op, "psum32") || !strcmp(P_op, "runlen")) *es = 4;
    else if (!strcmp(P_op, "psum64")) *es = 8;
    else if (!strcmp(P_op, "gather32") || !strcmp(P_op, "gatherf")) { *es = 4; *ed = 4; }
    else if (!strcmp(P_op, "gather64") || !strcmp(P_op, "gatherd")) { *es = 4; *ed = 8; }
    else if (!strcmp(P_op, "nonnull") || !strcmp(P_op, "nullbm") || !strcmp(P_op, "filldef")) *es = 2;
    else if (!strcmp(P_op, "bu")) *ed = 4;
}

/* ------------------------------------------------------------------------------------------------ large counts
 * big <op> <variants> <aligns> <count> <pattern> <seed>: the inputs are generated here (deterministically from the
 * pattern and the seed) instead of travelling as hex; pattern = dense | sparse | every8.  Output bytes are reported
 * as a 64-bit FNV-1a hash. */
static uint8_t* big_alloc(size_t n) { uint8_t* b = malloc(n + 1); if (!b) abort(); return b; }
static int pat_hit(int pat, uint64_t i, uint32_t* st) {      /* is element i "set" under the pattern? */
    if (pat == 0) return 1;
    if (pat == 2) return (i & 7) == 0;
    return lcg(st) % 997 == 0;
}
static int gen_big(const char* op, int64_t count, const char* pattern, uint32_t seed, void** b0, void** b1) {
    int pat = !strcmp(pattern, "dense") ? 0 : !strcmp(pattern, "sparse") ? 1 : !strcmp(pattern, "every8") ? 2 : -1;
    uint32_t st = seed * 2654435761u + 12345u;
    size_t n = (size_t)count;
    if (pat < 0 || count < 0) return 0;
    P_count = count;
    if (!strcmp(op, "psum32") || !strcmp(op, "psum64")) {
        int w = op[4] == '3' ? 4 : 8; uint8_t* d = big_alloc(n * w); memset(d, 0, n * w);
        for (size_t i = 0; i < n; i++) { uint32_t v = pat_hit(pat, i, &st) ? 1 + lcg(&st) % 900 : 0; memcpy(d + i * w, &v, 4); }
        P_a = 7; P_d0 = d; P_n0 = n * w; *b0 = d;
    } else if (!strncmp(op, "gather", 6)) {
        int w = (!strcmp(op, "gather32") || !strcmp(op, "gatherf")) ? 4 : 8; size_t dl = 1000;
        uint8_t* d = big_alloc(dl * w); for (size_t i = 0; i < dl * w; i++) d[i] = (uint8_t)lcg(&st);
        uint8_t* ix = big_alloc(n * 4);
        for (size_t i = 0; i < n; i++) { uint32_t v = pat_hit(pat, i, &st) ? (pat == 0 ? lcg(&st) % dl : (uint32_t)dl - 1) : 0; memcpy(ix + 4 * i, &v, 4); }
        P_a = dl; P_d0 = d; P_n0 = dl * w; P_d1 = ix; P_n1 = n * 4; *b0 = d; *b1 = ix;
    } else if (!strncmp(op, "bapi_", 5)) {
        int w = op[6] == 'f' ? 4 : op[6] == 'd' ? 8 : atoi(op + 6); uint8_t* d = big_alloc(n * w);
        for (size_t i = 0; i < n * w; i++) d[i] = pat_hit(pat, i, &st) ? (uint8_t)(1 + lcg(&st) % 255) : 0;
        P_b = 0; P_d0 = d; P_n0 = n * w; *b0 = d;
    } else if (!strncmp(op, "bss", 3)) {
        int w = op[4] == 'f' ? 4 : 8; uint8_t* d = big_alloc(n * w);
        for (size_t i = 0; i < n * w; i++) d[i] = pat_hit(pat, i, &st) ? (uint8_t)(1 + lcg(&st) % 255) : 0;
        P_d0 = d; P_n0 = n * w; *b0 = d;
    } else if (!strcmp(op, "unpackb")) {
        size_t nb = (n + 7) / 8; uint8_t* d = big_alloc(nb);
        for (size_t i = 0; i < nb; i++) d[i] = pat == 0 ? 0xff : pat == 2 ? 0x01 : (pat_hit(1, i, &st) ? (uint8_t)lcg(&st) : 0);
        P_d0 = d; P_n0 = nb; *b0 = d;
    } else if (!strcmp(op, "packb")) {
        uint8_t* d = big_alloc(n); for (size_t i = 0; i < n; i++) d[i] = (uint8_t)pat_hit(pat, i, &st);
        P_d0 = d; P_n0 = n; *b0 = d;
    } else if (!strcmp(op, "runlen")) {
        uint8_t* d = big_alloc(n * 4); uint32_t f = 0x80000001u + seed, o = f ^ 0x01000000u;
        size_t brk = pat == 0 ? n : pat == 1 ? (n ? n - 1 : 0) : n / 2 + 3;       /* first mismatch */
        for (size_t i = 0; i < n; i++) memcpy(d + 4 * i, i >= brk && i > 0 ? &o : &f, 4);
        P_d0 = d; P_n0 = n * 4; *b0 = d;
    } else if (!strcmp(op, "crc32c") || !strcmp(op, "mcpy")) {
        uint8_t* d = big_alloc(n); for (size_t i = 0; i < n; i++) d[i] = pat_hit(pat, i, &st) ? (uint8_t)lcg(&st) : 0;
        P_a = 0x12345678u ^ seed; P_d0 = d; P_n0 = n; *b0 = d;
    } else if (!strcmp(op, "mcopy")) {
        size_t off = pat == 0 ? 1 : pat == 1 ? 33 : 4; if (seed & 1) off = pat == 0 ? 2 : pat == 1 ? 8 : 16;
        size_t h = off + 3; uint8_t* d = big_alloc(h); for (size_t i = 0; i < h; i++) d[i] = (uint8_t)(1 + lcg(&st) % 255);
        P_a = off; P_d0 = d; P_n0 = h; *b0 = d;
    } else if (!strcmp(op, "mlen")) {
        uint8_t *a = big_alloc(n), *b = big_alloc(n);
        for (size_t i = 0; i < n; i++) a[i] = b[i] = (uint8_t)lcg(&st);
        size_t brk = pat == 0 ? n : pat == 1 ? (n ? n - 1 : 0) : n / 2 + 5;
        for (size_t i = brk; i < n; i += 7) b[i] ^= 0x40;
        P_d0 = a; P_d1 = b; P_n0 = P_n1 = n; *b0 = a; *b1 = b;
    } else if (!strcmp(op, "nonnull") || !strcmp(op, "nullbm")) {
        uint8_t* d = big_alloc(n * 2); uint16_t mx = 1, z = 0;
        for (size_t i = 0; i < n; i++) memcpy(d + 2 * i, pat_hit(pat, i, &st) ? &mx : &z, 2);
        P_a = mx; P_b = 0xa5; P_d0 = d; P_n0 = n * 2; *b0 = d;
    } else if (!strcmp(op, "filldef")) { P_a = 0x8001u + (seed & 0xff);
    } else if (!strcmp(op, "mset")) { P_a = 0x5a ^ (seed & 0xff);
    } else return 0;
    return 1;
}
static uint64_t fnv64(const uint8_t* p, size_t n) { uint64_t h = 1469598103934665603ull; for (size_t i = 0; i < n; i++) { h ^= p[i]; h *= 1099511628211ull; } return h; }

int main(void) {
    static result ref, got;
    ref.out = malloc(64); ref.cap = 64; got.out = malloc(64); got.cap = 64;
    while (h_readline()) {
        h_split();
        if (h_ntok == 0) { puts("ERR empty"); continue; }
        if (!strcmp(h_tok[0], "dispatch")) { print_dispatch(); fflush(stdout); continue; }
        if (!strcmp(h_tok[0], "intr") && h_ntok == 5) {
            size_t na, nb, nout = 0; void *ba, *bb; uint8_t out[64];
            uint8_t* a = h_unhex(h_tok[2], &na, 0, &ba); uint8_t* b = h_unhex(h_tok[3], &nb, 0, &bb);
            if (run_intrinsic(h_tok[1], a, na, b, nb, atol(h_tok[4]), out, &nout)) { printf("OK "); h_puthex(out, nout); printf("\n"); }
            else puts("ERR unknown-intrinsic");
            free(ba); free(bb); fflush(stdout); continue;
        }
        int big = 0;
        if (!strcmp(h_tok[0], "big")) { big = 1; for (int i = 1; i < h_ntok; i++) h_tok[i - 1] = h_tok[i]; h_ntok--; }
        if (h_ntok < 4) { puts("ERR short"); fflush(stdout); continue; }
        P_op = h_tok[0];
        int want[V_N] = {0};
        if (!strcmp(h_tok[1], "all")) for (int v = 1; v < V_N; v++) want[v] = 1;
        else for (int v = 1; v < V_N; v++) {
            const char* q = strstr(h_tok[1], vname[v]);
            size_t l = strlen(vname[v]);
            while (q) { if ((q == h_tok[1] || q[-1] == ',') && (q[l] == 0 || q[l] == ',')) { want[v] = 1; break; } q = strstr(q + 1, vname[v]); }
        }
        /* parameters */
        void *b0 = NULL, *b1 = NULL;
        P_count = 0; P_a = P_b = 0; P_d0 = P_d1 = NULL; P_n0 = P_n1 = 0; P_bu = NULL;
        char** t = h_tok + 3; int nt = h_ntok - 3; int ok = 1;
#define NEED(k) if (nt != (k)) ok = 0
        if (big) { NEED(3); if (ok) ok = gen_big(P_op, atoll(t[0]), t[1], (uint32_t)atol(t[2]), &b0, &b1); }
        else if (!strcmp(P_op, "psum32") || !strcmp(P_op, "psum64")) { NEED(3); if (ok) { P_count = atoll(t[0]); P_a = hexu(t[1]); P_d0 = h_unhex(t[2], &P_n0, 0, &b0); } }
        else if (!strncmp(P_op, "gather", 6)) { NEED(4); if (ok) { P_count = atoll(t[0]); P_a = (uint64_t)atoll(t[1]); P_d0 = h_unhex(t[2], &P_n0, 0, &b0); P_d1 = h_unhex(t[3], &P_n1, 0, &b1); } }
        else if (!strncmp(P_op, "bss", 3) || !strcmp(P_op, "unpackb") || !strcmp(P_op, "packb") || !strcmp(P_op, "runlen")) { NEED(2); if (ok) { P_count = atoll(t[0]); P_d0 = h_unhex(t[1], &P_n0, 0, &b0); } }
        else if (!strcmp(P_op, "crc32c")) { NEED(2); if (ok) { P_a = hexu(t[0]); P_d0 = h_unhex(t[1], &P_n0, 0, &b0); } }
        else if (!strcmp(P_op, "mcopy")) { NEED(3); if (ok) { P_count = atoll(t[0]); P_a = (uint64_t)atoll(t[1]); P_d0 = h_unhex(t[2], &P_n0, 0, &b0); if (P_a > P_n0) ok = 0; } }
        else if (!strcmp(P_op, "mlen")) { NEED(2); if (ok) { P_d0 = h_unhex(t[0], &P_n0, 0, &b0); P_d1 = h_unhex(t[1], &P_n1, 0, &b1); if (P_n0 != P_n1) ok = 0; } }
        else if (!strcmp(P_op, "nonnull")) { NEED(3); if (ok) { P_count = atoll(t[0]); P_a = hexu(t[1]); P_d0 = h_unhex(t[2], &P_n0, 0, &b0); } }
        else if (!strcmp(P_op, "nullbm")) { NEED(4); if (ok) { P_count = atoll(t[0]); P_a = hexu(t[1]); P_d0 = h_unhex(t[2], &P_n0, 0, &b0); P_b = hexu(t[3]); } }
        else if (!strcmp(P_op, "filldef") || !strcmp(P_op, "mset")) { NEED(2); if (ok) { P_count = atoll(t[0]); P_a = hexu(t[1]); } }
        else if (!strcmp(P_op, "bu")) { NEED(2); if (ok) { for (size_t i = 0; i < sizeof bu_tab / sizeof bu_tab[0]; i++) if (!strcmp(bu_tab[i].name, t[0])) P_bu = &bu_tab[i]; if (!P_bu) ok = 0; else P_d0 = h_unhex(t[1], &P_n0, 0, &b0); } }
        else if (!strcmp(P_op, "mcpy")) { NEED(1); if (ok) P_d0 = h_unhex(t[0], &P_n0, 0, &b0); }
        else if (!strncmp(P_op, "bapi_", 5)) { NEED(3); if (ok) { P_count = atoll(t[0]); P_b = (uint64_t)atoll(t[1]); P_d0 = h_unhex(t[2], &P_n0, 0, &b0); } }
        else ok = 0;
        if (!ok) { puts("ERR bad-case"); free(b0); free(b1); fflush(stdout); continue; }

        size_t es, ed; op_elems(&es, &ed);
        /* alignment pairs */
        static size_t prs[64 * 64 + 8][2]; size_t np = 0;
        if (!strcmp(h_tok[2], "all")) {
            for (size_t a = 0; a < 64; a += es) for (size_t d = 0; d < 64; d += ed) { prs[np][0] = a; prs[np][1] = d; np++; }
        } else if (h_tok[2][0] == 's') {
            int k = atoi(h_tok[2] + 1); const char* c = strchr(h_tok[2], ':'); uint32_t st = c ? (uint32_t)atol(c + 1) : 1u;
            prs[np][0] = 0; prs[np][1] = 0; np++;
            prs[np][0] = 64 - es; prs[np][1] = 64 - ed; np++;
            for (int i = 0; i < k && np < 4096; i++) { prs[np][0] = (lcg(&st) % 64) / es * es; prs[np][1] = (lcg(&st) % 64) / ed * ed; np++; }
        } else {
            const char* c = strchr(h_tok[2], ':');
            prs[0][0] = (size_t)atoi(h_tok[2]) / es * es; prs[0][1] = (c ? (size_t)atoi(c + 1) : 0) / ed * ed; np = 1;
        }
        run_op(V_REF, 0, 0, &ref);
        if (ref.na) { puts("ERR unknown-op"); free(b0); free(b1); fflush(stdout); continue; }
        long calls = 0; int bad = 0;
        for (int v = 1; v < V_N && !bad; v++) {
            if (!want[v]) continue;
            for (size_t i = 0; i < np && !bad; i++) {
                run_op(v, prs[i][0], prs[i][1], &got);
                if (got.na) break;
                calls++;
                if (got.canary) {
                    printf("DIFF variant=%s sa=%zu da=%zu wrote-outside-buffer\n", vname[v], prs[i][0], prs[i][1]); bad = 1;
                } else if (big && (got.len != ref.len || memcmp(got.out, ref.out, ref.len) != 0 || got.ret != ref.ret)) {
                    size_t k = 0; while (k < got.len && k < ref.len && got.out[k] == ref.out[k]) k++;
                    printf("DIFF variant=%s sa=%zu da=%zu first-different-byte=%zu got=%02x want=%02x ret got=%" PRIx64 " want=%" PRIx64 "\n",
                           vname[v], prs[i][0], prs[i][1], k, k < got.len ? got.out[k] : 0, k < ref.len ? ref.out[k] : 0, got.ret, ref.ret);
                    bad = 1;
                } else if (got.len != ref.len || memcmp(got.out, ref.out, ref.len) != 0 || got.ret != ref.ret) {
                    printf("DIFF variant=%s sa=%zu da=%zu got=", vname[v], prs[i][0], prs[i][1]);
                    h_puthex(got.out, got.len); printf("/%" PRIx64 " want=", got.ret);
                    h_puthex(ref.out, ref.len); printf("/%" PRIx64 "\n", ref.ret);
                    bad = 1;
                }
            }
        }
        if (!bad && big) printf("OK h=%016" PRIx64 " %" PRIx64 " calls=%ld\n", fnv64(ref.out, ref.len), ref.ret, calls);
        else if (!bad) { printf("OK "); h_puthex(ref.out, ref.len); printf(" %" PRIx64 " calls=%ld\n", ref.ret, calls); }
        free(b0); free(b1);
        fflush(stdout);
    }
    free(h_line); free(ref.out); free(got.out);
    return 0;
}
