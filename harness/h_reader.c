/* Driver for the reader engine (C02, C03): writes small Parquet files with carquet's public writer
 * API (or takes file bytes in hex), then replays column-reader histories and batch-reader
 * configurations through the public reader API in one of the three I/O modes.
 *
 * One case per stdin line, one canonical result line per case.  Everything printed is content
 * (values as little-endian hex, levels, counts, bitmap bits) - never a pointer.
 *
 *   col  <mode> <verify> <file> <rg> <col> <ops>        column-reader history
 *   bat  <mode> <verify> <file> <batch_size> <proj>     batch reader, all batches
 *   meta <mode> <verify> <file>                         metadata dump
 *   zc   <mode> <verify> <file>                         carquet_reader_can_zero_copy of every chunk (+ out-of-range probes)
 *          batch_size "d" = carquet_batch_reader_create(reader, NULL); verify "d" = options NULL (modes f, b)
 *   foot <mode> <hex>                                   can these bytes be opened at all (footer location logic): OK | ERR
 *   hex  <file>                                         the bytes of the file (for footer experiments on files carquet wrote)
 *
 *   mode   f = carquet_reader_open (stdio)   m = carquet_reader_open with use_mmap   b = carquet_reader_open_buffer
 *   verify 0|1 verify_checksums, optionally followed by further carquet_reader_options_t fields:
 *          ,b<buffer_size>  ,t<num_threads>      e.g. 1,b219,t1   (fields not given keep carquet_reader_options_init's value)
 *          ,p<k> (bat only): column readers of row group 0 are created, read k values and are freed on the same handle first
 *   file   w:<codec>:<coldefs>:<rowgroups>   written with carquet_writer (page_size = 1: every write_batch = one page)
 *            coldefs   = name=type[?] , ...       type = bool|i32|i64|f32|f64|ba|fl<N>   ? = OPTIONAL
 *            rowgroups = rg | rg ...      rg = chunk ; chunk ... (one per column)   chunk = page / page ...
 *            page      = row . row ...    row = N (null) | hex bytes of the value | - (empty byte array)
 *          x:<hex>                           file bytes given directly
 *   ops    , separated:  r<k> read_batch(k) with def levels   q<k> read_batch(k) with def_levels = NULL
 *                        s<k> skip(k)   h has_next   m remaining   n free + re-create the column reader
 *   proj   all | i:<idx>,<idx>... | n:<name>,<name>... | i0 | n0 (array given, count 0 = all columns)
 *
 * Results
 *   col : OK then one token per op:  r<ret>:<row.row...>  (rows rebuilt under the documented dense convention:
 *         walk the returned definition levels, a level equal to max_def takes the next packed value)
 *         q<ret>[:rows for REQUIRED columns]   s<ret>   h<0|1>   m<remaining>   n
 *   bat : OK then  B<num_rows>[<n>:<bitmap bits>:<v.v.v>|...] per batch, E<status> at the end, L<0|1> lifetime check
 *         (fixed-width column data of every batch is re-read just before the reader is closed and compared with the copy
 *          taken when the batch was delivered; under ASan this also touches every byte of every zero-copy view)
 *         <v.v.v> are the first (number of 0 bits) packed values for OPTIONAL columns, all <n> values for REQUIRED ones
 */
#include "hcommon.h"
#include <carquet/carquet.h>
#include <unistd.h>
#include <sys/stat.h>

#define MAXCOLS 8

typedef struct { int is_null; uint8_t* bytes; size_t len; } row_t;
typedef struct { row_t* rows; int nrows; } page_t;
typedef struct { page_t* pages; int npages; } chunk_t;
typedef struct { char name[40]; int type; int nullable; int tlen; } coldef_t;
typedef struct {
    int codec, ncols, nrg;
    coldef_t cols[MAXCOLS];
    chunk_t* chunks;              /* nrg * ncols */
} filespec_t;

static char g_tmp[512];
static char* g_cur_spec = NULL;     /* spec text of the file currently on disk / in g_buf */
static uint8_t* g_buf = NULL;       /* exact-size copy of the file bytes */
static size_t g_buf_len = 0;

/* ------------------------------------------------------------------ spec parsing */

static void free_spec(filespec_t* fs) {
    if (!fs->chunks) return;
    for (int i = 0; i < fs->nrg * fs->ncols; i++) {
        for (int p = 0; p < fs->chunks[i].npages; p++) {
            for (int r = 0; r < fs->chunks[i].pages[p].nrows; r++) free(fs->chunks[i].pages[p].rows[r].bytes);
            free(fs->chunks[i].pages[p].rows);
        }
        free(fs->chunks[i].pages);
    }
    free(fs->chunks);
    fs->chunks = NULL;
}

static int count_char(const char* s, const char* e, char c) {
    int n = 0;
    for (; s < e; s++) if (*s == c) n++;
    return n;
}

static int parse_type(const char* t, coldef_t* cd) {
    size_t n = strlen(t);
    char buf[40];
    if (n >= sizeof buf) return -1;
    strcpy(buf, t);
    cd->nullable = 0; cd->tlen = 0;
    if (n && buf[n-1] == '?') { cd->nullable = 1; buf[--n] = 0; }
    if (!strcmp(buf, "bool")) cd->type = CARQUET_PHYSICAL_BOOLEAN;
    else if (!strcmp(buf, "i32")) cd->type = CARQUET_PHYSICAL_INT32;
    else if (!strcmp(buf, "i64")) cd->type = CARQUET_PHYSICAL_INT64;
    else if (!strcmp(buf, "f32")) cd->type = CARQUET_PHYSICAL_FLOAT;
    else if (!strcmp(buf, "f64")) cd->type = CARQUET_PHYSICAL_DOUBLE;
    else if (!strcmp(buf, "ba")) cd->type = CARQUET_PHYSICAL_BYTE_ARRAY;
    else if (buf[0] == 'f' && buf[1] == 'l') { cd->type = CARQUET_PHYSICAL_FIXED_LEN_BYTE_ARRAY; cd->tlen = atoi(buf + 2); if (cd->tlen <= 0) return -1; }
    else return -1;
    return 0;
}

/* split [s,e) on c into at most max pieces; returns count */
static int split_range(char* s, char* e, char c, char** starts, char** ends, int max) {
    int n = 0;
    char* p = s;
    while (n < max) {
        char* q = p;
        while (q < e && *q != c) q++;
        starts[n] = p; ends[n] = q; n++;
        if (q >= e) break;
        p = q + 1;
    }
    return n;
}

static int parse_wspec(char* s, filespec_t* fs) {
    /* s = "<codec>:<coldefs>:<rowgroups>" (modified in place) */
    memset(fs, 0, sizeof *fs);
    char* c1 = strchr(s, ':'); if (!c1) return -1;
    *c1 = 0; fs->codec = atoi(s);
    char* defs = c1 + 1;
    char* c2 = strchr(defs, ':'); if (!c2) return -1;
    *c2 = 0;
    char* rgs = c2 + 1;
    /* column definitions */
    char* p = defs;
    while (*p) {
        if (fs->ncols >= MAXCOLS) return -1;
        char* q = strchr(p, ',');
        if (q) *q = 0;
        char* eq = strchr(p, '='); if (!eq) return -1;
        *eq = 0;
        if (strlen(p) >= sizeof fs->cols[0].name) return -1;
        strcpy(fs->cols[fs->ncols].name, p);
        if (parse_type(eq + 1, &fs->cols[fs->ncols]) != 0) return -1;
        fs->ncols++;
        if (!q) break;
        p = q + 1;
    }
    if (fs->ncols == 0) return -1;
    char* end = rgs + strlen(rgs);
    fs->nrg = count_char(rgs, end, '|') + 1;
    fs->chunks = calloc((size_t)fs->nrg * fs->ncols, sizeof(chunk_t));
    char* rs[64]; char* re[64];
    if (fs->nrg > 64) return -1;
    split_range(rgs, end, '|', rs, re, 64);
    for (int g = 0; g < fs->nrg; g++) {
        char* cs[MAXCOLS + 1]; char* ce[MAXCOLS + 1];
        int nc = split_range(rs[g], re[g], ';', cs, ce, MAXCOLS + 1);
        if (nc != fs->ncols) return -1;
        for (int c = 0; c < nc; c++) {
            chunk_t* ch = &fs->chunks[g * fs->ncols + c];
            if (cs[c] == ce[c]) { ch->npages = 0; continue; }      /* empty chunk: no pages */
            int np = count_char(cs[c], ce[c], '/') + 1;
            ch->pages = calloc(np, sizeof(page_t));
            ch->npages = np;
            char** ps = malloc(sizeof(char*) * np); char** pe = malloc(sizeof(char*) * np);
            split_range(cs[c], ce[c], '/', ps, pe, np);
            for (int pg = 0; pg < np; pg++) {
                int nr = count_char(ps[pg], pe[pg], '.') + 1;
                page_t* P = &ch->pages[pg];
                P->rows = calloc(nr, sizeof(row_t));
                P->nrows = nr;
                char** xs = malloc(sizeof(char*) * nr); char** xe = malloc(sizeof(char*) * nr);
                split_range(ps[pg], pe[pg], '.', xs, xe, nr);
                for (int r = 0; r < nr; r++) {
                    row_t* R = &P->rows[r];
                    size_t L = (size_t)(xe[r] - xs[r]);
                    if (L == 1 && xs[r][0] == 'N') { R->is_null = 1; continue; }
                    if (L == 1 && xs[r][0] == '-') { R->bytes = malloc(1); R->len = 0; continue; }
                    R->len = L / 2;
                    R->bytes = malloc(R->len ? R->len : 1);
                    for (size_t i = 0; i < R->len; i++)
                        R->bytes[i] = (uint8_t)(h_hexval(xs[r][2*i]) * 16 + h_hexval(xs[r][2*i+1]));
                }
                free(xs); free(xe);
            }
            free(ps); free(pe);
        }
    }
    return 0;
}

static size_t fixed_size(int type, int tlen) {
    switch (type) {
        case CARQUET_PHYSICAL_BOOLEAN: return 1;
        case CARQUET_PHYSICAL_INT32: case CARQUET_PHYSICAL_FLOAT: return 4;
        case CARQUET_PHYSICAL_INT64: case CARQUET_PHYSICAL_DOUBLE: return 8;
        case CARQUET_PHYSICAL_INT96: return 12;
        case CARQUET_PHYSICAL_FIXED_LEN_BYTE_ARRAY: return (size_t)tlen;
        default: return 0;
    }
}

/* ------------------------------------------------------------------ writing */

static int write_file(filespec_t* fs, char* why, size_t whylen) {
    carquet_error_t err = CARQUET_ERROR_INIT;
    carquet_schema_t* schema = carquet_schema_create(&err);
    if (!schema) { snprintf(why, whylen, "schema_create"); return -1; }
    for (int c = 0; c < fs->ncols; c++) {
        carquet_status_t st = carquet_schema_add_column(schema, fs->cols[c].name, (carquet_physical_type_t)fs->cols[c].type, NULL,
            fs->cols[c].nullable ? CARQUET_REPETITION_OPTIONAL : CARQUET_REPETITION_REQUIRED, fs->cols[c].tlen);
        if (st != CARQUET_OK) { snprintf(why, whylen, "add_column %d", (int)st); carquet_schema_free(schema); return -1; }
    }
    carquet_writer_options_t wo;
    carquet_writer_options_init(&wo);
    wo.compression = (carquet_compression_t)fs->codec;
    wo.page_size = 1;                     /* every write_batch call closes its page */
    carquet_writer_t* w = carquet_writer_create(g_tmp, schema, &wo, &err);
    if (!w) { snprintf(why, whylen, "writer_create %d", (int)err.code); carquet_schema_free(schema); return -1; }
    int rc = 0;
    for (int g = 0; g < fs->nrg && rc == 0; g++) {
        for (int c = 0; c < fs->ncols && rc == 0; c++) {
            chunk_t* ch = &fs->chunks[g * fs->ncols + c];
            coldef_t* cd = &fs->cols[c];
            for (int pg = 0; pg < ch->npages && rc == 0; pg++) {
                page_t* P = &ch->pages[pg];
                int nn = 0;
                for (int r = 0; r < P->nrows; r++) if (!P->rows[r].is_null) nn++;
                int16_t* defs = malloc(sizeof(int16_t) * (P->nrows ? P->nrows : 1));
                for (int r = 0; r < P->nrows; r++) defs[r] = P->rows[r].is_null ? 0 : 1;
                void* vals;
                if (cd->type == CARQUET_PHYSICAL_BYTE_ARRAY) {
                    carquet_byte_array_t* a = malloc(sizeof(carquet_byte_array_t) * (nn ? nn : 1));
                    int k = 0;
                    for (int r = 0; r < P->nrows; r++) if (!P->rows[r].is_null) {
                        a[k].data = P->rows[r].bytes; a[k].length = (int32_t)P->rows[r].len; k++;
                    }
                    vals = a;
                } else {
                    size_t vs = fixed_size(cd->type, cd->tlen);
                    uint8_t* a = malloc(vs * (nn ? nn : 1));
                    int k = 0;
                    for (int r = 0; r < P->nrows; r++) if (!P->rows[r].is_null) {
                        if (P->rows[r].len != vs) { rc = -2; break; }
                        memcpy(a + vs * k, P->rows[r].bytes, vs); k++;
                    }
                    vals = a;
                }
                if (rc == 0) {
                    carquet_status_t st = carquet_writer_write_batch(w, c, vals, P->nrows, cd->nullable ? defs : NULL, NULL);
                    if (st != CARQUET_OK) { snprintf(why, whylen, "write_batch %d", (int)st); rc = -1; }
                } else snprintf(why, whylen, "value width does not match the column type");
                free(vals); free(defs);
            }
        }
        if (rc == 0 && g + 1 < fs->nrg) {
            carquet_status_t st = carquet_writer_new_row_group(w);
            if (st != CARQUET_OK) { snprintf(why, whylen, "new_row_group %d", (int)st); rc = -1; }
        }
    }
    if (rc == 0) {
        carquet_status_t st = carquet_writer_close(w);
        if (st != CARQUET_OK) { snprintf(why, whylen, "writer_close %d", (int)st); rc = -1; }
    } else carquet_writer_abort(w);
    carquet_schema_free(schema);
    return rc;
}

static int load_buf(void) {
    FILE* f = fopen(g_tmp, "rb");
    if (!f) return -1;
    fseek(f, 0, SEEK_END);
    long n = ftell(f);
    fseek(f, 0, SEEK_SET);
    free(g_buf);
    g_buf = malloc(n > 0 ? (size_t)n : 1);
    g_buf_len = (size_t)n;
    if (n > 0 && fread(g_buf, 1, (size_t)n, f) != (size_t)n) { fclose(f); return -1; }
    fclose(f);
    return 0;
}

/* make the file described by spec current; returns 0 or -1 with why */
static int ensure_file(const char* spec, char* why, size_t whylen) {
    if (g_cur_spec && !strcmp(g_cur_spec, spec)) return 0;
    free(g_cur_spec); g_cur_spec = NULL;
    if (spec[0] == 'w' && spec[1] == ':') {
        char* copy = strdup(spec + 2);
        filespec_t fs;
        if (parse_wspec(copy, &fs) != 0) { free_spec(&fs); free(copy); snprintf(why, whylen, "bad-spec"); return -1; }
        int rc = write_file(&fs, why, whylen);
        free_spec(&fs); free(copy);
        if (rc != 0) return -1;
        if (load_buf() != 0) { snprintf(why, whylen, "cannot read back the written file"); return -1; }
    } else if (spec[0] == 'x' && spec[1] == ':') {
        size_t n;
        void* base;
        uint8_t* b = h_unhex(spec + 2, &n, 0, &base);
        FILE* f = fopen(g_tmp, "wb");
        if (!f) { free(base); snprintf(why, whylen, "cannot create %s", g_tmp); return -1; }
        fwrite(b, 1, n, f);
        fclose(f);
        free(g_buf);
        g_buf = malloc(n ? n : 1); memcpy(g_buf, b, n); g_buf_len = n;
        free(base);
    } else { snprintf(why, whylen, "bad-file-form"); return -1; }
    g_cur_spec = strdup(spec);
    return 0;
}

/* ------------------------------------------------------------------ reading */

/* reader options of the current case beyond verify_checksums (set by parse_opts) */
static long long g_opt_buffer = -1;
static int g_opt_threads = -1;
static int g_opt_null = 0;             /* "d...": pass options = NULL (library defaults) where the API allows it */
static long long g_opt_pre = -1;       /* ",p<k>": before the batch reader is created, every chunk of row group 0 is opened
                                          with a column reader on the same reader handle, k values are read, the reader freed */

static int parse_opts(const char* tok) {
    g_opt_buffer = -1; g_opt_threads = -1; g_opt_pre = -1;
    g_opt_null = (tok[0] == 'd');
    const char* p = strchr(tok, ',');
    while (p) {
        p++;
        if (*p == 'b') g_opt_buffer = atoll(p + 1);
        else if (*p == 't') g_opt_threads = atoi(p + 1);
        else if (*p == 'p') g_opt_pre = atoll(p + 1);
        p = strchr(p, ',');
    }
    return g_opt_null ? 1 : atoi(tok);
}

static carquet_reader_t* open_reader(char mode, int verify, carquet_error_t* err) {
    carquet_reader_options_t ro;
    carquet_reader_options_init(&ro);
    ro.verify_checksums = verify ? true : false;
    if (g_opt_buffer >= 0) ro.buffer_size = (size_t)g_opt_buffer;
    if (g_opt_threads >= 0) ro.num_threads = g_opt_threads;
    if (mode == 'b') return carquet_reader_open_buffer(g_buf, g_buf_len, g_opt_null ? NULL : &ro, err);
    ro.use_mmap = (mode == 'm');
    return carquet_reader_open(g_tmp, (g_opt_null && mode == 'f') ? NULL : &ro, err);
}

typedef struct { int type; int tlen; int max_def; int max_rep; size_t vsize; } colinfo_t;

static int col_info(const carquet_reader_t* rd, int col, colinfo_t* ci) {
    const carquet_schema_t* sc = carquet_reader_schema(rd);
    int ne = carquet_schema_num_elements(sc);
    int leaf = -1;
    for (int e = 0; e < ne; e++) {
        const carquet_schema_node_t* nd = carquet_schema_get_element(sc, e);
        if (!nd || !carquet_schema_node_is_leaf(nd)) continue;
        leaf++;
        if (leaf == col) {
            ci->type = (int)carquet_schema_node_physical_type(nd);
            ci->tlen = carquet_schema_node_type_length(nd);
            /* accumulated levels of the leaf (a REQUIRED leaf inside an OPTIONAL / REPEATED group has levels too) */
            ci->max_def = (int)carquet_schema_node_max_def_level(nd);
            ci->max_rep = (int)carquet_schema_node_max_rep_level(nd);
            ci->vsize = ci->type == CARQUET_PHYSICAL_BYTE_ARRAY ? sizeof(carquet_byte_array_t) : fixed_size(ci->type, ci->tlen);
            return 0;
        }
    }
    return -1;
}

static void put_value(const colinfo_t* ci, const uint8_t* slot) {
    if (ci->type == CARQUET_PHYSICAL_BYTE_ARRAY) {
        carquet_byte_array_t a;
        memcpy(&a, slot, sizeof a);
        if (a.length < 0) { printf("!neglen"); return; }
        h_puthex(a.data, (size_t)a.length);
    } else {
        h_puthex(slot, ci->vsize);
    }
}

static void run_col(char mode, int verify, int rg, int col, char* ops) {
    carquet_error_t err = CARQUET_ERROR_INIT;
    carquet_reader_t* rd = open_reader(mode, verify, &err);
    if (!rd) { printf("ERR open %d\n", (int)err.code); return; }
    if (mode == 'm' && !carquet_reader_is_mmap(rd)) { printf("ERR mmap-not-active\n"); carquet_reader_close(rd); return; }
    colinfo_t ci;
    if (col_info(rd, col, &ci) != 0) {
        /* no such leaf: the library must refuse it */
        carquet_column_reader_t* cr0 = carquet_reader_get_column(rd, rg, col, &err);
        if (cr0) { printf("ERR no-such-column-accepted\n"); carquet_column_reader_free(cr0); }
        else printf("ERR get_column %d\n", (int)err.code);
        carquet_reader_close(rd);
        return;
    }
    carquet_column_reader_t* cr = carquet_reader_get_column(rd, rg, col, &err);
    if (!cr) { printf("ERR get_column %d\n", (int)err.code); carquet_reader_close(rd); return; }
    printf("OK");
    char* p = ops;
    while (*p) {
        char* q = strchr(p, ',');
        if (q) *q = 0;
        char op = p[0];
        long long k = (p[1]) ? atoll(p + 1) : 0;
        if (op == 'r' || op == 'q') {
            int with_def = (op == 'r');
            /* exact-size heap buffers: writing past max_values entries is an ASan report */
            size_t nb = (size_t)(k > 0 ? k : 0) * ci.vsize;
            /* huge requests (>= 256 MiB of slots): untouched zero pages instead of a pattern fill */
            uint8_t* vals = nb > ((size_t)1 << 28) ? calloc(nb, 1) : malloc(nb ? nb : 1);
            if (!vals) { printf(" !alloc"); break; }
            if (nb <= ((size_t)1 << 28)) memset(vals, 0xA5, nb ? nb : 1);
            int16_t* defs = with_def ? malloc(sizeof(int16_t) * (size_t)(k > 0 ? k : 1)) : NULL;
            if (defs) for (long long i = 0; i < (k > 0 ? k : 1); i++) defs[i] = 0x5A5A;
            int nested = (ci.max_def > 1 || ci.max_rep > 0);
            /* flat columns too: the levels handed back for them (all must be 0 where the maximum is 0) are checked below */
            int16_t* reps = with_def ? malloc(sizeof(int16_t) * (size_t)(k > 0 ? k : 1)) : NULL;
            if (reps) for (long long i = 0; i < (k > 0 ? k : 1); i++) reps[i] = 0x5A5A;
            int64_t ret = carquet_column_read_batch(cr, vals, k, defs, reps);
            printf(" %c%lld", op, (long long)ret);
            if (ret > 0 && ret <= k && with_def && nested) {
                /* nested column: definition levels / repetition levels / packed values (level == max_def has one) */
                putchar(':');
                int64_t dense = 0;
                for (int64_t i = 0; i < ret; i++) { if (i) putchar('.'); printf("%d", (int)defs[i]); if (defs[i] == ci.max_def) dense++; }
                putchar('/');
                for (int64_t i = 0; i < ret; i++) { if (i) putchar('.'); printf("%d", reps ? (int)reps[i] : 0); }
                putchar('/');
                if (dense == 0) putchar('-');
                for (int64_t i = 0; i < dense; i++) { if (i) putchar('.'); put_value(&ci, vals + (size_t)i * ci.vsize); }
            } else
            if (ret > 0 && ret <= k && (with_def || ci.max_def == 0)) {
                putchar(':');
                int64_t dense = 0;
                for (int64_t i = 0; i < ret; i++) {
                    if (i) putchar('.');
                    int present = ci.max_def == 0 ? 1 : (defs[i] == ci.max_def);
                    if (ci.max_def > 0 && defs[i] != ci.max_def && defs[i] != 0) { printf("!lvl%d", (int)defs[i]); continue; }
                    if (!present) { putchar('N'); continue; }
                    put_value(&ci, vals + (size_t)dense * ci.vsize);
                    dense++;
                }
            }
            if (ret > 0 && ret <= k && with_def && !nested) {
                /* a level above its maximum can never be legal: REQUIRED flat column => every definition level 0,
                   any flat column => every repetition level 0 (printed only when violated) */
                for (int64_t i = 0; i < ret; i++) {
                    if (ci.max_def == 0 && defs[i] != 0) { printf("!reqdef[%lld]=%d", (long long)i, (int)defs[i]); break; }
                    if (reps && reps[i] != 0) { printf("!flatrep[%lld]=%d", (long long)i, (int)reps[i]); break; }
                }
            }
            free(reps);
            free(vals); free(defs);
        } else if (op == 's') {
            int64_t ret = carquet_column_skip(cr, k);
            printf(" s%lld", (long long)ret);
        } else if (op == 'h') {
            printf(" h%d", carquet_column_has_next(cr) ? 1 : 0);
        } else if (op == 'm') {
            printf(" m%lld", (long long)carquet_column_remaining(cr));
        } else if (op == 'n') {
            carquet_column_reader_free(cr);
            cr = carquet_reader_get_column(rd, rg, col, &err);
            if (!cr) { printf(" !get_column %d\n", (int)err.code); carquet_reader_close(rd); return; }
            printf(" n");
        } else {
            printf(" ?");
        }
        if (!q) break;
        p = q + 1;
    }
    putchar('\n');
    carquet_column_reader_free(cr);
    carquet_reader_close(rd);
}

typedef struct { const uint8_t* live; uint8_t* copy; size_t n; } keep_t;

static void run_bat(char mode, int verify, const char* bs_tok, char* proj) {
    int batch_size = atoi(bs_tok);
    int null_cfg = (bs_tok[0] == 'd');          /* carquet_batch_reader_create(reader, NULL): default batch size, all columns */
    carquet_error_t err = CARQUET_ERROR_INIT;
    carquet_reader_t* rd = open_reader(mode, verify, &err);
    if (!rd) { printf("ERR open %d\n", (int)err.code); return; }
    if (mode == 'm' && !carquet_reader_is_mmap(rd)) { printf("ERR mmap-not-active\n"); carquet_reader_close(rd); return; }
    carquet_batch_reader_config_t cfg;
    carquet_batch_reader_config_init(&cfg);
    cfg.batch_size = batch_size;
    cfg.use_mmap = (mode == 'm');
    { const char* th = getenv("H_THREADS"); cfg.num_threads = th ? atoi(th) : 2; }   /* sequential semantics are C02's subject; C07 owns scheduling */
    if (g_opt_threads >= 0) cfg.num_threads = g_opt_threads;
    int32_t idx[MAXCOLS * 2]; const char* names[MAXCOLS * 2]; int np = 0;
    int pcols[MAXCOLS * 2]; int npc = 0;           /* file column index of each projected column */
    int ncols = carquet_reader_num_columns(rd);
    const carquet_schema_t* sc = carquet_reader_schema(rd);
    if (!strcmp(proj, "all") || !strcmp(proj, "i0") || !strcmp(proj, "n0")) {
        for (int c = 0; c < ncols && c < MAXCOLS * 2; c++) pcols[npc++] = c;
        /* i0 / n0: the projection array is given (non-NULL) but its count is 0: all columns */
        if (proj[0] == 'i') { idx[0] = 0; cfg.column_indices = idx; cfg.num_columns = 0; }
        if (proj[0] == 'n') { names[0] = "x"; cfg.column_names = names; cfg.num_column_names = 0; }
    } else if (proj[0] == 'i' && proj[1] == ':') {
        char* p = proj + 2;
        while (*p && np < MAXCOLS * 2) { idx[np] = atoi(p); pcols[npc++] = idx[np]; np++; char* q = strchr(p, ','); if (!q) break; p = q + 1; }
        cfg.column_indices = idx; cfg.num_columns = np;
    } else if (proj[0] == 'n' && proj[1] == ':') {
        char* p = proj + 2;
        while (*p && np < MAXCOLS * 2) {
            char* q = strchr(p, ','); if (q) *q = 0;
            names[np] = p;
            pcols[npc++] = carquet_schema_find_column(sc, p);
            np++;
            if (!q) break;
            p = q + 1;
        }
        cfg.column_names = names; cfg.num_column_names = np;
    } else { printf("ERR bad-proj\n"); carquet_reader_close(rd); return; }
    colinfo_t ci[MAXCOLS * 2];
    int blind = 0;       /* a projection by index names a column the file does not have: accepted at create, the first next must fail */
    for (int i = 0; i < npc; i++) {
        if (proj[0] == 'i' && (pcols[i] < 0 || pcols[i] >= ncols)) { blind = 1; continue; }
        if (pcols[i] < 0 || pcols[i] >= ncols || col_info(rd, pcols[i], &ci[i]) != 0) {
            /* let the library decide what to do with a projection it cannot resolve */
            carquet_batch_reader_t* br0 = carquet_batch_reader_create(rd, &cfg, &err);
            if (!br0) printf("ERR create %d\n", (int)err.code);
            else { printf("ERR unresolvable-projection-accepted\n"); carquet_batch_reader_free(br0); }
            carquet_reader_close(rd);
            return;
        }
    }
    if (g_opt_pre >= 0 && carquet_reader_num_row_groups(rd) > 0) {
        /* other column readers of the same chunks lived on this reader handle before: nothing they did may remain */
        for (int c = 0; c < ncols; c++) {
            colinfo_t pc;
            if (col_info(rd, c, &pc) != 0) continue;
            carquet_column_reader_t* cr = carquet_reader_get_column(rd, 0, c, &err);
            if (!cr) continue;
            long long k = g_opt_pre > 0 ? g_opt_pre : 1;
            void* v = malloc((size_t)k * pc.vsize); int16_t* d = malloc(sizeof(int16_t) * (size_t)k); int16_t* r = malloc(sizeof(int16_t) * (size_t)k);
            if (g_opt_pre > 0) { int64_t got = carquet_column_read_batch(cr, v, k, d, r); (void)got; }
            free(v); free(d); free(r);
            carquet_column_reader_free(cr);
        }
    }
    carquet_batch_reader_t* br = carquet_batch_reader_create(rd, null_cfg ? NULL : &cfg, &err);
    if (!br) { printf("ERR create %d\n", (int)err.code); carquet_reader_close(rd); return; }
    printf("OK");
    /* every batch of a correct reader has at least one row, except one per empty row group */
    long long MAXB = (long long)carquet_reader_num_rows(rd) + 2LL * carquet_reader_num_row_groups(rd) + 4;
    if (MAXB > 4096) MAXB = 4096;
    if (MAXB < 8) MAXB = 8;
    carquet_row_batch_t** kept = calloc(MAXB, sizeof *kept);
    keep_t* keeps = calloc((size_t)MAXB * MAXCOLS * 2, sizeof *keeps);
    int nkept = 0, nkeeps = 0;
    carquet_status_t st = CARQUET_OK;
    for (;;) {
        carquet_row_batch_t* b = NULL;
        st = carquet_batch_reader_next(br, &b);
        if (st != CARQUET_OK || !b) break;
        if (nkept >= MAXB) { printf(" !too-many-batches"); carquet_row_batch_free(b); break; }
        if (blind) { printf(" !batch-for-a-column-the-file-does-not-have"); carquet_row_batch_free(b); break; }
        kept[nkept++] = b;
        {   /* a column index outside the batch must be refused */
            const void* d0 = NULL; const uint8_t* b0 = NULL; int64_t n0 = 0;
            if (carquet_row_batch_column(b, carquet_row_batch_num_columns(b), &d0, &b0, &n0) == CARQUET_OK ||
                carquet_row_batch_column(b, -1, &d0, &b0, &n0) == CARQUET_OK) printf(" !column-index-outside-batch-accepted");
        }
        int64_t nr = carquet_row_batch_num_rows(b);
        int32_t nc = carquet_row_batch_num_columns(b);
        printf(" B%lld[", (long long)nr);
        for (int c = 0; c < nc; c++) {
            const void* data = NULL; const uint8_t* bm = NULL; int64_t n = 0;
            if (c) putchar('|');
            carquet_status_t s2 = carquet_row_batch_column(b, c, &data, &bm, &n);
            if (s2 != CARQUET_OK || c >= npc) { printf("!col%d", (int)s2); continue; }
            printf("%lld:", (long long)n);
            int64_t zeros = 0;
            if (n == 0) putchar('-');
            for (int64_t i = 0; i < n; i++) {
                int bit = bm ? ((bm[i / 8] >> (i % 8)) & 1) : 0;
                putchar(bm ? ('0' + bit) : 'x');
                if (!bit) zeros++;
            }
            putchar(':');
            int64_t nv = ci[c].max_def > 0 ? zeros : n;
            if (nv == 0 || !data) putchar('-');
            for (int64_t i = 0; i < nv && data; i++) {
                if (i) putchar('.');
                put_value(&ci[c], (const uint8_t*)data + (size_t)i * ci[c].vsize);
            }
            if (data && nv > 0 && ci[c].type != CARQUET_PHYSICAL_BYTE_ARRAY) {
                keep_t* k = &keeps[nkeeps++];
                k->live = data; k->n = (size_t)nv * ci[c].vsize;
                k->copy = malloc(k->n); memcpy(k->copy, data, k->n);
            }
        }
        putchar(']');
    }
    printf(" E%d", (int)st);
    /* lifetime: everything handed out (owned or zero-copy view) must still hold the delivered bytes now */
    int same = 1;
    for (int i = 0; i < nkeeps; i++) if (memcmp(keeps[i].live, keeps[i].copy, keeps[i].n) != 0) same = 0;
    printf(" L%d\n", same);
    for (int i = 0; i < nkeeps; i++) free(keeps[i].copy);
    for (int i = 0; i < nkept; i++) carquet_row_batch_free(kept[i]);
    free(keeps); free(kept);
    carquet_batch_reader_free(br);
    carquet_reader_close(rd);
}

/* carquet_reader_can_zero_copy for every chunk, plus probes outside the file's row groups / columns */
static void run_zc(char mode, int verify) {
    carquet_error_t err = CARQUET_ERROR_INIT;
    carquet_reader_t* rd = open_reader(mode, verify, &err);
    if (!rd) { printf("ERR open %d\n", (int)err.code); return; }
    int ncols = carquet_reader_num_columns(rd), nrg = carquet_reader_num_row_groups(rd);
    printf("OK mmap=%d", carquet_reader_is_mmap(rd) ? 1 : 0);
    for (int g = 0; g < nrg; g++)
        for (int c = 0; c < ncols; c++) printf(" g%dc%d=%d", g, c, carquet_reader_can_zero_copy(rd, g, c) ? 1 : 0);
    printf(" out=%d%d%d%d", carquet_reader_can_zero_copy(rd, -1, 0) ? 1 : 0, carquet_reader_can_zero_copy(rd, nrg, 0) ? 1 : 0,
           carquet_reader_can_zero_copy(rd, 0, -1) ? 1 : 0, carquet_reader_can_zero_copy(rd, 0, ncols) ? 1 : 0);
    putchar('\n');
    carquet_reader_close(rd);
}

static void run_meta(char mode, int verify) {
    carquet_error_t err = CARQUET_ERROR_INIT;
    carquet_reader_t* rd = open_reader(mode, verify, &err);
    if (!rd) { printf("ERR open %d\n", (int)err.code); return; }
    if (mode == 'm' && !carquet_reader_is_mmap(rd)) { printf("ERR mmap-not-active\n"); carquet_reader_close(rd); return; }
    const carquet_schema_t* sc = carquet_reader_schema(rd);
    int ncols = carquet_reader_num_columns(rd);
    int nrg = carquet_reader_num_row_groups(rd);
    printf("OK rows=%lld rgs=%d cols=%d elems=%d", (long long)carquet_reader_num_rows(rd), nrg, ncols, carquet_schema_num_elements(sc));
    int ne = carquet_schema_num_elements(sc);
    for (int e = 0; e < ne; e++) {
        const carquet_schema_node_t* nd = carquet_schema_get_element(sc, e);
        if (!nd) { printf(" e%d=null", e); continue; }
        int leaf = carquet_schema_node_is_leaf(nd);
        printf(" e%d=%s:%d:%d:%d:%d", e, carquet_schema_node_name(nd), leaf,
               leaf ? (int)carquet_schema_node_physical_type(nd) : -1, (int)carquet_schema_node_repetition(nd),
               leaf ? carquet_schema_node_type_length(nd) : 0);
        if (leaf) printf(":%d:%d:f%d", (int)carquet_schema_node_max_def_level(nd), (int)carquet_schema_node_max_rep_level(nd),
                         carquet_schema_find_column(sc, carquet_schema_node_name(nd)));
    }
    for (int g = 0; g < nrg; g++) {
        carquet_row_group_metadata_t m;
        memset(&m, 0, sizeof m);
        carquet_status_t st = carquet_reader_row_group_metadata(rd, g, &m);
        printf(" g%d=%d:%lld:%lld:%lld", g, (int)st, (long long)m.num_rows, (long long)m.total_byte_size, (long long)m.total_compressed_size);
        for (int c = 0; c < ncols; c++) {
            carquet_column_reader_t* cr = carquet_reader_get_column(rd, g, c, &err);
            if (!cr) { printf(" g%dc%d=!%d", g, c, (int)err.code); continue; }
            printf(" g%dc%d=%lld:%d", g, c, (long long)carquet_column_remaining(cr), carquet_column_has_next(cr) ? 1 : 0);
            carquet_column_reader_free(cr);
            carquet_column_statistics_t cs;
            memset(&cs, 0, sizeof cs);
            carquet_status_t s3 = carquet_reader_column_statistics(rd, g, c, &cs);
            printf(":%d:%d:%lld", (int)s3, cs.has_null_count ? 1 : 0, cs.has_null_count ? (long long)cs.null_count : 0LL);
        }
    }
    {   /* row groups outside the file must be refused */
        carquet_row_group_metadata_t m;
        memset(&m, 0, sizeof m);
        printf(" gx=%d:%d", (int)carquet_reader_row_group_metadata(rd, -1, &m), (int)carquet_reader_row_group_metadata(rd, nrg, &m));
    }
    putchar('\n');
    carquet_reader_close(rd);
}

int main(void) {
    const char* d = getenv("H_TMP");
    if (!d || !*d) d = "/verif/build/tmp";
    mkdir(d, 0777);
    snprintf(g_tmp, sizeof g_tmp, "%s/hr_%ld.parquet", d, (long)getpid());
    (void)carquet_init();
    while (h_readline()) {
        h_split();
        char why[200] = "";
        if (h_ntok == 0) { puts("ERR empty"); fflush(stdout); continue; }
        if (!strcmp(h_tok[0], "col") && h_ntok == 7) {
            if (ensure_file(h_tok[3], why, sizeof why) != 0) printf("ERR file %s\n", why);
            else run_col(h_tok[1][0], parse_opts(h_tok[2]), atoi(h_tok[4]), atoi(h_tok[5]), h_tok[6]);
        } else if (!strcmp(h_tok[0], "bat") && h_ntok == 6) {
            if (ensure_file(h_tok[3], why, sizeof why) != 0) printf("ERR file %s\n", why);
            else run_bat(h_tok[1][0], parse_opts(h_tok[2]), h_tok[4], h_tok[5]);
        } else if (!strcmp(h_tok[0], "zc") && h_ntok == 4) {
            if (ensure_file(h_tok[3], why, sizeof why) != 0) printf("ERR file %s\n", why);
            else run_zc(h_tok[1][0], parse_opts(h_tok[2]));
        } else if (!strcmp(h_tok[0], "meta") && h_ntok == 4) {
            if (ensure_file(h_tok[3], why, sizeof why) != 0) printf("ERR file %s\n", why);
            else run_meta(h_tok[1][0], parse_opts(h_tok[2]));
        } else if (!strcmp(h_tok[0], "hex") && h_ntok == 2) {
            if (ensure_file(h_tok[1], why, sizeof why) != 0) printf("ERR file %s\n", why);
            else { printf("OK "); h_puthex(g_buf, g_buf_len); putchar('\n'); }
        } else if (!strcmp(h_tok[0], "foot") && h_ntok == 3) {
            size_t L = strlen(h_tok[2]);
            char* spec = malloc(L + 3);
            spec[0] = 'x'; spec[1] = ':'; memcpy(spec + 2, h_tok[2], L + 1);
            if (ensure_file(spec, why, sizeof why) != 0) printf("ERR file %s\n", why);
            else {
                carquet_error_t err = CARQUET_ERROR_INIT;
                g_opt_buffer = -1; g_opt_threads = -1; g_opt_null = 0;
                carquet_reader_t* rd = open_reader(h_tok[1][0], 1, &err);
                if (rd) { puts("OK"); carquet_reader_close(rd); } else puts("ERR");
            }
            free(spec);
        } else {
            puts("ERR unknown-op");
        }
        fflush(stdout);
    }
    unlink(g_tmp);
    free(g_cur_spec); free(g_buf); free(h_line);
    return 0;
}
