/* Driver for the conc engine (C07): carquet's batch reader under forced / perturbed / free thread
 * schedules, independent readers from several pthreads, concurrent first use of the library.
 * One case per input line, one canonical result line per case.
 *
 * Test files are written here through carquet's public writer API (deterministic content from a
 * seed); every comparison is against the num_threads = 1 run of the SAME file in the SAME I/O mode.
 *
 * Forced schedules use the CARQUET_VERIF hook `carquet_verif_io_yield` (src/reader/page_reader.c),
 * which the library calls between an fseek on the reader's FILE* and the fread that relies on it.
 * A thread that reaches the hook ("gate") is parked; the schedule is the order in which parked
 * threads are released.  Between two releases exactly one thread runs (its fread, its private
 * decoding, its next fseek), so a release order is a deterministic interleaving of the
 * seek / read actions of the BatchConc model.
 *
 *   mk     <file...>                                   write the file if missing          -> OK <size>
 *   gates  <file...> <mode> <batch>                    gate structure of the 1-thread run  -> OK calls=.. P=.. M=.. ppar=..
 *   batch  <file...> <mode> <batch> <nthr> <sched>     sched: - | jit:<seed> | f:<tokens>   -> OK eq=.. st=.. ...
 *   indep  <file...> <mode> <batch> <N> <inner>        N pthreads, one reader each, concurrently, then alone
 *   <file...> = <dir> <codec> <types> <nrg> <npages> <rpp> <seed>
 */
#define _GNU_SOURCE
#include "hcommon.h"
#include <carquet/carquet.h>
#include "reader/reader_internal.h"
#include <pthread.h>
#include <time.h>
#include <errno.h>
#include <unistd.h>
#include <sys/stat.h>
#ifdef _OPENMP
#include <omp.h>
#else
static int omp_in_parallel(void) { return 0; }
#endif

#ifdef VERIF_COV
extern void __gcov_dump(void);
#define COV_FLUSH() __gcov_dump()
#else
#define COV_FLUSH() ((void)0)
#endif

#ifdef CARQUET_VERIF
extern void (*carquet_verif_io_yield)(int site, int row_group, int column);
#define HAVE_HOOK 1
#else
static void (*carquet_verif_io_yield)(int, int, int);
#define HAVE_HOOK 0
#endif

/* ------------------------------------------------------------------------------------------ util */
static uint64_t splitmix(uint64_t x) {
    x += 0x9E3779B97F4A7C15ull;
    x = (x ^ (x >> 30)) * 0xBF58476D1CE4E5B9ull;
    x = (x ^ (x >> 27)) * 0x94D049BB133111EBull;
    return x ^ (x >> 31);
}
static uint64_t fnv(uint64_t h, const void* p, size_t n) {
    const uint8_t* b = (const uint8_t*)p;
    for (size_t i = 0; i < n; i++) { h ^= b[i]; h *= 0x100000001B3ull; }
    return h;
}
#define FNV0 0xCBF29CE484222325ull

/* ------------------------------------------------------------------------------------ file spec */
typedef struct {
    const char* dir; int codec; const char* types; int nrg, npages, rpp; uint64_t seed;
    char path[600];
    int ncols;
} fspec_t;

static int parse_fspec(fspec_t* f, int t0) {
    if (h_ntok < t0 + 7) return -1;
    f->dir = h_tok[t0]; f->codec = atoi(h_tok[t0+1]); f->types = h_tok[t0+2];
    f->nrg = atoi(h_tok[t0+3]); f->npages = atoi(h_tok[t0+4]); f->rpp = atoi(h_tok[t0+5]);
    f->seed = strtoull(h_tok[t0+6], NULL, 10);
    f->ncols = (int)strlen(f->types);
    if (f->dir[0] == '@') snprintf(f->path, sizeof f->path, "%s", f->dir + 1);   /* an existing file, e.g. of tools/pq.py */
    else snprintf(f->path, sizeof f->path, "%s/c%d_%s_%d_%d_%d_%llu.parquet", f->dir, f->codec, f->types,
             f->nrg, f->npages, f->rpp, (unsigned long long)f->seed);
    return t0 + 7;
}

static int type_optional(char t) { return t >= 'A' && t <= 'Z'; }
static carquet_physical_type_t type_phys(char t) {
    switch (t | 0x20) {
        case 'i': return CARQUET_PHYSICAL_INT32;
        case 'l': return CARQUET_PHYSICAL_INT64;
        case 'd': return CARQUET_PHYSICAL_DOUBLE;
        case 'f': return CARQUET_PHYSICAL_FLOAT;
        case 'b': return CARQUET_PHYSICAL_BYTE_ARRAY;
        case 'o': return CARQUET_PHYSICAL_BOOLEAN;
        case 'x': return CARQUET_PHYSICAL_FIXED_LEN_BYTE_ARRAY;
        default:  return CARQUET_PHYSICAL_INT32;
    }
}
static size_t type_size(char t) {
    switch (t | 0x20) {
        case 'i': case 'f': return 4;
        case 'l': case 'd': return 8;
        case 'b': return sizeof(carquet_byte_array_t);
        case 'o': return 1;
        case 'x': return 8;
        default: return 4;
    }
}

/* Write the file described by f (page_size = 1 so that every write_batch closes one page). */
static int make_file(const fspec_t* f) {
    struct stat sb;
    if (f->dir[0] == '@') return stat(f->path, &sb) == 0 ? 0 : -9;
    if (stat(f->path, &sb) == 0 && sb.st_size > 12) return 0;
    char tmp[700];
    snprintf(tmp, sizeof tmp, "%s.tmp%d", f->path, (int)getpid());
    carquet_error_t err = CARQUET_ERROR_INIT;
    carquet_schema_t* sc = carquet_schema_create(&err);
    if (!sc) return -1;
    for (int c = 0; c < f->ncols; c++) {
        char name[16]; snprintf(name, sizeof name, "c%d", c);
        if (carquet_schema_add_column(sc, name, type_phys(f->types[c]), NULL,
                type_optional(f->types[c]) ? CARQUET_REPETITION_OPTIONAL : CARQUET_REPETITION_REQUIRED, (f->types[c] | 0x20) == 'x' ? 8 : 0) != CARQUET_OK) {
            carquet_schema_free(sc); return -2;
        }
    }
    carquet_writer_options_t wo; carquet_writer_options_init(&wo);
    wo.compression = (carquet_compression_t)f->codec;
    wo.page_size = 1;
    carquet_writer_t* w = carquet_writer_create(tmp, sc, &wo, &err);
    if (!w) { carquet_schema_free(sc); return -3; }
    int rpp = f->rpp;
    int16_t* def = malloc(sizeof(int16_t) * (size_t)rpp);
    uint8_t* vals = malloc(16 * (size_t)rpp);
    char* strs = malloc(24 * (size_t)rpp);
    int rc = 0;
    for (int g = 0; g < f->nrg && !rc; g++) {
        for (int p = 0; p < f->npages && !rc; p++) {
            for (int c = 0; c < f->ncols && !rc; c++) {
                char t = f->types[c]; int opt = type_optional(t); size_t vs = type_size(t);
                int nv = 0;
                for (int r = 0; r < rpp; r++) {
                    uint64_t row = ((uint64_t)g * (uint64_t)f->npages + (uint64_t)p) * (uint64_t)rpp + (uint64_t)r;
                    uint64_t x = splitmix(f->seed * 1000003ull + (uint64_t)c * 7919ull + row * 31ull);
                    int present = !opt || (x % 5) != 0;
                    def[r] = present ? 1 : 0;
                    if (!present) continue;
                    uint64_t v = splitmix(x);
                    switch (t | 0x20) {
                        case 'i': { int32_t y = (int32_t)(v % 1000u) + c * 100000; memcpy(vals + vs * nv, &y, 4); break; }
                        case 'f': { float y = (float)(v % 4096u) + (float)c * 0.5f; memcpy(vals + vs * nv, &y, 4); break; }
                        case 'l': { int64_t y = (int64_t)(v % 100000u) + (int64_t)c * 1000000000ll; memcpy(vals + vs * nv, &y, 8); break; }
                        case 'd': { double y = (double)(v % 65536u) / 4.0 + (double)c; memcpy(vals + vs * nv, &y, 8); break; }
                        case 'o': { vals[nv] = (uint8_t)(v & 1); break; }
                        case 'x': { memcpy(vals + vs * nv, &v, 8); break; }
                        case 'b': {
                            carquet_byte_array_t ba; char* s = strs + 24 * nv;
                            int L = snprintf(s, 24, "c%d-%llu", c, (unsigned long long)(v % 100000u));
                            ba.data = (uint8_t*)s; ba.length = L; memcpy(vals + vs * nv, &ba, sizeof ba); break;
                        }
                    }
                    nv++;
                }
                carquet_status_t st = carquet_writer_write_batch(w, c, vals, rpp, opt ? def : NULL, NULL);
                if (st != CARQUET_OK) rc = -10 - (int)st;
            }
        }
        if (!rc && g + 1 < f->nrg) { if (carquet_writer_new_row_group(w) != CARQUET_OK) rc = -4; }
    }
    free(def); free(vals); free(strs);
    if (rc) { carquet_writer_abort(w); carquet_schema_free(sc); return rc; }
    carquet_status_t st = carquet_writer_close(w);
    carquet_schema_free(sc);
    if (st != CARQUET_OK) { remove(tmp); return -5; }
    if (rename(tmp, f->path) != 0) { remove(tmp); return -6; }
    return 0;
}

/* ------------------------------------------------------------------------------- gate controller */
#define MAXC 16
#define MAXCALLS 64
enum { GM_OFF = 0, GM_LOG = 1, GM_FORCED = 2, GM_JITTER = 3 };
typedef struct { int call, col, site; long pos; } gate_ev;
static struct {
    int mode;
    pthread_mutex_t mu; pthread_cond_t cv;
    FILE* file;
    int ncols, cur_call;
    int expP[MAXCALLS][MAXC], expM[MAXCALLS][MAXC]; int ncalls_exp;
    int passed[MAXC], parked[MAXC];
    const char* tokens; size_t ti, ntok;
    int deviated;
    int inflight_col; long inflight_pos;
    gate_ev* log; size_t nlog, caplog;
    uint64_t jit; unsigned ctr;
    int timeout_ms;
} G = { .mu = PTHREAD_MUTEX_INITIALIZER, .cv = PTHREAD_COND_INITIALIZER, .timeout_ms = 250 };
static int g_fast_deviations = 0;  /* consecutive forced cases whose very first wait timed out */

static void glog(int col, int site, long pos) {
    if (G.nlog == G.caplog) { G.caplog = G.caplog ? G.caplog * 2 : 256; G.log = realloc(G.log, G.caplog * sizeof(gate_ev)); if (!G.log) abort(); }
    G.log[G.nlog++] = (gate_ev){ G.cur_call, col, site, pos };
}

static int others_quiet(int col) {
    int call = G.cur_call;
    if (call >= G.ncalls_exp) return 0;
    int inP = G.passed[col] < G.expP[call][col];
    for (int c = 0; c < G.ncols; c++) {
        if (c == col) continue;
        int tgt = inP ? G.expP[call][c] : G.expP[call][c] + G.expM[call][c];
        if (G.passed[c] >= tgt) continue;
        if (!G.parked[c]) return 0;
    }
    return 1;
}
static int inflight_done(void) {
    if (G.inflight_col < 0) return 1;
    if (G.parked[G.inflight_col]) return 1;
    return G.file && ftell(G.file) != G.inflight_pos;
}

static void gate_cb(int site, int rg, int col) {
    (void)rg;
    if (G.mode == GM_OFF) return;
    if (G.mode == GM_JITTER) {
        unsigned k = __atomic_fetch_add(&G.ctr, 1, __ATOMIC_RELAXED);
        uint64_t r = splitmix(G.jit + k);
        if ((r & 7) < 5) { struct timespec ts = { 0, (long)((r >> 40) % 400000) }; nanosleep(&ts, NULL); }
        else if ((r & 7) == 5) sched_yield();
        return;
    }
    pthread_mutex_lock(&G.mu);
    if (col < 0 || col >= MAXC) { pthread_mutex_unlock(&G.mu); return; }
    if (G.mode == GM_LOG || !omp_in_parallel() || G.deviated) {
        glog(col, site, G.file ? ftell(G.file) : -1);
        G.passed[col]++;
        pthread_mutex_unlock(&G.mu);
        return;
    }
    G.parked[col] = 1;
    pthread_cond_broadcast(&G.cv);
    struct timespec dl; clock_gettime(CLOCK_REALTIME, &dl);
    long ms = G.timeout_ms;
    dl.tv_sec += ms / 1000; dl.tv_nsec += (ms % 1000) * 1000000L;
    if (dl.tv_nsec >= 1000000000L) { dl.tv_sec++; dl.tv_nsec -= 1000000000L; }
    int consumed = 0;
    for (;;) {
        if (G.deviated) break;
        if (G.ti < G.ntok && G.tokens[G.ti] - '0' == col && others_quiet(col) && inflight_done()) { consumed = 1; break; }
        struct timespec now; clock_gettime(CLOCK_REALTIME, &now);
        if (now.tv_sec > dl.tv_sec || (now.tv_sec == dl.tv_sec && now.tv_nsec >= dl.tv_nsec)) {
            G.deviated = 1 + (int)G.ti;  /* remembers how far the schedule got */
            break;
        }
        struct timespec w = now; w.tv_nsec += 300000L; if (w.tv_nsec >= 1000000000L) { w.tv_sec++; w.tv_nsec -= 1000000000L; }
        pthread_cond_timedwait(&G.cv, &G.mu, &w);
    }
    G.parked[col] = 0;
    long pos = G.file ? ftell(G.file) : -1;
    glog(col, site, pos);
    G.passed[col]++;
    if (consumed) G.ti++;
    G.inflight_col = col; G.inflight_pos = pos;
    pthread_cond_broadcast(&G.cv);
    pthread_mutex_unlock(&G.mu);
}

static void gate_reset(int mode, FILE* file, int ncols) {
    G.mode = mode; G.file = file; G.ncols = ncols; G.cur_call = 0; G.nlog = 0;
    memset(G.passed, 0, sizeof G.passed); memset(G.parked, 0, sizeof G.parked);
    G.ti = 0; G.deviated = 0; G.inflight_col = -1; G.ctr = 0;
}

/* ------------------------------------------------------------------------------------- reading */
enum { MODE_FREAD = 0, MODE_MMAP = 1, MODE_BUFFER = 2, MODE_FILEH = 3 };
static int parse_mode(const char* s) {
    if (!strcmp(s, "fread")) return MODE_FREAD;
    if (!strcmp(s, "mmap")) return MODE_MMAP;
    if (!strcmp(s, "buffer")) return MODE_BUFFER;
    if (!strcmp(s, "fileh")) return MODE_FILEH;
    return -1;
}
typedef struct { carquet_reader_t* r; uint8_t* buf; size_t buflen; FILE* fh; } opened_t;

static int open_mode(const char* path, int mode, opened_t* o, int* code) {
    memset(o, 0, sizeof *o);
    carquet_error_t err = CARQUET_ERROR_INIT;
    carquet_reader_options_t ro; carquet_reader_options_init(&ro);
    if (mode == MODE_FREAD) {
        o->r = carquet_reader_open(path, &ro, &err);
    } else if (mode == MODE_MMAP) {
        ro.use_mmap = true;
        o->r = carquet_reader_open(path, &ro, &err);
    } else if (mode == MODE_FILEH) {
        *code = -3; return -1;   /* carquet_reader_open_file is declared in carquet.h but not implemented */
    } else {
        FILE* f = fopen(path, "rb");
        if (!f) { *code = -1; return -1; }
        fseek(f, 0, SEEK_END); long n = ftell(f); fseek(f, 0, SEEK_SET);
        o->buf = malloc((size_t)n); o->buflen = (size_t)n;
        if (!o->buf || fread(o->buf, 1, (size_t)n, f) != (size_t)n) { fclose(f); *code = -2; return -1; }
        fclose(f);
        o->r = carquet_reader_open_buffer(o->buf, o->buflen, &ro, &err);
    }
    if (!o->r) { *code = (int)err.code; free(o->buf); o->buf = NULL; if (o->fh) fclose(o->fh); o->fh = NULL; return -1; }
    return 0;
}
static void close_mode(opened_t* o) {
    if (o->r) carquet_reader_close(o->r);
    if (o->fh) fclose(o->fh);
    free(o->buf);
    memset(o, 0, sizeof *o);
}

static int g_skip_nulldata = 0;

/* Result of reading a whole file through the batch reader: status sequence + content hash.  The
 * text form (when wanted) lists per batch rows and one hash per column. */
typedef struct { uint64_t h; int nst; int st[MAXCALLS]; int nbatches; long rows; int unstable; char* text; size_t tlen, tcap; } rres_t;
static void rr_puts(rres_t* r, const char* s) {
    size_t n = strlen(s);
    if (r->tlen + n + 1 > r->tcap) { r->tcap = (r->tcap + n + 1) * 2; r->text = realloc(r->text, r->tcap); if (!r->text) abort(); }
    memcpy(r->text + r->tlen, s, n + 1); r->tlen += n;
}

static int g_proj = 0;   /* 1: project by index (last, first column), 2: by name */
/* hash of what a delivered batch holds in its own right: counts, null bitmaps and the fixed-width column data
 * (byte-array strings are not followed).  carquet.h: "Batch data pointers are valid until carquet_row_batch_free()" -
 * so this must not change while the NEXT batch is being read (by the same or by other worker threads). */
static uint64_t batch_plain_hash(carquet_row_batch_t* b, const fspec_t* f) {
    uint64_t h = FNV0; int nc = carquet_row_batch_num_columns(b);
    for (int c = 0; c < nc; c++) {
        const void* data; const uint8_t* nb; int64_t nv;
        if (carquet_row_batch_column(b, c, &data, &nb, &nv) != CARQUET_OK) continue;
        int fc = (g_proj == 1 || g_proj == 2) ? (c == 0 ? f->ncols - 1 : 0) : c;
        char t = fc < f->ncols ? f->types[fc] : 'i';
        h = fnv(h, &nv, sizeof nv);
        if (nb && nv > 0) h = fnv(h, nb, (size_t)((nv + 7) / 8));
        if (data && nv > 0 && (t | 0x20) != 'b' && !type_optional(t)) h = fnv(h, data, (size_t)nv * type_size(t));
    }
    return h;
}
static void read_all(carquet_reader_t* rd, const fspec_t* f, int batch, int nthr, rres_t* out, int with_gates) {
    memset(out, 0, sizeof *out);
    out->h = FNV0;
    carquet_batch_reader_config_t cfg; carquet_batch_reader_config_init(&cfg);
    cfg.batch_size = batch; cfg.num_threads = nthr;
    int32_t pidx[2] = { f->ncols - 1, 0 }; char pn0[16], pn1[16]; const char* pnames[2] = { pn0, pn1 };
    snprintf(pn0, sizeof pn0, "c%d", f->ncols - 1); snprintf(pn1, sizeof pn1, "c0");
    if (g_proj == 1) { cfg.column_indices = pidx; cfg.num_columns = 2; }
    if (g_proj == 2) { cfg.column_names = pnames; cfg.num_column_names = 2; }
    if (g_proj == 3) { cfg.column_names = pnames; cfg.num_column_names = 0; cfg.column_indices = pidx; cfg.num_columns = 0; }   /* empty projections = all columns */
    carquet_error_t err = CARQUET_ERROR_INIT;
    carquet_batch_reader_t* br = carquet_batch_reader_create(rd, &cfg, &err);
    if (!br) { out->st[out->nst++] = -(int)err.code - 1000; return; }
    carquet_row_batch_t* prev = NULL; uint64_t prev_h = 0;
    for (int call = 0; call < MAXCALLS - 1; call++) {
        if (with_gates) {
            pthread_mutex_lock(&G.mu);
            G.cur_call = call; memset(G.passed, 0, sizeof G.passed); memset(G.parked, 0, sizeof G.parked); G.inflight_col = -1;
            pthread_mutex_unlock(&G.mu);
        }
        carquet_row_batch_t* b = NULL;
        carquet_status_t st = carquet_batch_reader_next(br, &b);
        out->st[out->nst++] = (int)st;
        out->h = fnv(out->h, &st, sizeof st);
        if (prev) {
            /* the previous batch is still held by the caller: it must be what it was when it was delivered */
            if (batch_plain_hash(prev, f) != prev_h) { out->unstable++; out->h = fnv(out->h, "unstable", 8); }
            carquet_row_batch_free(prev); prev = NULL;
        }
        if (st != CARQUET_OK || !b) { if (b) carquet_row_batch_free(b); break; }
        int64_t rows = carquet_row_batch_num_rows(b);
        int nc = carquet_row_batch_num_columns(b);
        out->nbatches++; out->rows += (long)rows;
        char tmp[64]; snprintf(tmp, sizeof tmp, "%lld:", (long long)rows); rr_puts(out, tmp);
        for (int c = 0; c < nc; c++) {
            const void* data; const uint8_t* nb; int64_t nv;
            uint64_t ch = FNV0;
            if (carquet_row_batch_column(b, c, &data, &nb, &nv) != CARQUET_OK) { ch = 1; }
            else {
                int fc = (g_proj == 1 || g_proj == 2) ? (c == 0 ? f->ncols - 1 : 0) : c;
                char t = fc < f->ncols ? f->types[fc] : 'i';
                ch = fnv(ch, &nv, sizeof nv);
                if (nb && nv > 0) ch = fnv(ch, nb, (size_t)((nv + 7) / 8));
                if (data && nv > 0 && !(type_optional(t) && g_skip_nulldata)) {
                    if ((t | 0x20) == 'b') {
                        const carquet_byte_array_t* ba = (const carquet_byte_array_t*)data;
                        for (int64_t i = 0; i < nv; i++) {
                            if (type_optional(t)) continue;   /* dense prefix unknown here: lengths only for required */
                            ch = fnv(ch, &ba[i].length, 4);
                            if (ba[i].length > 0 && ba[i].data) ch = fnv(ch, ba[i].data, (size_t)ba[i].length);
                        }
                    } else {
                        ch = fnv(ch, data, (size_t)nv * type_size(t));
                    }
                }
            }
            out->h = fnv(out->h, &ch, sizeof ch);
            snprintf(tmp, sizeof tmp, "%s%08x", c ? "." : "", (unsigned)(ch ^ (ch >> 32))); rr_puts(out, tmp);
        }
        rr_puts(out, ";");
        prev = b; prev_h = batch_plain_hash(b, f);
    }
    if (prev) carquet_row_batch_free(prev);
    carquet_batch_reader_free(br);
}

static void print_status_list(const rres_t* r) {
    for (int i = 0; i < r->nst; i++) printf("%s%d", i ? "," : "", r->st[i]);
}

/* Dry run (one thread, logging gates): fills G.expP / G.expM and returns the per-column gate
 * positions in `ref` (owned by caller). */
static gate_ev* dry_run(const fspec_t* f, int mode, int batch, size_t* nref, rres_t* base, int* opencode) {
    opened_t o;
    *nref = 0;
    if (open_mode(f->path, mode, &o, opencode) != 0) return NULL;
    gate_reset(GM_LOG, o.r->file, f->ncols);
    carquet_verif_io_yield = gate_cb;
    read_all(o.r, f, batch, 1, base, 1);
    carquet_verif_io_yield = NULL;
    G.mode = GM_OFF;
    close_mode(&o);
    gate_ev* ref = malloc((G.nlog + 1) * sizeof(gate_ev));
    if (G.nlog) memcpy(ref, G.log, G.nlog * sizeof(gate_ev));
    *nref = G.nlog;
    /* phases (single row group): carquet_batch_reader_next first runs the prefetch loop, which loads
     * exactly one page (and the dictionary) for every column without a loaded page - that is only
     * in call 0 - and then, after a barrier, the main loop.  So in call 0 a column's gates up to and
     * including its first data-page-body gate (site 3) are phase P, everything else is phase M. */
    memset(G.expP, 0, sizeof G.expP); memset(G.expM, 0, sizeof G.expM);
    int ncalls = 0;
    int done3[MAXC]; memset(done3, 0, sizeof done3);
    for (size_t i = 0; i < *nref; i++) {
        int call = ref[i].call, c = ref[i].col;
        if (call >= MAXCALLS || c < 0 || c >= MAXC) continue;
        if (call + 1 > ncalls) ncalls = call + 1;
        if (call == 0 && !done3[c]) { G.expP[0][c]++; if (ref[i].site == 3) done3[c] = 1; }
        else G.expM[call][c]++;
    }
    G.ncalls_exp = ncalls;
    return ref;
}

/* ----------------------------------------------------------------------------------- operations */
static void op_gates(void) {
    g_proj = 0;
    fspec_t f; int t = parse_fspec(&f, 1);
    if (t < 0 || h_ntok < t + 2) { puts("ERR args"); return; }
    int mode = parse_mode(h_tok[t]); int batch = atoi(h_tok[t+1]);
    int mk = make_file(&f); if (mk) { printf("ERR mkfile %d\n", mk); return; }
    size_t nref; rres_t base; int oc = 0;
    gate_ev* ref = dry_run(&f, mode, batch, &nref, &base, &oc);
    if (!ref) { printf("ERR open %d\n", oc); return; }
    printf("OK hook=%d calls=%d ppar=%d", HAVE_HOOK, G.ncalls_exp, f.codec != 0);
    for (int c = 0; c < G.ncalls_exp; c++) {
        printf(" P%d=", c); for (int k = 0; k < f.ncols; k++) printf("%s%d", k ? "," : "", G.expP[c][k]);
        printf(" M%d=", c); for (int k = 0; k < f.ncols; k++) printf("%s%d", k ? "," : "", G.expM[c][k]);
    }
    printf(" st="); print_status_list(&base);
    /* file size and start of the footer (end of the last column chunk) */
    long fsz = 0, footer_start = 0;
    { FILE* fp = fopen(f.path, "rb");
      if (fp) { fseek(fp, 0, SEEK_END); fsz = ftell(fp);
                if (fsz >= 12) { uint8_t t8[8]; fseek(fp, fsz - 8, SEEK_SET);
                                 if (fread(t8, 1, 8, fp) == 8) footer_start = fsz - 8 - (long)((uint32_t)t8[0] | ((uint32_t)t8[1] << 8) | ((uint32_t)t8[2] << 16) | ((uint32_t)t8[3] << 24)); }
                fclose(fp); } }
    printf(" fsz=%ld ref=", fsz);
    for (size_t i = 0; i < nref; i++) {
        /* length of the read behind this gate: 256 for a header window; for a body the distance to
         * whatever follows it in the file (next page header of any column, or the footer) */
        long len = 256;
        if (ref[i].site & 1) {
            long next = footer_start > ref[i].pos ? footer_start : fsz;
            for (size_t j = 0; j < nref; j++) if (!(ref[j].site & 1) && ref[j].pos > ref[i].pos && ref[j].pos < next) next = ref[j].pos;
            len = next - ref[i].pos;
        }
        printf("%s%d:%d:%d:%ld:%ld", i ? "," : "", ref[i].call, ref[i].col, ref[i].site, ref[i].pos, len);
    }
    if (nref == 0) printf("-");
    printf("\n");
    free(ref); free(base.text);
}

static void op_batch(void) {
    fspec_t f; int t = parse_fspec(&f, 1);
    if (t < 0 || h_ntok < t + 4) { puts("ERR args"); return; }
    int mode = parse_mode(h_tok[t]); int batch = atoi(h_tok[t+1]); int nthr = atoi(h_tok[t+2]);
    const char* sched = h_tok[t+3];
    g_proj = (h_ntok > t + 4 && !strncmp(h_tok[t+4], "proj=", 5)) ? atoi(h_tok[t+4] + 5) : 0;
    int mk = make_file(&f); if (mk) { printf("ERR mkfile %d\n", mk); return; }
    size_t nref = 0; rres_t base; int oc = 0;
    gate_ev* ref = dry_run(&f, mode, batch, &nref, &base, &oc);
    if (!ref) { printf("ERR open %d\n", oc); return; }
    opened_t o;
    if (open_mode(f.path, mode, &o, &oc) != 0) { printf("ERR open2 %d\n", oc); free(ref); free(base.text); return; }
    int gm = GM_OFF;
    if (!strncmp(sched, "f:", 2)) gm = GM_FORCED; else if (!strncmp(sched, "jit:", 4)) gm = GM_JITTER;
    gate_reset(gm, o.r->file, f.ncols);
    if (gm == GM_FORCED) { G.tokens = sched + 2; G.ntok = strlen(sched + 2); G.timeout_ms = g_fast_deviations >= 3 ? 40 : 250; }
    if (gm == GM_JITTER) G.jit = strtoull(sched + 4, NULL, 10);
    if (gm != GM_OFF) carquet_verif_io_yield = gate_cb;
    rres_t got;
    read_all(o.r, &f, batch, nthr, &got, gm == GM_FORCED);
    carquet_verif_io_yield = NULL; G.mode = GM_OFF;
    close_mode(&o);
    /* reads at a position other than the one the same gate had in the one-thread run */
    int wrong = 0; long firstwrong = -1;
    if (gm == GM_FORCED) {
        int kth[MAXCALLS][MAXC]; memset(kth, 0, sizeof kth);
        for (size_t i = 0; i < G.nlog; i++) {
            int call = G.log[i].call, col = G.log[i].col;
            if (call >= MAXCALLS) continue;
            int k = kth[call][col]++;
            /* find k-th event of (call,col) in ref */
            int seen = 0; long want = -2;
            for (size_t j = 0; j < nref; j++) if (ref[j].call == call && ref[j].col == col) { if (seen == k) { want = ref[j].pos; break; } seen++; }
            if (want != G.log[i].pos) { wrong++; if (firstwrong < 0) firstwrong = (long)i; }
        }
        if (G.deviated && G.deviated == 1) g_fast_deviations++; else g_fast_deviations = 0;
    }
    int eq = (got.h == base.h) && got.nst == base.nst;
    printf("OK eq=%d st=", eq); print_status_list(&got);
    printf(" base="); print_status_list(&base);
    printf(" rows=%ld/%ld dev=%d used=%zu wrong=%d first=%ld unstable=%d/%d", got.rows, base.rows, G.deviated, G.ti, wrong, firstwrong, got.unstable, base.unstable);
    if (gm == GM_FORCED) {
        printf(" log=");
        for (size_t i = 0; i < G.nlog; i++) printf("%s%d:%d:%d:%ld", i ? "," : "", G.log[i].call, G.log[i].col, G.log[i].site, G.log[i].pos);
        if (!G.nlog) printf("-");
    }
    if (!eq) printf(" got=%s want=%s", got.text ? got.text : "-", base.text ? base.text : "-");
    printf("\n");
    free(ref); free(base.text); free(got.text);
}

/* N independent readers on the same file, concurrently from N pthreads (first), then alone. */
typedef struct { const fspec_t* f; int mode, batch, inner; pthread_barrier_t* bar; rres_t res; int opencode; const uint8_t* shared_buf; size_t shared_len; } indep_arg;
static void* indep_thread(void* p) {
    indep_arg* a = (indep_arg*)p;
    if (a->bar) pthread_barrier_wait(a->bar);
    opened_t o; memset(&o, 0, sizeof o);
    if (a->shared_buf) {
        carquet_error_t err = CARQUET_ERROR_INIT;
        carquet_reader_options_t ro; carquet_reader_options_init(&ro);
        o.r = carquet_reader_open_buffer(a->shared_buf, a->shared_len, &ro, &err);
        if (!o.r) { a->opencode = (int)err.code ? (int)err.code : -1; return NULL; }
    } else if (open_mode(a->f->path, a->mode, &o, &a->opencode) != 0) { if (!a->opencode) a->opencode = -1; return NULL; }
    read_all(o.r, a->f, a->batch, a->inner, &a->res, 0);
    close_mode(&o);
    return NULL;
}
static void op_indep(void) {
    g_proj = 0;
    fspec_t f; int t = parse_fspec(&f, 1);
    if (t < 0 || h_ntok < t + 4) { puts("ERR args"); return; }
    int mode = parse_mode(h_tok[t]); int batch = atoi(h_tok[t+1]); int N = atoi(h_tok[t+2]); int inner = atoi(h_tok[t+3]);
    int premade = h_ntok > t + 4 && !strcmp(h_tok[t+4], "premade");
    /* "omp": the handles are driven from the caller's own OpenMP threads, so the batch reader's parallel regions are
     * NESTED (a team of one, unless nesting is enabled) */
    int use_omp = h_ntok > t + 4 && !strcmp(h_tok[h_ntok - 1], "omp");
    if (N < 1) N = 1; if (N > 64) N = 64;
    if (!premade) { int mk = make_file(&f); if (mk) { printf("ERR mkfile %d\n", mk); return; } }
    /* buffer mode: all readers share ONE caller-owned buffer (read-only for the library) */
    uint8_t* sb = NULL; size_t sl = 0;
    if (mode == MODE_BUFFER) {
        FILE* fp = fopen(f.path, "rb"); if (!fp) { puts("ERR nofile"); return; }
        fseek(fp, 0, SEEK_END); long n = ftell(fp); fseek(fp, 0, SEEK_SET);
        sb = malloc((size_t)n); sl = (size_t)n;
        if (fread(sb, 1, sl, fp) != sl) { fclose(fp); free(sb); puts("ERR read"); return; }
        fclose(fp);
    }
    pthread_barrier_t bar; pthread_barrier_init(&bar, NULL, (unsigned)N);
    indep_arg* a = calloc((size_t)N, sizeof *a); pthread_t* th = calloc((size_t)N, sizeof *th);
    for (int i = 0; i < N; i++) { a[i].f = &f; a[i].mode = mode; a[i].batch = batch; a[i].inner = inner; a[i].bar = &bar; a[i].shared_buf = sb; a[i].shared_len = sl; }
    if (use_omp) {
        for (int i = 0; i < N; i++) a[i].bar = NULL;
        int oi;
#ifdef _OPENMP
        #pragma omp parallel for num_threads(N) schedule(static, 1)
#endif
        for (oi = 0; oi < N; oi++) indep_thread(&a[oi]);
    } else {
        for (int i = 0; i < N; i++) pthread_create(&th[i], NULL, indep_thread, &a[i]);
        for (int i = 0; i < N; i++) pthread_join(th[i], NULL);
    }
    pthread_barrier_destroy(&bar);
    indep_arg alone; memset(&alone, 0, sizeof alone);
    alone.f = &f; alone.mode = mode; alone.batch = batch; alone.inner = 1; alone.shared_buf = sb; alone.shared_len = sl;
    indep_thread(&alone);
    int bad = 0, firstbad = -1;
    for (int i = 0; i < N; i++) {
        int same = a[i].opencode == alone.opencode && a[i].res.h == alone.res.h && a[i].res.nst == alone.res.nst;
        if (!same) { bad++; if (firstbad < 0) firstbad = i; }
    }
    printf("OK eq=%d bad=%d open=%d st=", bad == 0, bad, alone.opencode); print_status_list(&alone.res);
    printf(" rows=%ld", alone.res.rows);
    if (bad) { printf(" first=%d open=%d st=", firstbad, a[firstbad].opencode); print_status_list(&a[firstbad].res);
               printf(" got=%s want=%s", a[firstbad].res.text ? a[firstbad].res.text : "-", alone.res.text ? alone.res.text : "-"); }
    printf("\n");
    for (int i = 0; i < N; i++) free(a[i].res.text);
    free(alone.res.text); free(a); free(th); free(sb);
}

/* ------------------------------------------------------------------------------ first use, fresh process
 *   firstuse <file...> <mode> <N> <trials> <api>      api: col | batch
 * Concurrent FIRST use of the library: this process must not have called into the library yet (the check
 * feeds firstuse lines to a driver process of their own; the file is written by a forked child).  Every
 * trial is a fresh fork: N threads, each with its own reader handle (and, for api=col, its own column
 * readers) opened before a spin barrier - opening touches neither the CRC tables nor the SIMD dispatch -
 * are released together into their first page load.  Afterwards the same child reads once more with a
 * single thread (by then everything is initialised): every thread must have returned exactly that. */
#include <sys/wait.h>
typedef struct { const fspec_t* f; int mode, api; volatile int* arrived; int n; uint64_t h; int bad_status; opened_t o;
                 carquet_column_reader_t* cr[MAXC]; } fu_arg;

static void fu_read(fu_arg* a) {
    uint64_t h = FNV0; a->bad_status = 0;
    if (a->api == 0) {
        size_t cap = (size_t)a->f->rpp * (size_t)a->f->npages;
        uint8_t* vals = malloc(16 * cap + 16); int16_t* def = malloc(2 * cap + 2);
        for (int c = 0; c < a->f->ncols; c++) {
            if (!a->cr[c]) { a->bad_status = 1; continue; }
            int64_t n = carquet_column_read_batch(a->cr[c], vals, (int64_t)cap, type_optional(a->f->types[c]) ? def : NULL, NULL);
            h = fnv(h, &n, sizeof n);
            if (n != (int64_t)cap) a->bad_status = 1;
            if (n > 0 && !type_optional(a->f->types[c]) && (a->f->types[c] | 0x20) != 'b') h = fnv(h, vals, (size_t)n * type_size(a->f->types[c]));
            if (n > 0 && type_optional(a->f->types[c])) h = fnv(h, def, (size_t)n * 2);
        }
        free(vals); free(def);
    } else {
        rres_t r; read_all(a->o.r, a->f, a->f->rpp, 1, &r, 0);
        h = r.h; free(r.text);
        for (int i = 0; i < r.nst; i++) if (r.st[i] != CARQUET_OK && r.st[i] != CARQUET_ERROR_END_OF_DATA) a->bad_status = 1;
    }
    a->h = h;
}
static int fu_open(fu_arg* a) {
    int oc = 0;
    if (open_mode(a->f->path, a->mode, &a->o, &oc) != 0) return -1;
    memset(a->cr, 0, sizeof a->cr);
    if (a->api == 0) {
        carquet_error_t err = CARQUET_ERROR_INIT;
        for (int c = 0; c < a->f->ncols && c < MAXC; c++) a->cr[c] = carquet_reader_get_column(a->o.r, 0, c, &err);
    }
    return 0;
}
static void fu_close(fu_arg* a) {
    for (int c = 0; c < MAXC; c++) if (a->cr[c]) carquet_column_reader_free(a->cr[c]);
    close_mode(&a->o);
}
static void* fu_thread(void* p) {
    fu_arg* a = (fu_arg*)p;
    __atomic_add_fetch(a->arrived, 1, __ATOMIC_SEQ_CST);
    while (__atomic_load_n(a->arrived, __ATOMIC_SEQ_CST) < a->n) { }     /* spin: released together */
    fu_read(a);
    return NULL;
}
static void op_firstuse(void) {
    g_proj = 0;
    fspec_t f; int t = parse_fspec(&f, 1);
    if (t < 0 || h_ntok < t + 4) { puts("ERR args"); return; }
    int mode = parse_mode(h_tok[t]); int N = atoi(h_tok[t+1]); int trials = atoi(h_tok[t+2]);
    int api = !strcmp(h_tok[t+3], "batch");
    if (N < 2) N = 2; if (N > 32) N = 32;
    f.nrg = 1;
    /* the file is made by a child so that this process stays untouched */
    fflush(stdout);
    pid_t mk = fork();
    if (mk == 0) { int r = make_file(&f); COV_FLUSH(); _exit(r ? 3 : 0); }
    int st = 0; waitpid(mk, &st, 0);
    if (!WIFEXITED(st) || WEXITSTATUS(st) != 0) { puts("ERR mkfile"); return; }
    int differ = 0, crashed = 0, badstatus = 0, first = -1;
    for (int tr = 0; tr < trials; tr++) {
        pid_t pid = fork();
        if (pid == 0) {
            volatile int arrived = 0;
            fu_arg* a = calloc((size_t)N, sizeof *a); pthread_t* th = calloc((size_t)N, sizeof *th);
            int rc = 0;
            for (int i = 0; i < N; i++) { a[i].f = &f; a[i].mode = mode; a[i].api = api; a[i].arrived = &arrived; a[i].n = N;
                                          if (fu_open(&a[i]) != 0) _exit(5); }
            for (int i = 0; i < N; i++) pthread_create(&th[i], NULL, fu_thread, &a[i]);
            for (int i = 0; i < N; i++) pthread_join(th[i], NULL);
            fu_arg alone; memset(&alone, 0, sizeof alone); alone.f = &f; alone.mode = mode; alone.api = api;
            if (fu_open(&alone) != 0) _exit(5);
            fu_read(&alone);
            for (int i = 0; i < N; i++) { if (a[i].h != alone.h || a[i].bad_status != alone.bad_status) rc = 3; if (a[i].bad_status) rc = rc ? rc : 4; }
            if (alone.bad_status) rc = 6;
            for (int i = 0; i < N; i++) fu_close(&a[i]);
            fu_close(&alone);
            COV_FLUSH();
            _exit(rc);
        }
        int s2 = 0; waitpid(pid, &s2, 0);
        int code = WIFEXITED(s2) ? WEXITSTATUS(s2) : -1;
        if (code == 3) { differ++; if (first < 0) first = tr; }
        else if (code == 4) { badstatus++; if (first < 0) first = tr; }
        else if (code != 0) { crashed++; if (first < 0) first = tr; }
    }
    printf("OK eq=%d trials=%d differ=%d badstatus=%d crashed=%d first=%d\n", (differ + crashed + badstatus) == 0, trials, differ, badstatus, crashed, first);
}

int main(void) {
    if (getenv("HCONC_SKIP_NULLDATA")) g_skip_nulldata = 1;
    while (h_readline()) {
        h_split();
        if (h_ntok == 0) { puts("ERR empty"); continue; }
        if (!strcmp(h_tok[0], "mk")) {
            fspec_t f; if (parse_fspec(&f, 1) < 0) puts("ERR args");
            else { int rc = make_file(&f); if (rc) printf("ERR mkfile %d\n", rc); else { struct stat sb; stat(f.path, &sb); printf("OK %ld\n", (long)sb.st_size); } }
        } else if (!strcmp(h_tok[0], "gates")) op_gates();
        else if (!strcmp(h_tok[0], "batch")) op_batch();
        else if (!strcmp(h_tok[0], "indep")) op_indep();
        else if (!strcmp(h_tok[0], "firstuse")) op_firstuse();
        else puts("ERR unknown-op");
        fflush(stdout);
    }
    free(h_line); free(G.log);
    return 0;
}
