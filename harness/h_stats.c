/* Driver for the stats engine (property C16).  One case per line:
 *
 *   bld <type> <tlen> <ops>                 statistics builder: ops = v:<hex>.<hex>..  b:<hex|e>.<..>  n:<count>  r
 *   pw  <type> <maxdef> <batches>           page writer: batch = <vals .-joined|->/<def levels as digits|->/<num_values>
 *   rd  <file> <type> <col> <op> <probe> <maxidx> <S> <D>
 *                                           carquet_reader_column_statistics / row_group_matches / filter_row_groups on a
 *                                           footer with statistics (S is for the model runner), D = data per row group
 *   cmp <type> <min|-> <max|-> <value> <D>  carquet_statistics_compare
 *   ovl <type> <min|-> <max|-> <qmin|N> <qmax|N> <D>     carquet_statistics_range_overlaps
 *   pm  <type> <pages> <idx> <qmin|N> <qmax|N> <D>       carquet_column_index_page_might_match; page = nulls/min/max/nullpage
 *   file <type> <nullable> <row groups> <op> <probe> [<page_size>]     the public writer (statistics on) into memory, then the public reader:
 *                                           row group = batches joined by ","; row groups joined by ";"
 *
 * Values are hex byte strings in memory order; "e" is the empty byte string, "-" an absent one.
 * Every answer ends with the BRUTE-FORCE GROUND TRUTH computed here with C's own operators on the decoded
 * values (T=... / P=...), independent of carquet's comparators and of the Coq model. */
#include "hcommon.h"
#include <math.h>
#include <carquet/carquet.h>
#include "thrift/parquet_types.h"
#include "core/buffer.h"
#include "core/arena.h"

typedef struct carquet_statistics_builder carquet_statistics_builder_t;
carquet_statistics_builder_t* carquet_statistics_builder_create(carquet_physical_type_t, int32_t);
void carquet_statistics_builder_destroy(carquet_statistics_builder_t*);
void carquet_statistics_builder_reset(carquet_statistics_builder_t*);
void carquet_statistics_add_nulls(carquet_statistics_builder_t*, int64_t);
carquet_status_t carquet_statistics_add_values(carquet_statistics_builder_t*, const void*, int64_t);
carquet_status_t carquet_statistics_add_byte_arrays(carquet_statistics_builder_t*, const carquet_byte_array_t*, int64_t);
carquet_status_t carquet_statistics_build(const carquet_statistics_builder_t*, carquet_arena_t*, parquet_statistics_t*);
carquet_status_t carquet_statistics_compare(const parquet_statistics_t*, carquet_physical_type_t, const void*, size_t, int*);
carquet_status_t carquet_statistics_range_overlaps(const parquet_statistics_t*, carquet_physical_type_t, const void*,
                                                   const void*, size_t, bool*);
typedef struct carquet_column_index_builder carquet_column_index_builder_t;
typedef struct carquet_offset_index_builder carquet_offset_index_builder_t;
void carquet_column_index_set_boundary_order(carquet_column_index_builder_t*, int32_t);
carquet_status_t carquet_column_index_serialize(const carquet_column_index_builder_t*, carquet_buffer_t*);
carquet_offset_index_builder_t* carquet_offset_index_builder_create(bool);
void carquet_offset_index_builder_destroy(carquet_offset_index_builder_t*);
carquet_status_t carquet_offset_index_add_page(carquet_offset_index_builder_t*, int64_t, int32_t, int64_t, int32_t);
carquet_status_t carquet_offset_index_serialize(const carquet_offset_index_builder_t*, carquet_buffer_t*);
carquet_column_index_builder_t* carquet_column_index_builder_create(carquet_physical_type_t, int32_t);
void carquet_column_index_builder_destroy(carquet_column_index_builder_t*);
carquet_status_t carquet_column_index_add_page(carquet_column_index_builder_t*, int64_t, const void*, int32_t,
                                               const void*, int32_t, bool);
carquet_status_t carquet_column_index_page_might_match(const carquet_column_index_builder_t*, int32_t, const void*,
                                                       const void*, int32_t, bool*);
typedef struct carquet_page_writer carquet_page_writer_t;
void carquet_page_writer_reset(carquet_page_writer_t*);
bool carquet_page_writer_get_statistics(const carquet_page_writer_t*, const uint8_t**, const uint8_t**, size_t*, int64_t*);
int64_t carquet_page_writer_null_count(const carquet_page_writer_t*);
void carquet_page_writer_set_statistics(carquet_page_writer_t*, bool);
carquet_page_writer_t* carquet_page_writer_create(carquet_physical_type_t, carquet_encoding_t, carquet_compression_t,
                                                  int16_t, int16_t, int32_t);
void carquet_page_writer_destroy(carquet_page_writer_t*);
carquet_status_t carquet_page_writer_add_values(carquet_page_writer_t*, const void*, int64_t, const int16_t*, const int16_t*);
carquet_status_t carquet_page_writer_finalize(carquet_page_writer_t*, const uint8_t**, size_t*, int32_t*, int32_t*);

/* ------------------------------------------------------------------ values */
typedef struct { uint8_t* p; size_t n; void* base; } val_t;

static val_t unhex(const char* s) {            /* exact-size heap copy */
    val_t v;
    if (!strcmp(s, "e")) s = "-";
    v.p = h_unhex(s, &v.n, 0, &v.base);
    return v;
}

/* split "a.b.c" into values; returns count; "-" = none */
static int split_vals(char* s, val_t** out) {
    *out = NULL;
    if (!strcmp(s, "-")) return 0;
    int n = 1;
    for (char* c = s; *c; c++) if (*c == '.') n++;
    val_t* v = calloc((size_t)n, sizeof *v);
    int k = 0;
    char* save = NULL;
    for (char* t = strtok_r(s, ".", &save); t; t = strtok_r(NULL, ".", &save)) v[k++] = unhex(t);
    *out = v;
    return k;
}
static void free_vals(val_t* v, int n) { for (int i = 0; i < n; i++) free(v[i].base); free(v); }

/* ------------------------------------------------------------------ independent ground truth */
static int is_nan_val(int type, const val_t* v) {
    if (type == CARQUET_PHYSICAL_FLOAT && v->n >= 4) { float f; memcpy(&f, v->p, 4); return f != f; }
    if (type == CARQUET_PHYSICAL_DOUBLE && v->n >= 8) { double d; memcpy(&d, v->p, 8); return d != d; }
    return 0;
}

/* three-way order of two non-NaN values of the type, with C's own operators */
static int truth_cmp(int type, const val_t* a, const val_t* b) {
    switch (type) {
        case CARQUET_PHYSICAL_BOOLEAN: return (a->p[0] > b->p[0]) - (a->p[0] < b->p[0]);
        case CARQUET_PHYSICAL_INT32: { int32_t x, y; memcpy(&x, a->p, 4); memcpy(&y, b->p, 4); return (x > y) - (x < y); }
        case CARQUET_PHYSICAL_INT64: { int64_t x, y; memcpy(&x, a->p, 8); memcpy(&y, b->p, 8); return (x > y) - (x < y); }
        case CARQUET_PHYSICAL_FLOAT: { float x, y; memcpy(&x, a->p, 4); memcpy(&y, b->p, 4); return (x > y) - (x < y); }
        case CARQUET_PHYSICAL_DOUBLE: { double x, y; memcpy(&x, a->p, 8); memcpy(&y, b->p, 8); return (x > y) - (x < y); }
        case CARQUET_PHYSICAL_INT96: {          /* 96-bit unsigned number, little-endian */
            for (int i = 11; i >= 0; i--) if (a->p[i] != b->p[i]) return a->p[i] > b->p[i] ? 1 : -1;
            return 0;
        }
        default: {
            size_t i = 0;
            for (; i < a->n && i < b->n; i++) if (a->p[i] != b->p[i]) return a->p[i] > b->p[i] ? 1 : -1;
            return (a->n > b->n) - (a->n < b->n);
        }
    }
}

/* x OP probe with C / IEEE semantics */
static int truth_sat(int type, int op, const val_t* x, const val_t* probe) {
    int un = is_nan_val(type, x) || is_nan_val(type, probe);
    int c = un ? 0 : truth_cmp(type, x, probe);
    switch (op) {
        case CARQUET_COMPARE_EQ: return !un && c == 0;
        case CARQUET_COMPARE_NE: return un || c != 0;
        case CARQUET_COMPARE_LT: return !un && c < 0;
        case CARQUET_COMPARE_LE: return !un && c <= 0;
        case CARQUET_COMPARE_GT: return !un && c > 0;
        case CARQUET_COMPARE_GE: return !un && c >= 0;
    }
    return 0;
}

static void put_opt(const uint8_t* p, long n) {
    if (!p) { fputs("NULL", stdout); return; }
    if (n <= 0) { putchar('e'); return; }
    h_puthex(p, (size_t)n);
}

/* ------------------------------------------------------------------ bld */
static void do_bld(void) {
    int type = atoi(h_tok[1]), tlen = atoi(h_tok[2]);
    carquet_statistics_builder_t* b = carquet_statistics_builder_create((carquet_physical_type_t)type, tlen);
    if (!b) { puts("ERR oom"); return; }
    val_t* all = NULL; int nall = 0, call = 0; long nulls = 0;
    fputs("OK st=", stdout);
    int first = 1;
    char* save = NULL;
    for (char* op = strtok_r(h_tok[3], ",", &save); op; op = strtok_r(NULL, ",", &save)) {
        if (op[0] == 'r') { carquet_statistics_builder_reset(b); for (int i = 0; i < nall; i++) free(all[i].base); nall = 0; nulls = 0; continue; }
        if (op[0] == 'n') { long c = atol(op + 2); carquet_statistics_add_nulls(b, c); nulls += c; continue; }
        val_t* v; int n = split_vals(op + 2, &v);
        carquet_status_t st;
        if (op[0] == 'v') {
            size_t w = n ? v[0].n : 0;
            uint8_t* arr = malloc(w * (size_t)n);               /* contiguous, exact size */
            for (int i = 0; i < n; i++) memcpy(arr + w * (size_t)i, v[i].p, w);
            st = carquet_statistics_add_values(b, arr, n);
            free(arr);
        } else {
            carquet_byte_array_t* arr = malloc(sizeof *arr * (size_t)(n ? n : 1));
            for (int i = 0; i < n; i++) { arr[i].data = v[i].p; arr[i].length = (int32_t)v[i].n; }
            st = carquet_statistics_add_byte_arrays(b, arr, n);
            free(arr);
        }
        printf("%s%d", first ? "" : ",", (int)st); first = 0;
        if (st == CARQUET_OK) {
            if (nall + n > call) { call = 2 * (nall + n) + 8; all = realloc(all, sizeof *all * (size_t)call); }
            for (int i = 0; i < n; i++) all[nall++] = v[i];
            free(v);
        } else free_vals(v, n);
    }
    if (first) putchar('-');
    parquet_statistics_t s;
    /* every other case builds into an arena (the two allocation paths of carquet_statistics_build) */
    carquet_arena_t arena; int use_arena = (nall & 1) && carquet_arena_init(&arena) == CARQUET_OK;
    carquet_statistics_build(b, use_arena ? &arena : NULL, &s);
    printf(" nulls=%lld min=", (long long)(s.has_null_count ? s.null_count : -1));
    put_opt(s.min_value, s.min_value_len);
    fputs(" max=", stdout);
    put_opt(s.max_value, s.max_value_len);
    /* ground truth */
    const char* bad = NULL; int badi = -1;
    if (!s.has_null_count || s.null_count != nulls) bad = "null_count";
    val_t mn = { s.min_value, (size_t)s.min_value_len, NULL }, mx = { s.max_value, (size_t)s.max_value_len, NULL };
    if (!bad && s.min_value && is_nan_val(type, &mn)) bad = "min-is-NaN";
    if (!bad && s.max_value && is_nan_val(type, &mx)) bad = "max-is-NaN";
    for (int i = 0; i < nall && !bad; i++) {
        if (is_nan_val(type, &all[i])) continue;
        if (s.min_value && truth_cmp(type, &mn, &all[i]) > 0) { bad = "min-above-value"; badi = i; }
        else if (s.max_value && truth_cmp(type, &all[i], &mx) > 0) { bad = "max-below-value"; badi = i; }
    }
    /* the builder's statistics through carquet's own metadata writer into a file and back through the public reader:
     * carquet_reader_column_statistics must hand out the same bounds and null count */
    {
        parquet_file_metadata_t md; memset(&md, 0, sizeof md);
        parquet_schema_element_t se[2]; memset(se, 0, sizeof se);
        se[0].name = (char*)"schema"; se[0].num_children = 1;
        se[1].name = (char*)"c"; se[1].has_type = true; se[1].type = (carquet_physical_type_t)type;
        se[1].has_repetition = true; se[1].repetition_type = CARQUET_REPETITION_OPTIONAL; se[1].type_length = tlen > 0 ? tlen : 0;
        parquet_column_chunk_t cc; memset(&cc, 0, sizeof cc);
        carquet_encoding_t enc0 = CARQUET_ENCODING_PLAIN; char* path0 = (char*)"c";
        cc.file_offset = 4; cc.has_metadata = true; cc.metadata.type = (carquet_physical_type_t)type;
        cc.metadata.encodings = &enc0; cc.metadata.num_encodings = 1; cc.metadata.path_in_schema = &path0; cc.metadata.path_len = 1;
        cc.metadata.num_values = nall + nulls; cc.metadata.data_page_offset = 4;
        cc.metadata.has_statistics = true; cc.metadata.statistics = s;
        parquet_row_group_t rg; memset(&rg, 0, sizeof rg); rg.columns = &cc; rg.num_columns = 1; rg.num_rows = nall + nulls;
        md.version = 1; md.schema = se; md.num_schema_elements = 2; md.num_rows = nall + nulls; md.row_groups = &rg; md.num_row_groups = 1;
        carquet_buffer_t fb; carquet_buffer_init(&fb);
        carquet_error_t e1 = CARQUET_ERROR_INIT;
        carquet_status_t wst = parquet_write_file_metadata(&md, &fb, &e1);
        if (wst != CARQUET_OK) printf(" RT=write:%d", (int)wst);
        else {
            size_t fl = fb.size, tot = 4 + fl + 8;
            uint8_t* file = malloc(tot);
            memcpy(file, "PAR1", 4); memcpy(file + 4, fb.data, fl);
            file[4 + fl] = (uint8_t)fl; file[5 + fl] = (uint8_t)(fl >> 8); file[6 + fl] = (uint8_t)(fl >> 16); file[7 + fl] = (uint8_t)(fl >> 24);
            memcpy(file + 8 + fl, "PAR1", 4);
            carquet_error_t e2 = CARQUET_ERROR_INIT;
            carquet_reader_t* r = carquet_reader_open_buffer(file, tot, NULL, &e2);
            if (!r) printf(" RT=open:%d", (int)e2.code);
            else {
                carquet_column_statistics_t cs; memset(&cs, 0, sizeof cs);
                carquet_status_t st = carquet_reader_column_statistics(r, 0, 0, &cs);
                int want = s.min_value && s.min_value_len > 0 && s.max_value && s.max_value_len > 0;
                if (st != CARQUET_OK) printf(" RT=status:%d", (int)st);
                else if (!cs.has_null_count || cs.null_count != s.null_count) printf(" RT=null_count:%lld", (long long)cs.null_count);
                else if ((cs.has_min_max ? 1 : 0) != want) printf(" RT=has_min_max:%d", cs.has_min_max ? 1 : 0);
                else if (want && (cs.min_value_size != s.min_value_len || cs.max_value_size != s.max_value_len ||
                                  memcmp(cs.min_value, s.min_value, (size_t)s.min_value_len) || memcmp(cs.max_value, s.max_value, (size_t)s.max_value_len)))
                    fputs(" RT=bounds-differ", stdout);
                else fputs(" RT=same", stdout);
                carquet_reader_close(r);
            }
            free(file);
        }
        carquet_buffer_destroy(&fb);
    }
    /* completeness: when every recorded value fits the buffers, none is empty and at least one is not NaN, the builder must
     * emit both bounds (statistics that are never produced bound nothing) */
    if (!bad) {
        int fit = !(type == CARQUET_PHYSICAL_FIXED_LEN_BYTE_ARRAY && (tlen <= 0 || tlen > 256)), real = 0;
        for (int i = 0; i < nall; i++) { if (all[i].n == 0 || all[i].n > 256) fit = 0; if (!is_nan_val(type, &all[i])) real = 1; }
        if (fit && real && nall > 0 && !s.min_value) bad = "min-missing";
        else if (fit && real && nall > 0 && !s.max_value) bad = "max-missing";
    }
    if (bad) printf(" P=0:%s:%d\n", bad, badi); else puts(" P=1");
    if (use_arena) carquet_arena_destroy(&arena); else { free(s.min_value); free(s.max_value); }
    for (int i = 0; i < nall; i++) free(all[i].base);
    free(all);
    carquet_statistics_builder_destroy(b);
}

/* ------------------------------------------------------------------ pw */
static void do_pw(void) {
    int type = atoi(h_tok[1]), maxdef = atoi(h_tok[2]);
    carquet_page_writer_t* w = carquet_page_writer_create((carquet_physical_type_t)type, CARQUET_ENCODING_PLAIN,
                                                          CARQUET_COMPRESSION_UNCOMPRESSED, (int16_t)maxdef, 0, 0);
    if (!w) { puts("ERR oom"); return; }
    if (h_ntok == 5 && !strcmp(h_tok[4], "nostats")) carquet_page_writer_set_statistics(w, false);
    char* save = NULL;
    fputs("OK st=", stdout);
    int first = 1;
    for (char* bt = strtok_r(h_tok[3], ",", &save); bt; bt = strtok_r(NULL, ",", &save)) {
        /* "s0" / "s1" between batches: carquet_page_writer_set_statistics(off / on) in the middle of a page */
        if (bt[0] == 's' && (bt[1] == '0' || bt[1] == '1') && !bt[2]) { carquet_page_writer_set_statistics(w, bt[1] == '1'); continue; }
        char* f[3]; int nf = 0; char* sv = NULL;
        for (char* x = strtok_r(bt, "/", &sv); x && nf < 3; x = strtok_r(NULL, "/", &sv)) f[nf++] = x;
        if (nf != 3) { fputs("?", stdout); continue; }
        val_t* v; int n = split_vals(f[0], &v);
        long nv = atol(f[2]);
        size_t wd = n ? v[0].n : 0;
        uint8_t* arr = malloc(wd * (size_t)n + 8);
        for (int i = 0; i < n; i++) memcpy(arr + wd * (size_t)i, v[i].p, wd);
        int16_t* defs = NULL;
        if (strcmp(f[1], "-")) {
            size_t k = strlen(f[1]);
            defs = malloc(sizeof *defs * (k ? k : 1));
            for (size_t i = 0; i < k; i++) defs[i] = (int16_t)(f[1][i] - '0');
        }
        carquet_status_t st = carquet_page_writer_add_values(w, arr, nv, defs, NULL);
        printf("%s%d", first ? "" : ",", (int)st); first = 0;
        free(arr); free(defs); free_vals(v, n);
    }
    if (first) putchar('-');
    const uint8_t* pd = NULL; size_t ps = 0; int32_t us = 0, cs = 0;
    carquet_status_t st = carquet_page_writer_finalize(w, &pd, &ps, &us, &cs);
    printf(" fin=%d body=%d page=", (int)st, (int)cs);
    if (st == CARQUET_OK) h_puthex(pd, ps); else putchar('-');
    putchar('\n');
    carquet_page_writer_destroy(w);
}

/* ------------------------------------------------------------------ rd */
static void do_rd(void) {
    size_t n; void* base;
    uint8_t* file = h_unhex(h_tok[1], &n, 0, &base);
    int type = atoi(h_tok[2]), col = atoi(h_tok[3]), op = atoi(h_tok[4]), maxidx = atoi(h_tok[6]);
    {   /* nested / multi-column schemas: "<t0>.<t1>...:<k>" = the leaf types and the column the statistics and data belong to */
        char* colon = strchr(h_tok[2], ':');
        if (colon) {
            int k = atoi(colon + 1); char* q = h_tok[2];
            for (int i = 0; i < k && q; i++) { q = strchr(q, '.'); if (q) q++; }
            if (q) type = atoi(q);
        }
    }
    val_t probe = unhex(h_tok[5]);
    carquet_error_t err = CARQUET_ERROR_INIT;
    carquet_reader_t* r = carquet_reader_open_buffer(file, n, NULL, &err);
    if (!r) { printf("ERR open %d\n", (int)err.code); free(base); free(probe.base); return; }
    int nrg = carquet_reader_num_row_groups(r);
    fputs("OK cs=", stdout);
    for (int i = 0; i < nrg; i++) {
        carquet_column_statistics_t cs;
        memset(&cs, 0x5a, sizeof cs);
        carquet_status_t st = carquet_reader_column_statistics(r, i, col, &cs);
        if (i) putchar(';');
        if (st != CARQUET_OK) { printf("E%d", (int)st); continue; }
        printf("%d:%d:%lld:%lld:", cs.has_min_max ? 1 : 0, cs.has_null_count ? 1 : 0,
               (long long)(cs.has_null_count ? cs.null_count : 0), (long long)cs.num_values);
        if (cs.has_min_max) { h_puthex(cs.min_value, (size_t)cs.min_value_size); putchar(':'); h_puthex(cs.max_value, (size_t)cs.max_value_size); }
        else fputs("-:-", stdout);
    }
    if (!nrg) putchar('-');
    fputs(" dc=", stdout);
    for (int i = 0; i < nrg; i++) {
        carquet_column_statistics_t cs; memset(&cs, 0, sizeof cs);
        carquet_status_t st = carquet_reader_column_statistics(r, i, col, &cs);
        if (st != CARQUET_OK) printf("%sE", i ? ";" : ""); else if (!cs.has_distinct_count) printf("%s-", i ? ";" : "");
        else printf("%s%lld", i ? ";" : "", (long long)cs.distinct_count);
    }
    if (!nrg) putchar('-');
    /* out-of-range row groups */
    { carquet_column_statistics_t cs; printf(" X=%d,%d", (int)carquet_reader_column_statistics(r, -1, col, &cs),
                                             (int)carquet_reader_column_statistics(r, nrg, col, &cs)); }
    fputs(" m=", stdout);
    for (int i = 0; i < nrg; i++) {
        bool m = false;
        carquet_status_t st = carquet_reader_row_group_matches(r, i, col, (carquet_compare_op_t)op, probe.p, (int32_t)probe.n, &m);
        printf("%s%d:%d", i ? ";" : "", (int)st, m ? 1 : 0);
    }
    if (!nrg) putchar('-');
    {   /* exact-size output array: one more store is an ASan report */
        int32_t* idx = malloc(sizeof *idx * (size_t)(maxidx > 0 ? maxidx : 1));
        int32_t k = carquet_reader_filter_row_groups(r, col, (carquet_compare_op_t)op, probe.p, (int32_t)probe.n, idx, maxidx);
        printf(" f=%d:", (int)k);
        if (k <= 0) putchar('-');
        for (int32_t i = 0; i < k; i++) printf("%s%d", i ? "," : "", (int)idx[i]);
        free(idx);
    }
    /* ground truth: does row group i hold a value x with  x OP probe ? */
    fputs(" T=", stdout);
    {
        char* save = NULL; int i = 0;
        for (char* g = strtok_r(h_tok[8], ";", &save); g; g = strtok_r(NULL, ";", &save), i++) {
            val_t* v; int k = split_vals(g, &v); int any = 0;
            for (int j = 0; j < k; j++) if (truth_sat(type, op, &v[j], &probe)) any = 1;
            putchar(any ? '1' : '0');
            free_vals(v, k);
        }
        if (!i) putchar('-');
    }
    putchar('\n');
    carquet_reader_close(r);
    free(base); free(probe.base);
}

/* ------------------------------------------------------------------ cmp / ovl / pm */
static void stats_of(parquet_statistics_t* s, val_t* mn, val_t* mx, const char* a, const char* b) {
    memset(s, 0, sizeof *s);
    mn->base = mx->base = NULL; mn->p = mx->p = NULL; mn->n = mx->n = 0;
    if (strcmp(a, "-")) { *mn = unhex(a); s->min_value = mn->p; s->min_value_len = (int32_t)mn->n; }
    if (strcmp(b, "-")) { *mx = unhex(b); s->max_value = mx->p; s->max_value_len = (int32_t)mx->n; }
}

static void do_cmp(void) {
    int type = atoi(h_tok[1]);
    parquet_statistics_t s; val_t mn, mx; stats_of(&s, &mn, &mx, h_tok[2], h_tok[3]);
    val_t v = unhex(h_tok[4]);
    int res = 99;
    carquet_status_t st = carquet_statistics_compare(&s, (carquet_physical_type_t)type, v.p, v.n, &res);
    val_t* d; int k = split_vals(h_tok[5], &d); int any = 0;
    for (int j = 0; j < k; j++) if (truth_sat(type, CARQUET_COMPARE_EQ, &d[j], &v)) any = 1;
    printf("OK %d %d T=%d\n", (int)st, res, any);
    free_vals(d, k); free(mn.base); free(mx.base); free(v.base);
}

static int in_range(int type, const val_t* x, const val_t* lo, const val_t* hi) {
    if (lo && !truth_sat(type, CARQUET_COMPARE_GE, x, lo)) return 0;
    if (hi && !truth_sat(type, CARQUET_COMPARE_LE, x, hi)) return 0;
    return !is_nan_val(type, x);
}

static void do_ovl(void) {
    int type = atoi(h_tok[1]);
    parquet_statistics_t s; val_t mn, mx; stats_of(&s, &mn, &mx, h_tok[2], h_tok[3]);
    int hl = strcmp(h_tok[4], "N") != 0, hh = strcmp(h_tok[5], "N") != 0;
    val_t lo = { NULL, 0, NULL }, hi = { NULL, 0, NULL };
    if (hl) lo = unhex(h_tok[4]);
    if (hh) hi = unhex(h_tok[5]);
    bool ov = false;
    carquet_status_t st = carquet_statistics_range_overlaps(&s, (carquet_physical_type_t)type, hl ? lo.p : NULL, hh ? hi.p : NULL,
                                                            hl ? lo.n : hi.n, &ov);
    val_t* d; int k = split_vals(h_tok[6], &d); int any = 0;
    for (int j = 0; j < k; j++) if (in_range(type, &d[j], hl ? &lo : NULL, hh ? &hi : NULL)) any = 1;
    printf("OK %d %d T=%d\n", (int)st, ov ? 1 : 0, any);
    free_vals(d, k); free(mn.base); free(mx.base); free(lo.base); free(hi.base);
}

static void do_pm(void) {
    int type = atoi(h_tok[1]);
    carquet_column_index_builder_t* b = carquet_column_index_builder_create((carquet_physical_type_t)type, 0);
    if (!b) { puts("ERR oom"); return; }
    char* save = NULL;
    for (char* pg = strtok_r(h_tok[2], ";", &save); pg; pg = strtok_r(NULL, ";", &save)) {
        char* f[4]; int nf = 0; char* sv = NULL;
        for (char* x = strtok_r(pg, "/", &sv); x && nf < 4; x = strtok_r(NULL, "/", &sv)) f[nf++] = x;
        if (nf != 4) continue;
        val_t mn = { NULL, 0, NULL }, mx = { NULL, 0, NULL };
        if (strcmp(f[1], "-")) mn = unhex(f[1]);
        if (strcmp(f[2], "-")) mx = unhex(f[2]);
        carquet_column_index_add_page(b, atol(f[0]), mn.base ? mn.p : NULL, (int32_t)mn.n, mx.base ? mx.p : NULL, (int32_t)mx.n, f[3][0] == '1');
        free(mn.base); free(mx.base);
    }
    int idx = atoi(h_tok[3]);
    int hl = strcmp(h_tok[4], "N") != 0, hh = strcmp(h_tok[5], "N") != 0;
    val_t lo = { NULL, 0, NULL }, hi = { NULL, 0, NULL };
    if (hl) lo = unhex(h_tok[4]);
    if (hh) hi = unhex(h_tok[5]);
    bool m = true;
    carquet_status_t st = carquet_column_index_page_might_match(b, idx, hl ? lo.p : NULL, hh ? hi.p : NULL,
                                                                (int32_t)(hl ? lo.n : hi.n), &m);
    val_t* d; int k = split_vals(h_tok[6], &d); int any = 0;
    for (int j = 0; j < k; j++) if (in_range(type, &d[j], hl ? &lo : NULL, hh ? &hi : NULL)) any = 1;
    printf("OK %d %d T=%d\n", (int)st, m ? 1 : 0, any);
    free_vals(d, k); free(lo.base); free(hi.base);
    carquet_column_index_builder_destroy(b);
}

/* ------------------------------------------------------------------ pmh: long add_page histories, every page probed */
/* pmh <type> <pages> <queries>   page = nulls/min/max/nullpage/values ; query = <qmin|N>/<qmax|N>
 * After the LAST carquet_column_index_add_page every page is asked about every query (the builder's arrays grow by
 * doubling, so early pages have been moved several times by then). */
static void do_pmh(void) {
    int type = atoi(h_tok[1]);
    carquet_column_index_builder_t* b = carquet_column_index_builder_create((carquet_physical_type_t)type, 0);
    if (!b) { puts("ERR oom"); return; }
    int np = 0, cap = 0; val_t** data = NULL; int* nd = NULL; int addbad = 0;
    char* save = NULL;
    for (char* pg = strtok_r(h_tok[2], ";", &save); pg; pg = strtok_r(NULL, ";", &save)) {
        char* f[5]; int nf = 0; char* sv = NULL;
        for (char* x = strtok_r(pg, "/", &sv); x && nf < 5; x = strtok_r(NULL, "/", &sv)) f[nf++] = x;
        if (nf != 5) continue;
        val_t mn = { NULL, 0, NULL }, mx = { NULL, 0, NULL };
        if (strcmp(f[1], "-")) mn = unhex(f[1]);
        if (strcmp(f[2], "-")) mx = unhex(f[2]);
        if (carquet_column_index_add_page(b, atol(f[0]), mn.base ? mn.p : NULL, (int32_t)mn.n, mx.base ? mx.p : NULL,
                                          (int32_t)mx.n, f[3][0] == '1') != CARQUET_OK) addbad++;
        free(mn.base); free(mx.base);
        if (np >= cap) { cap = 2 * cap + 16; data = realloc(data, sizeof *data * (size_t)cap); nd = realloc(nd, sizeof *nd * (size_t)cap); }
        nd[np] = split_vals(f[4], &data[np]);
        np++;
    }
    /* the declared boundary order (number of pages mod 3: 0 UNORDERED, 1 ASCENDING, 2 DESCENDING - the generator orders the
     * pages accordingly) is set BEFORE the queries: any use page_might_match makes of it must stay free of false negatives */
    carquet_column_index_set_boundary_order(b, np % 3);
    printf("OK n=%d addbad=%d m=", np, addbad);
    /* two passes over the queries: answers, then ground truth */
    char* qcopy = strdup(h_tok[3]);
    for (int pass = 0; pass < 2; pass++) {
        char* qs = pass ? qcopy : h_tok[3];
        if (pass) fputs(" T=", stdout);
        char* sq = NULL; int qn = 0;
        for (char* q = strtok_r(qs, ";", &sq); q; q = strtok_r(NULL, ";", &sq), qn++) {
            char* sl = strchr(q, '/');
            if (!sl) continue;
            *sl = 0;
            int hl = strcmp(q, "N") != 0, hh = strcmp(sl + 1, "N") != 0;
            val_t lo = { NULL, 0, NULL }, hi = { NULL, 0, NULL };
            if (hl) lo = unhex(q);
            if (hh) hi = unhex(sl + 1);
            if (qn) putchar('|');
            for (int i = 0; i < np; i++) {
                if (!pass) {
                    bool m = true;
                    carquet_status_t st = carquet_column_index_page_might_match(b, i, hl ? lo.p : NULL, hh ? hi.p : NULL,
                                                                                (int32_t)(hl ? lo.n : hi.n), &m);
                    putchar(st != CARQUET_OK ? 'E' : m ? '1' : '0');
                } else {
                    int any = 0;
                    for (int j = 0; j < nd[i]; j++) if (in_range(type, &data[i][j], hl ? &lo : NULL, hh ? &hi : NULL)) any = 1;
                    putchar(any ? '1' : '0');
                }
            }
            free(lo.base); free(hi.base);
        }
    }
    /* the ColumnIndex as carquet serialises it (boundary_order = number of pages mod 3) */
    {
        carquet_column_index_set_boundary_order(b, np % 3);
        carquet_buffer_t ob; carquet_buffer_init(&ob);
        carquet_status_t st = carquet_column_index_serialize(b, &ob);
        printf(" ser=%d:", (int)st);
        if (st == CARQUET_OK) h_puthex(ob.data, ob.size); else putchar('-');
        carquet_buffer_destroy(&ob);
    }
    putchar('\n');
    free(qcopy);
    for (int i = 0; i < np; i++) free_vals(data[i], nd[i]);
    free(data); free(nd);
    carquet_column_index_builder_destroy(b);
}

/* ------------------------------------------------------------------ oix: offset index builder and its serialisation */
/* oix <track 0|1> <pages>   page = offset/compressed_size/first_row_index/uncompressed_size */
static void do_oix(void) {
    int track = atoi(h_tok[1]);
    carquet_offset_index_builder_t* b = carquet_offset_index_builder_create(track != 0);
    if (!b) { puts("ERR oom"); return; }
    int bad = 0, n = 0;
    char* save = NULL;
    if (strcmp(h_tok[2], "-"))
    for (char* pg = strtok_r(h_tok[2], ";", &save); pg; pg = strtok_r(NULL, ";", &save), n++) {
        long long o, f; long c, u;
        if (sscanf(pg, "%lld/%ld/%lld/%ld", &o, &c, &f, &u) != 4) { bad++; continue; }
        if (carquet_offset_index_add_page(b, o, (int32_t)c, f, (int32_t)u) != CARQUET_OK) bad++;
    }
    carquet_buffer_t ob; carquet_buffer_init(&ob);
    carquet_status_t st = carquet_offset_index_serialize(b, &ob);
    printf("OK n=%d addbad=%d ser=%d:", n, bad, (int)st);
    if (st == CARQUET_OK) h_puthex(ob.data, ob.size); else putchar('-');
    putchar('\n');
    carquet_buffer_destroy(&ob);
    carquet_offset_index_builder_destroy(b);
}

/* ------------------------------------------------------------------ pmw: column index built from real pages */
/* pmw <type> <tlen> <maxdef> <pages> <idx> <qmin|N> <qmax|N>   pages joined by ";", a page = batches joined by ",",
 * batch = <vals|->/<def levels|->/<num_values>.  Every page goes through carquet's page writer; what the page writer
 * reports (null count, min/max or none) is handed to carquet_column_index_add_page (is_null_page = the page has no value);
 * page_might_match is then asked about page <idx> and compared with the values that page really holds. */
static void do_pmw(void) {
    int type = atoi(h_tok[1]), tlen = atoi(h_tok[2]), maxdef = atoi(h_tok[3]);
    int all = !strcmp(h_tok[5], "all"), idx = all ? -1 : atoi(h_tok[5]);
    char* anyp = NULL; int anycap = 0;         /* per-page ground truth when every page is probed */
    int hl = strcmp(h_tok[6], "N") != 0, hh = strcmp(h_tok[7], "N") != 0;
    val_t lo = { NULL, 0, NULL }, hi = { NULL, 0, NULL };
    if (hl) lo = unhex(h_tok[6]);
    if (hh) hi = unhex(h_tok[7]);
    carquet_page_writer_t* w = carquet_page_writer_create((carquet_physical_type_t)type, CARQUET_ENCODING_PLAIN,
                                                          CARQUET_COMPRESSION_UNCOMPRESSED, (int16_t)maxdef, 0, tlen);
    carquet_column_index_builder_t* b = carquet_column_index_builder_create((carquet_physical_type_t)type, tlen);
    if (!w || !b) { puts("ERR oom"); return; }
    fputs("OK pages=", stdout);
    int pno = 0, any = 0;
    char* sp = NULL;
    for (char* pg = strtok_r(h_tok[4], ";", &sp); pg; pg = strtok_r(NULL, ";", &sp), pno++) {
        long nonnull = 0; int wst = 0;
        char* sb = NULL;
        for (char* bt = strtok_r(pg, ",", &sb); bt; bt = strtok_r(NULL, ",", &sb)) {
            if (bt[0] == 's' && (bt[1] == '0' || bt[1] == '1') && !bt[2]) { carquet_page_writer_set_statistics(w, bt[1] == '1'); continue; }
            char* fl[3]; int nf = 0; char* sv = NULL;
            for (char* x = strtok_r(bt, "/", &sv); x && nf < 3; x = strtok_r(NULL, "/", &sv)) fl[nf++] = x;
            if (nf != 3) continue;
            val_t* v; int n = split_vals(fl[0], &v);
            long nv = atol(fl[2]);
            int16_t* defs = NULL;
            if (strcmp(fl[1], "-")) {
                size_t k = strlen(fl[1]);
                defs = malloc(sizeof *defs * (k ? k : 1));
                for (size_t i = 0; i < k; i++) defs[i] = (int16_t)(fl[1][i] - '0');
            }
            carquet_status_t st;
            if (type == CARQUET_PHYSICAL_BYTE_ARRAY) {
                carquet_byte_array_t* arr = malloc(sizeof *arr * (size_t)(n ? n : 1));
                for (int i = 0; i < n; i++) { arr[i].data = v[i].p; arr[i].length = (int32_t)v[i].n; }
                st = carquet_page_writer_add_values(w, arr, nv, defs, NULL);
                free(arr);
            } else {
                size_t wd = n ? v[0].n : 0;
                uint8_t* arr = malloc(wd * (size_t)n + 8);
                for (int i = 0; i < n; i++) memcpy(arr + wd * (size_t)i, v[i].p, wd);
                st = carquet_page_writer_add_values(w, arr, nv, defs, NULL);
                free(arr);
            }
            if (st != CARQUET_OK) wst = (int)st;
            nonnull += n;
            if (all) {
                if (pno >= anycap) { int nc2 = 2 * pno + 16; anyp = realloc(anyp, (size_t)nc2); memset(anyp + anycap, '0', (size_t)(nc2 - anycap)); anycap = nc2; }
                for (int i = 0; i < n; i++) if (in_range(type, &v[i], hl ? &lo : NULL, hh ? &hi : NULL)) anyp[pno] = '1';
            }
            if (pno == idx) for (int i = 0; i < n; i++) if (in_range(type, &v[i], hl ? &lo : NULL, hh ? &hi : NULL)) any = 1;
            free(defs); free_vals(v, n);
        }
        const uint8_t* mn = NULL; const uint8_t* mx = NULL; size_t sz = 0; int64_t nc = 0;
        bool has = carquet_page_writer_get_statistics(w, &mn, &mx, &sz, &nc);
        int64_t nulls = carquet_page_writer_null_count(w);
        carquet_status_t ast = carquet_column_index_add_page(b, nulls, has ? mn : NULL, has ? (int32_t)sz : 0,
                                                             has ? mx : NULL, has ? (int32_t)sz : 0, nonnull == 0);
        printf("%s%d:%d:%lld:", pno ? ";" : "", wst, (int)ast, (long long)nulls);
        if (has) { h_puthex(mn, sz); putchar(':'); h_puthex(mx, sz); } else fputs("-:-", stdout);
        carquet_page_writer_reset(w);
    }
    if (!pno) putchar('-');
    if (all) {
        /* every page is asked after the LAST add (the arrays may have been re-allocated several times since) */
        fputs(" m=", stdout);
        for (int i = 0; i < pno; i++) {
            bool m = true;
            carquet_status_t st = carquet_column_index_page_might_match(b, i, hl ? lo.p : NULL, hh ? hi.p : NULL,
                                                                        (int32_t)(hl ? lo.n : hi.n), &m);
            putchar(st != CARQUET_OK ? 'E' : m ? '1' : '0');
        }
        fputs(" T=", stdout);
        for (int i = 0; i < pno; i++) putchar(i < anycap ? anyp[i] : '0');
        putchar('\n');
        free(anyp);
    } else {
        bool m = true;
        carquet_status_t st = carquet_column_index_page_might_match(b, idx, hl ? lo.p : NULL, hh ? hi.p : NULL,
                                                                    (int32_t)(hl ? lo.n : hi.n), &m);
        printf(" m=%d:%d T=%d\n", (int)st, m ? 1 : 0, any);
    }
    free(lo.base); free(hi.base);
    carquet_page_writer_destroy(w);
    carquet_column_index_builder_destroy(b);
}

/* ------------------------------------------------------------------ file: the public writer, then the public reader */
static void do_file(void) {
    int type = atoi(h_tok[1]), nullable = atoi(h_tok[2]), op = atoi(h_tok[4]);
    val_t probe = unhex(h_tok[5]);
    carquet_error_t err = CARQUET_ERROR_INIT;
    carquet_schema_t* sc = carquet_schema_create(&err);
    if (!sc || carquet_schema_add_column(sc, "c", (carquet_physical_type_t)type, NULL,
                                         nullable ? CARQUET_REPETITION_OPTIONAL : CARQUET_REPETITION_REQUIRED, 0) != CARQUET_OK) {
        puts("ERR schema"); free(probe.base); return;
    }
    char* mem = NULL; size_t msz = 0;
    FILE* f = open_memstream(&mem, &msz);
    carquet_writer_options_t wo; carquet_writer_options_init(&wo);
    wo.compression = CARQUET_COMPRESSION_UNCOMPRESSED;
    wo.write_statistics = true;
    if (h_ntok >= 7 && atoi(h_tok[6]) > 0) wo.page_size = atoi(h_tok[6]);
    if (h_ntok == 8) wo.compression = (carquet_compression_t)atoi(h_tok[7]);   /* page statistics do not depend on the codec */
    carquet_writer_t* w = carquet_writer_create_file(f, sc, &wo, &err);
    if (!w) { printf("ERR writer %d\n", (int)err.code); fclose(f); free(mem); carquet_schema_free(sc); free(probe.base); return; }
    /* ground truth per row group, computed while the data goes in */
    char truth[64]; int ng = 0;
    fputs("OK w=", stdout);
    char* sg = NULL; int firstw = 1;
    for (char* g = strtok_r(h_tok[3], ";", &sg); g && ng < 60; g = strtok_r(NULL, ";", &sg)) {
        int any = 0;
        char* sb = NULL;
        for (char* bt = strtok_r(g, ",", &sb); bt; bt = strtok_r(NULL, ",", &sb)) {
            char* fl[3]; int nf = 0; char* sv = NULL;
            for (char* x = strtok_r(bt, "/", &sv); x && nf < 3; x = strtok_r(NULL, "/", &sv)) fl[nf++] = x;
            if (nf != 3) continue;
            val_t* v; int n = split_vals(fl[0], &v);
            long nv = atol(fl[2]);
            size_t wd = n ? v[0].n : 0;
            uint8_t* arr = malloc(wd * (size_t)n + 8);
            for (int i = 0; i < n; i++) { memcpy(arr + wd * (size_t)i, v[i].p, wd); if (truth_sat(type, op, &v[i], &probe)) any = 1; }
            int16_t* defs = NULL;
            if (strcmp(fl[1], "-")) {
                size_t k = strlen(fl[1]);
                defs = malloc(sizeof *defs * (k ? k : 1));
                for (size_t i = 0; i < k; i++) defs[i] = (int16_t)(fl[1][i] - '0');
            }
            carquet_status_t st = carquet_writer_write_batch(w, 0, arr, nv, defs, NULL);
            printf("%s%d", firstw ? "" : ",", (int)st); firstw = 0;
            free(arr); free(defs); free_vals(v, n);
        }
        truth[ng++] = any ? '1' : '0';
        carquet_status_t st = carquet_writer_new_row_group(w);
        printf("%s%d", firstw ? "" : ",", (int)st); firstw = 0;
    }
    truth[ng] = 0;
    carquet_status_t cst = carquet_writer_close(w);
    fclose(f);
    printf(" close=%d", (int)cst);
    if (cst == CARQUET_OK) {
        uint8_t* exact = malloc(msz ? msz : 1);
        memcpy(exact, mem, msz);
        fputs(" file=", stdout); h_puthex(exact, msz);
        carquet_error_t e2 = CARQUET_ERROR_INIT;
        carquet_reader_t* r = carquet_reader_open_buffer(exact, msz, NULL, &e2);
        if (!r) printf(" open=%d", (int)e2.code);
        else {
            int nrg = carquet_reader_num_row_groups(r);
            printf(" nrg=%d cs=", nrg);
            for (int i = 0; i < nrg; i++) {
                carquet_column_statistics_t cs; memset(&cs, 0, sizeof cs);
                carquet_status_t st = carquet_reader_column_statistics(r, i, 0, &cs);
                if (i) putchar(';');
                if (st != CARQUET_OK) { printf("E%d", (int)st); continue; }
                printf("%d:%d:%lld:%lld:", cs.has_min_max ? 1 : 0, cs.has_null_count ? 1 : 0,
                       (long long)(cs.has_null_count ? cs.null_count : 0), (long long)cs.num_values);
                if (cs.has_min_max) { h_puthex(cs.min_value, (size_t)cs.min_value_size); putchar(':'); h_puthex(cs.max_value, (size_t)cs.max_value_size); }
                else fputs("-:-", stdout);
            }
            if (!nrg) putchar('-');
            fputs(" m=", stdout);
            for (int i = 0; i < nrg; i++) {
                bool m = false;
                carquet_status_t st = carquet_reader_row_group_matches(r, i, 0, (carquet_compare_op_t)op, probe.p, (int32_t)probe.n, &m);
                printf("%s%d:%d", i ? ";" : "", (int)st, m ? 1 : 0);
            }
            if (!nrg) putchar('-');
            carquet_reader_close(r);
        }
        free(exact);
    }
    printf(" T=%s\n", ng ? truth : "-");
    free(mem);
    carquet_schema_free(sc);
    free(probe.base);
}

int main(void) {
    while (h_readline()) {
        h_split();
        if (h_ntok == 0) { puts("ERR empty"); continue; }
        if (!strcmp(h_tok[0], "bld") && h_ntok == 4) do_bld();
        else if (!strcmp(h_tok[0], "pw") && (h_ntok == 4 || h_ntok == 5)) do_pw();
        else if (!strcmp(h_tok[0], "rd") && h_ntok == 9) do_rd();
        else if (!strcmp(h_tok[0], "cmp") && h_ntok == 6) do_cmp();
        else if (!strcmp(h_tok[0], "ovl") && h_ntok == 7) do_ovl();
        else if (!strcmp(h_tok[0], "pm") && h_ntok == 7) do_pm();
        else if (!strcmp(h_tok[0], "file") && (h_ntok >= 6 && h_ntok <= 8)) do_file();
        else if (!strcmp(h_tok[0], "pmw") && h_ntok == 8) do_pmw();
        else if (!strcmp(h_tok[0], "pmh") && h_ntok == 4) do_pmh();
        else if (!strcmp(h_tok[0], "oix") && h_ntok == 3) do_oix();
        else puts("ERR unknown-op");
        fflush(stdout);
    }
    free(h_line);
    return 0;
}
