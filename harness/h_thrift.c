/* Driver for the thrift engine (property C13): carquet's Thrift compact encoder/decoder primitives and
 * parquet_write_* / parquet_parse_* for FileMetaData and PageHeader.
 *
 * One case per input line, one canonical result line per case.  Structures travel as generic trees
 *     i<[-]hex>  integer        n  NULL pointer        b<hex> | b-  bytes (string without NUL / ptr+len)
 *     r(..,..)   struct, positional (slot order of coq/theories/Thrift/ParquetMetaDesc.v)
 *     a(..,..)   array (pointer + count)
 * Input buffers are exact-size heap allocations, so any over-read is an ASan report.
 *
 * Linked with -Wl,--wrap=thrift_read_struct_end: the wrapper records the reader position at the last
 * struct end seen from parquet_types.c, which is the number of bytes parquet_parse_file_metadata consumed
 * (that function does not report it). */
#include "hcommon.h"
#include "thrift/parquet_types.h"
#include "thrift/thrift_encode.h"
#include "thrift/thrift_decode.h"
#include "core/arena.h"
#include "core/buffer.h"

/* ---------------------------------------------------------------------------------------------- */
static size_t g_last_pos;
void __real_thrift_read_struct_end(thrift_decoder_t* dec);
void __wrap_thrift_read_struct_end(thrift_decoder_t* dec) {
    g_last_pos = dec->reader.pos;
    __real_thrift_read_struct_end(dec);
}

/* ---------------------------------------------------------------------------------------------- */
/* per-case allocations */
static void** g_pool = NULL; static size_t g_npool = 0, g_cpool = 0;
static void* palloc(size_t n) {
    void* p = malloc(n ? n : 1);
    if (!p) abort();
    if (n) memset(p, 0, n);
    if (g_npool == g_cpool) { g_cpool = g_cpool ? g_cpool * 2 : 256; g_pool = realloc(g_pool, g_cpool * sizeof(void*)); }
    g_pool[g_npool++] = p;
    return p;
}
/* exact-size allocation (no rounding up of n = 0 so that ASan sees a 0-byte object) */
static void* palloc_exact(size_t n) {
    void* p = malloc(n);
    if (!p) abort();
    if (g_npool == g_cpool) { g_cpool = g_cpool ? g_cpool * 2 : 256; g_pool = realloc(g_pool, g_cpool * sizeof(void*)); }
    g_pool[g_npool++] = p;
    return p;
}
static void pfree_all(void) { for (size_t i = 0; i < g_npool; i++) free(g_pool[i]); g_npool = 0; }

/* ---------------------------------------------------------------------------------------------- */
/* generic trees */
typedef struct mv { char k; int64_t i; uint8_t* b; size_t blen; struct mv** ch; size_t n; } mv;
static int g_bad;

static mv* mv_parse(const char** pp) {
    const char* p = *pp;
    mv* m = palloc(sizeof(mv));
    m->k = *p;
    if (*p == 'i') {
        p++;
        int neg = 0; if (*p == '-') { neg = 1; p++; }
        uint64_t v = 0;
        while ((*p >= '0' && *p <= '9') || (*p >= 'a' && *p <= 'f')) { v = v * 16 + (uint64_t)h_hexval(*p); p++; }
        m->i = neg ? (int64_t)(0 - v) : (int64_t)v;
    } else if (*p == 'n') {
        p++;
    } else if (*p == 'b') {
        p++;
        if (*p == '-') { p++; m->b = palloc_exact(0); m->blen = 0; }
        else {
            const char* q = p;
            while ((*q >= '0' && *q <= '9') || (*q >= 'a' && *q <= 'f')) q++;
            size_t n = (size_t)(q - p) / 2;
            m->b = palloc_exact(n); m->blen = n;
            for (size_t i = 0; i < n; i++) m->b[i] = (uint8_t)(h_hexval(p[2*i]) * 16 + h_hexval(p[2*i+1]));
            p = q;
        }
    } else if (*p == 'r' || *p == 'a') {
        p++;
        if (*p != '(') { g_bad = 1; *pp = p; return m; }
        p++;
        size_t cap = 8; m->ch = palloc(cap * sizeof(mv*)); m->n = 0;
        while (*p && *p != ')') {
            if (m->n == cap) { mv** nc = palloc(cap * 2 * sizeof(mv*)); memcpy(nc, m->ch, cap * sizeof(mv*)); m->ch = nc; cap *= 2; }
            m->ch[m->n++] = mv_parse(&p);
            if (g_bad) { *pp = p; return m; }
            if (*p == ',') p++;
        }
        if (*p == ')') p++; else g_bad = 1;
    } else g_bad = 1;
    *pp = p;
    return m;
}

static mv* slot(const mv* m, size_t i) {
    if (!m || (m->k != 'r' && m->k != 'a') || i >= m->n) { g_bad = 1; static mv zero = { 'i', 0, 0, 0, 0, 0 }; return &zero; }
    return m->ch[i];
}
static int64_t si(const mv* m, size_t i) { mv* s = slot(m, i); if (s->k != 'i') g_bad = 1; return s->i; }
/* C string: NULL or NUL-terminated copy in an exact-size allocation */
static char* sstr(const mv* m, size_t i) {
    mv* s = slot(m, i);
    if (s->k == 'n') return NULL;
    if (s->k != 'b') { g_bad = 1; return NULL; }
    char* c = palloc_exact(s->blen + 1);
    memcpy(c, s->b, s->blen); c[s->blen] = 0;
    return c;
}
static uint8_t* sbin(const mv* m, size_t i, int32_t* len) {
    mv* s = slot(m, i);
    if (s->k == 'n') { *len = 0; return NULL; }
    if (s->k != 'b') { g_bad = 1; *len = 0; return NULL; }
    *len = (int32_t)s->blen;
    return s->b;
}

/* a bool read through a union member that was not the one written may hold any byte */
#define BOOLV(x) ((int64_t)*(const unsigned char*)&(x))
static void put_i(int64_t v) { if (v < 0) printf("i-%" PRIx64, (uint64_t)0 - (uint64_t)v); else printf("i%" PRIx64, (uint64_t)v); }
static void put_str(const char* s) { if (!s) { putchar('n'); return; } putchar('b'); h_puthex((const uint8_t*)s, strlen(s)); }
/* pointer + length; lo..hi is the only region (besides the arena) a borrowed pointer may lie in */
static const uint8_t* g_lo; static const uint8_t* g_hi; static int g_check_range;
static void put_bin(const uint8_t* p, int32_t len) {
    if (!p) { putchar('n'); return; }
    if (g_check_range && !(p >= g_lo && len >= 0 && p + len <= g_hi)) { putchar('x'); return; }
    putchar('b'); h_puthex(p, (size_t)(len < 0 ? 0 : len));
}

/* ---------------------------------------------------------------------------------------------- */
/* struct <-> tree, slot order as in ParquetMetaDesc.v */
static void stats_to_c(const mv* m, parquet_statistics_t* s) {
    memset(s, 0, sizeof *s);
    s->max_deprecated = sbin(m, 0, &s->max_deprecated_len);
    s->min_deprecated = sbin(m, 1, &s->min_deprecated_len);
    s->has_null_count = si(m, 2) != 0; s->null_count = si(m, 3);
    s->has_distinct_count = si(m, 4) != 0; s->distinct_count = si(m, 5);
    s->max_value = sbin(m, 6, &s->max_value_len);
    s->min_value = sbin(m, 7, &s->min_value_len);
    s->has_is_max_value_exact = si(m, 8) != 0; s->is_max_value_exact = si(m, 9) != 0;
    s->has_is_min_value_exact = si(m, 10) != 0; s->is_min_value_exact = si(m, 11) != 0;
}
static void stats_print(const parquet_statistics_t* s) {
    printf("r("); put_bin(s->max_deprecated, s->max_deprecated_len); putchar(',');
    put_bin(s->min_deprecated, s->min_deprecated_len); putchar(',');
    put_i(BOOLV(s->has_null_count)); putchar(','); put_i(s->null_count); putchar(',');
    put_i(BOOLV(s->has_distinct_count)); putchar(','); put_i(s->distinct_count); putchar(',');
    put_bin(s->max_value, s->max_value_len); putchar(','); put_bin(s->min_value, s->min_value_len); putchar(',');
    put_i(BOOLV(s->has_is_max_value_exact)); putchar(','); put_i(BOOLV(s->is_max_value_exact)); putchar(',');
    put_i(BOOLV(s->has_is_min_value_exact)); putchar(','); put_i(BOOLV(s->is_min_value_exact)); putchar(')');
}

static void lt_to_c(const mv* m, carquet_logical_type_t* lt) {
    memset(lt, 0, sizeof *lt);
    lt->id = (carquet_logical_type_id_t)si(m, 0);
    switch (lt->id) {
        case CARQUET_LOGICAL_DECIMAL: lt->params.decimal.scale = (int32_t)si(m, 1); lt->params.decimal.precision = (int32_t)si(m, 2); break;
        case CARQUET_LOGICAL_INTEGER: lt->params.integer.bit_width = (int8_t)si(m, 3); lt->params.integer.is_signed = si(m, 4) != 0; break;
        case CARQUET_LOGICAL_TIME: lt->params.time.unit = (carquet_time_unit_t)si(m, 5); lt->params.time.is_adjusted_to_utc = si(m, 6) != 0; break;
        case CARQUET_LOGICAL_TIMESTAMP: lt->params.timestamp.unit = (carquet_time_unit_t)si(m, 5); lt->params.timestamp.is_adjusted_to_utc = si(m, 6) != 0; break;
        default: break;
    }
}
static void lt_print(const carquet_logical_type_t* lt) {
    int64_t v[7] = { (int32_t)lt->id, 0, 0, 0, 0, 0, 0 };
    switch (lt->id) {
        case CARQUET_LOGICAL_DECIMAL: v[1] = lt->params.decimal.scale; v[2] = lt->params.decimal.precision; break;
        case CARQUET_LOGICAL_INTEGER: v[3] = lt->params.integer.bit_width; v[4] = BOOLV(lt->params.integer.is_signed); break;
        case CARQUET_LOGICAL_TIME: v[5] = (int32_t)lt->params.time.unit; v[6] = BOOLV(lt->params.time.is_adjusted_to_utc); break;
        case CARQUET_LOGICAL_TIMESTAMP: v[5] = (int32_t)lt->params.timestamp.unit; v[6] = BOOLV(lt->params.timestamp.is_adjusted_to_utc); break;
        default: break;
    }
    printf("r(");
    for (int i = 0; i < 7; i++) { if (i) putchar(','); put_i(v[i]); }
    putchar(')');
}

static void se_to_c(const mv* m, parquet_schema_element_t* e) {
    memset(e, 0, sizeof *e);
    e->has_type = si(m, 0) != 0; e->type = (carquet_physical_type_t)si(m, 1);
    e->type_length = (int32_t)si(m, 2);
    e->has_repetition = si(m, 3) != 0; e->repetition_type = (carquet_field_repetition_t)si(m, 4);
    e->name = sstr(m, 5);
    e->num_children = (int32_t)si(m, 6);
    e->has_converted_type = si(m, 7) != 0; e->converted_type = (carquet_converted_type_t)si(m, 8);
    e->scale = (int32_t)si(m, 9); e->precision = (int32_t)si(m, 10);
    e->has_field_id = si(m, 11) != 0; e->field_id = (int32_t)si(m, 12);
    e->has_logical_type = si(m, 13) != 0; lt_to_c(slot(m, 14), &e->logical_type);
}
static void se_print(const parquet_schema_element_t* e) {
    printf("r("); put_i(e->has_type); putchar(','); put_i((int32_t)e->type); putchar(','); put_i(e->type_length); putchar(',');
    put_i(e->has_repetition); putchar(','); put_i((int32_t)e->repetition_type); putchar(','); put_str(e->name); putchar(',');
    put_i(e->num_children); putchar(','); put_i(e->has_converted_type); putchar(','); put_i((int32_t)e->converted_type); putchar(',');
    put_i(e->scale); putchar(','); put_i(e->precision); putchar(','); put_i(e->has_field_id); putchar(','); put_i(e->field_id); putchar(',');
    put_i(e->has_logical_type); putchar(','); lt_print(&e->logical_type); putchar(')');
}

static parquet_key_value_t* kvs_to_c(const mv* a, int32_t* n) {
    if (a->k != 'a') { g_bad = 1; *n = 0; return NULL; }
    *n = (int32_t)a->n;
    /* an empty list is a NULL pointer or, every other time, a pointer to a 0-byte object with count 0 */
    static unsigned empties;
    if (a->n == 0) return (++empties & 1) ? NULL : palloc_exact(0);
    parquet_key_value_t* kv = palloc_exact(a->n * sizeof *kv);
    for (size_t i = 0; i < a->n; i++) { kv[i].key = sstr(a->ch[i], 0); kv[i].value = sstr(a->ch[i], 1); }
    return kv;
}
static void kvs_print(const parquet_key_value_t* kv, int32_t n) {
    printf("a(");
    for (int32_t i = 0; kv && i < n; i++) { if (i) putchar(','); printf("r("); put_str(kv[i].key); putchar(','); put_str(kv[i].value); putchar(')'); }
    putchar(')');
}

static void cm_to_c(const mv* m, parquet_column_metadata_t* c) {
    memset(c, 0, sizeof *c);
    c->type = (carquet_physical_type_t)si(m, 0);
    mv* en = slot(m, 1); c->num_encodings = (int32_t)en->n;
    if (en->n) { c->encodings = palloc_exact(en->n * sizeof *c->encodings); for (size_t i = 0; i < en->n; i++) c->encodings[i] = (carquet_encoding_t)si(en, i); }
    mv* pa = slot(m, 2); c->path_len = (int32_t)pa->n;
    if (pa->n) { c->path_in_schema = palloc_exact(pa->n * sizeof(char*)); for (size_t i = 0; i < pa->n; i++) c->path_in_schema[i] = sstr(pa, i); }
    c->codec = (carquet_compression_t)si(m, 3);
    c->num_values = si(m, 4); c->total_uncompressed_size = si(m, 5); c->total_compressed_size = si(m, 6);
    c->key_value_metadata = kvs_to_c(slot(m, 7), &c->num_key_value);
    c->data_page_offset = si(m, 8);
    c->has_index_page_offset = si(m, 9) != 0; c->index_page_offset = si(m, 10);
    c->has_dictionary_page_offset = si(m, 11) != 0; c->dictionary_page_offset = si(m, 12);
    c->has_statistics = si(m, 13) != 0; stats_to_c(slot(m, 14), &c->statistics);
    mv* es = slot(m, 15); c->num_encoding_stats = (int32_t)es->n;
    if (es->n) {
        c->encoding_stats = palloc_exact(es->n * sizeof *c->encoding_stats);
        for (size_t i = 0; i < es->n; i++) {
            c->encoding_stats[i].page_type = (carquet_page_type_t)si(es->ch[i], 0);
            c->encoding_stats[i].encoding = (carquet_encoding_t)si(es->ch[i], 1);
            c->encoding_stats[i].count = (int32_t)si(es->ch[i], 2);
        }
    }
    c->has_bloom_filter_offset = si(m, 16) != 0; c->bloom_filter_offset = si(m, 17);
    c->has_bloom_filter_length = si(m, 18) != 0; c->bloom_filter_length = (int32_t)si(m, 19);
}
static void cm_print(const parquet_column_metadata_t* c) {
    printf("r("); put_i((int32_t)c->type); printf(",a(");
    for (int32_t i = 0; c->encodings && i < c->num_encodings; i++) { if (i) putchar(','); put_i((int32_t)c->encodings[i]); }
    printf("),a(");
    for (int32_t i = 0; c->path_in_schema && i < c->path_len; i++) { if (i) putchar(','); put_str(c->path_in_schema[i]); }
    printf("),"); put_i((int32_t)c->codec); putchar(','); put_i(c->num_values); putchar(',');
    put_i(c->total_uncompressed_size); putchar(','); put_i(c->total_compressed_size); putchar(',');
    kvs_print(c->key_value_metadata, c->num_key_value); putchar(',');
    put_i(c->data_page_offset); putchar(','); put_i(c->has_index_page_offset); putchar(','); put_i(c->index_page_offset); putchar(',');
    put_i(c->has_dictionary_page_offset); putchar(','); put_i(c->dictionary_page_offset); putchar(',');
    put_i(c->has_statistics); putchar(','); stats_print(&c->statistics); printf(",a(");
    for (int32_t i = 0; c->encoding_stats && i < c->num_encoding_stats; i++) {
        if (i) putchar(',');
        printf("r("); put_i((int32_t)c->encoding_stats[i].page_type); putchar(','); put_i((int32_t)c->encoding_stats[i].encoding);
        putchar(','); put_i(c->encoding_stats[i].count); putchar(')');
    }
    printf("),"); put_i(c->has_bloom_filter_offset); putchar(','); put_i(c->bloom_filter_offset); putchar(',');
    put_i(c->has_bloom_filter_length); putchar(','); put_i(c->bloom_filter_length); putchar(')');
}

static void cc_to_c(const mv* m, parquet_column_chunk_t* c) {
    memset(c, 0, sizeof *c);
    c->file_path = sstr(m, 0); c->file_offset = si(m, 1);
    c->has_metadata = si(m, 2) != 0; cm_to_c(slot(m, 3), &c->metadata);
    c->has_offset_index_offset = si(m, 4) != 0; c->offset_index_offset = si(m, 5);
    c->has_offset_index_length = si(m, 6) != 0; c->offset_index_length = (int32_t)si(m, 7);
    c->has_column_index_offset = si(m, 8) != 0; c->column_index_offset = si(m, 9);
    c->has_column_index_length = si(m, 10) != 0; c->column_index_length = (int32_t)si(m, 11);
}
static void cc_print(const parquet_column_chunk_t* c) {
    printf("r("); put_str(c->file_path); putchar(','); put_i(c->file_offset); putchar(',');
    put_i(c->has_metadata); putchar(','); cm_print(&c->metadata); putchar(',');
    put_i(c->has_offset_index_offset); putchar(','); put_i(c->offset_index_offset); putchar(',');
    put_i(c->has_offset_index_length); putchar(','); put_i(c->offset_index_length); putchar(',');
    put_i(c->has_column_index_offset); putchar(','); put_i(c->column_index_offset); putchar(',');
    put_i(c->has_column_index_length); putchar(','); put_i(c->column_index_length); putchar(')');
}

static void rg_to_c(const mv* m, parquet_row_group_t* g) {
    memset(g, 0, sizeof *g);
    mv* cols = slot(m, 0); g->num_columns = (int32_t)cols->n;
    if (cols->n) { g->columns = palloc_exact(cols->n * sizeof *g->columns); for (size_t i = 0; i < cols->n; i++) cc_to_c(cols->ch[i], &g->columns[i]); }
    g->total_byte_size = si(m, 1); g->num_rows = si(m, 2);
    g->has_file_offset = si(m, 3) != 0; g->file_offset = si(m, 4);
    g->has_total_compressed_size = si(m, 5) != 0; g->total_compressed_size = si(m, 6);
    g->has_ordinal = si(m, 7) != 0; g->ordinal = (int16_t)si(m, 8);
}
static void rg_print(const parquet_row_group_t* g) {
    printf("r(a(");
    for (int32_t i = 0; g->columns && i < g->num_columns; i++) { if (i) putchar(','); cc_print(&g->columns[i]); }
    printf("),"); put_i(g->total_byte_size); putchar(','); put_i(g->num_rows); putchar(',');
    put_i(g->has_file_offset); putchar(','); put_i(g->file_offset); putchar(',');
    put_i(g->has_total_compressed_size); putchar(','); put_i(g->total_compressed_size); putchar(',');
    put_i(g->has_ordinal); putchar(','); put_i(g->ordinal); putchar(')');
}

static void fm_to_c(const mv* m, parquet_file_metadata_t* f) {
    memset(f, 0, sizeof *f);
    f->version = (int32_t)si(m, 0);
    mv* sc = slot(m, 1); f->num_schema_elements = (int32_t)sc->n;
    if (sc->n) { f->schema = palloc_exact(sc->n * sizeof *f->schema); for (size_t i = 0; i < sc->n; i++) se_to_c(sc->ch[i], &f->schema[i]); }
    f->num_rows = si(m, 2);
    mv* rg = slot(m, 3); f->num_row_groups = (int32_t)rg->n;
    if (rg->n) { f->row_groups = palloc_exact(rg->n * sizeof *f->row_groups); for (size_t i = 0; i < rg->n; i++) rg_to_c(rg->ch[i], &f->row_groups[i]); }
    f->key_value_metadata = kvs_to_c(slot(m, 4), &f->num_key_value);
    f->created_by = sstr(m, 5);
}
static void fm_print(const parquet_file_metadata_t* f) {
    printf("r("); put_i(f->version); printf(",a(");
    for (int32_t i = 0; f->schema && i < f->num_schema_elements; i++) { if (i) putchar(','); se_print(&f->schema[i]); }
    printf("),"); put_i(f->num_rows); printf(",a(");
    for (int32_t i = 0; f->row_groups && i < f->num_row_groups; i++) { if (i) putchar(','); rg_print(&f->row_groups[i]); }
    printf("),"); kvs_print(f->key_value_metadata, f->num_key_value); putchar(','); put_str(f->created_by); putchar(')');
}

static void ph_to_c(const mv* m, parquet_page_header_t* h) {
    memset(h, 0, sizeof *h);
    h->type = (carquet_page_type_t)si(m, 0);
    h->uncompressed_page_size = (int32_t)si(m, 1); h->compressed_page_size = (int32_t)si(m, 2);
    h->has_crc = si(m, 3) != 0; h->crc = (int32_t)si(m, 4);
    switch (h->type) {
        case CARQUET_PAGE_DATA:
            h->data_page_header.num_values = (int32_t)si(m, 5);
            h->data_page_header.encoding = (carquet_encoding_t)si(m, 6);
            h->data_page_header.definition_level_encoding = (carquet_encoding_t)si(m, 7);
            h->data_page_header.repetition_level_encoding = (carquet_encoding_t)si(m, 8);
            h->data_page_header.has_statistics = si(m, 9) != 0;
            stats_to_c(slot(m, 10), &h->data_page_header.statistics);
            break;
        case CARQUET_PAGE_DICTIONARY:
            h->dictionary_page_header.num_values = (int32_t)si(m, 11);
            h->dictionary_page_header.encoding = (carquet_encoding_t)si(m, 12);
            h->dictionary_page_header.is_sorted = si(m, 13) != 0;
            break;
        case CARQUET_PAGE_DATA_V2:
            h->data_page_header_v2.num_values = (int32_t)si(m, 14);
            h->data_page_header_v2.num_nulls = (int32_t)si(m, 15);
            h->data_page_header_v2.num_rows = (int32_t)si(m, 16);
            h->data_page_header_v2.encoding = (carquet_encoding_t)si(m, 17);
            h->data_page_header_v2.definition_levels_byte_length = (int32_t)si(m, 18);
            h->data_page_header_v2.repetition_levels_byte_length = (int32_t)si(m, 19);
            h->data_page_header_v2.is_compressed = si(m, 20) != 0;
            h->data_page_header_v2.has_statistics = si(m, 21) != 0;
            break;
        default: break;
    }
}
/* The three type-specific headers share storage: only the one selected by `type` is printed (what a
 * consumer of the struct looks at); the others are printed as zeros. */
static void ph_print(const parquet_page_header_t* h) {
    static const parquet_statistics_t zs;
    int64_t v[22]; memset(v, 0, sizeof v);
    const parquet_statistics_t* st = &zs;
    v[0] = (int32_t)h->type; v[1] = h->uncompressed_page_size; v[2] = h->compressed_page_size; v[3] = h->has_crc; v[4] = h->crc;
    switch (h->type) {
        case CARQUET_PAGE_DATA:
            v[5] = h->data_page_header.num_values; v[6] = (int32_t)h->data_page_header.encoding;
            v[7] = (int32_t)h->data_page_header.definition_level_encoding; v[8] = (int32_t)h->data_page_header.repetition_level_encoding;
            v[9] = BOOLV(h->data_page_header.has_statistics); st = &h->data_page_header.statistics;
            break;
        case CARQUET_PAGE_DICTIONARY:
            v[11] = h->dictionary_page_header.num_values; v[12] = (int32_t)h->dictionary_page_header.encoding;
            v[13] = BOOLV(h->dictionary_page_header.is_sorted);
            break;
        case CARQUET_PAGE_DATA_V2:
            v[14] = h->data_page_header_v2.num_values; v[15] = h->data_page_header_v2.num_nulls; v[16] = h->data_page_header_v2.num_rows;
            v[17] = (int32_t)h->data_page_header_v2.encoding; v[18] = h->data_page_header_v2.definition_levels_byte_length;
            v[19] = h->data_page_header_v2.repetition_levels_byte_length; v[20] = BOOLV(h->data_page_header_v2.is_compressed);
            v[21] = BOOLV(h->data_page_header_v2.has_statistics);
            break;
        default: break;
    }
    printf("r(");
    for (int i = 0; i < 22; i++) {
        if (i) putchar(',');
        if (i == 10) stats_print(st); else put_i(v[i]);
    }
    putchar(')');
}

/* ---------------------------------------------------------------------------------------------- */
static int64_t shex(const char* s) {
    int neg = 0; if (*s == '-') { neg = 1; s++; }
    uint64_t v = strtoull(s, NULL, 16);
    return neg ? (int64_t)(0 - v) : (int64_t)v;
}
static void put_shex(int64_t v) { if (v < 0) printf("-%" PRIx64, (uint64_t)0 - (uint64_t)v); else printf("%" PRIx64, (uint64_t)v); }
static void fmt_shex(char* out, size_t cap, int64_t v) {
    if (v < 0) snprintf(out, cap, "-%" PRIx64, (uint64_t)0 - (uint64_t)v); else snprintf(out, cap, "%" PRIx64, (uint64_t)v);
}

static void enc_result(thrift_encoder_t* e, carquet_buffer_t* b) {
    if (e->status != CARQUET_OK) printf("ERR %d\n", (int)e->status);
    else { printf("OK "); h_puthex(carquet_buffer_data_const(b), carquet_buffer_size(b)); putchar('\n'); }
}

/* decoder positioned at `level` open structs, innermost last_field_id = last */
static void dec_setup(thrift_decoder_t* d, const uint8_t* p, size_t n, int level, int last, int via_reader) {
    if (via_reader) {
        /* the other way to set a decoder up: from an existing buffer reader */
        carquet_buffer_reader_t rd; carquet_buffer_reader_init_data(&rd, p, n);
        thrift_decoder_init_reader(d, &rd);
    } else thrift_decoder_init(d, p, n);
    for (int i = 0; i < level; i++) thrift_read_struct_begin(d);
    if (level > 0 && level <= THRIFT_MAX_NESTING) d->last_field_id[level - 1] = (int16_t)last;
}

int main(void) {
    carquet_error_t err;
    while (h_readline()) {
        h_split();
        g_bad = 0; g_check_range = 0;
        if (h_ntok == 0) { puts("ERR empty"); continue; }
        const char* op = h_tok[0];
        /* ------------------------------------------------ encoder primitives */
        if (op[0] == 'w' && strcmp(op, "wfm") && strcmp(op, "wph")) {
            /* the output buffer starts empty, or with a small / medium reserved capacity (growth paths) */
            static unsigned wcase; wcase++;
            carquet_buffer_t buf;
            if (wcase % 3 == 0) carquet_buffer_init(&buf);
            else if (carquet_buffer_init_capacity(&buf, wcase % 3 == 1 ? 1 : 64) != CARQUET_OK) abort();
            thrift_encoder_t e; thrift_encoder_init(&e, &buf);
            if (!strcmp(op, "wvarint") && h_ntok == 2) thrift_write_varint(&e, strtoull(h_tok[1], NULL, 16));
            else if (!strcmp(op, "wzigzag") && h_ntok == 2) thrift_write_zigzag(&e, shex(h_tok[1]));
            else if (!strcmp(op, "wi16") && h_ntok == 2) thrift_write_i16(&e, (int16_t)shex(h_tok[1]));
            else if (!strcmp(op, "wi32") && h_ntok == 2) thrift_write_i32(&e, (int32_t)shex(h_tok[1]));
            else if (!strcmp(op, "wi64") && h_ntok == 2) thrift_write_i64(&e, shex(h_tok[1]));
            else if (!strcmp(op, "wbyte") && h_ntok == 2) thrift_write_byte(&e, (int8_t)shex(h_tok[1]));
            else if (!strcmp(op, "wbool") && h_ntok == 2) thrift_write_bool(&e, atoi(h_tok[1]) != 0);
            else if (!strcmp(op, "wdouble") && h_ntok == 2) { uint64_t u = strtoull(h_tok[1], NULL, 16); double dv; memcpy(&dv, &u, 8); thrift_write_double(&e, dv); }
            else if (!strcmp(op, "wbin") && h_ntok == 2) { size_t n; void* base; uint8_t* p = h_unhex(h_tok[1], &n, 0, &base); thrift_write_binary(&e, p, (int32_t)n); free(base); }
            else if (!strcmp(op, "wstr") && h_ntok == 2) {
                if (!strcmp(h_tok[1], "n")) thrift_write_string(&e, NULL);
                else { size_t n; void* base; uint8_t* p = h_unhex(h_tok[1], &n, 0, &base); char* s = malloc(n + 1); memcpy(s, p, n); s[n] = 0; thrift_write_string(&e, s); free(s); free(base); }
            }
            else if (!strcmp(op, "wfield") && h_ntok == 5) {
                /* wfield <level> <last id> <type> <id> */
                int level = atoi(h_tok[1]);
                for (int i = 0; i < level; i++) thrift_write_struct_begin(&e);
                if (level > 0 && level <= THRIFT_ENCODER_MAX_NESTING) e.last_field_id[level - 1] = (int16_t)shex(h_tok[2]);
                thrift_write_field_header(&e, atoi(h_tok[3]), (int16_t)shex(h_tok[4]));
                if (e.status == CARQUET_OK) {
                    printf("OK "); h_puthex(carquet_buffer_data_const(&buf), carquet_buffer_size(&buf));
                    printf(" "); put_shex(level > 0 ? e.last_field_id[level - 1] : 0); putchar('\n');
                    carquet_buffer_destroy(&buf); fflush(stdout); continue;
                }
            }
            else if (!strcmp(op, "wlist") && h_ntok == 3) thrift_write_list_begin(&e, atoi(h_tok[1]), (int32_t)shex(h_tok[2]));
            else if (!strcmp(op, "wset") && h_ntok == 3) thrift_write_set_begin(&e, atoi(h_tok[1]), (int32_t)shex(h_tok[2]));
            else if (!strcmp(op, "wuuid") && h_ntok == 2) { size_t n; void* base; uint8_t* p = h_unhex(h_tok[1], &n, 0, &base); if (n == 16) thrift_write_uuid(&e, p); free(base); }
            else if (!strcmp(op, "wmap") && h_ntok == 4) thrift_write_map_begin(&e, atoi(h_tok[1]), atoi(h_tok[2]), (int32_t)shex(h_tok[3]));
            else if (!strcmp(op, "wlevel") && h_ntok == 3) {
                /* k struct begins then j struct ends: the nesting level afterwards and the bytes */
                int k = atoi(h_tok[1]), j = atoi(h_tok[2]);
                for (int i = 0; i < k; i++) thrift_write_struct_begin(&e);
                for (int i = 0; i < j; i++) thrift_write_struct_end(&e);
                if (e.status == CARQUET_OK) {
                    printf("OK "); h_puthex(carquet_buffer_data_const(&buf), carquet_buffer_size(&buf)); printf(" %d\n", e.nesting_level);
                    carquet_buffer_destroy(&buf); fflush(stdout); continue;
                }
            }
            else if (!strcmp(op, "wnest") && h_ntok == 2) {
                /* n struct begins, then n struct ends */
                int n = atoi(h_tok[1]);
                for (int i = 0; i < n; i++) thrift_write_struct_begin(&e);
                for (int i = 0; i < n; i++) thrift_write_struct_end(&e);
            }
            else { puts("ERR unknown-op"); carquet_buffer_destroy(&buf); fflush(stdout); continue; }
            enc_result(&e, &buf);
            carquet_buffer_destroy(&buf);
        }
        /* ------------------------------------------------ decoder primitives:  <op> <level> <last> <hex> [arg] */
        else if (op[0] == 'r' && strncmp(op, "rt", 2) && h_ntok >= 4) {
            size_t n; void* base; uint8_t* p = h_unhex(h_tok[3], &n, 0, &base);
            thrift_decoder_t d; dec_setup(&d, p, n, atoi(h_tok[1]), (int)shex(h_tok[2]), strchr(h_tok[1], 'r') != NULL);
            char out[256]; out[0] = 0;
            if (!strcmp(op, "rvarint")) { uint64_t v = thrift_read_varint(&d); snprintf(out, sizeof out, "%" PRIx64, v); }
            else if (!strcmp(op, "rzigzag")) { int64_t v = thrift_read_zigzag(&d); fmt_shex(out, sizeof out, v); }
            else if (!strcmp(op, "ri16")) { int64_t v = thrift_read_i16(&d); fmt_shex(out, sizeof out, v); }
            else if (!strcmp(op, "ri32")) { int64_t v = thrift_read_i32(&d); fmt_shex(out, sizeof out, v); }
            else if (!strcmp(op, "ri64")) { int64_t v = thrift_read_i64(&d); fmt_shex(out, sizeof out, v); }
            else if (!strcmp(op, "rbyte")) { int64_t v = thrift_read_byte(&d); fmt_shex(out, sizeof out, v); }
            else if (!strcmp(op, "rbool")) { int v = thrift_read_bool(&d); snprintf(out, sizeof out, "%d", v); }
            else if (!strcmp(op, "rdouble")) { double v = thrift_read_double(&d); uint64_t u; memcpy(&u, &v, 8); snprintf(out, sizeof out, "%" PRIx64, u); }
            else if (!strcmp(op, "rbin")) {
                int32_t len = 0; const uint8_t* q = thrift_read_binary(&d, &len);
                if (d.status == CARQUET_OK) { printf("OK "); h_puthex(q, (size_t)len); printf(" %zu\n", d.reader.pos); free(base); fflush(stdout); continue; }
            }
            else if (!strcmp(op, "rfield")) {
                thrift_type_t ty; int16_t id; bool more = thrift_read_field_begin(&d, &ty, &id);
                int lv = d.nesting_level;
                snprintf(out, sizeof out, "%d %d %d %d %d %d", more ? 1 : 0, more ? (int)ty : 0, more ? (int)id : 0,
                         (lv > 0 && lv <= THRIFT_MAX_NESTING) ? (int)d.last_field_id[lv - 1] : 0, d.bool_pending ? 1 : 0,
                         d.bool_pending ? (d.bool_value ? 1 : 0) : 0);
            }
            else if (!strcmp(op, "rlist")) { thrift_type_t et; int32_t c; thrift_read_list_begin(&d, &et, &c); snprintf(out, sizeof out, "%d %d", (int)et, (int)c); }
            else if (!strcmp(op, "rmap")) { thrift_type_t kt, vt; int32_t c; thrift_read_map_begin(&d, &kt, &vt, &c); snprintf(out, sizeof out, "%d %d %d", (int)kt, (int)vt, (int)c); }
            else if (!strcmp(op, "rlevel") && h_ntok == 5) {
                /* after the set-up (level begins): j struct ends; the nesting level afterwards */
                int j = atoi(h_tok[4]);
                for (int i = 0; i < j; i++) thrift_read_struct_end(&d);
                snprintf(out, sizeof out, "%d", d.nesting_level);
            }
            else if (!strcmp(op, "rset")) { thrift_type_t et; int32_t c; thrift_read_set_begin(&d, &et, &c); snprintf(out, sizeof out, "%d %d", (int)et, (int)c); }
            else if (!strcmp(op, "ruuid")) {
                uint8_t* u = malloc(16); thrift_read_uuid(&d, u);
                if (d.status == CARQUET_OK) { printf("OK "); h_puthex(u, 16); printf(" %zu\n", d.reader.pos); free(u); free(base); fflush(stdout); continue; }
                free(u);
            }
            else if (!strcmp(op, "rstr")) {
                char* str = thrift_read_string_alloc(&d);
                if (d.status == CARQUET_OK && str) { printf("OK "); h_puthex((const uint8_t*)str, strlen(str)); printf(" %zu\n", d.reader.pos); free(str); free(base); fflush(stdout); continue; }
                free(str);
                if (d.status == CARQUET_OK) { puts("ERR null-string"); free(base); fflush(stdout); continue; }
            }
            else if (!strcmp(op, "rskipf") && h_ntok == 5) { thrift_skip_field(&d, (thrift_type_t)atoi(h_tok[4])); snprintf(out, sizeof out, "%d", d.nesting_level); }
            else if (!strcmp(op, "rskip") && h_ntok == 5) { thrift_skip(&d, (thrift_type_t)atoi(h_tok[4])); snprintf(out, sizeof out, "%d", d.nesting_level); }
            else { puts("ERR unknown-op"); free(base); fflush(stdout); continue; }
            if (d.status != CARQUET_OK) printf("ERR %d\n", (int)d.status);
            else printf("OK %s %zu\n", out, d.reader.pos);
            free(base);
        }
        /* ------------------------------------------------ metadata */
        else if ((!strcmp(op, "wfm") || !strcmp(op, "wph") || !strcmp(op, "rtfm") || !strcmp(op, "rtph")) && h_ntok == 2) {
            const char* p = h_tok[1];
            mv* m = mv_parse(&p);
            int is_fm = op[strlen(op) - 2] == 'f';
            int rt = op[0] == 'r';
            carquet_buffer_t buf; carquet_buffer_init(&buf);
            carquet_status_t st;
            memset(&err, 0, sizeof err);
            if (is_fm) {
                parquet_file_metadata_t f; fm_to_c(m, &f);
                if (g_bad) { puts("ERR bad-input"); carquet_buffer_destroy(&buf); pfree_all(); fflush(stdout); continue; }
                st = parquet_write_file_metadata(&f, &buf, &err);
            } else {
                parquet_page_header_t h; ph_to_c(m, &h);
                if (g_bad) { puts("ERR bad-input"); carquet_buffer_destroy(&buf); pfree_all(); fflush(stdout); continue; }
                st = parquet_write_page_header(&h, &buf, &err);
            }
            if (st != CARQUET_OK) printf("ERR %d\n", (int)st);
            else if (!rt) { printf("OK "); h_puthex(carquet_buffer_data_const(&buf), carquet_buffer_size(&buf)); putchar('\n'); }
            else {
                /* parse the bytes back from an exact-size copy */
                size_t n = carquet_buffer_size(&buf);
                uint8_t* copy = malloc(n); memcpy(copy, carquet_buffer_data_const(&buf), n);
                printf("OK "); h_puthex(copy, n); putchar(' ');
                if (is_fm) {
                    carquet_arena_t arena; carquet_arena_init(&arena);
                    parquet_file_metadata_t g; g_last_pos = 0;
                    st = parquet_parse_file_metadata(copy, n, &arena, &g, &err);
                    if (st != CARQUET_OK) printf("ERR %d\n", (int)st);
                    else { printf("OK %zu ", g_last_pos); fm_print(&g); putchar('\n'); }
                    carquet_arena_destroy(&arena);
                } else {
                    parquet_page_header_t g; size_t br = 0;
                    st = parquet_parse_page_header(copy, n, &g, &br, &err);
                    if (st != CARQUET_OK) printf("ERR %d\n", (int)st);
                    else { g_lo = copy; g_hi = copy + n; g_check_range = 1; printf("OK %zu ", br); ph_print(&g); putchar('\n'); }
                }
                free(copy);
            }
            carquet_buffer_destroy(&buf);
            pfree_all();
        }
        else if ((!strcmp(op, "pfm") || !strcmp(op, "pph")) && h_ntok == 2) {
            size_t n; void* base; uint8_t* p = h_unhex(h_tok[1], &n, 0, &base);
            carquet_status_t st;
            memset(&err, 0, sizeof err);
            if (!strcmp(op, "pfm")) {
                carquet_arena_t arena; carquet_arena_init(&arena);
                parquet_file_metadata_t g; g_last_pos = 0;
                st = parquet_parse_file_metadata(p, n, &arena, &g, &err);
                if (st != CARQUET_OK) printf("ERR %d\n", (int)st);
                else { printf("OK %zu ", g_last_pos); fm_print(&g); putchar('\n'); parquet_file_metadata_free(&g); }
                carquet_arena_destroy(&arena);
            } else {
                parquet_page_header_t g; size_t br = 0;
                st = parquet_parse_page_header(p, n, &g, &br, &err);
                if (st != CARQUET_OK) printf("ERR %d\n", (int)st);
                else { g_lo = p; g_hi = p + n; g_check_range = 1; printf("OK %zu ", br); ph_print(&g); putchar('\n'); }
            }
            free(base);
        }
        else if (!strcmp(op, "tname") && h_ntok == 2) printf("OK %s\n", thrift_type_name((thrift_type_t)atoi(h_tok[1])));
        else if (!strcmp(op, "limits")) {
            extern int32_t parquet_max_schema_elements(void); extern int32_t parquet_max_row_groups(void);
            extern int32_t parquet_max_columns_per_row_group(void);
            printf("OK %d %d %d\n", (int)parquet_max_schema_elements(), (int)parquet_max_row_groups(), (int)parquet_max_columns_per_row_group());
        }
        else if (!strcmp(op, "nullargs")) {
            /* the argument checks of the four entry points */
            carquet_arena_t arena; carquet_arena_init(&arena);
            carquet_buffer_t buf; carquet_buffer_init(&buf);
            parquet_file_metadata_t f; memset(&f, 0, sizeof f); parquet_page_header_t h; memset(&h, 0, sizeof h);
            uint8_t one[1] = { 0 }; size_t br = 0;
            memset(&err, 0, sizeof err);
            int a = parquet_parse_file_metadata(NULL, 0, &arena, &f, &err), b = parquet_parse_file_metadata(one, 1, NULL, &f, &err),
                c = parquet_parse_file_metadata(one, 1, &arena, NULL, NULL), d2 = parquet_parse_page_header(NULL, 0, &h, &br, &err),
                e2 = parquet_parse_page_header(one, 1, NULL, &br, NULL), f2 = parquet_parse_page_header(one, 1, &h, NULL, &err),
                g2 = parquet_write_file_metadata(NULL, &buf, &err), h2 = parquet_write_file_metadata(&f, NULL, NULL),
                i2 = parquet_write_page_header(NULL, &buf, &err), j2 = parquet_write_page_header(&h, NULL, &err);
            printf("OK %d %d %d %d %d %d %d %d %d %d %zu\n", a, b, c, d2, e2, f2, g2, h2, i2, j2, carquet_buffer_size(&buf));
            carquet_buffer_destroy(&buf); carquet_arena_destroy(&arena);
        }
        else puts("ERR unknown-op");
        fflush(stdout);
    }
    free(h_line);
    free(g_pool);
    return 0;
}
