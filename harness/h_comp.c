/* Driver for the comp engine: carquet's Snappy / LZ4 / GZIP / ZSTD entry points on exact-size heap
 * buffers (a one-byte over-read or over-write is an ASan report), with libsnappy / liblz4 as
 * independent reference codecs.  One case per input line, one canonical result line per case.
 *
 *   sdec <cap> <stream>          carquet_snappy_decompress into exactly <cap> bytes
 *                                -> "<OK hex|ERR code> lib=<OK hex|ERR|SKIP>"
 *   ldec <cap> <stream>          carquet_lz4_decompress, liblz4 LZ4_decompress_safe likewise
 *   scomp <delta> <input>        carquet_snappy_compress into exactly bound+delta bytes
 *                                -> "OK <compressed> bound=<b> rt=<0|1> lib=<0|1>" | "ERR code bound=<b>"
 *                                   rt : carquet decompress into exactly |input| bytes returns the input
 *                                   lib: the reference decoder returns the input
 *   lcomp <delta> <input>        same for LZ4
 *   gz <level> <delta> <input>   carquet_gzip_compress / _decompress (no reference: zlib is the codec)
 *   zs <level> <delta> <input>   carquet_zstd_compress / _decompress
 *   big <codec> <z|p|r> <n> <period>   compress a driver-generated input of n bytes at the bound (no hex on the line)
 *                                -> "OK len=<clen> head=<first 8 bytes> bound=<b> rt=<0|1> lib=<0|1>"
 *   slen <stream>                carquet_snappy_get_uncompressed_length -> "OK n" | "ERR code"
 *   hist <codec> <k> <x0>..<xk-1> <steps>   a HISTORY of calls on this thread.  codec: snappy|lz4|gzip|zstd.
 *                                steps, comma separated:  c<i>:<level>:<cap>  compress input i into exactly <cap>
 *                                bytes (cap = b, b+N, b-N relative to the bound, or an absolute number), a
 *                                success is verified at once: carquet decompress into exactly |x_i| bytes and the
 *                                system library (libsnappy / liblz4 / zlib inflate / ZSTD_decompress) as
 *                                independent decoder;  t<i>  carquet decompress of the first half of the last
 *                                successful output of input i.
 *                                -> one token per step: "OK:clen:cap:bound:rt:lib" | "ERR:code:cap:bound" | "T:ERR" | "T:OK:eq" | "T:none"
 *   pages <codec> <i32|ba> <seed> <specs>   a history of PAGES through ONE carquet_page_writer (the consumer that
 *                                allocates "exactly bound" for the codecs): specs, comma separated, <kind><bytes> with
 *                                kind r (random, incompressible), t (text), z (zeros): add_values, finalize, then the
 *                                page body is decompressed into exactly uncompressed_size bytes by carquet and by the
 *                                system library and compared with the PLAIN encoding of the values; reset.
 *                                -> one token per page: "OK:usize:csize:rt:lib" | "ERR:status" | "SIZES:u:c:page"
 */
#include "hcommon.h"
#include <snappy-c.h>
#include <lz4.h>
#include <zlib.h>
#include <zstd.h>
#include <carquet/types.h>

extern int carquet_snappy_decompress(const uint8_t*, size_t, uint8_t*, size_t, size_t*);
extern int carquet_snappy_compress(const uint8_t*, size_t, uint8_t*, size_t, size_t*);
extern size_t carquet_snappy_compress_bound(size_t);
extern int carquet_snappy_get_uncompressed_length(const uint8_t*, size_t, size_t*);
extern int carquet_lz4_decompress(const uint8_t*, size_t, uint8_t*, size_t, size_t*);
extern int carquet_lz4_compress(const uint8_t*, size_t, uint8_t*, size_t, size_t*);
extern size_t carquet_lz4_compress_bound(size_t);
extern int carquet_gzip_decompress(const uint8_t*, size_t, uint8_t*, size_t, size_t*);
extern int carquet_gzip_compress(const uint8_t*, size_t, uint8_t*, size_t, size_t*, int);
extern size_t carquet_gzip_compress_bound(size_t);
extern int carquet_zstd_decompress(const uint8_t*, size_t, uint8_t*, size_t, size_t*);
extern int carquet_zstd_compress(const uint8_t*, size_t, uint8_t*, size_t, size_t*, int);
extern size_t carquet_zstd_compress_bound(size_t);

/* exact-size allocation; size 0 still gives a distinct pointer (the code rejects NULL) */
static uint8_t* xalloc(size_t n) { uint8_t* p = (uint8_t*)malloc(n ? n : 1); if (!p) abort(); return p; }
/* for n == 0 we want ANY access to be an error: allocate 1 byte and poison nothing, but hand out the
 * one-past pointer of a 0-length region by using a fresh 1-byte block's end */
static uint8_t* exact(size_t n, void** base) {
    if (n) { uint8_t* p = (uint8_t*)malloc(n); if (!p) abort(); *base = p; return p; }
    uint8_t* p = (uint8_t*)malloc(1); if (!p) abort(); *base = p; return p + 1;   /* any deref of p+1 is out of bounds */
}

static void dec_case(int is_lz4) {
    size_t cap = (size_t)strtoull(h_tok[1], NULL, 10), n; void* sb; void* db;
    size_t hn = (h_tok[2][0] == '-' && h_tok[2][1] == 0) ? 0 : strlen(h_tok[2]) / 2;
    uint8_t* src = exact(hn, &sb);
    for (size_t i = 0; i < hn; i++) src[i] = (uint8_t)(h_hexval(h_tok[2][2*i]) * 16 + h_hexval(h_tok[2][2*i+1]));
    n = hn;
    uint8_t* dst = exact(cap, &db);
    size_t out = 0;
    int r = is_lz4 ? carquet_lz4_decompress(src, n, dst, cap, &out) : carquet_snappy_decompress(src, n, dst, cap, &out);
    if (r == 0) { printf("OK "); if (out > cap) printf("OVERFLOW-REPORTED "); else h_puthex(dst, out); }
    else printf("ERR %d", r);
    /* reference decoder */
    uint8_t* d2 = xalloc(cap);
    if (is_lz4) {
        if (n > 0x7fffffff || cap > 0x7fffffff) printf(" lib=SKIP");
        else {
            int k = LZ4_decompress_safe((const char*)src, (char*)d2, (int)n, (int)cap);
            if (k >= 0) { printf(" lib=OK "); h_puthex(d2, (size_t)k); } else printf(" lib=ERR");
        }
    } else {
        size_t ol = cap;
        snappy_status st = snappy_uncompress((const char*)src, n, (char*)d2, &ol);
        if (st == SNAPPY_OK) { printf(" lib=OK "); h_puthex(d2, ol); } else printf(" lib=ERR");
    }
    putchar('\n');
    free(d2); free(sb); free(db);
}

static void comp_core(int codec, int level, long delta, uint8_t* x, size_t n, void* xb, int head_only);
static void comp_case(int codec /*0 snappy 1 lz4 2 gzip 3 zstd*/, int level, long delta, const char* hex) {
    void* xb;
    size_t hn = (hex[0] == '-' && hex[1] == 0) ? 0 : strlen(hex) / 2;
    uint8_t* x = exact(hn, &xb);
    for (size_t i = 0; i < hn; i++) x[i] = (uint8_t)(h_hexval(hex[2*i]) * 16 + h_hexval(hex[2*i+1]));
    comp_core(codec, level, delta, x, hn, xb, 0);
}
/* big <codec> <kind> <n> <period>: the input is generated here (z zeros, p short period, r xorshift noise of
 * that period) so that multi-megabyte inputs need no hex; prints only the first 8 output bytes (head=) */
static void big_case(void) {
    const char* cn = h_tok[1];
    int codec = !strcmp(cn, "snappy") ? 0 : !strcmp(cn, "lz4") ? 1 : !strcmp(cn, "gzip") ? 2 : !strcmp(cn, "zstd") ? 3 : -1;
    char kind = h_tok[2][0]; size_t n = (size_t)strtoull(h_tok[3], NULL, 10); size_t period = (size_t)strtoull(h_tok[4], NULL, 10);
    if (codec < 0) { puts("ERR bad-big"); return; }
    if (!period) period = 1;
    void* xb; uint8_t* x = exact(n, &xb);
    uint64_t r = 0x9E3779B97F4A7C15ull ^ (uint64_t)period;
    if (kind == 'z') memset(x, 0, n);
    else for (size_t i = 0; i < n; i++) {
        if (i < period) { if (kind == 'r') { r ^= r << 13; r ^= r >> 7; r ^= r << 17; x[i] = (uint8_t)(r >> 24); } else x[i] = (uint8_t)(i * 131 + 7); }
        else x[i] = x[i - period];
    }
    comp_core(codec, 3, 0, x, n, xb, 1);
}
static void comp_core(int codec, int level, long delta, uint8_t* x, size_t n, void* xb, int head_only) {
    size_t bound = codec == 0 ? carquet_snappy_compress_bound(n) : codec == 1 ? carquet_lz4_compress_bound(n)
                 : codec == 2 ? carquet_gzip_compress_bound(n) : carquet_zstd_compress_bound(n);
    long capl = (long)bound + delta; if (capl < 0) capl = 0;
    size_t cap = (size_t)capl; void* cb;
    uint8_t* c = exact(cap, &cb);
    size_t clen = (size_t)-1;
    int r = codec == 0 ? carquet_snappy_compress(x, n, c, cap, &clen) : codec == 1 ? carquet_lz4_compress(x, n, c, cap, &clen)
          : codec == 2 ? carquet_gzip_compress(x, n, c, cap, &clen, level) : carquet_zstd_compress(x, n, c, cap, &clen, level);
    if (r != 0) { printf("ERR %d bound=%zu\n", r, bound); free(xb); free(cb); return; }
    if (clen > cap) { printf("OK OVERFLOW-REPORTED clen=%zu cap=%zu bound=%zu\n", clen, cap, bound); free(xb); free(cb); return; }
    /* copy the compressed bytes into an exact-size buffer for decompression */
    void* sb; uint8_t* s = exact(clen, &sb); memcpy(s, c, clen);
    void* db; uint8_t* d = exact(n, &db); size_t out = (size_t)-1;
    int r2 = codec == 0 ? carquet_snappy_decompress(s, clen, d, n, &out) : codec == 1 ? carquet_lz4_decompress(s, clen, d, n, &out)
           : codec == 2 ? carquet_gzip_decompress(s, clen, d, n, &out) : carquet_zstd_decompress(s, clen, d, n, &out);
    int rt = (r2 == 0 && out == n && (n == 0 || memcmp(d, x, n) == 0));
    int lib = -1;
    if (codec == 0) {
        uint8_t* d2 = xalloc(n); size_t ol = n;
        lib = (snappy_uncompress((const char*)s, clen, (char*)d2, &ol) == SNAPPY_OK && ol == n && (n == 0 || memcmp(d2, x, n) == 0));
        free(d2);
    } else if (codec == 1) {
        uint8_t* d2 = xalloc(n);
        int k = LZ4_decompress_safe((const char*)s, (char*)d2, (int)clen, (int)n);
        lib = (k >= 0 && (size_t)k == n && (n == 0 || memcmp(d2, x, n) == 0));
        free(d2);
    }
    printf("OK ");
    if (head_only) { printf("len=%zu head=", clen); h_puthex(s, clen < 8 ? clen : 8); }
    else if (codec <= 1) h_puthex(s, clen); else printf("len=%zu", clen);
    printf(" bound=%zu rt=%d lib=%d\n", bound, rt, lib);
    free(xb); free(cb); free(sb); free(db);
}


static size_t codec_bound(int codec, size_t n) {
    return codec == 0 ? carquet_snappy_compress_bound(n) : codec == 1 ? carquet_lz4_compress_bound(n)
         : codec == 2 ? carquet_gzip_compress_bound(n) : carquet_zstd_compress_bound(n);
}
static int codec_compress(int codec, const uint8_t* x, size_t n, uint8_t* c, size_t cap, size_t* clen, int level) {
    return codec == 0 ? carquet_snappy_compress(x, n, c, cap, clen) : codec == 1 ? carquet_lz4_compress(x, n, c, cap, clen)
         : codec == 2 ? carquet_gzip_compress(x, n, c, cap, clen, level) : carquet_zstd_compress(x, n, c, cap, clen, level);
}
static int codec_decompress(int codec, const uint8_t* s, size_t n, uint8_t* d, size_t cap, size_t* out) {
    return codec == 0 ? carquet_snappy_decompress(s, n, d, cap, out) : codec == 1 ? carquet_lz4_decompress(s, n, d, cap, out)
         : codec == 2 ? carquet_gzip_decompress(s, n, d, cap, out) : carquet_zstd_decompress(s, n, d, cap, out);
}
/* the system library as an independent decoder of carquet's output */
static int lib_decodes(int codec, const uint8_t* s, size_t clen, const uint8_t* x, size_t n) {
    uint8_t* d2 = xalloc(n); int ok = 0;
    if (codec == 0) { size_t ol = n; ok = (snappy_uncompress((const char*)s, clen, (char*)d2, &ol) == SNAPPY_OK && ol == n); }
    else if (codec == 1) { int k = LZ4_decompress_safe((const char*)s, (char*)d2, (int)clen, (int)n); ok = (k >= 0 && (size_t)k == n); }
    else if (codec == 2) {
        z_stream z; memset(&z, 0, sizeof z);
        if (inflateInit2(&z, 15 + 16) == Z_OK) {
            z.next_in = (Bytef*)s; z.avail_in = (uInt)clen; z.next_out = d2; z.avail_out = (uInt)n;
            int r = inflate(&z, Z_FINISH); ok = (r == Z_STREAM_END && z.total_out == n && z.avail_in == 0); inflateEnd(&z);
        }
    } else { size_t r = ZSTD_decompress(d2, n, s, clen); ok = (!ZSTD_isError(r) && r == n); }
    if (ok && n) ok = (memcmp(d2, x, n) == 0);
    free(d2); return ok;
}

#define H_MAXIN 8
static void hist_case(void) {
    const char* cn = h_tok[1];
    int codec = !strcmp(cn, "snappy") ? 0 : !strcmp(cn, "lz4") ? 1 : !strcmp(cn, "gzip") ? 2 : !strcmp(cn, "zstd") ? 3 : -1;
    int k = atoi(h_tok[2]);
    if (codec < 0 || k < 1 || k > H_MAXIN || h_ntok != 4 + k) { puts("ERR bad-hist"); return; }
    uint8_t* x[H_MAXIN]; void* xb[H_MAXIN]; size_t n[H_MAXIN]; uint8_t* last[H_MAXIN]; void* lastb[H_MAXIN]; size_t lastn[H_MAXIN];
    for (int i = 0; i < k; i++) {
        const char* hex = h_tok[3 + i];
        size_t hn = (hex[0] == '-' && hex[1] == 0) ? 0 : strlen(hex) / 2;
        x[i] = exact(hn, &xb[i]); n[i] = hn; last[i] = NULL; lastb[i] = NULL; lastn[i] = 0;
        for (size_t j = 0; j < hn; j++) x[i][j] = (uint8_t)(h_hexval(hex[2*j]) * 16 + h_hexval(hex[2*j+1]));
    }
    char* steps = h_tok[3 + k]; int first = 1;
    for (char* st = strtok(steps, ","); st; st = strtok(NULL, ",")) {
        if (!first) putchar(' ');
        first = 0;
        if (st[0] == 'c') {
            int i = 0, level = 0; char capspec[64] = "b";
            if (sscanf(st + 1, "%d:%d:%63s", &i, &level, capspec) != 3 || i < 0 || i >= k) { printf("BAD"); continue; }
            size_t bound = codec_bound(codec, n[i]); long capl;
            if (capspec[0] == 'b') capl = (long)bound + (capspec[1] ? atol(capspec + 1) : 0); else capl = atol(capspec);
            if (capl < 0) capl = 0;
            size_t cap = (size_t)capl; void* cb; uint8_t* c = exact(cap, &cb); size_t clen = (size_t)-1;
            int r = codec_compress(codec, x[i], n[i], c, cap, &clen, level);
            if (r != 0) printf("ERR:%d:%zu:%zu", r, cap, bound);
            else if (clen > cap) printf("OK:%zu:%zu:%zu:0:0", clen, cap, bound);
            else {
                void* sb; uint8_t* s = exact(clen, &sb); memcpy(s, c, clen);
                void* db; uint8_t* d = exact(n[i], &db); size_t out = (size_t)-1;
                int r2 = codec_decompress(codec, s, clen, d, n[i], &out);
                int rt = (r2 == 0 && out == n[i] && (n[i] == 0 || memcmp(d, x[i], n[i]) == 0));
                int lib = lib_decodes(codec, s, clen, x[i], n[i]);
                printf("OK:%zu:%zu:%zu:%d:%d", clen, cap, bound, rt, lib);
                free(db);
                if (lastb[i]) free(lastb[i]);
                last[i] = s; lastb[i] = sb; lastn[i] = clen;
            }
            free(cb);
        } else if (st[0] == 't') {
            int i = atoi(st + 1);
            if (i < 0 || i >= k || !last[i]) { printf("T:none"); continue; }
            size_t hn = lastn[i] / 2; void* sb; uint8_t* s = exact(hn, &sb); memcpy(s, last[i], hn);
            void* db; uint8_t* d = exact(n[i], &db); size_t out = (size_t)-1;
            int r = codec_decompress(codec, s, hn, d, n[i], &out);
            if (r != 0) printf("T:ERR"); else printf("T:OK:%d", (out == n[i] && (n[i] == 0 || memcmp(d, x[i], n[i]) == 0)));
            free(sb); free(db);
        } else printf("BAD");
    }
    putchar('\n');
    for (int i = 0; i < k; i++) { free(xb[i]); if (lastb[i]) free(lastb[i]); }
}

typedef struct carquet_page_writer carquet_page_writer_t;
extern carquet_page_writer_t* carquet_page_writer_create(carquet_physical_type_t type, carquet_encoding_t encoding,
    carquet_compression_t compression, int16_t max_def_level, int16_t max_rep_level, int32_t type_length);
extern void carquet_page_writer_destroy(carquet_page_writer_t* writer);
extern void carquet_page_writer_reset(carquet_page_writer_t* writer);
extern int carquet_page_writer_add_values(carquet_page_writer_t* writer, const void* values, int64_t num_values,
    const int16_t* def_levels, const int16_t* rep_levels);
extern int carquet_page_writer_finalize(carquet_page_writer_t* writer, const uint8_t** page_data, size_t* page_size,
    int32_t* uncompressed_size, int32_t* compressed_size);

static uint64_t pg_rng;
static uint32_t pg_rnd(void) { pg_rng ^= pg_rng << 13; pg_rng ^= pg_rng >> 7; pg_rng ^= pg_rng << 17; return (uint32_t)(pg_rng >> 16); }
static void pg_fill(uint8_t* p, size_t n, char kind) {
    static const char text[] = "the quick brown fox jumps over the lazy dog; ";
    for (size_t i = 0; i < n; i++)
        p[i] = kind == 'r' ? (uint8_t)pg_rnd() : kind == 't' ? (uint8_t)text[i % (sizeof text - 1)] : 0;
}

static void pages_case(void) {
    const char* cn = h_tok[1];
    int codec = !strcmp(cn, "snappy") ? 0 : !strcmp(cn, "lz4") ? 1 : !strcmp(cn, "gzip") ? 2 : !strcmp(cn, "zstd") ? 3 : -1;
    int is_ba = !strcmp(h_tok[2], "ba");
    if (codec < 0) { puts("ERR bad-pages"); return; }
    carquet_compression_t cc = codec == 0 ? CARQUET_COMPRESSION_SNAPPY : codec == 1 ? CARQUET_COMPRESSION_LZ4_RAW
                             : codec == 2 ? CARQUET_COMPRESSION_GZIP : CARQUET_COMPRESSION_ZSTD;
    pg_rng = 0x243F6A8885A308D3ull ^ (uint64_t)strtoull(h_tok[3], NULL, 10) * 0x9E3779B97F4A7C15ull;
    if (!pg_rng) pg_rng = 1;
    carquet_page_writer_t* w = carquet_page_writer_create(is_ba ? CARQUET_PHYSICAL_BYTE_ARRAY : CARQUET_PHYSICAL_INT32,
                                                          CARQUET_ENCODING_PLAIN, cc, 0, 0, 0);
    if (!w) { puts("ERR create"); return; }
    int first = 1; size_t prev_want = 0;
    for (char* st = strtok(h_tok[4], ","); st; st = strtok(NULL, ",")) {
        if (!first) putchar(' ');
        first = 0;
        char kind = st[0]; size_t want;
        /* size: a number, b[+-K] = the codec's bound for the previous page's size, p[+-K] = previous size */
        if (st[1] == 'b') { long v = (long)codec_bound(codec, prev_want) + (st[2] ? atol(st + 2) : 0); want = v < 0 ? 0 : (size_t)v; }
        else if (st[1] == 'p') { long v = (long)prev_want + (st[2] ? atol(st + 2) : 0); want = v < 0 ? 0 : (size_t)v; }
        else want = (size_t)strtoull(st + 1, NULL, 10);
        if (want < 8) want = 8;      /* column_writer.c never finalizes a page without values */
        if (!is_ba) want &= ~(size_t)3;
        prev_want = want;
        /* expected PLAIN body */
        size_t body_n; uint8_t* body; void* vals; int64_t count; uint8_t* pool = NULL;
        if (!is_ba) {
            count = (int64_t)(want / 4); body_n = (size_t)count * 4;
            body = xalloc(body_n); pg_fill(body, body_n, kind);
            vals = xalloc(body_n); memcpy(vals, body, body_n);
        } else {
            /* values of 0..40 bytes until the body (4-byte length + bytes each) reaches `want` */
            size_t cap_vals = want / 4 + 2; carquet_byte_array_t* a = (carquet_byte_array_t*)calloc(cap_vals, sizeof *a);
            pool = xalloc(want + 64); pg_fill(pool, want + 64, kind);
            body = xalloc(want + 64); body_n = 0; count = 0; size_t used = 0;
            while (body_n + 4 <= want) {
                size_t len = pg_rnd() % 41; if (body_n + 4 + len > want) len = want - body_n - 4;
                a[count].data = pool + used; a[count].length = (int32_t)len;
                body[body_n] = (uint8_t)len; body[body_n+1] = (uint8_t)(len >> 8); body[body_n+2] = 0; body[body_n+3] = 0;
                memcpy(body + body_n + 4, pool + used, len);
                body_n += 4 + len; used += len; count++;
            }
            vals = a;
        }
        const uint8_t* page = NULL; size_t page_size = 0; int32_t usize = -1, csize = -1;
        int r = count ? carquet_page_writer_add_values(w, vals, count, NULL, NULL) : 0;
        if (r == 0) r = carquet_page_writer_finalize(w, &page, &page_size, &usize, &csize);
        if (r != 0) printf("ERR:%d", r);
        else if (usize < 0 || csize < 0 || (size_t)csize > page_size || (size_t)usize != body_n) printf("SIZES:%d:%d:%zu:%zu", usize, csize, page_size, body_n);
        else {
            void* sb; uint8_t* sbuf = exact((size_t)csize, &sb); memcpy(sbuf, page + (page_size - (size_t)csize), (size_t)csize);
            void* db; uint8_t* d = exact(body_n, &db); size_t out = (size_t)-1;
            int r2 = codec_decompress(codec, sbuf, (size_t)csize, d, body_n, &out);
            int rt = (r2 == 0 && out == body_n && (body_n == 0 || memcmp(d, body, body_n) == 0));
            int lib = lib_decodes(codec, sbuf, (size_t)csize, body, body_n);
            printf("OK:%d:%d:%d:%d", usize, csize, rt, lib);
            free(sb); free(db);
        }
        free(body); free(vals); if (pool) free(pool);
        carquet_page_writer_reset(w);
    }
    putchar('\n');
    carquet_page_writer_destroy(w);
}

/* clsweep <codec> <level> <target> <window>: incompressible inputs (noise generated here) whose COMPRESSED length
 * sweeps target-window .. target+window: the input length is stepped one byte at a time; each output is decompressed
 * into exactly |x| bytes by carquet and by the system library.
 * -> "OK tested=<k> clen=<min>..<max> n=<first>..<last>"  |  "FAIL n=<n> clen=<c> comp=<status> dec=<status> out=<len> lib=<0|1> ..." */
static void clsweep_case(void) {
    const char* cn = h_tok[1];
    int codec = !strcmp(cn, "snappy") ? 0 : !strcmp(cn, "lz4") ? 1 : !strcmp(cn, "gzip") ? 2 : !strcmp(cn, "zstd") ? 3 : -1;
    int level = atoi(h_tok[2]); long target = atol(h_tok[3]); long win = atol(h_tok[4]);
    if (codec < 0 || target < win + 64) { puts("ERR bad-clsweep"); return; }
    size_t maxn = (size_t)target + (size_t)win + 64;
    uint8_t* noise = xalloc(maxn);
    uint64_t r = 0xD1B54A32D192ED03ull ^ (uint64_t)target * 0x9E3779B97F4A7C15ull ^ (uint64_t)level;
    for (size_t i = 0; i < maxn; i++) { r ^= r << 13; r ^= r >> 7; r ^= r << 17; noise[i] = (uint8_t)(r >> 24); }
    size_t bcap = codec_bound(codec, maxn) + 64; uint8_t* c = xalloc(bcap);
    /* estimate the overhead at the target, start a little below the window */
    size_t clen = 0; long n = target;
    if (codec_compress(codec, noise, (size_t)n, c, bcap, &clen, level) != 0) { puts("FAIL initial-compress"); free(noise); free(c); return; }
    n = target - ((long)clen - target) - win - 8; if (n < 1) n = 1;
    for (int guard = 0; guard < 64; guard++) {          /* walk down until below the window */
        if (codec_compress(codec, noise, (size_t)n, c, bcap, &clen, level) != 0) break;
        if ((long)clen < target - win || n <= 1) break;
        n -= ((long)clen - (target - win)) + 1; if (n < 1) n = 1;
    }
    long tested = 0, cmin = -1, cmax = -1, nfirst = -1, nlast = -1; int failed = 0;
    for (long it = 0; it < 2 * win + 200 && (size_t)n <= maxn; it++, n++) {
        size_t bound = codec_bound(codec, (size_t)n); void* cb; uint8_t* cc = exact(bound, &cb); clen = (size_t)-1;
        int rc = codec_compress(codec, noise, (size_t)n, cc, bound, &clen, level);
        if (rc != 0 || clen > bound) { printf("FAIL n=%ld clen=%zu comp=%d bound=%zu", n, clen, rc, bound); failed = 1; free(cb); break; }
        if ((long)clen < target - win) { free(cb); continue; }
        if ((long)clen > target + win) { free(cb); break; }
        void* sb; uint8_t* sbuf = exact(clen, &sb); memcpy(sbuf, cc, clen);
        void* db; uint8_t* d = exact((size_t)n, &db); size_t out = (size_t)-1;
        int r2 = codec_decompress(codec, sbuf, clen, d, (size_t)n, &out);
        int rt = (r2 == 0 && out == (size_t)n && memcmp(d, noise, (size_t)n) == 0);
        int lib = lib_decodes(codec, sbuf, clen, noise, (size_t)n);
        free(sb); free(db); free(cb);
        if (!rt || !lib) { printf("FAIL n=%ld clen=%zu comp=0 dec=%d out=%zu lib=%d level=%d", n, clen, r2, out, lib, level); failed = 1; break; }
        tested++; if (cmin < 0) { cmin = (long)clen; nfirst = n; } cmax = (long)clen; nlast = n;
    }
    if (!failed) printf("OK tested=%ld clen=%ld..%ld n=%ld..%ld", tested, cmin, cmax, nfirst, nlast);
    putchar('\n');
    free(noise); free(c);
}

/* sfar <n> <off> <len>: a valid raw Snappy block built here: preamble(n+len), one literal of n noise bytes (4-byte
 * length form), one copy-4 (offset off, length len <= 64); decompressed into exactly n+len bytes by carquet and by
 * libsnappy and compared with the denoted bytes.  For back-references of 16 MiB and more (no hex on the line).
 * -> "OK rt=<0|1> lib=<0|1> status=<carquet status>" */
static void sfar_case(void) {
    size_t n = (size_t)strtoull(h_tok[1], NULL, 10), off = (size_t)strtoull(h_tok[2], NULL, 10), len = (size_t)strtoull(h_tok[3], NULL, 10);
    if (n < 1 || off < 1 || off > n || len < 1 || len > 64 || n + len >= ((size_t)1 << 32)) { puts("ERR bad-sfar"); return; }
    size_t total = n + len; size_t sl = 5 + 5 + n + 5; void* sb; uint8_t* st = exact(sl, &sb); size_t k = 0;
    size_t v = total; while (v >= 0x80) { st[k++] = (uint8_t)(v | 0x80); v >>= 7; } st[k++] = (uint8_t)v;
    st[k++] = 0xFC; st[k++] = (uint8_t)(n - 1); st[k++] = (uint8_t)((n - 1) >> 8); st[k++] = (uint8_t)((n - 1) >> 16); st[k++] = (uint8_t)((n - 1) >> 24);
    uint8_t* want = xalloc(total); uint64_t r = 0xA0761D6478BD642Full ^ (uint64_t)n;
    for (size_t i = 0; i < n; i++) { r ^= r << 13; r ^= r >> 7; r ^= r << 17; want[i] = (uint8_t)(r >> 24); }
    memcpy(st + k, want, n); k += n;
    st[k++] = (uint8_t)(((len - 1) << 2) | 3); st[k++] = (uint8_t)off; st[k++] = (uint8_t)(off >> 8); st[k++] = (uint8_t)(off >> 16); st[k++] = (uint8_t)(off >> 24);
    for (size_t i = 0; i < len; i++) want[n + i] = want[n + i - off];
    void* xb; uint8_t* s2 = exact(k, &xb); memcpy(s2, st, k); free(sb);
    void* db; uint8_t* d = exact(total, &db); size_t out = (size_t)-1;
    int rc = carquet_snappy_decompress(s2, k, d, total, &out);
    int rt = (rc == 0 && out == total && memcmp(d, want, total) == 0);
    int lib = lib_decodes(0, s2, k, want, total);
    printf("OK rt=%d lib=%d status=%d\n", rt, lib, rc);
    free(xb); free(db); free(want);
}

extern void carquet_gzip_init_tables(void);
extern void carquet_zstd_init_tables(void);

int main(void) {
    carquet_gzip_init_tables();      /* public no-op entry points of gzip.c / zstd.c */
    carquet_zstd_init_tables();
    while (h_readline()) {
        h_split();
        if (h_ntok == 0) { puts("ERR empty"); continue; }
        if (!strcmp(h_tok[0], "sdec") && h_ntok == 3) dec_case(0);
        else if (!strcmp(h_tok[0], "ldec") && h_ntok == 3) dec_case(1);
        else if (!strcmp(h_tok[0], "scomp") && h_ntok == 3) comp_case(0, 0, atol(h_tok[1]), h_tok[2]);
        else if (!strcmp(h_tok[0], "lcomp") && h_ntok == 3) comp_case(1, 0, atol(h_tok[1]), h_tok[2]);
        else if (!strcmp(h_tok[0], "gz") && h_ntok == 4) comp_case(2, atoi(h_tok[1]), atol(h_tok[2]), h_tok[3]);
        else if (!strcmp(h_tok[0], "zs") && h_ntok == 4) comp_case(3, atoi(h_tok[1]), atol(h_tok[2]), h_tok[3]);
        else if (!strcmp(h_tok[0], "big") && h_ntok == 5) big_case();
        else if (!strcmp(h_tok[0], "clsweep") && h_ntok == 5) clsweep_case();
        else if (!strcmp(h_tok[0], "sfar") && h_ntok == 4) sfar_case();
        else if (!strcmp(h_tok[0], "hist") && h_ntok >= 5) hist_case();
        else if (!strcmp(h_tok[0], "pages") && h_ntok == 5) pages_case();
        else if (!strcmp(h_tok[0], "slen") && h_ntok == 2) {
            size_t n; void* b; uint8_t* p = h_unhex(h_tok[1], &n, 0, &b); size_t len = 0;
            int r = carquet_snappy_get_uncompressed_length(p, n, &len);
            if (r == 0) printf("OK %zu\n", len); else printf("ERR %d\n", r);
            free(b);
        } else puts("ERR unknown-op");
        fflush(stdout);
    }
    free(h_line);
    return 0;
}
