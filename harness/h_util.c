/* Driver for the util engine: carquet's CRC-32 / XXH64 / Bloom filter entry points, with zlib and
 * libxxhash as independent oracles.  One case per input line, one canonical result per output line. */
#include "hcommon.h"
#include <zlib.h>
#include <xxhash.h>

extern uint32_t carquet_crc32(const uint8_t* data, size_t length);
extern uint32_t carquet_crc32_update(uint32_t crc, const uint8_t* data, size_t length);

int main(void) {
    while (h_readline()) {
        h_split();
        if (h_ntok == 0) { puts("ERR empty"); continue; }
        if (!strcmp(h_tok[0], "crc") && h_ntok == 3) {
            size_t al = (size_t)atoi(h_tok[1]), n; void* base;
            uint8_t* p = h_unhex(h_tok[2], &n, al, &base);
            uint32_t c = carquet_crc32(p, n);
            uint32_t z = (uint32_t)crc32(crc32(0L, Z_NULL, 0), p, (uInt)n);
            printf("OK %x %x\n", c, z);
            free(base);
        } else if (!strcmp(h_tok[0], "crcupd") && h_ntok == 3) {
            size_t k = (size_t)atoi(h_tok[1]), n; void* base;
            uint8_t* p = h_unhex(h_tok[2], &n, 0, &base);
            if (k > n) k = n;
            /* split into two exact-size buffers */
            uint8_t* a = malloc(k); uint8_t* b = malloc(n - k);
            memcpy(a, p, k); memcpy(b, p + k, n - k);
            uint32_t c = carquet_crc32_update(carquet_crc32(a, k), b, n - k);
            printf("OK %x\n", c);
            free(a); free(b); free(base);
        } else {
            puts("ERR unknown-op");
        }
        fflush(stdout);
    }
    free(h_line);
    return 0;
}
