/* Driver for the util engine: carquet's CRC-32 / XXH64 / Bloom filter entry points, with zlib and
 * libxxhash as independent oracles.  One case per input line, one canonical result per output line. */
#include "hcommon.h"
#include <zlib.h>
#include <sys/mman.h>
#include <xxhash.h>

extern uint32_t carquet_crc32(const uint8_t* data, size_t length);
extern uint32_t carquet_crc32_update(uint32_t crc, const uint8_t* data, size_t length);

/* ---- C20: XXH64 and the Bloom filter API (exported, not in the public header: declared here) ---- */
#include <stdbool.h>
#include <carquet/error.h>
extern uint64_t carquet_xxhash64(const void* data, size_t length, uint64_t seed);
typedef struct carquet_bloom_filter carquet_bloom_filter_t;
extern carquet_bloom_filter_t* carquet_bloom_filter_create(size_t num_bytes);
extern carquet_bloom_filter_t* carquet_bloom_filter_create_with_ndv(int64_t ndv, double fpp);
extern void carquet_bloom_filter_destroy(carquet_bloom_filter_t* filter);
extern void carquet_bloom_filter_insert_hash(carquet_bloom_filter_t* filter, uint64_t hash);
extern void carquet_bloom_filter_insert_i32(carquet_bloom_filter_t* filter, int32_t value);
extern void carquet_bloom_filter_insert_i64(carquet_bloom_filter_t* filter, int64_t value);
extern void carquet_bloom_filter_insert_float(carquet_bloom_filter_t* filter, float value);
extern void carquet_bloom_filter_insert_double(carquet_bloom_filter_t* filter, double value);
extern void carquet_bloom_filter_insert_bytes(carquet_bloom_filter_t* filter, const uint8_t* data, size_t len);
extern bool carquet_bloom_filter_check_hash(const carquet_bloom_filter_t* filter, uint64_t hash);
extern bool carquet_bloom_filter_check_i32(const carquet_bloom_filter_t* filter, int32_t value);
extern bool carquet_bloom_filter_check_i64(const carquet_bloom_filter_t* filter, int64_t value);
extern bool carquet_bloom_filter_check_float(const carquet_bloom_filter_t* filter, float value);
extern bool carquet_bloom_filter_check_double(const carquet_bloom_filter_t* filter, double value);
extern bool carquet_bloom_filter_check_bytes(const carquet_bloom_filter_t* filter, const uint8_t* data, size_t len);
extern const uint8_t* carquet_bloom_filter_data(const carquet_bloom_filter_t* filter);
extern size_t carquet_bloom_filter_size(const carquet_bloom_filter_t* filter);
extern size_t carquet_bloom_filter_num_blocks(const carquet_bloom_filter_t* filter);
extern carquet_status_t carquet_bloom_filter_write(const carquet_bloom_filter_t* filter, uint8_t* output,
                                                   size_t output_capacity, size_t* bytes_written);
extern carquet_status_t carquet_bloom_filter_read(carquet_bloom_filter_t** filter_out, const uint8_t* data,
                                                  size_t data_size);
extern carquet_status_t carquet_bloom_filter_merge(carquet_bloom_filter_t* dest, const carquet_bloom_filter_t* src);

#define BL_SLOTS 4
static carquet_bloom_filter_t* bl_slot[BL_SLOTS];

static void bl_set(int k, carquet_bloom_filter_t* f) {
    if (bl_slot[k]) carquet_bloom_filter_destroy(bl_slot[k]);
    bl_slot[k] = f;
}

/* split "a:b:c" in place; returns number of fields (max 4) */
static int bl_fields(char* op, char* fld[4]) {
    int n = 0; char* p = op;
    while (n < 4) {
        fld[n++] = p;
        char* q = strchr(p, ':');
        if (!q) break;
        *q = 0; p = q + 1;
    }
    return n;
}

/* typed insert (ins = 1) or check (ins = 0) of the value whose plain encoding is the hex payload */
static int bl_typed(carquet_bloom_filter_t* f, const char* ty, const char* hex, int ins, size_t align) {
    size_t n; void* base;
    uint8_t* p = h_unhex(hex, &n, align, &base);
    int r = -1;
    if (!strcmp(ty, "i32") && n == 4) { int32_t v; memcpy(&v, p, 4);
        if (ins) carquet_bloom_filter_insert_i32(f, v); else r = carquet_bloom_filter_check_i32(f, v); }
    else if (!strcmp(ty, "i64") && n == 8) { int64_t v; memcpy(&v, p, 8);
        if (ins) carquet_bloom_filter_insert_i64(f, v); else r = carquet_bloom_filter_check_i64(f, v); }
    else if (!strcmp(ty, "f32") && n == 4) { float v; memcpy(&v, p, 4);
        if (ins) carquet_bloom_filter_insert_float(f, v); else r = carquet_bloom_filter_check_float(f, v); }
    else if (!strcmp(ty, "f64") && n == 8) { double v; memcpy(&v, p, 8);
        if (ins) carquet_bloom_filter_insert_double(f, v); else r = carquet_bloom_filter_check_double(f, v); }
    else if (!strcmp(ty, "ba")) {
        if (ins) carquet_bloom_filter_insert_bytes(f, p, n); else r = carquet_bloom_filter_check_bytes(f, p, n); }
    else r = -2;
    free(base);
    return r;
}

/* One scenario per line: a sequence of operations on up to BL_SLOTS filters, one result token each.
 *   c:K:SIZEHEX  create            -> c=BYTES/BLOCKS (hex) | c=NULL
 *   cn:K:NDV:FPPBITS create_with_ndv (ndv decimal, fpp as binary64 bits) -> like c
 *   i:K:T:HEX    typed insert      -> i          q:K:T:HEX typed check -> q=0|1     T in i32 i64 f32 f64 ba
 *   ih:K:HASH    insert_hash       -> ih         qh:K:HASH check_hash  -> qh=0|1
 *   m:D:S        merge S into D    -> m=ok|err
 *   w:K:CAP      write into a buffer of exactly CAP bytes -> w=ok:HEX | w=err
 *   r:D:S        write S into an exact buffer, read it into D -> r=ok|err
 *   rb:D:HEX     read from the given bytes -> rb=ok|err
 *   x:K          destroy the filter of slot K -> x
 *   d:K          dump -> d=BYTES/BLOCKS/HEX                                            */
static void do_bloom(char* line) {
    fputs("OK", stdout);
    int opno = 0;
    for (char* op = strtok(line, " "); op; op = strtok(NULL, " "), opno++) {
        char* fld[4]; int nf = bl_fields(op, fld);
        const char* o = fld[0];
        int k = nf > 1 ? atoi(fld[1]) : 0;
        if (k < 0 || k >= BL_SLOTS) { fputs(" ?slot", stdout); continue; }
        carquet_bloom_filter_t* f = bl_slot[k];
        putchar(' ');
        if ((!strcmp(o, "c") && nf == 3) || (!strcmp(o, "cn") && nf == 4)) {
            carquet_bloom_filter_t* g;
            bl_set(k, NULL);       /* destroy first: the allocator may hand the same address to the new filter */
            if (o[1] == 0) g = carquet_bloom_filter_create((size_t)strtoull(fld[2], NULL, 16));
            else { uint64_t bits = strtoull(fld[3], NULL, 16); double fpp; memcpy(&fpp, &bits, 8);
                   g = carquet_bloom_filter_create_with_ndv((int64_t)strtoll(fld[2], NULL, 10), fpp); }
            bl_set(k, g);
            if (!g) printf("%s=NULL", o);
            else printf("%s=%zx/%zx", o, carquet_bloom_filter_size(g), carquet_bloom_filter_num_blocks(g));
        } else if (!f && strcmp(o, "r") && strcmp(o, "rb")) {
            printf("%s=noslot", o);
        } else if (!strcmp(o, "x") && nf == 2) {
            bl_set(k, NULL);
            fputs("x", stdout);
        } else if (!strcmp(o, "i") && nf == 4) {
            int r = bl_typed(f, fld[2], fld[3], 1, (size_t)(opno % 8));
            fputs(r == -2 ? "i=badtype" : "i", stdout);
        } else if (!strcmp(o, "q") && nf == 4) {
            int r = bl_typed(f, fld[2], fld[3], 0, (size_t)((opno + 3) % 8));
            if (r < 0) fputs("q=badtype", stdout); else printf("q=%d", r);
        } else if (!strcmp(o, "ih") && nf == 3) {
            carquet_bloom_filter_insert_hash(f, strtoull(fld[2], NULL, 16));
            fputs("ih", stdout);
        } else if (!strcmp(o, "qh") && nf == 3) {
            printf("qh=%d", (int)carquet_bloom_filter_check_hash(f, strtoull(fld[2], NULL, 16)));
        } else if (!strcmp(o, "m") && nf == 3) {
            int s = atoi(fld[2]);
            if (s < 0 || s >= BL_SLOTS || !bl_slot[s]) { fputs("m=noslot", stdout); continue; }
            printf("m=%s", carquet_bloom_filter_merge(f, bl_slot[s]) == CARQUET_OK ? "ok" : "err");
        } else if (!strcmp(o, "w") && nf == 3) {
            size_t cap = (size_t)strtoull(fld[2], NULL, 10), wr = 0;
            uint8_t* buf = malloc(cap ? cap : 1);              /* exact size: an overrun is an ASan report */
            uint8_t* out = cap ? buf : buf + 1;
            if (carquet_bloom_filter_write(f, out, cap, &wr) == CARQUET_OK) { fputs("w=ok:", stdout); h_puthex(out, wr); }
            else fputs("w=err", stdout);
            free(buf);
        } else if (!strcmp(o, "r") && nf == 3) {
            int s = atoi(fld[2]);
            if (s < 0 || s >= BL_SLOTS || !bl_slot[s]) { fputs("r=noslot", stdout); continue; }
            size_t cap = carquet_bloom_filter_size(bl_slot[s]), wr = 0;
            uint8_t* buf = malloc(cap ? cap : 1);
            carquet_bloom_filter_t* g = NULL;
            if (carquet_bloom_filter_write(bl_slot[s], buf, cap, &wr) == CARQUET_OK &&
                carquet_bloom_filter_read(&g, buf, wr) == CARQUET_OK && g) { bl_set(k, g); fputs("r=ok", stdout); }
            else fputs("r=err", stdout);
            free(buf);                                          /* the loaded filter must own a copy */
        } else if (!strcmp(o, "rb") && nf == 3) {
            size_t n; void* base; uint8_t* p = h_unhex(fld[2], &n, (size_t)(opno % 4), &base);
            carquet_bloom_filter_t* g = NULL;
            if (carquet_bloom_filter_read(&g, p, n) == CARQUET_OK && g) { bl_set(k, g); fputs("rb=ok", stdout); }
            else fputs("rb=err", stdout);
            free(base);
        } else if (!strcmp(o, "d") && nf == 2) {
            printf("d=%zx/%zx/", carquet_bloom_filter_size(f), carquet_bloom_filter_num_blocks(f));
            h_puthex(carquet_bloom_filter_data(f), carquet_bloom_filter_size(f));
        } else {
            printf("%s=badop", o);
        }
    }
    putchar('\n');
    for (int k = 0; k < BL_SLOTS; k++) bl_set(k, NULL);
}

/* bloomnull <hash hex> <bytes hex>: every entry point with a NULL filter (documented early returns).
 * Prints one token per call; nothing may crash. */
static void do_bloom_null(const char* hhex, const char* bhex) {
    uint64_t h = strtoull(hhex, NULL, 16);
    size_t n; void* base; uint8_t* p = h_unhex(bhex, &n, 1, &base);
    int32_t i32 = (int32_t)h; int64_t i64 = (int64_t)h; float f; double d;
    memcpy(&f, &i32, 4); memcpy(&d, &i64, 8);
    carquet_bloom_filter_insert_hash(NULL, h);
    carquet_bloom_filter_insert_i32(NULL, i32);
    carquet_bloom_filter_insert_i64(NULL, i64);
    carquet_bloom_filter_insert_float(NULL, f);
    carquet_bloom_filter_insert_double(NULL, d);
    carquet_bloom_filter_insert_bytes(NULL, p, n);
    printf("OK ins qh=%d q32=%d q64=%d qf=%d qd=%d qb=%d",
           (int)carquet_bloom_filter_check_hash(NULL, h), (int)carquet_bloom_filter_check_i32(NULL, i32),
           (int)carquet_bloom_filter_check_i64(NULL, i64), (int)carquet_bloom_filter_check_float(NULL, f),
           (int)carquet_bloom_filter_check_double(NULL, d), (int)carquet_bloom_filter_check_bytes(NULL, p, n));
    printf(" data=%s size=%zu blocks=%zu", carquet_bloom_filter_data(NULL) ? "ptr" : "NULL",
           carquet_bloom_filter_size(NULL), carquet_bloom_filter_num_blocks(NULL));
    carquet_bloom_filter_t* g = carquet_bloom_filter_create(32);
    carquet_bloom_filter_t* out = NULL;
    uint8_t buf[32]; size_t wr = 0;
    printf(" w=%s", carquet_bloom_filter_write(NULL, buf, 32, &wr) == CARQUET_OK ? "ok" : "err");
    printf(" w2=%s", carquet_bloom_filter_write(g, NULL, 32, &wr) == CARQUET_OK ? "ok" : "err");
    printf(" w3=%s", carquet_bloom_filter_write(g, buf, 32, NULL) == CARQUET_OK ? "ok" : "err");
    printf(" r=%s", carquet_bloom_filter_read(NULL, buf, 32) == CARQUET_OK ? "ok" : "err");
    printf(" r2=%s", carquet_bloom_filter_read(&out, NULL, 32) == CARQUET_OK ? "ok" : "err");
    printf(" m=%s", carquet_bloom_filter_merge(NULL, g) == CARQUET_OK ? "ok" : "err");
    printf(" m2=%s", carquet_bloom_filter_merge(g, NULL) == CARQUET_OK ? "ok" : "err");
    /* the failed calls must not have touched the live filter */
    printf(" fresh=%d\n", (int)carquet_bloom_filter_check_hash(g, h));
    carquet_bloom_filter_destroy(g);
    carquet_bloom_filter_destroy(NULL);
    free(base);
}

int main(void) {
    while (h_readline()) {
        if (!strncmp(h_line, "bloom ", 6) || !strcmp(h_line, "bloom")) {   /* own tokeniser: scenarios have many ops */
            do_bloom(h_line + 5);
            fflush(stdout);
            continue;
        }
        h_split();
        if (h_ntok == 0) { puts("ERR empty"); continue; }
        if (!strcmp(h_tok[0], "crcbig") && h_ntok == 3) {
            /* crcbig <length decimal> <seed>: one call on a buffer longer than 2^32 bytes (mostly untouched
               zero pages with a few bytes set), against zlib fed in 1 GiB pieces and against carquet's own
               update chain in 1 GiB pieces */
            size_t n = (size_t)strtoull(h_tok[1], NULL, 10); unsigned seed = (unsigned)atoi(h_tok[2]);
            uint8_t* p = mmap(NULL, n, PROT_READ | PROT_WRITE, MAP_PRIVATE | MAP_ANONYMOUS | MAP_NORESERVE, -1, 0);
            if (p == MAP_FAILED) { puts("ERR mmap"); fflush(stdout); continue; }
            for (int k = 0; k < 64; k++) { seed = seed * 1103515245u + 12345u; size_t pos = ((size_t)seed * 2654435761u) % n; p[pos] = (uint8_t)(seed >> 16) | 1; }
            p[n - 1] = 0x5a; p[0] = 0xa5;
            uint32_t c = carquet_crc32(p, n);
            uLong z = crc32(0L, Z_NULL, 0); uint32_t u = 0; int first = 1;
            for (size_t off = 0; off < n; ) {
                size_t chunk = n - off; if (chunk > ((size_t)1 << 30)) chunk = (size_t)1 << 30;
                z = crc32(z, p + off, (uInt)chunk);
                u = first ? carquet_crc32(p + off, chunk) : carquet_crc32_update(u, p + off, chunk);
                first = 0; off += chunk;
            }
            printf("OK %x %x %x\n", c, (uint32_t)z, u);
            munmap(p, n);
        } else if (!strcmp(h_tok[0], "xxhbig") && h_ntok == 3) {
            /* xxhbig <length decimal> <seed hex>: one carquet_xxhash64 call on a buffer of 2^32 bytes or more
               (mostly untouched zero pages with some bytes set, head and tail included) against libxxhash's
               streaming API fed in 1 GiB pieces */
            size_t n = (size_t)strtoull(h_tok[1], NULL, 10); uint64_t seed = strtoull(h_tok[2], NULL, 16);
            uint8_t* p = mmap(NULL, n, PROT_READ | PROT_WRITE, MAP_PRIVATE | MAP_ANONYMOUS | MAP_NORESERVE, -1, 0);
            if (p == MAP_FAILED) { puts("ERR mmap"); fflush(stdout); continue; }
            unsigned sd = (unsigned)seed | 1u;
            for (int k = 0; k < 64; k++) { sd = sd * 1103515245u + 12345u; size_t pos = ((size_t)sd * 2654435761u) % n; p[pos] = (uint8_t)(sd >> 16) | 1; }
            for (size_t k = 0; k < 40 && k < n; k++) { p[k] = (uint8_t)(0xa5 + k); p[n - 1 - k] = (uint8_t)(0x5a ^ k); }
            uint64_t c = carquet_xxhash64(p, n, seed);
            XXH64_state_t* st = XXH64_createState();
            XXH64_reset(st, (XXH64_hash_t)seed);
            for (size_t off = 0; off < n; ) {
                size_t chunk = n - off; if (chunk > ((size_t)1 << 30)) chunk = (size_t)1 << 30;
                XXH64_update(st, p + off, chunk); off += chunk;
            }
            uint64_t x = (uint64_t)XXH64_digest(st);
            XXH64_freeState(st);
            printf("OK %" PRIx64 " %" PRIx64 "\n", c, x);
            munmap(p, n);
        } else if (!strcmp(h_tok[0], "crcgen") && h_ntok == 5) {
            /* crcgen <length> <seed> <align> <split>: driver-generated pseudo-random contents in an exact-size
               heap buffer (ASan redzones on both sides), one-shot carquet vs zlib vs carquet update chain split
               at <split> (lengths where a size-dependent code path could switch: powers of two and around) */
            size_t n = (size_t)strtoull(h_tok[1], NULL, 10); uint32_t sd = (uint32_t)strtoul(h_tok[2], NULL, 10);
            size_t al = (size_t)atoi(h_tok[3]) & 63, k = (size_t)strtoull(h_tok[4], NULL, 10);
            uint8_t* base = malloc(n + al + 1); uint8_t* p = base + al;
            for (size_t i = 0; i < n; i++) { sd = sd * 1664525u + 1013904223u; p[i] = (uint8_t)(sd >> 24); }
            /* move to an exact-size block so that reads past the end are seen */
            uint8_t* q = malloc(n ? n : 1); memcpy(q, p, n);
            if (k > n) k = n;
            uint32_t c = carquet_crc32(al ? p : q, n);
            uint32_t z = (uint32_t)crc32(crc32(0L, Z_NULL, 0), q, (uInt)n);
            uint32_t u = carquet_crc32_update(carquet_crc32(q, k), q + k, n - k);
            printf("OK %x %x %x\n", c, z, u);
            free(q); free(base);
        } else if (!strcmp(h_tok[0], "crc") && h_ntok == 3) {
            size_t al = (size_t)atoi(h_tok[1]), n; void* base;
            uint8_t* p = h_unhex(h_tok[2], &n, al, &base);
            uint32_t c = carquet_crc32(p, n);
            uint32_t z = (uint32_t)crc32(crc32(0L, Z_NULL, 0), p, (uInt)n);
            printf("OK %x %x\n", c, z);
            free(base);
        } else if (!strcmp(h_tok[0], "crcupd") && h_ntok == 3) {
            size_t k = (size_t)atoi(h_tok[1]), n; void* base;
            uint8_t* p = h_unhex(h_tok[2], &n, 0, &base);
            if (k > n) k = n;
            /* split into two exact-size buffers */
            uint8_t* a = malloc(k); uint8_t* b = malloc(n - k);
            memcpy(a, p, k); memcpy(b, p + k, n - k);
            uint32_t c = carquet_crc32_update(carquet_crc32(a, k), b, n - k);
            printf("OK %x\n", c);
            free(a); free(b); free(base);
        } else if (!strcmp(h_tok[0], "crcchain") && h_ntok == 3) {
            /* crcchain <c1,c2,..|-> <data hex>: the buffer cut at the (ascending, possibly equal) offsets, every piece
               an exact-size block, fed to carquet_crc32_update only, starting from state 0 */
            size_t n; void* base;
            uint8_t* p = h_unhex(h_tok[2], &n, 0, &base);
            uint32_t c = 0; size_t prev = 0; const char* q = h_tok[1];
            for (;;) {
                size_t cut = n; int last = 1;
                if (*q && *q != '-') { cut = (size_t)strtoul(q, (char**)&q, 10); last = 0; if (*q == ',') q++; else if (!*q) q = "-"; }
                if (cut > n) cut = n;
                if (cut < prev) cut = prev;
                uint8_t* a = malloc(cut - prev ? cut - prev : 1);
                memcpy(a, p + prev, cut - prev);
                c = carquet_crc32_update(c, a, cut - prev);
                free(a); prev = cut;
                if (last) break;
            }
            printf("OK %x\n", c);
            free(base);
        } else if (!strcmp(h_tok[0], "bloomnull") && h_ntok == 3) {
            do_bloom_null(h_tok[1], h_tok[2]);
        } else if (!strcmp(h_tok[0], "xxh") && h_ntok == 4) {
            /* xxh <align> <seed hex> <data hex>: carquet_xxhash64 and libxxhash's XXH64 on an exact-size buffer */
            size_t al = (size_t)atoi(h_tok[1]), n; void* base;
            uint64_t seed = strtoull(h_tok[2], NULL, 16);
            uint8_t* p = h_unhex(h_tok[3], &n, al, &base);
            uint64_t c = carquet_xxhash64(p, n, seed);
            uint64_t x = (uint64_t)XXH64(p, n, (XXH64_hash_t)seed);
            printf("OK %" PRIx64 " %" PRIx64 "\n", c, x);
            free(base);
        } else {
            puts("ERR unknown-op");
        }
        fflush(stdout);
    }
    free(h_line);
    return 0;
}
