/* Driver for the enc2 engine: PLAIN, DELTA_BINARY_PACKED, DELTA_LENGTH_BYTE_ARRAY, DELTA_BYTE_ARRAY,
 * BYTE_STREAM_SPLIT and dictionary encoders/decoders of /repo, called through the internal headers with
 * exact-size heap buffers (a one-byte over-read/over-write is an ASan report; UBSan traps).
 *
 * One case per input line, one canonical result line per case.
 *   numbers      : comma separated hex bit patterns ("-" = empty list)
 *   byte strings : hex, "-" = empty;  lists of byte strings: comma separated, "." = empty string, "-" = empty list
 *   results      : "OK ..." | "ERR <status code>"
 */
#include "hcommon.h"
#include <carquet/error.h>
#include <carquet/types.h>
#include "core/buffer.h"
#include "core/bitpack.h"
#include "encoding/plain.h"
#include "encoding/rle.h"

/* entry points without a header */
extern carquet_status_t carquet_delta_decode_int32(const uint8_t*, size_t, int32_t*, int32_t, size_t*);
extern carquet_status_t carquet_delta_decode_int64(const uint8_t*, size_t, int64_t*, int32_t, size_t*);
extern carquet_status_t carquet_delta_encode_int32(const int32_t*, int32_t, uint8_t*, size_t, size_t*);
extern carquet_status_t carquet_delta_encode_int64(const int64_t*, int32_t, uint8_t*, size_t, size_t*);
extern carquet_status_t carquet_delta_length_decode(const uint8_t*, size_t, carquet_byte_array_t*, int32_t, size_t*);
extern carquet_status_t carquet_delta_length_encode(const carquet_byte_array_t*, int32_t, carquet_buffer_t*);
extern carquet_status_t carquet_delta_strings_decode(const uint8_t*, size_t, carquet_byte_array_t*, int32_t,
                                                     uint8_t*, size_t, size_t*);
extern carquet_status_t carquet_delta_strings_encode(const carquet_byte_array_t*, int32_t, carquet_buffer_t*);
extern carquet_status_t carquet_byte_stream_split_encode_float(const float*, int64_t, uint8_t*, size_t, size_t*);
extern carquet_status_t carquet_byte_stream_split_decode_float(const uint8_t*, size_t, float*, int64_t);
extern carquet_status_t carquet_byte_stream_split_encode_double(const double*, int64_t, uint8_t*, size_t, size_t*);
extern carquet_status_t carquet_byte_stream_split_decode_double(const uint8_t*, size_t, double*, int64_t);
extern carquet_status_t carquet_byte_stream_split_encode(const uint8_t*, int64_t, int32_t, uint8_t*, size_t, size_t*);
extern carquet_status_t carquet_byte_stream_split_decode(const uint8_t*, size_t, int32_t, uint8_t*, int64_t);
extern carquet_status_t carquet_dictionary_encode_int32(const int32_t*, int64_t, carquet_buffer_t*, carquet_buffer_t*);
extern carquet_status_t carquet_dictionary_encode_int64(const int64_t*, int64_t, carquet_buffer_t*, carquet_buffer_t*);
extern carquet_status_t carquet_dictionary_encode_float(const float*, int64_t, carquet_buffer_t*, carquet_buffer_t*);
extern carquet_status_t carquet_dictionary_encode_double(const double*, int64_t, carquet_buffer_t*, carquet_buffer_t*);
extern carquet_status_t carquet_dictionary_encode_byte_array(const carquet_byte_array_t*, int64_t, carquet_buffer_t*, carquet_buffer_t*);
extern carquet_status_t carquet_dictionary_decode_int32(const uint8_t*, size_t, int32_t, const uint8_t*, size_t, int32_t*, int64_t);
extern carquet_status_t carquet_dictionary_decode_int64(const uint8_t*, size_t, int32_t, const uint8_t*, size_t, int64_t*, int64_t);
extern carquet_status_t carquet_dictionary_decode_float(const uint8_t*, size_t, int32_t, const uint8_t*, size_t, float*, int64_t);
extern carquet_status_t carquet_dictionary_decode_double(const uint8_t*, size_t, int32_t, const uint8_t*, size_t, double*, int64_t);

/* ---------------------------------------------------------------- parsing */

/* comma separated hex numbers -> exact-size array of uint64; "-" = empty */
static uint64_t* parse_nums(const char* s, size_t* n) {
    size_t cnt = 0;
    if (!(s[0] == '-' && s[1] == 0)) { cnt = 1; for (const char* p = s; *p; p++) if (*p == ',') cnt++; }
    uint64_t* a = (uint64_t*)malloc(cnt * sizeof(uint64_t) + 1);
    size_t i = 0; const char* p = s;
    while (i < cnt) {
        uint64_t v = 0;
        while (*p && *p != ',') { v = (v << 4) | (uint64_t)h_hexval(*p); p++; }
        if (*p == ',') p++;
        a[i++] = v;
    }
    *n = cnt;
    return a;
}

/* list of byte strings: every string gets its own exact-size allocation */
typedef struct { carquet_byte_array_t* v; size_t n; } balist_t;
static balist_t parse_bas(const char* s) {
    balist_t r; r.n = 0;
    if (!(s[0] == '-' && s[1] == 0)) { r.n = 1; for (const char* p = s; *p; p++) if (*p == ',') r.n++; }
    r.v = (carquet_byte_array_t*)malloc(r.n * sizeof(carquet_byte_array_t) + 1);
    const char* p = s;
    for (size_t i = 0; i < r.n; i++) {
        const char* e = p; while (*e && *e != ',') e++;
        size_t len = (size_t)(e - p);
        if (len == 1 && *p == '.') len = 0;
        size_t nb = len / 2;
        uint8_t* d = (uint8_t*)malloc(nb ? nb : 1);
        for (size_t k = 0; k < nb; k++) d[k] = (uint8_t)(h_hexval(p[2*k]) * 16 + h_hexval(p[2*k+1]));
        r.v[i].data = d; r.v[i].length = (int32_t)nb;
        p = (*e == ',') ? e + 1 : e;
    }
    return r;
}
static void free_bas(balist_t r) { for (size_t i = 0; i < r.n; i++) free(r.v[i].data); free(r.v); }

static void put_nums32(const uint32_t* a, size_t n) {
    if (n == 0) { putchar('-'); return; }
    for (size_t i = 0; i < n; i++) printf(i ? ",%x" : "%x", a[i]);
}
static void put_nums64(const uint64_t* a, size_t n) {
    if (n == 0) { putchar('-'); return; }
    for (size_t i = 0; i < n; i++) printf(i ? ",%" PRIx64 : "%" PRIx64, a[i]);
}
static void put_nums8(const uint8_t* a, size_t n) {
    if (n == 0) { putchar('-'); return; }
    for (size_t i = 0; i < n; i++) printf(i ? ",%x" : "%x", a[i]);
}
static void put_bas(const carquet_byte_array_t* v, size_t n) {
    if (n == 0) { putchar('-'); return; }
    for (size_t i = 0; i < n; i++) {
        if (i) putchar(',');
        if (v[i].length <= 0) putchar('.'); else h_puthex(v[i].data, (size_t)v[i].length);
    }
}
/* copy a carquet_buffer into an exact-size allocation and print it */
static void put_buf(const carquet_buffer_t* b) { h_puthex(b->data, b->size); }

static int err(int st) { printf("ERR %d\n", st); return 0; }

/* Encoders that append to a carquet_buffer_t are also run on NON-EMPTY buffers (ops plain_encp, dl_encp, ds_encp,
 * dict_encp: the last token is the content already in the buffer).  The whole buffer is printed: the prefix must
 * still be there and what follows must be the encoding. */
static const char* g_prefix = NULL;
static size_t g_prefix_len = 0;
static void buf_start(carquet_buffer_t* b) {
    carquet_buffer_init(b);
    g_prefix_len = 0;
    if (g_prefix) {
        size_t n; void* base; uint8_t* p = h_unhex(g_prefix, &n, 0, &base);
        carquet_buffer_append(b, p, n);
        g_prefix_len = n;
        free(base);
    }
}

/* ---------------------------------------------------------------- PLAIN */

static void do_plain_enc(void) {
    const char* ty = h_tok[1];
    carquet_buffer_t out; buf_start(&out);
    carquet_status_t st = CARQUET_ERROR_INVALID_ARGUMENT;
    if (!strcmp(ty, "ba")) {
        balist_t l = parse_bas(h_tok[2]);
        st = carquet_encode_plain_byte_array(l.v, (int64_t)l.n, &out);
        free_bas(l);
    } else if (!strncmp(ty, "flba", 4)) {
        int w = atoi(ty + 4); size_t nb; void* base;
        uint8_t* p = h_unhex(h_tok[2], &nb, 0, &base);
        st = carquet_encode_plain_fixed_byte_array(p, (int64_t)(w > 0 ? nb / (size_t)w : 0), w, &out);
        free(base);
    } else {
        size_t n; uint64_t* a = parse_nums(h_tok[2], &n);
        if (!strcmp(ty, "bool")) {
            uint8_t* v = malloc(n ? n : 1); for (size_t i = 0; i < n; i++) v[i] = (uint8_t)a[i];
            st = carquet_encode_plain_boolean(v, (int64_t)n, &out); free(v);
        } else if (!strcmp(ty, "i32")) {
            int32_t* v = malloc(n * 4 + 1); for (size_t i = 0; i < n; i++) v[i] = (int32_t)(uint32_t)a[i];
            st = carquet_encode_plain_int32(v, (int64_t)n, &out); free(v);
        } else if (!strcmp(ty, "i64")) {
            int64_t* v = malloc(n * 8 + 1); for (size_t i = 0; i < n; i++) v[i] = (int64_t)a[i];
            st = carquet_encode_plain_int64(v, (int64_t)n, &out); free(v);
        } else if (!strcmp(ty, "f32")) {
            float* v = malloc(n * 4 + 1); for (size_t i = 0; i < n; i++) { uint32_t u = (uint32_t)a[i]; memcpy(&v[i], &u, 4); }
            st = carquet_encode_plain_float(v, (int64_t)n, &out); free(v);
        } else if (!strcmp(ty, "f64")) {
            double* v = malloc(n * 8 + 1); for (size_t i = 0; i < n; i++) memcpy(&v[i], &a[i], 8);
            st = carquet_encode_plain_double(v, (int64_t)n, &out); free(v);
        } else if (!strcmp(ty, "i96")) {
            /* three 32-bit words per value */
            size_t m = n / 3; carquet_int96_t* v = malloc(m * sizeof(carquet_int96_t) + 1);
            for (size_t i = 0; i < m; i++) for (int k = 0; k < 3; k++) v[i].value[k] = (uint32_t)a[3*i+k];
            st = carquet_encode_plain_int96(v, (int64_t)m, &out); free(v);
        }
        free(a);
    }
    if (st != CARQUET_OK) err(st); else { printf("OK "); put_buf(&out); putchar('\n'); }
    carquet_buffer_destroy(&out);
}

extern size_t carquet_delta_length_max_encoded_size(const carquet_byte_array_t*, int32_t);
extern size_t carquet_delta_strings_max_encoded_size(const carquet_byte_array_t*, int32_t);
extern size_t carquet_delta_strings_work_buffer_size(const carquet_byte_array_t*, int32_t);

/* plain_decg: the same decoders reached through the generic entry point carquet_decode_plain (what the page reader calls) */
static int g_generic = 0;
static int64_t gen_dec(const char* ty, const uint8_t* in, size_t nb, void* out, int64_t count, int flen) {
    carquet_physical_type_t t =
        !strcmp(ty, "bool") ? CARQUET_PHYSICAL_BOOLEAN : !strcmp(ty, "i32") ? CARQUET_PHYSICAL_INT32 :
        !strcmp(ty, "i64") ? CARQUET_PHYSICAL_INT64 : !strcmp(ty, "i96") ? CARQUET_PHYSICAL_INT96 :
        !strcmp(ty, "f32") ? CARQUET_PHYSICAL_FLOAT : !strcmp(ty, "f64") ? CARQUET_PHYSICAL_DOUBLE :
        !strcmp(ty, "ba") ? CARQUET_PHYSICAL_BYTE_ARRAY : !strncmp(ty, "flba", 4) ? CARQUET_PHYSICAL_FIXED_LEN_BYTE_ARRAY :
        (carquet_physical_type_t)99;
    return carquet_decode_plain(in, nb, t, flen, out, count);
}

static void do_plain_dec(void) {
    const char* ty = h_tok[1];
    int64_t count = strtoll(h_tok[2], NULL, 10);
    size_t nb; void* base; uint8_t* in = h_unhex(h_tok[3], &nb, 0, &base);
    size_t c = count > 0 ? (size_t)count : 0;
    int64_t r = -1;
    if (!strcmp(ty, "bool")) {
        uint8_t* v = malloc(c ? c : 1);
        r = g_generic ? gen_dec(ty, in, nb, v, count, 0) : carquet_decode_plain_boolean(in, nb, v, count);
        if (r < 0) err(-1); else { printf("OK %" PRId64 " ", r); put_nums8(v, c); putchar('\n'); }
        free(v);
    } else if (!strcmp(ty, "i32") || !strcmp(ty, "f32")) {
        uint32_t* v = malloc(c * 4 + 1);
        r = g_generic ? gen_dec(ty, in, nb, v, count, 0) : !strcmp(ty, "i32") ? carquet_decode_plain_int32(in, nb, (int32_t*)v, count)
                               : carquet_decode_plain_float(in, nb, (float*)v, count);
        if (r < 0) err(-1); else { printf("OK %" PRId64 " ", r); put_nums32(v, c); putchar('\n'); }
        free(v);
    } else if (!strcmp(ty, "i64") || !strcmp(ty, "f64")) {
        uint64_t* v = malloc(c * 8 + 1);
        r = g_generic ? gen_dec(ty, in, nb, v, count, 0) : !strcmp(ty, "i64") ? carquet_decode_plain_int64(in, nb, (int64_t*)v, count)
                               : carquet_decode_plain_double(in, nb, (double*)v, count);
        if (r < 0) err(-1); else { printf("OK %" PRId64 " ", r); put_nums64(v, c); putchar('\n'); }
        free(v);
    } else if (!strcmp(ty, "i96")) {
        carquet_int96_t* v = malloc(c * sizeof(carquet_int96_t) + 1);
        r = g_generic ? gen_dec(ty, in, nb, v, count, 0) : carquet_decode_plain_int96(in, nb, v, count);
        if (r < 0) err(-1); else { printf("OK %" PRId64 " ", r); put_nums32((uint32_t*)v, 3 * c); putchar('\n'); }
        free(v);
    } else if (!strcmp(ty, "ba")) {
        carquet_byte_array_t* v = malloc(c * sizeof(carquet_byte_array_t) + 1);
        r = g_generic ? gen_dec(ty, in, nb, v, count, 0) : carquet_decode_plain_byte_array(in, nb, v, count);
        if (r < 0) err(-1); else { printf("OK %" PRId64 " ", r); put_bas(v, c); putchar('\n'); }
        free(v);
    } else if (!strncmp(ty, "flba", 4)) {
        int w = atoi(ty + 4);
        size_t ob = c * (size_t)(w > 0 ? w : 0);
        uint8_t* v = malloc(ob ? ob : 1);
        r = g_generic ? gen_dec(ty, in, nb, v, count, w) : carquet_decode_plain_fixed_byte_array(in, nb, v, count, w);
        if (r < 0) err(-1); else { printf("OK %" PRId64 " ", r); h_puthex(v, ob); putchar('\n'); }
        free(v);
    } else if (g_generic) {
        uint8_t* v = malloc(c * 16 + 16);
        r = gen_dec(ty, in, nb, v, count, 0);      /* a physical type that does not exist */
        if (r < 0) err(-1); else printf("OK %" PRId64 "\n", r);
        free(v);
    } else err(-2);
    free(base);
}

/* ---------------------------------------------------------------- DELTA_BINARY_PACKED */

static void do_delta_enc(int is64) {
    size_t cap = (size_t)strtoull(h_tok[1], NULL, 10);
    size_t n; uint64_t* a = parse_nums(h_tok[2], &n);
    uint8_t* out = malloc(cap ? cap : 1);
    size_t written = (size_t)-1; carquet_status_t st;
    if (is64) {
        int64_t* v = malloc(n * 8 + 1); for (size_t i = 0; i < n; i++) v[i] = (int64_t)a[i];
        st = carquet_delta_encode_int64(v, (int32_t)n, out, cap, &written); free(v);
    } else {
        int32_t* v = malloc(n * 4 + 1); for (size_t i = 0; i < n; i++) v[i] = (int32_t)(uint32_t)a[i];
        st = carquet_delta_encode_int32(v, (int32_t)n, out, cap, &written); free(v);
    }
    if (st != CARQUET_OK) err(st); else { printf("OK "); h_puthex(out, written); putchar('\n'); }
    free(out); free(a);
}

static void do_delta_dec(int is64) {
    int32_t count = (int32_t)strtol(h_tok[1], NULL, 10);
    size_t nb; void* base; uint8_t* in = h_unhex(h_tok[2], &nb, 0, &base);
    size_t c = count > 0 ? (size_t)count : 0;
    size_t consumed = (size_t)-1; carquet_status_t st;
    if (is64) {
        uint64_t* v = malloc(c * 8 + 1);
        st = carquet_delta_decode_int64(in, nb, (int64_t*)v, count, &consumed);
        if (st != CARQUET_OK) err(st); else { printf("OK %zu ", consumed); put_nums64(v, c); putchar('\n'); }
        free(v);
    } else {
        uint32_t* v = malloc(c * 4 + 1);
        st = carquet_delta_decode_int32(in, nb, (int32_t*)v, count, &consumed);
        if (st != CARQUET_OK) err(st); else { printf("OK %zu ", consumed); put_nums32(v, c); putchar('\n'); }
        free(v);
    }
    free(base);
}

/* ---------------------------------------------------------------- DELTA_LENGTH / DELTA_BYTE_ARRAY */

static void do_str_enc(int strings) {
    balist_t l = parse_bas(h_tok[1]);
    carquet_buffer_t out; buf_start(&out);
    carquet_status_t st = strings ? carquet_delta_strings_encode(l.v, (int32_t)l.n, &out)
                                  : carquet_delta_length_encode(l.v, (int32_t)l.n, &out);
    if (st != CARQUET_OK) err(st); else { printf("OK "); put_buf(&out); putchar('\n'); }
    carquet_buffer_destroy(&out); free_bas(l);
}

static void do_dl_dec(void) {
    int32_t count = (int32_t)strtol(h_tok[1], NULL, 10);
    size_t nb; void* base; uint8_t* in = h_unhex(h_tok[2], &nb, 0, &base);
    size_t c = count > 0 ? (size_t)count : 0;
    carquet_byte_array_t* v = malloc(c * sizeof(carquet_byte_array_t) + 1);
    size_t consumed = (size_t)-1;
    carquet_status_t st = carquet_delta_length_decode(in, nb, v, count, &consumed);
    if (st != CARQUET_OK) err(st); else { printf("OK %zu ", consumed); put_bas(v, c); putchar('\n'); }
    free(v); free(base);
}

static void do_ds_dec(void) {
    int32_t count = (int32_t)strtol(h_tok[1], NULL, 10);
    size_t wcap = (size_t)strtoull(h_tok[2], NULL, 10);
    size_t nb; void* base; uint8_t* in = h_unhex(h_tok[3], &nb, 0, &base);
    size_t c = count > 0 ? (size_t)count : 0;
    carquet_byte_array_t* v = malloc(c * sizeof(carquet_byte_array_t) + 1);
    uint8_t* work = malloc(wcap ? wcap : 1);
    size_t consumed = (size_t)-1;
    carquet_status_t st = carquet_delta_strings_decode(in, nb, v, count, work, wcap, &consumed);
    if (st != CARQUET_OK) err(st); else { printf("OK %zu ", consumed); put_bas(v, c); putchar('\n'); }
    free(work); free(v); free(base);
}

/* Huge byte arrays (only the lengths matter): dl_big / ds_big N = "", N zero bytes, ""; ds_big2 N = N zeros, N+1 zeros, ""
 * (prefix lengths 0,N,0 and suffix lengths N,1,0: both length streams are wide).
 * Prints the encoded size and the library's own size estimates, which must be upper bounds. */
static void do_dl_big(void) {
    size_t big = (size_t)strtoull(h_tok[1], NULL, 10);
    int strings = !strncmp(h_tok[0], "ds_big", 6);
    uint8_t* d = calloc(big + 2, 1);
    carquet_byte_array_t v[3]; uint8_t z = 0;
    if (!strcmp(h_tok[0], "ds_big2")) {
        v[0].data = d; v[0].length = (int32_t)big; v[1].data = d; v[1].length = (int32_t)big + 1; v[2].data = &z; v[2].length = 0;
    } else {
        v[0].data = &z; v[0].length = 0; v[1].data = d; v[1].length = (int32_t)big; v[2].data = &z; v[2].length = 0;
    }
    carquet_buffer_t out; carquet_buffer_init(&out);
    carquet_status_t st = strings ? carquet_delta_strings_encode(v, 3, &out) : carquet_delta_length_encode(v, 3, &out);
    size_t mx = strings ? carquet_delta_strings_max_encoded_size(v, 3) : carquet_delta_length_max_encoded_size(v, 3);
    if (st != CARQUET_OK) err(st); else printf("OK %zu %zu\n", out.size, mx);
    carquet_buffer_destroy(&out); free(d);
}

/* str_bounds dl|ds <strings>: encoded size, max_encoded_size; for ds also work_buffer_size and the status of a decode that is
 * given exactly that much work buffer */
static void do_str_bounds(void) {
    int strings = !strcmp(h_tok[1], "ds");
    balist_t l = parse_bas(h_tok[2]);
    carquet_buffer_t out; carquet_buffer_init(&out);
    carquet_status_t st = strings ? carquet_delta_strings_encode(l.v, (int32_t)l.n, &out)
                                  : carquet_delta_length_encode(l.v, (int32_t)l.n, &out);
    size_t mx = strings ? carquet_delta_strings_max_encoded_size(l.v, (int32_t)l.n)
                        : carquet_delta_length_max_encoded_size(l.v, (int32_t)l.n);
    if (st != CARQUET_OK) { printf("ERR %d %zu\n", st, mx); }
    else if (!strings) printf("OK %zu %zu\n", out.size, mx);
    else {
        size_t wb = carquet_delta_strings_work_buffer_size(l.v, (int32_t)l.n);
        uint8_t* cp = malloc(out.size ? out.size : 1); memcpy(cp, out.data, out.size);
        carquet_byte_array_t* v = malloc(l.n * sizeof(carquet_byte_array_t) + 1);
        uint8_t* work = malloc(wb ? wb : 1); size_t consumed = 0;
        carquet_status_t ds = carquet_delta_strings_decode(cp, out.size, v, (int32_t)l.n, work, wb, &consumed);
        int same = ds == CARQUET_OK;
        for (size_t i = 0; same && i < l.n; i++)
            same = v[i].length == l.v[i].length && (v[i].length == 0 || !memcmp(v[i].data, l.v[i].data, (size_t)v[i].length));
        printf("OK %zu %zu %zu %d %d\n", out.size, mx, wb, ds, same);
        free(work); free(v); free(cp);
    }
    carquet_buffer_destroy(&out); free_bas(l);
}

/* ---------------------------------------------------------------- BYTE_STREAM_SPLIT */

static void do_bss(int enc) {
    /* bss_enc <kind> <cap> <raw bytes of the values>   /   bss_dec <kind> <count> <bytes> ; kind f32 | f64 | <width> */
    const char* kind = h_tok[1];
    int w = !strcmp(kind, "f32") ? 4 : !strcmp(kind, "f64") ? 8 : atoi(kind);
    size_t nb; void* base; uint8_t* in = h_unhex(h_tok[3], &nb, 0, &base);
    carquet_status_t st;
    if (enc) {
        size_t cap = (size_t)strtoull(h_tok[2], NULL, 10);
        int64_t count = (int64_t)(w > 0 ? nb / (size_t)w : 0);
        uint8_t* out = malloc(cap ? cap : 1); size_t written = (size_t)-1;
        /* typed views need natural alignment: malloc gives it */
        if (!strcmp(kind, "f32")) st = carquet_byte_stream_split_encode_float((const float*)in, count, out, cap, &written);
        else if (!strcmp(kind, "f64")) st = carquet_byte_stream_split_encode_double((const double*)in, count, out, cap, &written);
        else st = carquet_byte_stream_split_encode(in, count, w, out, cap, &written);
        if (st != CARQUET_OK) err(st); else { printf("OK "); h_puthex(out, written); putchar('\n'); }
        free(out);
    } else {
        int64_t count = strtoll(h_tok[2], NULL, 10);
        size_t c = count > 0 ? (size_t)count : 0;
        size_t ob = c * (size_t)(w > 0 ? w : 0);
        uint8_t* out = malloc(ob ? ob : 8);
        if (!strcmp(kind, "f32")) st = carquet_byte_stream_split_decode_float(in, nb, (float*)out, count);
        else if (!strcmp(kind, "f64")) st = carquet_byte_stream_split_decode_double(in, nb, (double*)out, count);
        else st = carquet_byte_stream_split_decode(in, nb, w, out, count);
        if (st != CARQUET_OK) err(st); else { printf("OK "); h_puthex(out, ob); putchar('\n'); }
        free(out);
    }
    free(base);
}

/* ---------------------------------------------------------------- dictionary */

/* dict_enc <type> <values>  ->  OK <dictionary page bytes> <index bytes> <bit width> <indices decoded back with carquet_rle_decode_all> */
static void do_dict_enc(void) {
    const char* ty = h_tok[1];
    carquet_buffer_t d, ix; buf_start(&d); buf_start(&ix);
    size_t off = g_prefix_len;
    carquet_status_t st = CARQUET_ERROR_INVALID_ARGUMENT; size_t n = 0;
    if (!strcmp(ty, "ba")) {
        balist_t l = parse_bas(h_tok[2]); n = l.n;
        st = carquet_dictionary_encode_byte_array(l.v, (int64_t)l.n, &d, &ix);
        free_bas(l);
    } else {
        uint64_t* a = parse_nums(h_tok[2], &n);
        if (!strcmp(ty, "i32") || !strcmp(ty, "f32")) {
            uint32_t* v = malloc(n * 4 + 1); for (size_t i = 0; i < n; i++) v[i] = (uint32_t)a[i];
            st = !strcmp(ty, "i32") ? carquet_dictionary_encode_int32((int32_t*)v, (int64_t)n, &d, &ix)
                                    : carquet_dictionary_encode_float((float*)v, (int64_t)n, &d, &ix);
            free(v);
        } else if (!strcmp(ty, "i64") || !strcmp(ty, "f64")) {
            uint64_t* v = malloc(n * 8 + 1); memcpy(v, a, n * 8);
            st = !strcmp(ty, "i64") ? carquet_dictionary_encode_int64((int64_t*)v, (int64_t)n, &d, &ix)
                                    : carquet_dictionary_encode_double((double*)v, (int64_t)n, &d, &ix);
            free(v);
        }
        free(a);
    }
    if (st != CARQUET_OK) { err(st); }
    else {
        printf("OK "); put_buf(&d); putchar(' '); put_buf(&ix);
        if (ix.size >= off + 1) {
            int bw = ix.data[off];
            uint32_t* idx = malloc(n * 4 + 1);
            /* exact-size copy of the index stream for the decoder */
            uint8_t* cp = malloc(ix.size - off); memcpy(cp, ix.data + off, ix.size - off);
            int64_t got = carquet_rle_decode_all(cp + 1, ix.size - off - 1, bw, idx, (int64_t)n);
            printf(" %d %" PRId64 " ", bw, got);
            put_nums32(idx, got > 0 ? (size_t)got : 0);
            free(cp); free(idx);
        } else printf(" -1 -1 -");
        putchar('\n');
    }
    carquet_buffer_destroy(&d); carquet_buffer_destroy(&ix);
}

/* dict_dec <type> <dict_count> <out_count> <dictionary bytes> <index bytes (bit width byte + hybrid stream)> */
static void do_dict_dec(void) {
    const char* ty = h_tok[1];
    int32_t dc = (int32_t)strtol(h_tok[2], NULL, 10);
    int64_t oc = strtoll(h_tok[3], NULL, 10);
    size_t dn, in_; void *b1, *b2;
    uint8_t* d = h_unhex(h_tok[4], &dn, 0, &b1);
    uint8_t* ix = h_unhex(h_tok[5], &in_, 0, &b2);
    size_t c = oc > 0 ? (size_t)oc : 0;
    carquet_status_t st;
    if (!strcmp(ty, "i32") || !strcmp(ty, "f32")) {
        uint32_t* v = malloc(c * 4 + 1);
        st = !strcmp(ty, "i32") ? carquet_dictionary_decode_int32(d, dn, dc, ix, in_, (int32_t*)v, oc)
                                : carquet_dictionary_decode_float(d, dn, dc, ix, in_, (float*)v, oc);
        if (st != CARQUET_OK) err(st); else { printf("OK "); put_nums32(v, c); putchar('\n'); }
        free(v);
    } else {
        uint64_t* v = malloc(c * 8 + 1);
        st = !strcmp(ty, "i64") ? carquet_dictionary_decode_int64(d, dn, dc, ix, in_, (int64_t*)v, oc)
                                : carquet_dictionary_decode_double(d, dn, dc, ix, in_, (double*)v, oc);
        if (st != CARQUET_OK) err(st); else { printf("OK "); put_nums64(v, c); putchar('\n'); }
        free(v);
    }
    free(b1); free(b2);
}

/* dict_dec_idx <type> <dict_count> <bit width> <dictionary bytes> <indices>: the index list is first encoded with
 * carquet_rle_encode_all (the index stream codec is not this engine's business), then decoded through the
 * dictionary decoder. */
static void do_dict_dec_idx(void) {
    const char* ty = h_tok[1];
    int32_t dc = (int32_t)strtol(h_tok[2], NULL, 10);
    int bw = atoi(h_tok[3]);
    size_t dn; void* b1; uint8_t* d = h_unhex(h_tok[4], &dn, 0, &b1);
    size_t n; uint64_t* a = parse_nums(h_tok[5], &n);
    uint32_t* idx = malloc(n * 4 + 1); for (size_t i = 0; i < n; i++) idx[i] = (uint32_t)a[i];
    carquet_buffer_t ix; carquet_buffer_init(&ix);
    carquet_buffer_append_byte(&ix, (uint8_t)bw);
    carquet_status_t st = carquet_rle_encode_all(idx, (int64_t)n, bw, &ix);
    if (st != CARQUET_OK) { err(1000 + st); }
    else {
        uint8_t* cp = malloc(ix.size); memcpy(cp, ix.data, ix.size);
        if (!strcmp(ty, "i32") || !strcmp(ty, "f32")) {
            uint32_t* v = malloc(n * 4 + 1);
            st = !strcmp(ty, "i32") ? carquet_dictionary_decode_int32(d, dn, dc, cp, ix.size, (int32_t*)v, (int64_t)n)
                                    : carquet_dictionary_decode_float(d, dn, dc, cp, ix.size, (float*)v, (int64_t)n);
            if (st != CARQUET_OK) err(st); else { printf("OK "); put_nums32(v, n); putchar('\n'); }
            free(v);
        } else {
            uint64_t* v = malloc(n * 8 + 1);
            st = !strcmp(ty, "i64") ? carquet_dictionary_decode_int64(d, dn, dc, cp, ix.size, (int64_t*)v, (int64_t)n)
                                    : carquet_dictionary_decode_double(d, dn, dc, cp, ix.size, (double*)v, (int64_t)n);
            if (st != CARQUET_OK) err(st); else { printf("OK "); put_nums64(v, n); putchar('\n'); }
            free(v);
        }
        free(cp);
    }
    carquet_buffer_destroy(&ix); free(idx); free(a); free(b1);
}

/* bitunpack <count> <width> <bytes>: carquet_bitunpack_32 on an exact-size input (F8) */
static void do_bitunpack(void) {
    size_t count = (size_t)strtoull(h_tok[1], NULL, 10);
    int w = atoi(h_tok[2]);
    size_t nb; void* base; uint8_t* in = h_unhex(h_tok[3], &nb, 0, &base);
    uint32_t* v = malloc(count * 4 + 1);
    size_t used = carquet_bitunpack_32(in, count, w, v);
    printf("OK %zu ", used); put_nums32(v, count); putchar('\n');
    free(v); free(base);
}

int main(void) {
    while (h_readline()) {
        h_split();
        const char* op = h_ntok ? h_tok[0] : "";
        g_prefix = NULL;
        if (!strcmp(op, "plain_enc") && h_ntok == 3) do_plain_enc();
        else if (!strcmp(op, "plain_encp") && h_ntok == 4) { g_prefix = h_tok[3]; do_plain_enc(); }
        else if (!strcmp(op, "dl_encp") && h_ntok == 3) { g_prefix = h_tok[2]; do_str_enc(0); }
        else if (!strcmp(op, "ds_encp") && h_ntok == 3) { g_prefix = h_tok[2]; do_str_enc(1); }
        else if (!strcmp(op, "dict_encp") && h_ntok == 4) { g_prefix = h_tok[3]; do_dict_enc(); }
        else if (!strcmp(op, "plain_dec") && h_ntok == 4) do_plain_dec();
        else if (!strcmp(op, "d32_enc") && h_ntok == 3) do_delta_enc(0);
        else if (!strcmp(op, "d64_enc") && h_ntok == 3) do_delta_enc(1);
        else if (!strcmp(op, "d32_dec") && h_ntok == 3) do_delta_dec(0);
        else if (!strcmp(op, "d64_dec") && h_ntok == 3) do_delta_dec(1);
        else if (!strcmp(op, "dl_enc") && h_ntok == 2) do_str_enc(0);
        else if (!strcmp(op, "ds_enc") && h_ntok == 2) do_str_enc(1);
        else if (!strcmp(op, "dl_dec") && h_ntok == 3) do_dl_dec();
        else if (!strcmp(op, "ds_dec") && h_ntok == 4) do_ds_dec();
        else if ((!strcmp(op, "dl_big") || !strcmp(op, "ds_big") || !strcmp(op, "ds_big2")) && h_ntok == 2) do_dl_big();
        else if (!strcmp(op, "str_bounds") && h_ntok == 3) do_str_bounds();
        else if (!strcmp(op, "plain_decg") && h_ntok == 4) { g_generic = 1; do_plain_dec(); g_generic = 0; }
        else if (!strcmp(op, "bss_enc") && h_ntok == 4) do_bss(1);
        else if (!strcmp(op, "bss_dec") && h_ntok == 4) do_bss(0);
        else if (!strcmp(op, "dict_enc") && h_ntok == 3) do_dict_enc();
        else if (!strcmp(op, "dict_dec") && h_ntok == 6) do_dict_dec();
        else if (!strcmp(op, "dict_dec_idx") && h_ntok == 6) do_dict_dec_idx();
        else if (!strcmp(op, "bitunpack") && h_ntok == 4) do_bitunpack();
        else puts("ERR -99");
        fflush(stdout);
    }
    free(h_line);
    return 0;
}
